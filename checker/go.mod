module verifchecker

go 1.21

require github.com/anishathalye/porcupine v1.3.0
