// porcheck: offline linearizability checker for the C13 slot histories (DESIGN.md §2.2, §4 C13).
//
// usage: porcheck [-timeout 20s] [-maxops 60] history.jsonl...
//
// A history file is JSONL: an optional first line {"t":"meta","name":..,"case":..} and then one line per
// operation observed at the DNS listener boundary
//
//	{"t":"op","op":"open"|"use"|"close"|"sclose","id":<slot or -1>,"addr":"ip:port","res":<result>,"call":n,"ret":n}
//
// call/ret are stamps from one atomic counter; ret<=0 or res=="pending" means the operation never returned
// (it stays open to the end of the history). res is "ok", a tunnel rejection (BADIP, BADUSER, BADCONN) or
// anything else (other error, "silent": the server sent nothing).
//
// The history is partitioned by slot id and every partition is checked with porcupine against the slot model
//
//	free | live(owner) | retired(owner)
//	open(a)            legal only when the slot is not live; makes it live(a)
//	use(a)    -> ok    legal only on live(a);   a tunnel rejection is legal only when the slot is NOT live(a)
//	close(a)  -> ok    legal only on live(a), makes it retired(a); rejected like use
//	sclose(a)          server-side Close of a's session: live(a) -> retired(a), otherwise nothing
//
// which is exactly what the property says (distinct ids for concurrent sessions; a foreign address and a
// closed id are rejected). Which of BADIP/BADUSER/BADCONN a rejection carries is NOT part of the verdict; a
// second, strict model (live+foreign=BADIP, retired+old owner=BADCONN, otherwise BADUSER) is evaluated only
// as a diagnostic ("strict_deviations").
//
// Output: one JSON object per file on stdout; result is ok / illegal (with the offending partitions'
// operations) / unknown (porcupine timed out: inconclusive).
package main

import (
	"bufio"
	"encoding/json"
	"flag"
	"fmt"
	"os"
	"sort"
	"time"

	"github.com/anishathalye/porcupine"
)

type opLine struct {
	T    string          `json:"t"`
	Op   string          `json:"op"`
	Id   int             `json:"id"`
	Addr string          `json:"addr"`
	Res  string          `json:"res"`
	Call int64           `json:"call"`
	Ret  int64           `json:"ret"`
	Cmd  string          `json:"cmd,omitempty"`
	Name string          `json:"name,omitempty"`
	Case json.RawMessage `json:"case,omitempty"`
}

type input struct {
	Op   string
	Addr string
}

type slot struct {
	St    int8 // 0 free, 1 live, 2 retired
	Owner string
}

func class(res string) string {
	switch res {
	case "ok":
		return "ok"
	case "BADIP", "BADUSER", "BADCONN":
		return "reject"
	case "pending":
		return "pending"
	}
	return "other"
}

// step returns all states the slot may be in after the operation, nil if the operation is illegal.
func step(strict bool) func(st, in, out interface{}) []interface{} {
	return func(st, in, out interface{}) []interface{} {
		s, i, res := st.(slot), in.(input), out.(string)
		mine := s.St == 1 && s.Owner == i.Addr
		same := []interface{}{s}
		switch i.Op {
		case "open":
			if class(res) == "pending" { // may or may not have taken this slot
				if s.St != 1 {
					return []interface{}{s, slot{1, i.Addr}}
				}
				return same
			}
			if s.St == 1 {
				return nil // handed out while live
			}
			return []interface{}{slot{1, i.Addr}}
		case "sclose":
			if mine {
				if class(res) == "pending" {
					return []interface{}{s, slot{2, i.Addr}}
				}
				return []interface{}{slot{2, i.Addr}}
			}
			return same
		case "use", "close":
			switch class(res) {
			case "pending":
				if mine && i.Op == "close" {
					return []interface{}{s, slot{2, i.Addr}}
				}
				return same
			case "other":
				return same // neither served nor a tunnel rejection (bad codec, sequence error, silence)
			case "ok":
				if !mine {
					return nil // a foreign address or a closed id was served
				}
				if i.Op == "close" {
					return []interface{}{slot{2, i.Addr}}
				}
				return same
			default: // tunnel rejection
				if mine {
					return nil // the owner of a live session was turned away
				}
				if strict {
					want := "BADUSER"
					if s.St == 1 {
						want = "BADIP"
					} else if s.St == 2 && s.Owner == i.Addr {
						want = "BADCONN"
					}
					if res != want {
						return nil
					}
				}
				return same
			}
		}
		return same
	}
}

func model(strict bool) porcupine.Model {
	nm := porcupine.NondeterministicModel{
		Init: func() []interface{} { return []interface{}{slot{}} },
		Step: step(strict),
		DescribeOperation: func(in, out interface{}) string {
			return fmt.Sprintf("%s(%s) -> %s", in.(input).Op, in.(input).Addr, out.(string))
		},
	}
	return nm.ToModel()
}

type partOut struct {
	Slot  int      `json:"slot"`
	Class string   `json:"class"`
	NOps  int      `json:"n_ops"`
	Ops   []opLine `json:"ops"`
}

type fileOut struct {
	File        string          `json:"file"`
	Name        string          `json:"name,omitempty"`
	Case        json.RawMessage `json:"case,omitempty"`
	Result      string          `json:"result"`
	Ops         int             `json:"ops"`
	Partitions  int             `json:"partitions"`
	MaxPartOps  int             `json:"max_partition_ops"`
	Pending     int             `json:"pending"`
	FailedOpens int             `json:"opens_without_slot"`
	Illegal     []partOut       `json:"illegal,omitempty"`
	Unknown     []int           `json:"unknown,omitempty"`
	Strict      []partOut       `json:"strict_deviations,omitempty"`
	Err         string          `json:"error,omitempty"`
	WallMs      int64           `json:"wall_ms"`
}

func toOps(ls []opLine) []porcupine.Operation {
	out := make([]porcupine.Operation, len(ls))
	for i, l := range ls {
		out[i] = porcupine.Operation{ClientId: 0, Input: input{l.Op, l.Addr}, Call: l.Call, Output: l.Res, Return: l.Ret}
	}
	return out
}

// shrink returns a short prefix (in call order) of an illegal partition that is still illegal.
func shrink(m porcupine.Model, ls []opLine, timeout time.Duration) []opLine {
	if len(ls) <= 600 { // linear scan: prefixes are not monotone, the first illegal one is the most readable
		for n := 1; n < len(ls); n++ {
			if porcupine.CheckOperationsTimeout(m, toOps(ls[:n]), timeout) == porcupine.Illegal {
				return ls[:n]
			}
		}
		return ls
	}
	lo, hi := 1, len(ls) // invariant: prefix hi is illegal
	for lo < hi {
		mid := (lo + hi) / 2
		if porcupine.CheckOperationsTimeout(m, toOps(ls[:mid]), timeout) == porcupine.Illegal {
			hi = mid
		} else {
			lo = mid + 1
		}
	}
	return ls[:hi]
}

func tail(ls []opLine, n int) []opLine {
	if len(ls) > n {
		return ls[len(ls)-n:]
	}
	return ls
}

func checkFile(path string, timeout time.Duration, maxops int) fileOut {
	t0 := time.Now()
	out := fileOut{File: path, Result: "ok"}
	f, err := os.Open(path)
	if err != nil {
		out.Result, out.Err = "unknown", err.Error()
		return out
	}
	defer f.Close()
	var ops []opLine
	sc := bufio.NewScanner(f)
	sc.Buffer(make([]byte, 1<<20), 1<<26)
	var maxStamp int64
	for sc.Scan() {
		var l opLine
		if json.Unmarshal(sc.Bytes(), &l) != nil {
			continue
		}
		if l.T == "meta" {
			out.Name, out.Case = l.Name, l.Case
			continue
		}
		if l.T != "op" {
			continue
		}
		if l.Call > maxStamp {
			maxStamp = l.Call
		}
		if l.Ret > maxStamp {
			maxStamp = l.Ret
		}
		ops = append(ops, l)
	}
	out.Ops = len(ops)
	parts := map[int][]opLine{}
	var floating []opLine // opens that never returned: they may have taken any slot
	for _, l := range ops {
		if l.Ret <= 0 || l.Res == "pending" {
			l.Res, l.Ret = "pending", maxStamp+1
			out.Pending++
			if l.Op == "open" {
				floating = append(floating, l)
				continue
			}
		}
		if l.Op == "open" && l.Res != "ok" {
			out.FailedOpens++ // refused (server full, bad version): no slot involved
			continue
		}
		if l.Id < 0 {
			continue
		}
		parts[l.Id] = append(parts[l.Id], l)
	}
	ids := make([]int, 0, len(parts))
	for id := range parts {
		ids = append(ids, id)
	}
	sort.Ints(ids)
	out.Partitions = len(ids)
	prop, strict := model(false), model(true)
	for _, id := range ids {
		ls := append(append([]opLine{}, parts[id]...), floating...)
		sort.SliceStable(ls, func(i, j int) bool { return ls[i].Call < ls[j].Call })
		if len(ls) > out.MaxPartOps {
			out.MaxPartOps = len(ls)
		}
		switch porcupine.CheckOperationsTimeout(prop, toOps(ls), timeout) {
		case porcupine.Illegal:
			out.Result = "illegal"
			min := shrink(prop, ls, timeout)
			last := min[len(min)-1]
			out.Illegal = append(out.Illegal, partOut{Slot: id, Class: last.Op + ":" + class(last.Res), NOps: len(ls), Ops: tail(min, maxops)})
		case porcupine.Unknown:
			if out.Result == "ok" {
				out.Result = "unknown"
			}
			out.Unknown = append(out.Unknown, id)
		default:
			if porcupine.CheckOperationsTimeout(strict, toOps(ls), timeout) == porcupine.Illegal && len(out.Strict) < 8 {
				min := shrink(strict, ls, timeout)
				last := min[len(min)-1]
				out.Strict = append(out.Strict, partOut{Slot: id, Class: last.Op + ":" + last.Res, NOps: len(ls), Ops: tail(min, 6)})
			}
		}
	}
	out.WallMs = time.Since(t0).Milliseconds()
	return out
}

func main() {
	timeout := flag.Duration("timeout", 20*time.Second, "porcupine timeout per partition (exceeded => unknown)")
	maxops := flag.Int("maxops", 60, "operations of an offending partition to print")
	flag.Parse()
	enc := json.NewEncoder(os.Stdout)
	for _, p := range flag.Args() {
		enc.Encode(checkFile(p, *timeout, *maxops))
	}
}
