"""C01 run plan (DESIGN.md §4 C01)."""
import driver


def run(ctx):
    b = ctx.build("internal/zzverif/c01")
    if ctx.replay:
        ctx.run_shards(b, "TestVerifC01", 1, 600, "c01")
    else:
        ctx.run_shards(b, "TestVerifC01", 26, 900 if ctx.tier == "quick" else 3400, "c01", parallel=16)
        # the same per-carrier case lists with the traffic dump switched on (PipeData takes another copy path then)
        ctx.run_shards(b, "TestVerifC01", 4, 900, "c01dump", extra_env={"SOCKETACE_PIPE_DEBUG": "1", "VERIF_CARRIERS": "tcp,ws", "VERIF_TIER": "quick"})
        # the carriers with queues of their own (DNS tunnel, KCP) once more under the race detector
        br = ctx.build("internal/zzverif/c01", race=True)
        ctx.run_shards(br, "TestVerifC01", 2, 1500, "c01race", extra_env={"VERIF_CARRIERS": "dns,udp", "VERIF_TIER": "quick"}, race=True)
    return driver.finish(
        ctx, "exploration",
        "for every carrier (tcp, unix, tcp+tls, unix+tls, StartTLS over tcp/unix/ws/stdio/udp/dns, ws, wss, stdio, stdio+tls, udp/KCP, udp+secret, dns) x "
        "listener kind (unix socket, tcp socket, standard streams): a logical connection is opened through the real client and server commands and "
        "the harness holds both ends (application socket and the socket accepted by the channel's recording target); keyed/zero/0xFF streams of the "
        "boundary lengths {1,2,4095..4097,32639..32641,32767..32769,65535..65537,1MiB+1,3MiB+7}+random are written in both directions simultaneously with "
        "write sizes {1,7,4095,4096,4097,32640,32768,32769,65536,100003,whole,random partition}; oracle: online comparison at both observation points, "
        "conservation and end-of-stream exactly at the written length; stall rule instead of timeouts. Quick = Latin-square sample per carrier, "
        "plus, on dns, dns+starttls, udp and ws, one connection on which writes of 1, 2, 3, ... 420 (thorough 1300) bytes are each delivered before the next is written, once per direction (every frame / fragment / name length occurs); "
        "6000 (thorough 40000) short connections per direction on tcp and ws, 8 at a time: 700 bytes and close at once, the reader must get all of them; on dns one session whose packet counter goes past 65535 (one connection uploads 14 MiB, a second one then moves 64 KiB each way); carriers that live longer than every periodic timer of the stack (35 s, thorough 70 s) while saturated in both directions (ws, udp) or back-pressured (tcp, ws, wss: the target stands still for the whole period while the application keeps writing and the other direction flows), everything compared online and complete at the end; the tcp and ws case lists once more with SOCKETACE_PIPE_DEBUG=1 (the traffic-dump copy path of PipeData); the dns and udp case lists once more under the race detector (these carriers keep queues of their own between the multiplexer's goroutines and the packet handlers); thorough = full length x write-size product on stream carriers. Distinct = (carrier, listener, lengths, write sizes, content); non-trivial = the comparison ran to a verdict.",
        ["loopback sockets and in-process pipes stand for the network", "DNS and KCP payloads are limited in size (70 KiB / 128 KiB quick) apart from the one 14 MiB upload of the aged-session scenario"])
