"""C02 run plan (DESIGN.md §4 C02)."""
import driver


def run(ctx):
    pkg = "internal/zzverif/c02"
    b = ctx.build(pkg)
    if ctx.replay:
        ctx.run_shards(b, "TestVerifC02", 1, 600, "c02")
    else:
        quick = ctx.tier == "quick"
        ctx.run_shards(b, "TestVerifC02", 26 if quick else 28, 900 if quick else 3400, "c02")
        # the same workload with 2 OS threads and under the race detector (schedule perturbation; reports are diagnostics)
        ctx.run_shards(b, "TestVerifC02", 16 if quick else 18, 900 if quick else 3400, "c02p2", extra_env={"GOMAXPROCS": "2", "VERIF_TIER": "quick", "VERIF_C02_NOQUIET": "1"})
        br = ctx.build(pkg, race=True)
        ctx.run_shards(br, "TestVerifC02", 16 if quick else 18, 1500 if quick else 3400, "c02race", extra_env={"VERIF_TIER": "quick", "VERIF_C02_NOQUIET": "1"}, race=True)
    return driver.finish(
        ctx, "exploration",
        "one physical session per case. Scripted independence: a coordinator holds 1-6 other logical connections (on 1-3 channels) in chosen states "
        "{idle, unread data client->target / target->client / both (<=1 MiB each, total <=3 MiB < the multiplexer's 4 MiB), closed by the application with the "
        "target still open, closed by the target, busy echoing} for as long as needed and issues an operation {open+echo, 64 KiB echo, 600 KB transfer, close by "
        "application, close by target} on another connection, which must complete under the stall rule. Free-running stress: k in {2,4,8,16} goroutines open "
        "tagged connections concurrently and run random write/read/pause/close scripts, every stream keyed by its connection so a foreign byte is attributed. "
        "Further scripted operations: a connection for a channel the server refuses, and for a channel whose target is down, between uses of the held connections. A peer that drives the multiplexer by hand opens a logical connection and stays silent on it: another connection opened meanwhile, another one after a silent connection was closed unused, and the silent one when it finally names its channel must all be served. Connections that stay quiet for 35/65 s. "
        "Long lives of ONE session: histories of 1000/5000 logical connections (300 in the perturbed passes, 300 over DNS) that come and go, 1-4 at a time, next to two connections held idle from the start, "
        "with every kind of ending as the only one and mixed {closed by the application, closed by the target, target down, channel refused, target gone with unread data, application gone with unread data, "
        "closed before the first byte}; after every 50-110 endings the held connections and a new connection on every channel must work. Crowds of 400-800 / 1500-2500 logical connections open and idle at the same "
        "time on one session: every further open, a sample of the members, a new connection, every close, and a new connection after all have left must complete. "
        "Repeated with GOMAXPROCS=2 and under -race, with random delays at the server.stream.accepted hook. Distinct = case descriptor; non-trivial = the operation ran to a verdict.",
        ["both ends of every logical connection are held by the harness", "unread data of stalled connections stays under the shared 4 MiB receive buffer, as the property requires"])
