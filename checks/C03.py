"""C03 run plan (DESIGN.md §4 C03)."""
import driver


def run(ctx):
    b = ctx.build("internal/zzverif/c03")
    if ctx.replay:
        ctx.run_shards(b, "TestVerifC03", 1, 600, "c03")
    else:
        ctx.run_shards(b, "TestVerifC03", 16, 900 if ctx.tier == "quick" else 3400, "c03")
    return driver.finish(
        ctx, "exploration",
        "reference model expected(endpoint,name) = target(name) if name is configured and (allow-list empty or contains name) else REFUSED; "
        "every channel has its own recording target (distinct banner). A request goes through the real client command (a listener whose channel "
        "name is the requested name -> Upstreams.Connect) and through a raw multistream client (own physical connection + real handshake + smux) "
        "that tries several names, 'ls', names without '/', and a valid name after refused ones on ONE stream. Observed: what the requester "
        "receives (banner of which target / end-of-stream without a byte) and which targets accepted a connection, read after a logical barrier "
        "(one sentinel connection per target, accept queue drained up to it), plus app->target bytes on the accepted socket. "
        "Workload: channel tables = ordered sequences over {a,ab,abc,A,a_b,a/b,echo,echo2}; allow-lists = every subset (empty = all) and the reversed "
        "order of each; requested names = configured + unlisted + unknown + prefix/extension/case variants + '/'-prefixed/suffixed + empty + newline/space/'ls'. "
        "Server kinds: tcp (one server per list, all in one server command) and websocket (two paths, every ordered pair of subsets) exhaustively for "
        "tables of 1-2 channels (thorough: tcp 1-3, websocket 3 channels with seeded pairs); websocket also one client per configuration on a variant of a path (case, prefix, extension, unknown); "
        "unix, udp(KCP), stdio, dns sampled with tables of 1-4 channels; allow-lists naming unknown channels must fail start-up (else judged by the model). "
        "Degenerate names on the configuration side: (A) tables that contain a channel with the EMPTY name (protocol id '/') - tcp: every ordered table {'',p}/{p,''} over the pool "
        "with every allow-list in both orders (so [''] = 'only the empty-named channel' stands next to empty = all and to lists without ''), websocket: [''] on one path and a seeded "
        "list on the other, tcp/unix/udp/stdio/dns sampled with '' at a seeded position of a 3-4 channel table and the lists [''], everything-but-'', all, seeded; "
        "(B) tables WITHOUT such a channel and allow-lists with blank / white-space entries (one, repeated, mixed with real names at either end) on every server kind and on either "
        "websocket path: start-up must fail, else the endpoint is judged by the model (a non-empty list exposes exactly the configured names it contains); signatures of both carry the list's shape. "
        "Allow-lists as sequences with REPEATED configured names (space repeated-allow-entry): lists shorter than, as long as and longer than the table, one name repeated alone "
        "([p,p], [p,p,p]) and repeated names next to others ([p,q,p], lists that leave a channel out and lists that name every channel) - tcp: seeded (thorough: all) ordered two-channel "
        "tables with [p,p], [q,q], every mixed list of length three and two of length four, one-channel tables with lists longer than the table, websocket: a repeated list on one path and "
        "all / a proper list / another repeated list on the other, tcp/unix/ws/udp/stdio/dns sampled with tables of 2-5 channels (always a list of exactly the table's length that leaves a "
        "channel out); every name is configured, so start-up must succeed and exactly the names occurring in the list are exposed. "
        "Channel names that themselves begin with '/' (space slash-led-names; the command-line syntax writes names that way; wire ids '//b', '///b'), and channels of ONE table whose names "
        "differ only in the number of leading slashes (b, /b, //b; thorough also ///b; b over {a,ab,echo,a/b,A,''}): tcp with every ordered pair of two forms of a base and all forms in one "
        "table under every allow-list in both orders (both exposed / only the plain one / only a slash-led one), a slash-led name whose plain form is not configured next to an unrelated "
        "channel; websocket with the two paths exposing different forms / one path all; unix, tcp, udp, stdio, dns sampled with 2-3 forms of a base next to unrelated channels and the "
        "deciding lists; bursts of simultaneous requests for the forms of one base on one session (tcp, unix, ws, stdio); requested names additionally include every configured slash-led "
        "name without one / without all of its leading slashes. "
        "Concurrent family: on configurations with >= 2 exposed channels, bursts of 8 (udp 6, dns 3) simultaneous requests for DIFFERENT allowed names "
        "(every third burst mixed with refused names) on ONE session, through the real client (several listeners -> Upstreams.Connect at once) and through "
        "the raw client (several smux streams at once); per request: the banner it receives and eight bytes it pushes must belong to the target of ITS name "
        "(no global counting while a burst is in flight; accept-queue barrier after each burst; every accepted socket must carry a requester's bytes); the "
        "verifhook point server.stream.accepted is used to line the streams of a burst up (seeded sub-millisecond hold, delay only). "
        "Distinct = (kind, table, allow-lists, endpoint, via, name/script position/burst slot); non-trivial = an outcome was observed and the barrier completed.",
        ["all targets are the harness's own listeners, so 'no outbound connection to any target' is observable",
         "a connection the server would make long after it has answered the requester is only caught by a later barrier of the same configuration",
         "loopback sockets / in-process pipes stand for the network"],
        extra_cov={"exhaustive": False,
                   "exhaustive_subspace": "tcp socket servers and two-path websocket servers: all ordered channel tables of length 1-2 over the 8-name pool x "
                                          "every allow-list (tcp: all subsets in both orders; websocket: every ordered pair of subsets on the two paths) x the full requested-name set "
                                          "(about 25-30 names per table) through the real client, plus the raw multistream scripts"
                                          + ("; tcp also all tables of length 3" if ctx.tier == "thorough" else "")})
