"""C04 run plan (DESIGN.md §4 C04)."""
import driver


def run(ctx):
    b = ctx.build("internal/zzverif/c04")
    if ctx.replay:
        ctx.run_shards(b, "TestVerifC04", 1, 600, "c04")
    else:
        ctx.run_shards(b, "TestVerifC04", 16, 900 if ctx.tier == "quick" else 3400, "c04")
    return driver.finish(
        ctx, "fault_enumeration",
        "three monitors. (A) wire observer: real client <-> recording relay <-> real server for carrier in {tcp, unix, ws, udp(KCP), dns, tcp+tls, unix+tls, wss, "
        "stdio and stdio+tls (no relay: flags only), udp+secret} x server certificate {none, good, untrusted|wronghost|expired} x client --secure x client --insecure (+ client without CA); "
        "the application payload is a random 24-byte marker repeated 400x (80x over DNS) in both directions; the capture is de-framed (websocket frames unmasked, "
        "DNS questions/answers decoded with the repository's helpers under every codec, KCP datagrams searched as they are) and searched for any 16-byte window of "
        "the marker stream. Oracle: both ends agree on secure (client: ClientConnection.Secure(); server: server.session hook); a session either end calls secure, and "
        "every session of a client that requires security, shows TLS records only after the two handshake messages (stream carriers) and never the marker; "
        "required and refused => no marker byte on the wire; StartTLS offered => {both secure, no session}; a plaintext session must show the marker (positive "
        "control of the observer, else inconclusive). (B) fault enumeration: a scripted server (TCP and websocket) speaking the socketace handshake with "
        "17 forms of the Capabilities header x 17 continuations (101 without TLS, ClientHello swallowed then alert/multiplexer frame then plaintext multiplexer, "
        "garbage, close, 503/200/403, TLS with untrusted/wrong-host/expired certificate falling back to plaintext, ...) + 15 faults of the first answer + wrong/missing "
        "Protocol-Version, against the real client command x --secure x --insecure; oracle: security required => the scripted server never receives the marker in "
        "clear and never serves a logical connection without a completed TLS handshake; StartTLS advertised (token present in the list) => payload never in clear; "
        "client reports secure => TLS handshake completed. (C) tcp+tls, unix+tls, https, stdio+tls endpoints against a scripted plaintext client and the real client "
        "with the plain scheme: no 200/101 in clear, no server.session event that is not secure, no logical connection served in plaintext; plus one observation (never judged): "
        "a hand-written client ignoring the real server's StartTLS offer. Stall rule, no deadlines. "
        "Distinct = (monitor, carrier/transport, certificate, flags, script, peer); non-trivial = the case produced a wire capture / reached the scripted server.",
        ["loopback sockets and in-process pipes stand for the network",
         "interpretation (DESIGN.md): a hand-written client that ignores an offered StartTLS against the real server is outside the property",
         "a capability token that only resembles StartTLS (misspelled, hyphenated, with parameter) or sits on a second Capabilities line is not an offer",
         "KCP parity shards and the AES variant (udp+secret) are searched as they are; TLS record structure is only checked on stream carriers"])
