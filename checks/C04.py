"""C04 run plan (DESIGN.md §4 C04)."""
import driver


def run(ctx):
    b = ctx.build("internal/zzverif/c04")
    if ctx.replay:
        ctx.run_shards(b, "TestVerifC04", 1, 600, "c04")
    else:
        ctx.run_shards(b, "TestVerifC04", 16, 900 if ctx.tier == "quick" else 3400, "c04")
    return driver.finish(
        ctx, "fault_enumeration",
        "seven monitors. (A) wire observer: real client <-> recording relay <-> real server for carrier in {tcp, unix, ws, udp(KCP), dns, tcp+tls, unix+tls, wss, "
        "stdio and stdio+tls (no relay: flags only), udp+secret} x server certificate {none, good, untrusted|wronghost|expired} x client --secure x client --insecure (+ client without CA); "
        "the application payload is a random 24-byte marker repeated 400x (80x over DNS) in both directions; the capture is de-framed (websocket frames unmasked, "
        "DNS questions/answers decoded with the repository's helpers under every codec, KCP datagrams searched as they are) and searched for any 16-byte window of "
        "the marker stream. Oracle: both ends agree on secure (client: ClientConnection.Secure(); server: server.session hook); a session either end calls secure, and "
        "every session of a client that requires security, shows TLS records only after the two handshake messages (stream carriers) and never the marker; "
        "required and refused => no marker byte on the wire; StartTLS offered => {both secure, no session}; a plaintext session must show the marker (positive "
        "control of the observer, else inconclusive). (B) fault enumeration: a scripted server (TCP and websocket) speaking the socketace handshake with "
        "17 forms of the Capabilities header x 17 continuations (101 without TLS, ClientHello swallowed then alert/multiplexer frame then plaintext multiplexer, "
        "garbage, close, 503/200/403, TLS with untrusted/wrong-host/expired certificate falling back to plaintext, ...) + 15 faults of the first answer + wrong/missing "
        "Protocol-Version, against the real client command x --secure x --insecure; oracle: security required => the scripted server never receives the marker in "
        "clear and never serves a logical connection without a completed TLS handshake; StartTLS advertised (token present in the list) => payload never in clear; "
        "client reports secure => TLS handshake completed. (C) tcp+tls, unix+tls, https, stdio+tls endpoints, each once with a key pair and once with a TLS scheme but NO key pair "
        "(only a CA: the socket kinds then refuse to start, the https and stdio kinds start and must leave every plaintext peer unanswered), against a scripted plaintext client "
        "(websocket endpoints: the upgrade request first, then, once it is answered, the socketace handshake and the marker in zero-masked binary frames) and the real client "
        "with the plain scheme x --secure: no 200/101 in clear, no server.session event that is not secure, no logical connection served in plaintext; plus one observation (never judged): "
        "a hand-written client ignoring the real server's StartTLS offer. "
        "(D) a TLS upstream (tcp+tls, https) loses its session and a plaintext peer answers the reconnect: the client starts TLS again or sends nothing. "
        "(E) listener-list composition: the real client command is started (3 fresh starts per case, 8 thorough: the start-up is an interleaving) with 1..8 listeners in configuration order - "
        "a standard input/output listener (which opens the upstream session by itself during start-up, its application writing from the first instant) alone, first, in the middle or last among "
        "tcp (numeric and localhost) and unix-socket listeners, or socket listeners only; applications connect after the start-up or hammer the unix sockets from before it - "
        "over tcp and websocket (thorough: + unix) through the recording relay x server certificate {none, good} x --secure x --insecure; every listener carries a logical connection with the marker "
        "payload over the shared session; oracle = monitor A's, applied to every physical connection the relay saw. "
        "(F) failed TLS handshakes: a scripted peer that proceeds one step at a time (write, wait for the answer, write the next step, as the real client does) makes the server's TLS handshake FAIL "
        "in every place where a server performs one - at connection start on the tcp+tls, unix+tls, https and stdio+tls endpoints, and after the 101 of a requested StartTLS upgrade on tcp, unix and stdio "
        "endpoints with a certificate - in 8 ways (a line of text, the plaintext announcement itself sent twice, binary junk, a handshake record with an unparsable ClientHello, a fatal alert record, a genuine "
        "ClientHello followed after the server's flight by text, a genuine TLS client that rejects the certificate, a genuine TLS client without the client certificate the endpoint demands) and then goes on in clear: "
        "socketace announcement, upgrade request, multiplexer, channel selection, marker payload (https: websocket upgrade request, then zero-masked frames). Oracle: the peer never completed a TLS handshake, so a TLS "
        "endpoint must not answer the plaintext handshake with 200/101, and neither kind may produce a server.session event or let the recording target accept a connection / receive the marker; closing, an error "
        "status, a TLS alert or silence are all accepted. The forms of one endpoint run side by side (a stdio+tls endpoint that gave up leaves its peer waiting: one stall window for all); session events of a group "
        "that no case accounts for make the group run again case by case. Control per carrier: the same script without the failing step against a plain endpoint must reach the target (else inconclusive). "
        "(G) second attempts: the real client command with ONE upstream written with a TLS scheme (tcp+tls, unix+tls, https://, wss://) x --secure x --insecure against a scripted hostile peer that spoils the first K "
        "physical connections (K=1, some K=2; thorough K=1..3) - closed at once, reset at once, closed / reset after the ClientHello, truncated ServerHello then closed, fatal alert then closed, the plaintext 400 of a plain "
        "socketace server then closed - and from then on is a willing PLAINTEXT socketace endpoint on the same address (ClientHello and plaintext are told apart by the first byte; a ClientHello is closed), or that answers the "
        "websocket request inside genuine TLS (certificate the client can verify) with 301/302/303/307/308 (quick: one code per case, by seed) and Location = absolute http:// URL on another port / on the same port, absolute ws:// URL, "
        "scheme-relative URL, or with 503, a plaintext websocket+socketace endpoint waiting at every target; the application connects K+3 times with the marker payload. Oracle: the peer never does TLS on a connection it serves socketace on, "
        "so the marker must never reach it (raw bytes of every connection and the unmasked websocket tunnel payload), no logical connection may be served, and the client must hold no session afterwards, least of all one it calls secure; "
        "refusing the application every time is the only accepted outcome. Control per transport: K=0 and the upstream written with the plain scheme must be served and the peer must see the marker (else inconclusive). "
        "Stall rule, no deadlines. "
        "Distinct = (monitor, carrier/transport, certificate, flags, script, peer, listener list, eager applications, place of the TLS handshake, failing step, first attempt, K, redirect status); non-trivial = the case produced a wire capture / reached the scripted server / "
        "delivered its failing step to the endpoint / "
        "had its first attempt spoiled or redirected by the peer.",
        ["loopback sockets and in-process pipes stand for the network",
         "interpretation (DESIGN.md): a hand-written client that ignores an offered StartTLS against the real server is outside the property",
         "a capability token that only resembles StartTLS (misspelled, hyphenated, with parameter) or sits on a second Capabilities line is not an offer",
         "KCP parity shards and the AES variant (udp+secret) are searched as they are; TLS record structure is only checked on stream carriers",
         "monitor E samples the interleavings of the client's start-up (fresh starts under the scheduler's own timing, no injected delays); it does not enumerate them",
         "monitor F: on socket carriers the failing step and the plaintext continuation may reach the server's TLS layer in one read (then the continuation is swallowed and the peer is simply refused); "
         "only the in-process pipes of the stdio carrier deliver them one write at a time with certainty",
         "an https endpoint without a key pair may stop accepting at any moment (its listener is garbage-collected): refused, reset and never-answered are all 'nothing completed'"])
