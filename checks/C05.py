"""C05 run plan (DESIGN.md §4 C05)."""
import driver


def run(ctx):
    b = ctx.build("internal/zzverif/c05")
    if ctx.replay:
        ctx.run_shards(b, "TestVerifC05", 1, 600, "c05")
    else:
        ctx.run_shards(b, "TestVerifC05", 16, 900 if ctx.tier == "quick" else 3400, "c05")
        if ctx.tier == "thorough":
            # the quick case list once more under the race detector (its reports are diagnostics, DESIGN.md §3)
            br = ctx.build("internal/zzverif/c05", race=True)
            ctx.run_shards(br, "TestVerifC05", 16, 3400, "c05race", extra_env={"VERIF_TIER": "quick"}, race=True)
    return driver.finish(
        ctx, "exploration",
        "for every case of the matrix server certificate {Good, GoodDNS (name-only SAN), IPOnly (address-only SAN), WrongHost, Untrusted (foreign CA), Expired} x "
        "client insecure flag x client certificate {none, own CA, foreign CA, foreign CA presented regardless of the server's CA list} x server require-client-cert x carrier {tcp+tls, wss, StartTLS over tcp/ws/udp/dns, StartTLS over a UDP endpoint that is protected by a shared secret as well (udp+secret+starttls: both ends hold the same seeded secret)} x "
        "upstream host written as localhost / 127.0.0.1 (dns: the tunnel domain), plus UDP shared secret {equal, different, only server, only client} x {plain, StartTLS}, "
        "plus near misses of a seeded mixed-case secret on the same two carriers (the client holds the server's secret in another letter case - all lower, all upper, one letter, "
        "or the server holds the lower-case form -, one character shorter or longer, an 80-character secret differing in its last character, a trailing blank; and the equal "
        "secrets of the same shapes), the client's address string going through ParseAddress or, seeded, through the JSON configuration value path, "
        "plus, on udp+secret+starttls, a different secret on the client together with the insecure flag / with an acceptable client certificate at a server that requires one, "
        "plus the trust-anchor configuration of either entry {CA inline, CA by file (caCertificateFile), no CA at all (the machine's trust store, which the harness points at the foreign CA), "
        "a bundle of several CA certificates - CA one first / in the middle / last among authorities that issued nothing - given inline or by file} "
        "x server certificate {Good, Untrusted} x insecure x client certificate x require-client-cert on every carrier (configurations whose outcome the property does not decide - a peer "
        "chaining to the machine's trust store at an entry without a CA - are left out), "
        "plus the matrix with the upstream address written in the carrier's OTHER accepted spelling (wss:// for https://, ws:// for http://, udp4:// for udp://, the latter through the client's own address parser; "
        "the machine's trust store holds the foreign CA only, so the configured CA and the process default differ), "
        "plus OWN certificates that carry a chain, inline or (seeded) by certificateFile: server certificate {leaf + the CA that issued it, leaf issued by an intermediate of that CA + the intermediate} x "
        "client certificate {leaf + issuing CA, foreign leaf through the foreign CA's intermediate + intermediate} x server certificate {Good, Untrusted} x insecure x client certificate x require - "
        "in particular a server whose certificate file is leaf + foreign CA while CA one is configured, asked by a client holding a foreign-CA certificate, and a client whose certificate file is leaf + foreign CA "
        "while CA one is configured, meeting a server of the foreign CA: "
        "a fresh real server command + client command is started, a logical connection is opened through the client's listener and one probe byte written; "
        "observed = admitted (the channel's recording target accepted a connection; probe byte read there) / refused (application saw end-of-stream or reset and a barrier "
        "connection through the target's accept queue shows the server never dialled it) / pending (neither within the stall window). Oracle: reference model "
        "admit = (insecure or (chains to client's CA and within validity and matches host as written)) and (not require or client cert signed by server's CA); "
        "an entry without a CA never accepts a peer without a certificate or with one of the run's own CA; "
        "a peer chaining to CA one chains to the configured CA wherever CA one stands in a configured bundle; "
        "the spelling of the upstream address changes nothing; what an endpoint carries along in its own certificate never adds to what it trusts in its peers, and a server certificate that reaches the configured CA through an intermediate it sends along chains to it (a client certificate of the server's CA through an intermediate is not decided by the statement and left out); "
        "secrets: admit = the two secrets are the same string; on udp+secret+starttls admit = the certificate model and equal secrets (the secret replaces neither the verification of the server certificate nor the client-certificate requirement). Both directions of disagreement are violations; pending satisfies an expected refusal. Quick = per-carrier single-deviation core + seeded "
        "greedy pairwise cover + seeded extras (~240 cases) + 28 shared-secret cases + per-carrier trust-anchor core (16 configurations, 6 of them with a CA bundle) and 30 seeded picks (142) + the other-spelling core (8 per carrier with a second spelling, 32) and a seeded half of the pairwise/extra picks in the other spelling + the chain core (6 per carrier) and 20 seeded picks of the chain list (62), thorough = the matrix once more in the other spelling (768) + the whole chain list (1288) + the whole matrix (7 carriers, 1248) + the 46 host-less / preceded-upstream / different-secret core cases + the whole trust-anchor list (10 anchor combinations, 2093) + the same shared-secret cases. Distinct = the configuration tuple; non-trivial = the probe reached one of the three observations.",
        ["loopback sockets stand for the network; host names are localhost / 127.0.0.1 / t.example.org",
         "certificates are ECDSA P-256 issued by two run-time CAs; Go's crypto/tls of the local toolchain does the verifying",
         "stdin+tls (documented exception: certificate not verified) and unix carriers (no host name) are excluded"],
        min_distinct=8)
