"""C05 run plan (DESIGN.md §4 C05)."""
import driver


def run(ctx):
    b = ctx.build("internal/zzverif/c05")
    if ctx.replay:
        ctx.run_shards(b, "TestVerifC05", 1, 600, "c05")
    else:
        ctx.run_shards(b, "TestVerifC05", 16, 900 if ctx.tier == "quick" else 3400, "c05")
        if ctx.tier == "thorough":
            # the quick case list once more under the race detector (its reports are diagnostics, DESIGN.md §3)
            br = ctx.build("internal/zzverif/c05", race=True)
            ctx.run_shards(br, "TestVerifC05", 16, 3400, "c05race", extra_env={"VERIF_TIER": "quick"}, race=True)
    return driver.finish(
        ctx, "exploration",
        "for every case of the matrix server certificate {Good, GoodDNS (name-only SAN), IPOnly (address-only SAN), WrongHost, Untrusted (foreign CA), Expired} x "
        "client insecure flag x client certificate {none, own CA, foreign CA, foreign CA presented regardless of the server's CA list} x server require-client-cert x carrier {tcp+tls, wss, StartTLS over tcp/ws/udp/dns} x "
        "upstream host written as localhost / 127.0.0.1 (dns: the tunnel domain), plus UDP shared secret {equal, different, only server, only client} x {plain, StartTLS}: "
        "a fresh real server command + client command is started, a logical connection is opened through the client's listener and one probe byte written; "
        "observed = admitted (the channel's recording target accepted a connection; probe byte read there) / refused (application saw end-of-stream or reset and a barrier "
        "connection through the target's accept queue shows the server never dialled it) / pending (neither within the stall window). Oracle: reference model "
        "admit = (insecure or (chains to client's CA and within validity and matches host as written)) and (not require or client cert signed by server's CA); "
        "secrets: admit = equal. Both directions of disagreement are violations; pending satisfies an expected refusal. Quick = per-carrier single-deviation core + seeded "
        "greedy pairwise cover + seeded extras (~190 cases), thorough = all 1056 + 8. Distinct = the configuration tuple; non-trivial = the probe reached one of the three observations.",
        ["loopback sockets stand for the network; host names are localhost / 127.0.0.1 / t.example.org",
         "certificates are ECDSA P-256 issued by two run-time CAs; Go's crypto/tls of the local toolchain does the verifying",
         "stdin+tls (documented exception: certificate not verified) and unix carriers (no host name) are excluded"],
        min_distinct=8)
