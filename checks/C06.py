"""C06 run plan (DESIGN.md §4 C06)."""
import driver


def run(ctx):
    b = ctx.build("internal/zzverif/c06")
    if ctx.replay:
        ctx.run_shards(b, "TestVerifC06", 1, 600, "c06")
    else:
        driver.run_scaled(ctx, b, "TestVerifC06", 16, 3000, "c06")
    if ctx.tier == "thorough" and not ctx.replay:
        br = ctx.build("internal/zzverif/c06", race=True)
        ctx.run_shards(br, "TestVerifC06", 16, 3000, "c06race", extra_env={"VERIF_TIER": "quick"}, race=True)
    return driver.finish(
        ctx, "exploration",
        "real socketace.NewServerConnection / NewClientConnection driven over an in-memory segmenting conn (scripted peer bytes, "
        "then EOF), a live in-memory pipe with a real crypto/tls peer (StartTLS), and the real WebsocketTunnelConnection over "
        "loopback (gorilla client+server). Inputs per role: grammar-generated announce/upgrade (resp. 200/101) exchanges with "
        "controlled deviations, header lines of 1 B..64 KiB and 0..500 headers, every prefix of fixed valid exchanges, bit flips, "
        "duplications, garbage. Every string runs under 4 (quick) / 8 (thorough) splits: whole, 1-byte dribble, at every CR/LF, "
        "seeded random cuts (+ before CR/LF, second random, 4096- and 7-byte chunks). Oracles: no panic; (session?, status/request "
        "lines written, bytes read from the returned connection) identical over all splits and over websocket messages; reference "
        "model for inputs whose deviations are known (deviations the statement leaves open are excluded from the model); for every "
        "input: session => independently parsed bytes are X-SOCKETACE announce offering v2.0.0 + GET upgrade with token "
        "socketace/v2.0.0 (client: 200 then 101), and the bytes behind the handshake come out of the returned connection unchanged. "
        "Concurrency (family 'concurrent', 96 groups per seed): groups of 1..12 byte strings of either role (composed by theme: all "
        "refused at the announce / all refused at the upgrade / all sessions / client failures / client sessions / identical "
        "requests / mixed, each with its own configuration, segmentation and connection) are first served one at a time, then 2..16 "
        "goroutines serve the same handshakes over and over at the same time (>= 6000 handshakes per group); every concurrent "
        "execution must show exactly what the same bytes showed alone (session?, lines written, every header of every written "
        "message, next-layer bytes, security state), and a process-fatal event (e.g. 'concurrent map writes') is attributed by the "
        "driver to the group whose replayable descriptor was marked before the goroutines started. "
        "Cross-message inputs (family 'cross-message', both roles): well-formed two-message exchanges in which one message carries "
        "headers that only matter in the other (Connection / Upgrade / Security / Protocol-Version / Capabilities in the announce "
        "resp. the 200, Accepts-Protocol-Version / Capabilities / Security in the upgrade resp. the 101), with the right value, a wrong "
        "value or any variant, while the judged message has its own header right, wrong or missing; the model judges every message "
        "on its own headers. Long lists (family 'long-list'): Accepts-Protocol-Version (server) and Capabilities (client) lists of "
        "every length 1..40 with the significant entry (v2.0.0 / StartTLS) at every position or absent, mixed separators, plus lists "
        "of 41..300 entries; lists in Connection / Upgrade / Protocol-Version run without the model (form left open). "
        "A case is distinct by (role, configuration, input bytes, split); non-trivial = the code wrote at least one line or "
        "established a session.",
        ["net/textproto is used by the harness to delimit the two messages of an input (same library as the code under test)",
         "the model's notion of well-formed is deliberately narrow: inputs with debatable deviations (double spaces, quoted or "
         "upper-case versions, lists in Connection/Upgrade, bare CR line ends, +200 status codes, client-side unsupported "
         "Protocol-Version) are only checked for panics, segmentation invariance, the session implication and read-ahead",
         "segmentation is modelled as arbitrary non-empty read sizes on a reliable ordered stream; EOF follows the scripted bytes",
         "concurrent groups: the interleaving of the goroutines is whatever the Go scheduler produces (not seeded); a group counts as "
         "non-trivial only if at least two handshakes were observed in flight at the same moment; a replay runs 5x the rounds"],
        extra_cov={"exhaustive": False,
                   "exhaustive_subspace": "every prefix (truncation at every offset) of the fixed valid exchanges, both roles; every "
                   "(list length 1..40, position 0..length of the significant entry) for Accepts-Protocol-Version and Capabilities"},
        min_distinct=1000 if not ctx.replay else 1)
