"""C07 run plan (DESIGN.md §4 C07)."""
import driver


def run(ctx):
    pkg = "internal/streams/dns"
    b = ctx.build(pkg)
    if ctx.replay:
        ctx.run_shards(b, "TestVerifC07", 1, 900, "c07")
    else:
        n = 16
        ctx.run_shards(b, "TestVerifC07", n, 900 if ctx.tier == "quick" else 3400, "c07")
        br = ctx.build(pkg, race=True)
        ctx.run_shards(br, "TestVerifC07", 16, 1500 if ctx.tier == "quick" else 3400, "c07race", extra_env={"VERIF_TIER": "quick"}, race=True)
    if not ctx.replay:
        # real loopback UDP, real timeouts, isolated datagram losses through a relay (one DNS server per process)
        bn = ctx.build("internal/zzverif/c07net")
        ctx.run_shards(bn, "TestVerifC07Net", 4, 900, "c07net")
    return driver.finish(
        ctx, "fault_enumeration",
        "three scenarios with lagging readers (both applications sleep 2-5 ms after every Read and take what has piled up, up to 64 KiB, in one gulp; 6-12 MiB per direction); in every second scenario every 13th Write of either side is preceded by a Write of no bytes (must return 0 and disturb nothing); scenarios = (fate script over every DNS exchange {delivered, query lost, answer lost, query duplicated (copies handled one after the other, or 2/4 copies reaching the server at the same time as with one handler goroutine per datagram), old query replayed with lag "
        "1..65700}, fragment sizes 4-16 bytes (and realistic ones), starting sequence numbers {0,1,127,128,32768,65408,65535}, write sizes "
        "{1, frag-1, frag, frag+1, 3frag+2, 64KiB}, codecs/record types, with and without the real Handshake()+poller); both directions carry "
        "keyed streams simultaneously; oracle: bytes read are always a prefix of the bytes accepted by Write, isolated losses (bursts<=3) never "
        "surface as a Write error, after the script turns transparent everything accepted is read within 4*outstanding+64 exchanges; timeouts are "
        "virtual, verdicts count exchanges not seconds. A scenario is non-trivial if >=1 byte was verified.",
        ["a lost exchange is modelled as the wrapped net.Error timeout the real UDP communicator returns", "the bulk of the exploration is in-memory; four real-UDP cases (loopback, relay dropping isolated datagrams, real timeouts) run the whole stack"],
        min_distinct=2)
