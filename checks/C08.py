"""C08 run plan (DESIGN.md §4 C08)."""
import driver


def run(ctx):
    b = ctx.build("internal/zzverif/c08")
    n = 1 if ctx.replay else 14
    ctx.run_shards(b, "TestVerifC08", n, 600 if ctx.tier == "quick" else 3000, "c08")
    if ctx.tier == "thorough" and not ctx.replay:
        br = ctx.build("internal/zzverif/c08", race=True)
        ctx.run_shards(br, "TestVerifC08", 14, 3000, "c08race", extra_env={"VERIF_TIER": "quick"}, race=True)
    return driver.finish(
        ctx, "exploration",
        "for each of the 8 codecs reachable through enc.FromCode: all strings of length 0-2 (exhaustive), every length 0..N "
        "(N=2600 quick, 8192 thorough) with repeated-byte/counter/random content, all single-bit strings up to 40/130 bytes; "
        "oracle: Decode(Encode(x))==x without error, no output byte in {'.','\\\\',' ',0x00-0x1f,0x7f}, len(out) <= ceil(len*Ratio())+8 "
        "(Raw: lossless only). A case is distinct by (codec, input bytes); every case runs the full oracle so each is non-trivial.",
        ["enc.FromCode lists every selectable codec", "reference oracle is the identity on byte strings; no model of the codecs"],
        extra_cov={"exhaustive": False, "exhaustive_subspace": "all inputs of length 0..2 for every codec (65793 strings each)"})
