"""C08 run plan (DESIGN.md §4 C08)."""
import driver


def run(ctx):
    b = ctx.build("internal/zzverif/c08")
    if ctx.replay:
        ctx.run_shards(b, "TestVerifC08", 1, 600, "c08")
    else:
        driver.run_scaled(ctx, b, "TestVerifC08", 16, 3000, "c08")
        # fresh processes whose first uses of a codec are concurrent (192 children, 24 per codec; thorough: 480)
        ctx.run_shards(b, "TestVerifC08", 192 if ctx.tier == "quick" else 480, 300, "c08first", extra_env={"VERIF_C08_MODE": "first-use"}, parallel=16)
    if ctx.tier == "thorough" and not ctx.replay:
        br = ctx.build("internal/zzverif/c08", race=True)
        ctx.run_shards(br, "TestVerifC08", 16, 3000, "c08race", extra_env={"VERIF_TIER": "quick"}, race=True)
    return driver.finish(
        ctx, "exploration",
        "for each of the 8 codecs reachable through enc.FromCode: all strings of length 0-2 (exhaustive), every length 0..N "
        "(N=8192; quick = one seed, thorough = three seeds) with repeated-byte/counter/random content, all single-bit strings up to 40/130 bytes; "
        "oracle: Decode(Encode(x))==x without error, no output byte in {'.','\\\\',' ',0x00-0x1f,0x7f}, len(out) <= ceil(len*Ratio())+8 "
        "(Raw: lossless only). FIRST USE: 192 (thorough 480) fresh processes in each of which the very first uses of one codec happen on 16 goroutines at once (what is set up lazily must be safe for that); judged like the concurrent family, a crash of the process is a violation. A case is distinct by (codec, input bytes); every case runs the full oracle so each is non-trivial.",
        ["enc.FromCode lists every selectable codec", "reference oracle is the identity on byte strings; no model of the codecs"],
        extra_cov={"exhaustive": False, "exhaustive_subspace": "all inputs of length 0..2 for every codec (65793 strings each)"})
