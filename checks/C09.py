"""C09 run plan (DESIGN.md §4 C09): DNS tunnel requests survive the wire."""
import driver


def run(ctx):
    b = ctx.build("internal/streams/dns")
    scale = {}
    if ctx.replay:
        ctx.run_shards(b, "TestVerifC09", 1, 600, "c09")
    else:
        scale = driver.run_scaled(ctx, b, "TestVerifC09", 16, 3000, "c09")
    return driver.finish(
        ctx, "exploration",
        "COLLIDING DOMAINS: tunnel domains DERIVED FROM THE REQUEST'S OWN NAME, for every domain length 1..176 and upstream codec: the domain is "
        "one label equal to the last label of the data part of the very name the client forms (x), that label twice or three times (periodic "
        "domains x.x, x.x.x), x.net, net.x, one label of 57 characters equal to a full inner label of the data part, or one label equal to the last "
        "characters of the last data label; each in the data's spelling, lower, upper and swapped case. Requests: data packets of every payload "
        "length 0..getUpstreamMtu() whose name ends in such a label (random, keyed, 0x00, 0xff, counter content; for codecs whose alphabet has more "
        "than letters and digits the last/inner label is steered to letters and digits), upstream-codec probes (the client's patterns and patterns of "
        "letters and digits of every length that fits), and the short requests (version, options, ping, downstream-codec and fragment-size probes) "
        "below a domain that is the tail of their single data label. Same path and same oracle as SEQUENTIAL; the harness counts the names that really "
        "have the intended shape (colliding_names:<shape>). "
        "CONCURRENT USERS: per upstream codec 8 goroutines push 4000 (thorough 40000) numbered packet requests each through the whole path at the same time (the server handles every datagram on a goroutine of its own) and must each get back exactly what they sent (judged only if the same requests round-trip one at a time). CLIENT-BUILT: for every tunnel-domain length 4..200 the real client, connected to the real server in memory, sends what it builds by itself (version handshake, fragment-size probes with its own padding, the switch to each upstream codec, a write of exactly the upstream budget it computed for that codec): every request must be answered / delivered byte-exactly and every call must return. SEQUENTIAL: "
        "for each request type the client forms (version, options, packet with data, packet without data, upstream-codec probe "
        "with the patterns the client sends, downstream-codec probe, fragment-size probe) x upstream codec {Base32,64,64u,85,91,128} x "
        "tunnel domain (7 lengths 4..120 quick, 43 thorough; the 3 payload lengths just below and at the fragment size for EVERY domain length 4..120) x query type (CNAME,TXT,NULL,A,MX,SRV,AAAA,PRIVATE) x EDNS0 on/off: "
        "the client's Serializer.EncodeDnsRequestWithParams (single query) -> question name read independently (labels <= 63 octets, "
        "name <= 253 octets, below the tunnel domain) -> Msg.Pack -> Msg.Unpack -> ComposeRequest, command detection, DecodeRequestHeader, "
        "server Serializer.DecodeDnsRequest as ServerDnsListener.onMessage does -> every field equal. Packets: EVERY payload length "
        "0..getUpstreamMtu() of each (codec, domain) with keyed, random, all-0x00, all-0xff and counter content; user ids: all 0..1295 for each "
        "command that carries one; options: all 27 flag combinations x 9x9 codec codes (x 9 fragment sizes in thorough); sequence and "
        "ack numbers {0,1,255,256,32767,65535}^2 + random. Every case runs the whole oracle, so each is non-trivial; a case is "
        "distinct by (command, codec, domain, query type, edns0, all field values, payload bytes).",
        ["the 3 cache-busting characters of a request come from math/rand inside socketace and are not controlled by the harness",
         "SetOptions' fragment size 0xFFFFFFFF is the wire encoding of 'unset' by design and is not used as a value",
         "UseMultiQuery=false (the client never enables it); the server-side serializer carries the same upstream codec as the client",
         "nil and empty Packet.Data / Pattern are the same value (only the bytes are consumed by the server)",
         "colliding-domains family: the upstream-codec probe also carries patterns of letters and digits the client itself never sends (the pattern is a free field of the request)",
         "upstream-codec probes are the patterns of Base128/91/85/64/64u prefixed with 'aA' exactly as EncodingTestUpstream sends them"],
        min_distinct=1 if ctx.replay else 2,
        extra_cov={"exhaustive": False,
                   "exhaustive_subspace": "payload lengths 0..getUpstreamMtu() for every swept (codec, domain); user ids 0..1295 per command; "
                                          "SetOptions flags x downstream code x upstream code"})
