"""C10 run plan (DESIGN.md §4 C10): DNS tunnel responses survive the wire for every record type."""
import driver


def run(ctx):
    b = ctx.build("internal/zzverif/c10")
    if ctx.replay:
        ctx.run_shards(b, "TestVerifC10", 1, 600, "c10")
    else:
        driver.run_scaled(ctx, b, "TestVerifC10", 16, 3000, "c10")
    return driver.finish(
        ctx, "exploration",
        "each case forms one server response (Version, SetOptions, Packet {no data, data, error}, downstream-codec probe, "
        "fragment-size probe, upstream-codec echo, Error; every error of commands.BadErrors) and runs the real "
        "Serializer.EncodeDnsResponseWithParams -> dns.Msg.Pack -> dns.Msg.Unpack (fresh Msg) -> Serializer.DecodeDnsResponseWithParams "
        "for a record type in {NULL, PRIVATE, TXT, SRV, MX, CNAME, AAAA, A} and a downstream codec from enc.FromCode (8 codecs). "
        "Outcome identical = ok; an error reported by encode/pack/unpack/decode (or a packed message over 65535 bytes, which no DNS "
        "transport carries) = ok, counted under stat:reported_failure:<stage>; decoded without error but different, or a panic anywhere = violation. "
        "Payload lengths: every length 0..300, 500-520, 1000-1030, 4090-4100, 8180-8192 (65520-65540 for NULL/PRIVATE); contents: keyed, "
        "seeded random, all-0x00, all-0xff, '.', '\\\\', '\"', ' ', control bytes, mixed special bytes, counter, \\DDD look-alikes; "
        "8 tunnel domains of 4..200 characters (with 188 and 200 a host-name record carries 60 encoded characters or fewer) x 3 question-name lengths (up to the 253 character maximum); seq/ack {0,1,255,256,32767,65535}+random; "
        "user ids 0..1295 (the server's table size). A case is distinct by all of these; it is non-trivial when the pipeline ran to the final comparison "
        "(or panicked); reported failures are counted separately and are not counted as non-trivial.",
        ["responses are restricted to what the server can form: user ids 0..1295, the downstream-codec probe carries util.DownloadCodecCheck, the "
         "fragment-size probe carries the server's own pattern with FragmentSize = length, an error response carries no other field",
         "errors compare by message; nil and empty byte slices are equal",
         "a packed answer larger than 65535 bytes counts as a reported failure (dns.Conn refuses to write it)",
         "the (layer, cause) part of a signature is a diagnosis computed after the verdict; it never decides"],
        extra_cov={"exhaustive": False})
