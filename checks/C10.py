"""C10 run plan (DESIGN.md §4 C10): DNS tunnel responses survive the wire for every record type."""
import driver


def run(ctx):
    b = ctx.build("internal/zzverif/c10")
    if ctx.replay:
        ctx.run_shards(b, "TestVerifC10", 1, 600, "c10")
    else:
        driver.run_scaled(ctx, b, "TestVerifC10", 16, 3000, "c10")
    return driver.finish(
        ctx, "exploration",
        "each case forms one server response (Version, SetOptions, Packet {no data, data, error}, downstream-codec probe, "
        "fragment-size probe, upstream-codec echo, Error; every error of commands.BadErrors) and runs the real "
        "Serializer.EncodeDnsResponseWithParams -> dns.Msg.Pack -> dns.Msg.Unpack (fresh Msg) -> Serializer.DecodeDnsResponseWithParams "
        "for a record type in {NULL, PRIVATE, TXT, SRV, MX, CNAME, AAAA, A} and a downstream codec from enc.FromCode (8 codecs). "
        "Outcome identical = ok; an error reported by encode/pack/unpack/decode (or a packed message over 65535 bytes, which no DNS "
        "transport carries) = ok, counted under stat:reported_failure:<stage>; decoded without error but different, or a panic anywhere = violation. "
        "Payload lengths: every length 0..800, 1000-1030, 4090-4100, 8180-8192 (65520-65540 for NULL/PRIVATE); contents: keyed, "
        "seeded random, all-0x00, all-0xff, '.', '\\\\', '\"', ' ', control bytes, mixed special bytes, counter, \\DDD look-alikes; "
        "8 tunnel domains of 4..200 characters (with 188 and 200 a host-name record carries 60 encoded characters or fewer) x 3 question-name lengths (up to the 253 character maximum); seq/ack {0,1,255,256,32767,65535}+random; "
        "user ids 0..1295 (the server's table size). "
        "Queries: the families above answer a question made by hand (no OPT record); the family 'cliq' (one work item per record type x codec) answers "
        "queries the client's own Serializer.EncodeDnsRequestWithParams formed (a data packet of 0..149 bytes going upstream, packed and unpacked again on the "
        "server's side), each response once with the OPT record of a negotiated EDNS0 (UseEdns0, 16384 bytes advertised) and once without it: payload lengths "
        "0..64, one seeded length in every 32-byte block up to 8192, 8180..8192 (65500..65531 for NULL/PRIVATE), all 8 tunnel domains rotating over the lengths, "
        "so that answers of every size class (one record .. hundreds of records, up to tens of kilobytes on the wire) are formed for both kinds of query; "
        "plus every response type without a payload x domain x {OPT, no OPT}. "
        "Domains that can occur again inside a payload: the family 'domrep' (one work item per record type x codec) uses the tunnel domains "
        "a, q, t, 7, aa, ab3, t.t, a.a, tunnel, intranet, A, Tunnel (single label, one or two characters, periodic; characters of the codecs' alphabets): "
        "every payload length 0..420 for MX/SRV/CNAME (0..80 for the other record types), data packets, upstream-codec echoes and fragment-size probes, with seeded "
        "random payloads (5 per length for one-character domains) and payloads steered, through the real Response.Encode and codec only, so that the text put into "
        "the records ends in the domain's first label (generator 'domtail'; falls back to the random payload where the length or codec does not allow it); plus "
        "the payload-less responses and every error under these domains. stat:answers_with_the_domain_text_among_the_payload_labels counts the answers in which a "
        "host-name record really carried the domain text as one of its payload labels. "
        "Histories: a response that was decoded and found identical is kept for the next 3 answers the same client decodes and compared again after each of them "
        "(what a client received stays what it received: signature ...:changed-after-later-decode, replay = the case plus the answers in 'then'). "
        "Concurrency: 16 groups (one per shard); a group is one process with 16 clients (goroutines, GOMAXPROCS 4), each with its own Serializer, record type, "
        "codec and domain and its own seeded stream of 200 answers (data packets of 0..1200 bytes, some up to 8192, the probes, responses without payload; "
        "hand-made and client-formed queries); all clients unpack and decode their answers at the same time, 4 passes; every second client uses a codec wrapper that "
        "yields the processor before delegating to the real codec (moves scheduling points only). Same oracle per answer, plus the kept-response comparison; an answer "
        "that differs in a group is run once more alone: if it differs there too it is reported under its sequential signature, otherwise as "
        "concurrent-clients:silent-diff:identical-when-alone (replay = the whole group, an interleaving). "
        "A case is distinct by all of these; it is non-trivial when the pipeline ran to the final comparison "
        "(or panicked); reported failures are counted separately and are not counted as non-trivial.",
        ["responses are restricted to what the server can form: user ids 0..1295, the downstream-codec probe carries util.DownloadCodecCheck, the "
         "fragment-size probe carries the server's own pattern with FragmentSize = length, an error response carries no other field",
         "errors compare by message; nil and empty byte slices are equal",
         "a packed answer larger than 65535 bytes counts as a reported failure (dns.Conn refuses to write it)",
         "the (layer, cause) part of a signature is a diagnosis computed after the verdict; it never decides",
         "the clients of a group share the process (package-level state of socketace and of the DNS library) and nothing else; which client a "
         "concurrency defect hits depends on scheduling, so the concurrent-clients signature does not name the cell"],
        extra_cov={"exhaustive": False})
