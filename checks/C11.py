"""C11 run plan (DESIGN.md §4 C11): DNS auto-negotiation only settles on parameters that work."""
import driver


def run(ctx):
    pkg = "internal/streams/dns"
    b = ctx.build(pkg)
    if ctx.replay:
        ctx.run_shards(b, "TestVerifC11", 1, 600, "c11")
    else:
        scale = driver.run_scaled(ctx, b, "TestVerifC11", 16, 3000, "c11")
    return driver.finish(
        ctx, "fault_enumeration",
        "behaviours = path models applied to every DNS exchange in wire form between a fresh ClientDnsConnection and a fresh "
        "ServerDnsListener: transparent; query names lower-/upper-/randomly cased (0x20 mixing as a seeded function of the name); "
        "7-bit-only names (queries with octets >=0x80 dropped, or those octets replaced by '?'); a subset of the eight record types "
        "{NULL,PRIVATE,TXT,SRV,MX,CNAME,AAAA,A} answered and the others timing out / NXDOMAIN / empty NOERROR; packed answers above "
        "512/1024/2048/4096/8192 octets dropped or truncated (TC set, no records); EDNS0 stripped from queries (answers then <=512); and "
        "transient faults during the negotiation only (queries number n..n+k-1 of one command letter y/v/z/o/r/s lost, n in 0..2, k in {1,2,5,9}, on six base paths; the path is as described before and after; for k <= 2 also with the ANSWERS lost, i.e. the server has acted on a request the client believes lost); and "
        "resolvers that only let host-name characters through (a query name with an octet other than a letter, a digit or the hyphen is dropped, or the octet is replaced by a hyphen), alone and with case folding, size limits, stripped EDNS0 and type subsets; resolvers that lower-/upper-case the host names inside answers (CNAME, MX, SRV targets), alone and with query-name folding, 7-bit names or a size limit, on paths where host-name records are what is left; the tunnel domain at 4..210 characters (17 lengths) on eight base paths (the room left in a query name shrinks with the domain until probes of the denser codecs no longer fit); and combinations (quick: 32 fixed + 8 seeded combinations; thorough: all 255 type subsets x 2 limits with case and refusal modes "
        "rotating + seeded combinations = 1010). The path is deterministic per message and the same instance serves handshake and data. "
        "The real Handshake() runs; oracle: (1) it returns before 20000 exchanges (counted by the path; timeouts are virtual so a probe "
        "loop spins), is not found parked in a mutex Lock after 60 s without any exchange, and does not panic; (2) an error return is accepted; (3) after a nil return, keyed / all-0x00 / all-0xff / "
        "name-special ('.', '\\\\', space, 0x00-0x1f, 0x7f-0xff) payloads of 1, 2, f-1, f, f+1, 2f+3, 3f+1, 8f bytes (f = negotiated fragment size "
        "of the direction) are written client->server, server->client and in both directions at once: every Write returns (len, nil), the "
        "bytes read are exactly the bytes written, within 50 x packets + 1000 pump exchanges (the harness pumps SendAndReceive only while a "
        "packet is queued, so the count does not depend on scheduling). A behaviour is non-trivial when Handshake exchanged at least one "
        "message and, on success, at least one byte was verified.",
        ["a lost exchange is the wrapped net.Error timeout the real UDP communicator returns, delivered at once (virtual time)",
         "case mangling of queries applies to the question names (answers echo the mangled question); in the answer-names behaviours the host names inside CNAME/MX/SRV record data are case-folded as well, other record data is never rewritten",
         "a refused type is answered by the path (NXDOMAIN / empty) after the tunnel server processed the stateless probe",
         "size limits compare the uncompressed packed answer as the tunnel server's dns library would send it",
         "tunnel domain fixed to t.example.org; one session per listener"],
        min_distinct=1 if ctx.replay else 2)
