"""C12 run plan (DESIGN.md §4 C12): DNS endpoints withstand arbitrary messages with bounded work."""
import json
import os
import stat

import driver

PKG = "internal/streams/dns"
TEST = "TestVerifC12"

# requests that make an unrepaired server allocate / loop without bound: each alone in a child under ulimit -v
BOMBS = {
    "r-2^24": "server:alloc-unbounded:r:fragsize=2^24",
    "r-2^28": "server:alloc-unbounded:r:fragsize=2^28",
    "r-2^32-1": "server:alloc-unbounded:r:fragsize=2^32-1",
    "o-0-write": "server:alloc-unbounded:o:fragsize=0:server-write-never-ends",
}
OOM_MARKS = ("out of memory", "cannot allocate memory", "failed to reserve", "failed to allocate")


def wrapper(ctx, binary):
    """ctx.child() takes a binary path: a two-line script that applies the address-space limit first."""
    p = os.path.join(ctx.tmp, "c12-limited.sh")
    with open(p, "w") as f:
        f.write("#!/bin/sh\nulimit -v 4000000\nexec %s \"$@\"\n" % binary)
    os.chmod(p, os.stat(p).st_mode | stat.S_IXUSR)
    return p


def bomb_name(child):
    return child[len("c12bomb-"):] if child.startswith("c12bomb-") else None


def run_bombs(ctx, binary, names):
    w = wrapper(ctx, binary)
    for i, name in enumerate(names):
        safe = name.replace("^", "e")
        c = ctx.child(w, TEST, "c12bomb-" + name, 240, extra_env={"VERIF_C12_MODE": "bomb:" + name, "GOMAXPROCS": "4"})
        ctx.children.append(c)


def post(res):
    """A bomb child that the runtime killed for lack of memory is the violation it was built to record:
    give it the fixed signature of its request instead of the crash text."""
    v = res["violations"]
    for i, (sig, case, obs, child) in enumerate(v):
        name = bomb_name(child or "")
        if name is None or not (sig or "").startswith("crash:"):
            continue
        text = (sig or "") + " " + json.dumps(obs, default=str)[:4000]
        if any(m in text for m in OOM_MARKS):
            o = dict(obs or {})
            o["how"] = "the child process (ulimit -v 4000000) died: " + sig
            v[i] = (BOMBS[name], case, o, child)


def run(ctx):
    b = ctx.build(PKG)
    if ctx.replay:
        case = (json.load(open(ctx.replay)).get("case") or {})
        if case.get("side") == "bomb" and case.get("bomb") in BOMBS:
            run_bombs(ctx, b, [case["bomb"]])
        else:
            ctx.run_shards(b, TEST, 1, 900, "c12")
    else:
        driver.run_scaled(ctx, b, TEST, 16, 3000, "c12")
        run_bombs(ctx, b, list(BOMBS))
        if True:  # the race/checkptr pass over the small case list runs in both tiers
            br = ctx.build(PKG, race=True)
            ctx.run_shards(br, TEST, 16, 3000, "c12race", extra_env={"VERIF_TIER": "quick"}, race=True)
    return driver.finish(
        ctx, "exploration",
        "SERVER: single-question queries from a grammar (root, 1-3 character names, the bare tunnel domain, look-alike and foreign "
        "suffixes, mail./www./login.-style names, every letter/digit and some other bytes as command letter in both cases x {no body, "
        "1-5 characters, header only, header + 1-2 user-id characters, well-formed bodies with boundary fields (version; options flags x "
        "codec codes x fragment size 0/1/2/100/1200/8192/65535/65536/2^24/2^28/2^32-2/2^32-1; probe sizes; packet seq/ack around the "
        "window), truncated and mutated bodies, random bodies in each of the 8 codecs, 8-bit garbage, maximum-length names} x user id "
        "{victim's, sender's own, zz, unused, non-base36, upper case, 8-bit, dotted} x the 8 tunnel query types + NS/SOA/ANY/0/65535/"
        "65000/OPT/AXFR/PTR x classes IN/CH/ANY/0/NONE x header variants (RD/CD/AD, NOTIFY, EDNS0, extra records)), 5 tunnel domains; "
        "each is Pack()ed, Unpack()ed and handed to the onMessage callback the listener registered, from a foreign address (v4, v6) and "
        "from the address of a second established session (with its own id, the victim's id and other ids). Per message: panic "
        "(production has no recover: process death), runtime TotalAlloc delta <= 8 MiB, return within a 60 s watchdog (else inconclusive), "
        "answer class (evidence), and the victim session's server-side state (sequence numbers, queues, acked lists, serializer, address, "
        "closed, table slot) identical after every message; every 128 messages the victim completes a keyed transfer that was in flight "
        "(317 bytes down in 4 packets, 3 still queued; 230 bytes up) byte-exactly. Fragment-size probes > 65535 the sender is entitled to, and "
        "options(fragsize=0) followed by a server-side Write, run alone in child processes under ulimit -v 4000000: verdict = measured "
        "TotalAlloc > 8 MiB, or the runtime's out-of-memory death of that child. 0- and 2+-question messages are rejected by miekg's "
        "DefaultMsgAcceptFunc before the handler and are not generated. "
        "CLIENT: answers (no records with rcode 0/2/3/5/1 and TC; records only in authority/additional; 70 record shapes incl. "
        "NULL/PRIVATE with 0-3 bytes, TXT with no/empty/1-char strings, CNAME/MX/SRV/NS targets '.', 1-3 characters, the bare domain, "
        "foreign names, A/AAAA without RDATA, unknown types; alone, in ordered pairs and in mixtures of 3-40; hostile payloads (each "
        "letter alone, 1-2 characters, every response type with boundary/err fields truncated at a random point, foreign codec, 8-bit garbage, "
        "long) wrapped by the repository's own WrapDnsResponse for all 8 query types) x 8 downstream codecs x 5 domains, packed/unpacked "
        "and fed to DecodeDnsResponseWithParams, QueryWithData, SendAndReceive, VersionHandshake and the probe senders through a scripted "
        "communicator; oracle: no panic (errors are fine). START-UP WINDOW: queries handed to handleRequest of a communicator whose listener has not registered its callback yet. REPETITION: an established session of the hostile peer's own sends one message again and again (data packets 1/5/127 ahead of the expected sequence number, cycling ahead, duplicates of a delivered packet, packets behind the sequence, options, codec and fragment probes, version requests): live heap after a collection may grow by at most 1 MiB between N and 4N repetitions (N = 8000 / 40000), no panic, and the victim completes its in-flight transfer. NEGOTIATION STEPS: the real client runs its whole Handshake() (query type given or "
        "autodetected) against the real server in memory while a man in the middle tampers with the answer to the n-th request of one command "
        "letter (n in {0,1,2,middle,last} of a faithful run's count; that one only, or all from it on): the request delivered from another source "
        "port (in-command BADIP), all sessions forgotten by the server, time-out, no records, SERVFAIL, NXDOMAIN, error records, the payload cut "
        "after 1-12 bytes/half/all but 1-2, another command's letter, case folding, a flipped byte, doubled, the previous answer, the answer to "
        "another command; a handshake that completes writes once and closes. Oracle: no panic. "
        "REQUEST HANDLER (side 'handler'): the listener is registered on the repository's own NetConnectionServerCommunicator and every message "
        "- the victim's and the hostile peer's own traffic included - enters through its handleRequest, the function miekg/dns calls without "
        "recover, with a dns.ResponseWriter that behaves like miekg's for a server without TSIG secrets (TsigStatus nil, WriteMsg = Pack + "
        "write, failing when the answer cannot be packed); only what DefaultMsgAcceptFunc accepts is delivered. Queries: every way the "
        "callback can end (names that are no command; all command letters in both cases x {no body, 1-5 characters, header, header + user "
        "id, well-formed / truncated / mutated bodies, bodies in each codec, 8-bit garbage, maximum length} x user-id field {victim's, "
        "sender's, zz, unused, non-base36, negative, upper case, 8-bit, dotted, 00}; tunnel query types and NS/SOA/ANY/... that yield an "
        "error together with a message) x what the query carries besides its question (nothing; OPT; OPT with options; TSIG with hmac-md5/"
        "sha1/sha256/sha512/unknown algorithm, key names 'axfr.', root, 180 characters, 8-bit, MAC of 0-64 bytes, BADTIME with other data; "
        "OPT+TSIG, TXT+TSIG, TSIG+OPT, two TSIGs; SIG(0), OPT+SIG(0); a SOA in the answer section of a NOTIFY or in the authority section, "
        "each with and without TSIG; answer + authority + OPT + TSIG) plus random sentences of the grammar in random envelopes; same per-"
        "message oracle as SERVER (panic, TotalAlloc, watchdog, victim state identical, victim's in-flight transfer completes every 128 "
        "messages). A case is distinct by (wire bytes, origin | entry point, codec, domain); "
        "every executed case ran its whole oracle.",
        ["SERVER items enter the listener the way handleRequest enters it (registered callback, message after Unpack); the HANDLER items "
         "enter handleRequest itself with a scripted ResponseWriter; the UDP/TCP socket layer of miekg/dns is not part of the run (C01 drives it)",
         "a ResponseWriter whose TsigStatus() is not nil does not occur (socketace configures no TSIG secrets, miekg then reports nil for every message) and is not scripted",
         "answers that Msg.Unpack rejects (compression loops, A/AAAA RDATA of the wrong size) never reach socketace and are counted, not judged",
         "a success answer to a name outside the tunnel domain is recorded as evidence, not judged (the statement's 'tunnel error or ignored' "
         "is read as the handling of what is not a well-formed command)",
         "messages sent from the victim's own address with its id are legitimate commands and are not part of the undisturbed oracle (C13)",
         "the 8 MiB bound is two orders of magnitude above the allocation of the largest legitimate answer (8192-byte probe)"],
        min_distinct=1 if ctx.replay else 1000,
        post=post,
        extra_cov={"exhaustive": False})
