"""C13 run plan (DESIGN.md §4 C13): DNS tunnel sessions are isolated from each other and from spoofers."""
import concurrent.futures
import glob
import json
import os
import subprocess

import driver

PKG = "internal/streams/dns"
PORCHECK = os.path.join(driver.VERIF, "bin", "porcheck")
CHECKER_SRC = os.path.join(driver.VERIF, "checker")


def ensure_checker(ctx):
    """The offline checker is built by MANIFEST setup_cmd; build it here if it is missing or older than its source."""
    src = max(os.path.getmtime(os.path.join(CHECKER_SRC, f)) for f in os.listdir(CHECKER_SRC))
    if os.path.exists(PORCHECK) and os.path.getmtime(PORCHECK) >= src:
        return
    env = dict(os.environ)
    env.update(driver.GOENV)
    r = subprocess.run(["go", "build", "-o", PORCHECK, "."], cwd=CHECKER_SRC, env=env, stdout=subprocess.PIPE, stderr=subprocess.STDOUT, text=True)
    if r.returncode != 0:
        raise driver.BuildError("build of the porcupine checker failed:\n%s" % r.stdout[-3000:])
    driver.log("[build] porcheck")


def run(ctx):
    ensure_checker(ctx)
    thorough = ctx.tier == "thorough"
    b = ctx.build(PKG)
    if ctx.replay:
        ctx.run_shards(b, "TestVerifC13", 1, 900, "c13replay")
    else:
        with concurrent.futures.ThreadPoolExecutor(max_workers=3) as ex:
            # (d) expiry: one process, waits for real janitor passes (~61 s each); everything else runs meanwhile
            fd = ex.submit(ctx.run_shards, b, "TestVerifC13", 1, 900 if thorough else 700, "c13expiry", {"C13_PART": "d"})
            fa = ex.submit(ctx.run_shards, b, "TestVerifC13", 8, 1500 if thorough else 400, "c13abcef", {"C13_PART": "abcef"})
            br = ctx.build(PKG, race=True)
            fr = ex.submit(ctx.run_shards, br, "TestVerifC13", 6, 1500 if thorough else 500, "c13race",
                           {"C13_PART": "a", "C13_RACE": "1", "VERIF_TIER": "quick"}, True)
            for f in (fa, fr, fd):
                f.result()

    # offline: linearizability of every recorded history against the slot model
    files = sorted(glob.glob(os.path.join(ctx.tmp, "c13hist-*.jsonl")))
    results = []

    def check(path):
        try:
            r = subprocess.run([PORCHECK, "-timeout", "30s", path], stdout=subprocess.PIPE, stderr=subprocess.PIPE, text=True, timeout=600)
            return json.loads(r.stdout.strip().splitlines()[-1])
        except Exception as e:  # checker crashed / overall timeout: undecided
            return dict(file=path, result="unknown", error=str(e), ops=0, partitions=0)

    with concurrent.futures.ThreadPoolExecutor(max_workers=8) as ex:
        results = list(ex.map(check, files))

    def post(agg):
        st = agg["stats"]
        st["porcupine_histories_checked"] = len(results)
        st["porcupine_operations_checked"] = sum(r.get("ops", 0) for r in results)
        st["porcupine_partitions_checked(slots)"] = sum(r.get("partitions", 0) for r in results)
        st["max:porcupine_operations_in_one_partition"] = max([r.get("max_partition_ops", 0) for r in results] or [0])
        st["porcupine_histories_ok"] = sum(1 for r in results if r.get("result") == "ok")
        st["porcupine_operations_never_returned"] = sum(r.get("pending", 0) for r in results)
        dev = {}
        for r in results:
            for d in r.get("strict_deviations") or []:
                dev[d["class"]] = dev.get(d["class"], 0) + 1
        if dev and os.environ.get("C13_STRICT_CODES"):
            # opt-in (mutant demonstrations only): the exact code is not part of the property and an unlocked reader racing
            # with closeConnection's two table writes can legitimately see BADCONN where the model says BADIP/BADUSER
            for r in results:
                for d in r.get("strict_deviations") or []:
                    agg["violations"].append(("history:error-code-deviation:" + d["class"], r.get("case"),
                                              dict(history=os.path.basename(r.get("file", "")), slot=d["slot"], operations=d["ops"]), "porcheck"))
        if dev:
            # which of BADIP/BADUSER/BADCONN a rejection carries is not part of the property: diagnostic only
            agg["sets"].setdefault("porcupine_error_code_deviations(diagnostic, not a verdict)", set()).update("%s x%d" % kv for kv in dev.items())
        for r in results:
            name = os.path.basename(r.get("file", ""))
            if r.get("result") == "illegal":
                for part in r.get("illegal") or []:
                    agg["violations"].append(("history:not-linearizable:" + part["class"], r.get("case"),
                                              dict(history=name, slot=part["slot"], operations_in_partition=part["n_ops"],
                                                   shortest_illegal_prefix_tail=part["ops"]), "porcheck"))
            elif r.get("result") != "ok":
                agg["inconclusive"].append(dict(why="porcupine could not decide history %s (%s)" % (name, r.get("error") or "timeout on slots %s" % r.get("unknown")),
                                                case=r.get("case"), child="porcheck"))

    return driver.finish(
        ctx, "exploration",
        "one real ServerDnsListener, real ClientDnsConnections each behind its own source address on an in-memory DNS network. "
        "(a) k in 2..32 goroutines open/configure/transfer/probe foreign ids/close (client close, server close, abandon), with and without a "
        "delay inside newUser's critical section, plain and -race; a recorder at the listener boundary stamps call/return of every "
        "open/use/close from one counter; offline porcupine check per slot against free/live(owner)/retired(owner) (open only on a non-live "
        "slot; ok only for the owner of a live slot; tunnel rejection never for that owner); online: no id handed out while its holder has not "
        "asked to close, no foreign address served, no owner turned away, every byte read belongs to the session's own keyed stream. "
        "(b) per victim configuration x phase (fresh / data in flight both ways, first downstream chunk delivered-unacked / not yet polled): each of "
        "15 hostile commands (packets with the exactly-next/future/old/random sequence numbers and acks of the outstanding chunks, close flag, "
        "every option change, fragment probe, codec probe) from another client's address: no answer may be 'ok' or contain queued bytes of the "
        "victim under any codec, the victim's server-side snapshot (queues, sequence numbers, serializer, closed flag, table entries) is "
        "unchanged, its pending and next transfers are exact. (c) the same commands against a retired id from the old and a foreign address, "
        "before and after a new session reuses the slot; and the server application closing the earlier session's net.Conn after reuse. "
        "(d) ConnectionTimeout=40s/OldConnectionTimeout=45s, real janitor passes observed through the hook: sessions pumped every 100 ms must "
        "survive the expiry of the retired entry of their slot's earlier session (closed at 0 s: first pass; closed at 25 s: second pass), a "
        "control session without predecessor, sessions opened after a pass. "
        "(e) crowd: a population of sessions, each behind its own address, is built up to and past the capacity of the session table "
        "(1296 + surplus handshakes one after the other, 1296 + surplus from 8 goroutines with a delay inside newUser, 120 below the capacity; "
        "thorough: exactly full / one below / random sizes, everybody leaves and the table is refilled): every id of the two-character space "
        "is handed out and used, the surplus must be refused (what the refused real client then sends under the filler id is recorded "
        "too), every standing session transfers keyed bytes, hostile commands against the highest/lowest/digit-carry/random ids from another "
        "session's and a fresh address are judged as in (b), then in cycles a random part of the population (always the holder of the "
        "highest id) is closed by client or server, the old owners name their retired ids again, the freed slots are re-taken from fresh "
        "addresses plus a surplus and the whole population transfers again; same online monitors and offline porcupine check as (a). "
        "(f) reordered delivery: k in 2..16 sessions opened by the real client, then every session's keyed upstream stream is cut into packets "
        "that reach the server locally shuffled (packet n+1.. before packet n, inside the protocol's window, shuffle windows 2..40, thorough "
        "up to 100), some twice, the sessions' deliveries interleaved in one merged schedule or sent from several goroutines; after every "
        "delivery the session's server-side stream is read and every byte must be the session's own at that position. "
        "(d) also: at the moment the janitor logs that an idle session S is stale (logrus hook, inside the pass) the harness tries the table's "
        "lock; if it is free the server application closes S and a new peer H completes its handshake inside the pass, otherwise both are "
        "done right after the pass; H must survive that pass and the next ones. "
        "A case is non-trivial if the deciding comparison ran on bytes actually transferred (a-c, e, f; e also: the population reached its "
        "intended size or the capacity; f also: packets were accepted ahead of a predecessor) / the predecessor's retirement had provably "
        "expired at the observed pass (d).",
        ["source addresses are what the communicator reports (net.Addr strings), as for the real UDP communicator",
         "which of BADIP/BADUSER/BADCONN a rejection carries is recorded but not judged",
         "in (e) whether a handshake was refused is read from the answer on the wire (the real client's VersionHandshake reports a refused handshake as success)",
         "in (f) whether the whole reordered stream arrives is recorded, not judged (only what is read must be the session's own bytes in order)",
         "in (a), (e) and (f) all sessions keep the default Base32 downstream codec so that the recorder can classify answers without guessing"],
        extra_cov={"exhaustive": False}, min_distinct=2, post=post)
