"""C14 run plan (DESIGN.md §4 C14): one scenario per child process."""
import driver


def run(ctx):
    pkg = "internal/zzverif/c14"
    b = ctx.build(pkg)
    if ctx.replay:
        ctx.run_shards(b, "TestVerifC14", 1, 900, "c14")
    else:
        # the harness runs scenario number VERIF_SHARD; children beyond the number of scenarios do nothing
        n = 60 if ctx.tier == "quick" else 136
        ctx.run_shards(b, "TestVerifC14", n, 900 if ctx.tier == "quick" else 3000, "c14", parallel=16)
    return driver.finish(
        ctx, "fault_enumeration",
        "one scenario per child process. Growth: after N1 and N2 finished logical connections (sequential with the application or the target closing first, "
        "8 overlapping, mixed (every third target-first life only shuts the target's sending side down: the application must see the end, and after it has finished the target must see its socket released by the server), connections for a channel the server refuses, connections whose application finishes at once (or once the flood towards it stands still) and never reads while the target floods: the target must see the end, and no copy loop may be left while the applications still hold their sockets; local connections made while the only upstream is down (each must be ended by the client; served ones before and after; two outages of different length compared), physical connections that never become sessions (the peer says nothing / half a request / the whole announce, shuts its sending side down and must see the connection closed), connections served from the listener's forward address where one side shuts its sending side down first and must then see the end of the connection, and connections for an OFFERED channel whose target cannot be reached (a reserved TCP port that refuses, a unix socket that does not exist, a target that is up, goes away and comes back; applications that wait, send a request and wait, give up at once, come 8 at a time, or hold their sockets without reading: each such connection must be ended by the tunnel, no copy loop may be left for it while the applications still hold their sockets, served connections on the other channel and on the returning target in between)) the probe vector {goroutines by socketace/smux/kcp function class, open descriptors after GC, copy loops outstanding (hook counters)} "
        "taken at a quiescent point (unchanged over 5 polls) may differ by at most 4. Session end: with two logical connections open and idle the physical session "
        "is ended by {client shutdown, relay FIN, relay RST, server side cut, client side cut, garbage to server, garbage to client, black-holed carrier (keep-alive "
        "timeout)}; within 75 s every session-attributable goroutine and copy loop must be gone and descriptors back to the baseline; then over a 3 s idle window the "
        "accept-error counter must stand still and CPU stay under half a core (both witnesses needed to call it a busy loop). N1/N2 = 50/200 quick, 200/1000 thorough.",
        ["client and server share one process: footprints are judged together against the baseline taken before the session exists",
         "reclaimed 'eventually' is restated as within 75 s (twice smux's keep-alive timeout)"],
        min_distinct=2)
