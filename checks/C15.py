"""C15 run plan (DESIGN.md §4 C15)."""
import driver


def run(ctx):
    pkg = "internal/zzverif/c15"
    b = ctx.build(pkg)
    if ctx.replay:
        ctx.run_shards(b, "TestVerifC15", 1, 600, "c15")
    else:
        # quick: 8 endpoint kinds x 2 halves = 16 work groups + 1 long-stall scenario (dns, waits for the
        # listener's once-a-minute expiry sweep) = 17 work items, one child each, all at once.
        # + 2 work items with the descriptor-exhaustion scenarios (6 kinds) + 1 with the DNS session table filled
        # by stalled peers = 20.
        # thorough: 13 kinds x 2 halves + 17 long-stall scenarios + 9 descriptor-exhaustion work items (one per
        # kind) + 3 session-table scenarios = 55 work items, one child each, 16 at a time.
        if ctx.tier == "quick":
            ctx.run_shards(b, "TestVerifC15", 20, 900, "c15", parallel=20)
        else:
            ctx.run_shards(b, "TestVerifC15", 55, 3000, "c15")
            br = ctx.build(pkg, race=True)
            ctx.run_shards(br, "TestVerifC15", 20, 1500, "c15race", extra_env={"VERIF_TIER": "quick"}, race=True, parallel=20)
    return driver.finish(
        ctx, "fault_enumeration",
        "for every server endpoint kind {tcp, unix, tcp+tls, tcp+starttls, ws, wss, udp/KCP, dns} the real server is started and k scripted peers "
        "(quick: k in {1,2,3,4,8} rotated over the points; thorough: every k in 1..8) connect and then stall FOR EVER at one point each: nothing sent after connect, "
        "first 20 bytes of a real TLS ClientHello (TLS endpoints; and after a StartTLS 101), inside the HTTP request line / after the websocket "
        "upgrade (ws, wss), inside the first socketace request line, between the two handshake requests (200 read), after the StartTLS 101, after "
        "the complete announce request / the complete handshake followed by the end of all polling (dns: the server's answer or next keep-alive frame is never fetched), "
        "the complete handshake (silent / 64 bytes that are no smux frame); dns peers are real tunnel clients (full tunnel negotiation done, session "
        "allocated and polled) that never speak, plus dns-version-only (query-type probe + version request, the request that allocates the session, "
        "then not one more query) and dns-options-only (version + every option/probe command, never a packet request); udp peers are real KCP sessions. THEN 1-3 real clients (own client command, own upstream object) connect "
        "to the same endpoint at once, open a logical connection and move keyed streams of 1 B..64 KiB both ways to the recording target "
        "(online comparison at both ends). Also: a good client first, then the bad peers, then the same client again plus a new one; and bad "
        "peers at mixed points. GARBAGE peers (8 per scenario, one layer per scenario, every kind): instead of stalling they send one generated piece of garbage and then only listen "
        "(the server's reaction - status, bytes, close - is recorded, never judged): on the carrier in place of the first (announce) request and, after a valid announce, in place of the "
        "second (upgrade) request: COMPLETE requests (request line of 0,1,2,3,4 words - enumerated in every scenario -, separators single/double blank/tab/leading/trailing, header block "
        "none/valid/no colon/leading blank/blank in key/empty key/5 kB value/NUL/high bytes/300 headers/contradicting duplicates, CRLF or LF, always closed by the empty line), "
        "semantically wrong but well-formed requests (wrong method for the place, upgrade without announce, unknown version/security, ...), binary, over-long line, a TLS hello, plain HTTP probes "
        "(incl. HTTP/0.9 'GET /'), a response line, bare CRs, only newlines, smux frames before any handshake, an unterminated header block; below the carrier: junk / oversized record / corrupted hello / cleartext "
        "requests on TLS endpoints, HTTP-level garbage on ws and wss, junk datagrams and bogus KCP segments on udp, junk datagrams / foreign-domain / random-command / response messages on dns, and a peer that sprays well-formed DATA queries under the small session identifiers other peers are given (every eighth sequence number of the 16-bit range, junk payload; also with a good client already connected that goes on using its session). "
        "LONG STALLS (one scenario per work item): dns endpoint with every stall point and garbage layer at once, good client A first, sdns.ConnectionTimeout lowered to 30 s, the stall lasts until "
        "the listener's once-a-minute expiry sweep has been OBSERVED (hook counter; the number of sweeps needed follows from the measured instants) to run over the silent peers' sessions "
        "(thorough: one sweep more, single-point variants, dns+starttls, and a 40 s stall > smux keep-alive timeout on every other kind); meanwhile every 12 s A opens another logical connection or a new "
        "client connects; then A again plus 2 new clients. No sweep observed and nothing failed = inconclusive. "
        "STALLED PEERS THAT USE A RESOURCE UP (stream endpoints with an accept loop: tcp, unix, tcp+tls, tcp+starttls, ws, wss; thorough also unix+tls, unix+starttls, ws+starttls; a child of "
        "their own): client A connected first; the soft RLIMIT_NOFILE of the process (server, peers and clients share one descriptor table) is lowered to leave 2*pairs+1 free numbers "
        "(pairs 10..15 quick, 16..55 thorough); peers that stall after connect / inside the TLS hello / inside the HTTP request line / inside the first request line pile up one by one until the "
        "table is full and the server's accept of the next connection fails with EMFILE (SEEN in the accept loop's / net/http's log line; off-by-one is repaired by releasing a reserve descriptor "
        "and connecting exactly one more peer); then 50-95 % of them leave (seeded choice), the limit is given back, and A opens another logical connection while 1-2 new clients connect. "
        "No accept error seen and nothing failed = inconclusive. "
        "CROWDS: 20..48 peers (thorough: 20, 40, 100, and 100 at mixed points) stalled at one point inside the handshake (after connect, TLS hello, HTTP request line, websocket open, first request line, between the "
        "requests, StartTLS 101 / hello) on every kind but dns, the datagram endpoint at every such point; and the DNS endpoint's SESSION TABLE FILLED by stalled peers (a child of its own): client A first, "
        "then peers that send only the version request arrive 16 at a time, each from an address of its own, until the server answers 'server full' (36*36 sessions; filled until the server says so), "
        "1-3 more arrive at the full table, then 3-32 of the stalled peers close their sessions (acknowledged), then A opens another logical connection and 2 new clients connect "
        "(thorough: more arrivals, 200+ and 400+ leavers, dns+starttls). 'Full' never seen or nobody could leave, and nothing failed = inconclusive. Oracle: every good logical connection completes under the stall rule (no wall-clock deadline) while the stalled "
        "peers are still connected (their sockets are probed at the end and the state recorded); a scripted peer that is refused an answer "
        "it is entitled to on its way to its stall point counts as blocked too. Distinct = (kind, order, stall points, good clients, sizes); "
        "non-trivial = the good clients ran to a verdict.",
        ["loopback sockets stand for the network", "a peer that stalls for ever stands for every slower-than-the-observer peer; slow trickling senders are not driven",
         "a process-fatal panic of the server while garbage peers are served is attributed to the scenario marked last (driver: crash:<panic>@<site>)",
         "descriptor-exhaustion scenario: a lowered RLIMIT_NOFILE in a process shared by server, peers and clients stands for a server process whose table silent peers have filled; the limit is restored before the good clients arrive (the harness itself must not run out of descriptors)",
         "long-stall scenario: sdns.ConnectionTimeout is lowered from 5 min to 30 s (the sweep interval itself is hard-coded; real sweeps are waited for)",
         "thorough's -race pass runs the quick case list; race reports are diagnostics only"],
        min_distinct=8)
