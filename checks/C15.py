"""C15 run plan (DESIGN.md §4 C15)."""
import driver


def run(ctx):
    pkg = "internal/zzverif/c15"
    b = ctx.build(pkg)
    if ctx.replay:
        ctx.run_shards(b, "TestVerifC15", 1, 600, "c15")
    else:
        # 8 endpoint kinds x 2 halves = 16 work groups, one child each
        ctx.run_shards(b, "TestVerifC15", 16, 600 if ctx.tier == "quick" else 3000, "c15")
        if ctx.tier == "thorough":
            br = ctx.build(pkg, race=True)
            ctx.run_shards(br, "TestVerifC15", 16, 1500, "c15race", extra_env={"VERIF_TIER": "quick"}, race=True)
    return driver.finish(
        ctx, "fault_enumeration",
        "for every server endpoint kind {tcp, unix, tcp+tls, tcp+starttls, ws, wss, udp/KCP, dns} the real server is started and k scripted peers "
        "(quick: k in {1,2,3,4,8} rotated over the points; thorough: every k in 1..8) connect and then stall FOR EVER at one point each: nothing sent after connect, "
        "first 20 bytes of a real TLS ClientHello (TLS endpoints; and after a StartTLS 101), inside the HTTP request line / after the websocket "
        "upgrade (ws, wss), inside the first socketace request line, between the two handshake requests (200 read), after the StartTLS 101, after "
        "the complete announce request / the complete handshake followed by the end of all polling (dns: the server's answer or next keep-alive frame is never fetched), "
        "the complete handshake (silent / 64 bytes that are no smux frame); dns peers are real tunnel clients (full tunnel negotiation done, session "
        "allocated and polled) that never speak, plus dns-version-only (query-type probe + version request, the request that allocates the session, "
        "then not one more query) and dns-options-only (version + every option/probe command, never a packet request); udp peers are real KCP sessions. THEN 1-3 real clients (own client command, own upstream object) connect "
        "to the same endpoint at once, open a logical connection and move keyed streams of 1 B..64 KiB both ways to the recording target "
        "(online comparison at both ends). Also: a good client first, then the bad peers, then the same client again plus a new one; and bad "
        "peers at mixed points. Oracle: every good logical connection completes under the stall rule (no wall-clock deadline) while the stalled "
        "peers are still connected (their sockets are probed at the end and the state recorded); a scripted peer that is refused an answer "
        "it is entitled to on its way to its stall point counts as blocked too. Distinct = (kind, order, stall points, good clients, sizes); "
        "non-trivial = the good clients ran to a verdict.",
        ["loopback sockets stand for the network", "a peer that stalls for ever stands for every slower-than-the-observer peer; slow trickling senders are not driven",
         "thorough's -race pass runs the quick case list; race reports are diagnostics only"],
        min_distinct=8)
