"""C16 run plan (DESIGN.md §4 C16): client connection policy - direct first, ordered failover, reuse, reconnect."""
import concurrent.futures

import driver

PKG = "internal/zzverif/c16"


def run(ctx):
    thorough = ctx.tier == "thorough"
    b = ctx.build(PKG)
    if ctx.replay:
        ctx.run_shards(b, "TestVerifC16", 1, 900, "c16replay")
    else:
        with concurrent.futures.ThreadPoolExecutor(max_workers=4) as ex:
            # slow part: silent upstreams (and, thorough, black-holed carriers) - every case waits >= 95 s by
            # construction, so all of them run concurrently in ONE child and share the wait
            fs = ex.submit(ctx.run_shards, b, "TestVerifC16", 1, 1500 if thorough else 600, "c16slow", {"C16_PART": "slow"})
            fm = ex.submit(ctx.run_shards, b, "TestVerifC16", 12, 1500 if thorough else 500, "c16main", {"C16_PART": "main"})
            # a DNS endpoint needs a process of its own (one handler table per process in miekg/dns): one child per DNS loss case
            fd = [ex.submit(ctx.run_shards, b, "TestVerifC16", 1, 600, "c16dns%d" % n, {"C16_PART": "dns:%d" % n}) for n in range(2)]
            for f in [fm, fs] + fd:
                f.result()
    return driver.finish(
        ctx, "fault_enumeration",
        "a real client command over an arbitrary upstream list, every listed endpoint being either a REAL socketace server (own recording "
        "target that announces itself with a banner, own connection-counting relay in front) or a scripted failing endpoint. "
        "(A) lists of 1-4 upstreams over {tcp, tcp+tls, ws, wss = web-socket behind a TLS listener, udp}; every upstream object is made from its written address the way the command line does it (Upstreams.UnmarshalFlag), and the scheme of an address is written in every accepted spelling in turn, separately for every (kind, manner): ws as http:// | ws://, wss as https:// | wss://, udp as udp:// | udp4:// (the reference model does not know spellings); a fixed block runs every spelling x {server that can secure the session, server that cannot} x --secure off/on, alone and ahead of an upstream that meets the requirement; (every second list of 2+ entries spells its hosts in turn localhost / 127.0.0.1 / [::1] - the IPv6 literal with server, relay and scripted endpoints listening on ::1; probed once, skipped and noted in the evidence where the machine has no ::1 -, each real endpoint holding a certificate valid for its own spelling only (DNS localhost / IP 127.0.0.1 / IP ::1), the verifying client trusting both issuing CAs; udp4:// becomes udp6:// on ::1; a fixed block runs every kind x every host spelling x --secure off/on, alone and ahead of a healthy upstream spelled differently; the reuse waves and the loss histories on tcp / tcp+tls / ws take the host spellings in turn as well; half of the connections served by a reachable forward address end with a reset from the forward target or an aborting application, after which the upstreams must still be untouched): every failing subset for lengths 1-3 (x3 quick / x10 thorough with manners and "
        "kinds handed out round-robin) and a seeded sample of 4-entry lists; failing manners {refused, handshake answered 400 / garbage / closed, "
        "plain server while --secure, silent = accepts and never answers (also after the carrier's own TLS / websocket handshake; udp: closed port; "
        "also only after a valid '200' to the announce request, and inside StartTLS after '200 StartTLS' + '101' - on tcp, tcp+tls, ws, udp; wss: silent before and after the TLS handshake; a dns:// (DNS tunnel) upstream with 1, 2, 3 resolver candidates ALL of which are dead - closed ports, a resolver answering rcode REFUSED, one answering garbage (thorough: one that never answers) - written ?dns=a,b / ?dns=a&dns=b / ?dns=udp://a,udp://b, the name servers of /etc/resolv.conf coming after them, listed before / after a healthy upstream of another kind, behind a failing one, and alone; the resolvers are bare UDP sockets, no DNS server is involved; judged like a silent upstream, and when the windows have run out while the process burns CPU the verdict is a violation only if one dead resolver has by then been contacted from >= 1000 different client sockets (the reference model dials a candidate once per attempt; 2 seen on the unchanged tree), else inconclusive)}; "
        "forward address {none, reachable, refused} for every list; oracle: the application is served by the forward target if reachable, else by the "
        "first good upstream in list order, else its connection is closed; with a reachable forward no upstream is contacted; under --secure the connection served by an upstream must run over a session that the SERVER, too, holds to be secured (server.session events of the case; only byte relays sit between client and server). Silent upstreams: "
        "violation only if the client's Connect call on the silent entry is still running after >= 95 s without the next upstream being tried and "
        "the stall rule holds. (B) (kinds as in (A), spellings in turn) m in {2,8,32} local connections at once with a sleep inside the client's connect lock, a connection for a channel no server offers (refused), then two more: exactly one "
        "physical connection at the relay and keyed data verified on every one. (C) loss histories on tcp / tcp+tls / ws (written http:// and ws:// in turn): relay cut by FIN or RST "
        "while idle / in the middle of a transfer / inside an open (hook between lock release and stream open); server restart on the same "
        "address (listener gone + connections reset + new server), restart with an attempt while down, server gone for good with a second upstream "
        "listed; a BURST of m in {2,8} local connections at once after a FIN/RST cut (idle / mid-transfer; each history x3 quick / x8 thorough, hooks "
        "stagger the interleavings between lock release and stream open): every one served with verified data twice over, exactly ONE new physical "
        "session (relay count corroborated by the server's accepted-session count) also after one more connection; the first listed upstream is down at start (session with the second), comes up, then the session is cut by FIN/RST: the next connection must be served by the FIRST upstream again; after a cut and re-connect the connection served by the new session is held for 70 s and used again, and one more is opened (the new session must outlive the remains of the lost one, no further physical session); black-holed carrier on udp, udp with a pre-shared key and dns (thorough: also tcp/ws), judged after the client itself gave up a connection on the dead session; dns server restarted (it has forgotten the session; 100 s without progress on the next connection = never given up). Then the "
        "NEXT local connection must be served by the right server with verified data. Distinct = the whole case descriptor; non-trivial = the "
        "served/closed/stalled outcome was observed and compared with the model.",
        ["loopback sockets stand for the network; a server restart is emulated by shutting the server command down, resetting its connections at the relay "
         "and starting a new server command on the same address",
         "the 500 ms pause between a scripted loss and the next local connection is workload, not oracle",
         "a silent upstream is judged only after 95 s without the next upstream being tried"],
        min_distinct=20)
