"""C17 run plan (DESIGN.md §4 C17)."""
import concurrent.futures

import driver


def run(ctx):
    pkg = "internal/zzverif/c17"
    b = ctx.build(pkg)
    if ctx.replay:
        ctx.run_shards(b, "TestVerifC17", 1, 600, "c17")
    else:
        quick = ctx.tier == "quick"
        ex = concurrent.futures.ThreadPoolExecutor(max_workers=1)
        aged = ex.submit(ctx.run_shards, b, "TestVerifC17", 1, 1500, "c17aged", {"VERIF_C17_PART": "aged"})
        ctx.run_shards(b, "TestVerifC17", 32 if quick else 38, 900 if quick else 3400, "c17")
        # the tcp and ws case lists once more through PipeData's traffic-dump copy path
        ctx.run_shards(b, "TestVerifC17", 2, 900, "c17dump", extra_env={"SOCKETACE_PIPE_DEBUG": "1", "VERIF_CARRIERS": "tcp,ws", "VERIF_TIER": "quick"})
        br = ctx.build(pkg, race=True)
        ctx.run_shards(br, "TestVerifC17", 11, 1500 if quick else 3400, "c17race", extra_env={"VERIF_TIER": "quick", "VERIF_C17_NOLATE": "1"}, race=True)
        aged.result()
        ex.shutdown()
    return driver.finish(
        ctx, "exploration",
        "for every carrier x closer {application, target} x payload {0,1,4096,32768,65537,1MiB,3MiB} x {full close right after the last Write returns, "
        "half-close then read to the end} x {0, 3 other busy logical connections on the session} x {other end idle, other end itself writing}: the other end must "
        "read exactly the keyed payload and then end-of-stream, and after a half-close the closer's own read side must terminate once the other end closes; delays "
        "{none, yield, 5 ms} at the pipe.beforeCloseUp/Down hooks widen the last-write/close race; late close (35/65 s of silence, then 256 KiB and close); the tcp and ws case lists once more with SOCKETACE_PIPE_DEBUG=1 (traffic-dump copy path); 4000 (thorough 20000) short logical connections in rapid succession, 8 at a time, on tcp (both closers), ws and unix: 65537 bytes in 4 KiB writes, close at once (the last data frame and the FIN travel back to back); 150 (thorough 1000) connections on tcp, ws, udp that the application opens and closes at once without writing (the target must see each: a connection, no data, end-of-stream); a write and close while a sibling connection of the session holds 3 MiB that its target does not read (under the shared 4 MiB receive buffer); a paced 1 MiB transfer that ends with an orderly close while a sibling connection of the same session is aborted (closed with unread data pending / reset); on the dns carrier a session whose upstream packet counter has gone past 65535 (one connection writes 14 MiB and closes, then a write and close in each direction on the same session); stall rule instead of deadlines; repeated under -race.",
        ["the harness holds both ends of the logical connection", "bounded time is restated by the stall rule (W=20s quick / 45s thorough without any byte of progress)"])
