"""C18 run plan (DESIGN.md §4 C18): address schemes select the documented transport, or are rejected.

One Go harness (internal/zzverif/c18) holds both monitors; the black-box one needs the real binary,
built here from the working tree and handed over through VERIF_C18_BIN.
"""
import os
import signal

import driver


def _sweep(binary):
    """Kill any process still running the binary of this run (there should be none)."""
    left = []
    for p in os.listdir("/proc"):
        if not p.isdigit():
            continue
        try:
            exe = os.readlink("/proc/%s/exe" % p)
        except OSError:
            continue
        if exe.split(" (deleted)")[0] == binary:
            left.append(int(p))
            try:
                os.kill(int(p), signal.SIGKILL)
            except OSError:
                pass
    return left


def run(ctx):
    b = ctx.build("internal/zzverif/c18")
    binary = ctx.build_main()
    env = {"VERIF_C18_BIN": binary}
    n = 1 if ctx.replay else 14
    timeout = 420 if ctx.tier == "quick" else 1500
    ctx.run_shards(b, "TestVerifC18", n, timeout, "c18", extra_env=env)
    if ctx.tier == "thorough" and not ctx.replay:
        # checkptr / scheduling perturbation on the parsers only (DESIGN.md §3): in-process monitor, quick list
        br = ctx.build("internal/zzverif/c18", race=True)
        ctx.run_shards(br, "TestVerifC18", 8, 1500, "c18race", extra_env={"VERIF_TIER": "quick", "VERIF_C18_BIN": ""}, race=True)
    left = _sweep(binary)

    def post(agg):
        for k, wl in agg["sets"].items():
            if k.startswith("worklist_hash:") and len(wl) > 1:
                agg["inconclusive"].append(dict(why="shards built different work lists (%s): %s" % (k, sorted(wl)), case=None, child="plan"))
        if left:
            agg["inconclusive"].append(dict(why="stray socketace processes had to be killed after the run: %s" % left, case=None, child="plan"))

    return driver.finish(
        ctx, "exploration",
        "reference table transcribed from README.md (scheme -> transport kind, socket family, encrypted) for the four positions "
        "(server address, channel address, upstream URL, listener spec). In-process monitor: every documented scheme, every "
        "scheme the code accepts beyond the README, and near-misses (unknown schemes, +tls/+ssl misuse, upper/mixed case, "
        "missing host/port, empty, blanks, damaged URLs, extra '~'/'->' separators, missing/non-string `address`, non-map items, "
        "PRNG mutants of the scheme part) through the real parsers in YAML (flags.YamlParser on a go-flags parser built like "
        "main), JSON and command-line form; oracle: no panic, Go type and parsed scheme equal the table, the forms agree; then "
        "the real Startup/Connect/Start/OpenConnection on ephemeral endpoints with a transport classifier (plaintext "
        "X-SOCKETACE announce, TLS, websocket upgrade plain/TLS, KCP, DNS) and recorders: observed transport, encryption, "
        "bound endpoint and the secure flag equal the table. Black-box monitor: the real binary with generated YAML files / "
        "command lines, sockets of the child read from /proc, same classifier; malformed input must end the process with a "
        "non-zero exit and a message and no Go panic trace. Context (parse monitor): every item is parsed again inside a larger "
        "file - next to a valid section of the other command in the same YAML document (before and after it; the file is parsed "
        "8 (quick) / 24 (thorough) times with a fresh parser because the order in which the sections are visited is Go's map "
        "order), in a multi-document file ('---', before/after), and with a valid sibling item before/after it in the same "
        "YAML/JSON list; oracle: what the parser says about the item alone is what it says in every context and repetition "
        "(rejected stays rejected, accepted stays the same object). Reuse (start and black-box monitors): every configured "
        "object is used more than once - 3 (quick) / 5 (thorough) Connects on the same upstream object, two or three local "
        "connections through the same client process (so that the carrier is reopened on the same upstream), further "
        "connections through the same listener / channel, further clients probing the same server; every use is judged by "
        "the same table (signature prefix reuse-). Two-address position (listener spec name~listen~forward, "
        "c18_forward_test.go): every forward part - plain tcp/unix, schemes that ask for encryption (+tls, +ssl, https, ...), "
        "unknown schemes and qualifiers, case variants, missing host/port, damaged URLs, 120 (quick) / 3000 (thorough) PRNG "
        "mutants of the forward scheme - behind good tcp/unix/stdin listen parts, and every listen part of the lists above "
        "(good, unknown, +tls misuse, missing host/port, damaged URLs) once more in front of a good, a +tls, a unix and a "
        "damaged forward part; all of them through the parse monitor (forms, contexts), the good-listen ones through Start "
        "and a selection through the real binary, with a plain recorder where the forward part points (TCP port or unix "
        "socket): a live plain tcp:// / unix:///abs forward must be tried first, and whatever arrives at the place a forward "
        "part names must be the transport its scheme says (never plaintext where the scheme asks for encryption, nothing at "
        "all for an unknown scheme); going to the upstreams instead is always accepted (signatures listener:<class>:forward-*; "
        "a crash on a bad listen part followed by a forward part: listener:<form>:<listen class>+forward:panic@site). "
        "Pair monitor (c18_pair_test.go): every upstream spelling unmarshalUpstream accepts for a stream / datagram carrier "
        "(tcp, tcp+tls, http, https, ws, wss; unix, unix+tls; stdin, stdin+tls; udp, udp4; upper/mixed-case spellings, more of "
        "them by PRNG in the thorough tier) as the real upstream object made from its command-line form, connected to REAL "
        "servers of every transport kind of its socket family (tcp, tcp+tls, http, https / unix, unix+tls / stdin, stdin+tls / "
        "udp: matching and mismatching pairs), each with and without a certificate (StartTLS offered or not) and with "
        "mustSecure off and on, through a recording relay (TCP, unix, pipes, UDP). Oracle = the same table: every connection "
        "the client opens starts as its scheme says (TLS record layer from the first byte / clear announce / websocket "
        "upgrade / datagram), a mismatching pair is rejected and never served, a matching pair connects (unless mustSecure "
        "cannot be met), Secure()/SecurityTech of the client connection equal what the server reports (server.session hook) "
        "and agree with the wire ('underlying' only over outer TLS, 'tls' only after a StartTLS handshake seen on the wire), and "
        "a marker written through the established connection is readable on the wire (websocket frames unmasked) exactly "
        "when the session is reported insecure; mustSecure is never met by a clear-text wire (signatures "
        "upstream:pair:<upstream scheme>-><server scheme>:<kind>). "
        "A case is distinct by (monitor, input form [+context], position, input).",
        ["the README line references are those of the README at the time the table was transcribed",
         "a scheme that the code accepts but the README does not list is only checked for its natural reading when accepted",
         "late rejection (address accepted by the parser, refused with an error at Startup/Connect) counts as rejected",
         "channel/listener/upstream near-misses that fail only when a connection is attempted are not judged as accepted",
         "context: the valid section placed next to the item is the first candidate that the parser accepts when it stands alone "
         "(client: listen+upstream, listen, insecure only; server: servers+channels, channels)",
         "forward part: the README names no schemes for it; tcp and unix are taken as documented (README L57, L384-388), "
         "unixpacket/tcp4/tcp6 as code-only; a forward part on a datagram family (udp, unixgram) is parsed but never started",
         "pair: a plain stdin upstream against a stdin+tls server is left out (the TLS stdio server gives up silently on a non-TLS "
         "first record and a client on a pipe has no deadline: Connect waits for ever; nothing is served); dns and unixgram/"
         "unixpacket upstreams are not paired (judged by the other monitors)",
         "reuse: a stdio upstream / stdio server has one peer per process and is used once; the black-box client is re-used for "
         "stream carriers (socket, websocket) only, where one accepted connection at the recorder is one attempt of the client"],
        extra_cov={"exhaustive": False}, post=post)
