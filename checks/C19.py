"""C19 run plan (DESIGN.md §4 C19): stream wrappers close their resource exactly once."""
import driver


def run(ctx):
    b = ctx.build("internal/streams")
    n = 1 if ctx.replay else 16
    ctx.run_shards(b, "TestVerifC19", n, 600 if ctx.tier == "quick" else 3000, "c19", extra_env={"GOMAXPROCS": "1", "GOGC": "400"})
    space = ("every configuration of wrapper depth 1-2 built from the 12 constructors (NewSafe/Named Connection|Stream|Reader|Writer, "
             "NewReadWriteCloser, NewSimulatedConnection, NewStreamConnection, NewBufferedInputConnection) over counting fakes whose Close "
             "succeeds or fails (every combination; 788 configurations) x ")
    if ctx.tier == "quick":
        sub = space + ("every history of length 0-3 over {Read, Write, Close, Closed, String, TryClose, LogClose} on any wrapper of the "
                       "configuration; plus every history of length 4 over {Read, Write, Close, Closed, String} for all of these configurations "
                       "except those with a pair outermost over at least one wrapped half AND a mixed succeed/fail pattern (those get length 4 "
                       "in the thorough tier only; stat:exhaustive_configurations_with_len4 counts the ones done)")
    else:
        sub = space + ("every history of length 0-4 over {Read, Write, Close, Closed, String, TryClose, LogClose} on any wrapper of the "
                       "configuration")
    carriers = ("; carrier family: NewStreamConnection(w, u) with w a stream fake (Close succeeds / fails) and u every depth-1 composition of "
                "the five connection constructors over a fake that succeeds / fails (u has its own handle in the history), bare (20 "
                "configurations) and as the argument of each of the 11 one-argument constructors and as the reader / writer half of a pair "
                "(260 configurations) x ")
    if ctx.tier == "quick":
        sub += carriers + ("every history of length 0-3 over the seven calls on any wrapper incl. those of the carrier; length 4 over the five "
                           "calls of the statement for the 20 bare ones")
    else:
        sub += carriers + ("every history of length 0-4 over the seven calls on any wrapper incl. those of the carrier; plus the bare form over "
                           "every carrier of depth exactly 2 (132 configurations) with every history of length 0-3")
    sub += ("; construction-time family: every configuration of the two families above that has at least two wrappers x every set of "
            "wrappers built by a Build step of the history instead of before it (closed upwards, not empty, not all) x every history of "
            + ("1-3 calls (two wrappers) / 1-2 calls (three wrappers)" if ctx.tier == "quick" else "1-4 calls (two wrappers) / 1-3 calls (three wrappers)")
            + " over the seven calls on the wrappers built so far, with the Build steps at every possible place after the first call "
            "(wrappers left unbuilt are built by the epilogue)")
    return driver.finish(
        ctx, "exploration",
        "sequential call histories on real wrapper compositions over counting fake resources, compared call by call with a reference model "
        "of what the statement fixes: (1) no fake's Close is called twice, and it has been called exactly once as soon as the history has "
        "closed any wrapper above it; (2) every Close (or LogClose) after the first Close of the same wrapper object returns nil, also when "
        "the resource's Close fails; (3) W.Closed() is false until W's own Close and true once W.Close() was called: it is asserted false while neither "
        "W nor a wrapper above W has been closed (an outer Close closes what it holds: not asserted) and no wrapper whose closed flag W "
        "shares has been closed (a Named*/Simulated/Stream/Buffered wrapper built directly over a Safe* wrapper of its family keeps that "
        "object as its flag holder; which object holds the flag is observed by identity) - closes of other wrappers BELOW W do not change "
        "W's answer (clause closed-true-before-own-close; stat:closed_asserted_false_with_only_inner_wrappers_closed); (4) a reader+writer "
        "pair answers false while one half is certainly open and true when both halves are certainly closed. After each history every "
        "wrapper is asked Closed() once more. A panic in any call is a violation signed by its site. Exhaustive part: see "
        "exhaustive_subspace; random part: seeded configurations of depth <=4 (pairs branch, so up to 15 wrappers) with histories of "
        "1-12 calls. Carriers: a StreamWrappedConnection also holds the connection it runs over (`underlying`); in the carrier "
        "families that connection is itself a composition of this package's connection wrappers whose handles take part in the history "
        "(written StreamConnection(w;over=u)), so it can be closed through its own handle before, between or after the calls on the "
        "stream-wrapped connection and on the wrappers above it. The carrier is not a resource of the stream-wrapped connection: after "
        "a close of the carrier alone, the stream-wrapped connection and everything above it must still answer Closed()==false and "
        "their first Close must still reach the wrapped stream exactly once (stat:first_close_at_or_above_streamconnection_over_closed_carrier, "
        "stat:closed_asserted_false_over_closed_carrier count how often these situations were really compared); the carrier's own fakes "
        "obey rule (1) with respect to the carrier's wrappers; the carrier's Closed() is not asserted once the stream-wrapped connection "
        "or a wrapper above it has been closed (closing the carrier along with the stream is allowed, not required). Violations seen in "
        "that situation carry the suffix :over-closed-carrier. Besides the exhaustive carrier family (see exhaustive_subspace) there "
        "are seeded random configurations of depth <=4 in which at least one StreamConnection runs over a wrapper composition of depth "
        "1-2 (carrier_random_*). Construction time: histories may contain Build steps - the wrappers of a `late` set are constructed "
        "(real constructor, arguments first) at that point of the history instead of before it, i.e. at every point of the life of what "
        "they wrap: unused, read/written, closed through its own handle, closed with a failing resource close "
        "(stat:wrappers_built_over_closed_inner_wrapper, wrappers_built_over_inner_wrapper_whose_close_failed, "
        "wrappers_built_over_read_or_written_inner, closed_asserted_false_on_wrapper_built_over_closed_inner, "
        "first_close_of_wrapper_built_over_closed_inner); the model knows nothing about construction time. Violations signed by a wrapper "
        "that was built over an already closed inner wrapper carry the suffix :built-over-closed-inner. Exhaustive part: see "
        "exhaustive_subspace; random part: configurations of depth <=4 (every second one with carriers), a fresh late set and 2-15 "
        "steps with interleaved Build steps per history (late_random_*). A case is one (configuration, history); distinct_nontrivial only keys exhaustive histories of length <=2 and the "
        "random ones (the longer exhaustive histories are counted in stat:exhaustive_histories_* and in evaluations).",
        ["sequential histories only: the property quantifies over call sequences, not schedules",
         "the resource of a StreamWrappedConnection is its `wrapped` stream; its `underlying` net.Conn (addresses/deadlines only) is not owned: "
         "outside the carrier families it is a separate plain fake that is observed only; in the carrier families it is a wrapper composition "
         "with its own handle, standing on fakes of its own (never the same fake as the wrapped stream's)",
         "a pair's two halves stand on two different fakes (tree-shaped compositions; no resource shared by two branches)",
         "the result of the FIRST Close of a wrapper is not asserted (the statement only fixes the repeats)",
         "fakes are closed through wrappers only: a wrapper is never built over a bare fake that the harness closed itself (a second Close "
         "of that fake by the wrapper would be the harness's doing, not a defect)"],
        extra_cov={"exhaustive": False, "exhaustive_subspace": sub},
        min_distinct=1 if ctx.replay else 2)
