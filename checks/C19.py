"""C19 run plan (DESIGN.md §4 C19): stream wrappers close their resource exactly once."""
import driver


def run(ctx):
    b = ctx.build("internal/streams")
    n = 1 if ctx.replay else 16
    ctx.run_shards(b, "TestVerifC19", n, 600 if ctx.tier == "quick" else 3000, "c19", extra_env={"GOMAXPROCS": "1", "GOGC": "400"})
    space = ("every configuration of wrapper depth 1-2 built from the 12 constructors (NewSafe/Named Connection|Stream|Reader|Writer, "
             "NewReadWriteCloser, NewSimulatedConnection, NewStreamConnection, NewBufferedInputConnection) over counting fakes whose Close "
             "succeeds or fails (every combination; 788 configurations) x ")
    if ctx.tier == "quick":
        sub = space + ("every history of length 0-3 over {Read, Write, Close, Closed, String, TryClose, LogClose} on any wrapper of the "
                       "configuration; plus every history of length 4 over {Read, Write, Close, Closed, String} for all of these configurations "
                       "except those with a pair outermost over at least one wrapped half AND a mixed succeed/fail pattern (those get length 4 "
                       "in the thorough tier only; stat:exhaustive_configurations_with_len4 counts the ones done)")
    else:
        sub = space + ("every history of length 0-4 over {Read, Write, Close, Closed, String, TryClose, LogClose} on any wrapper of the "
                       "configuration")
    carriers = ("; carrier family: NewStreamConnection(w, u) with w a stream fake (Close succeeds / fails) and u every depth-1 composition of "
                "the five connection constructors over a fake that succeeds / fails (u has its own handle in the history), bare (20 "
                "configurations) and as the argument of each of the 11 one-argument constructors and as the reader / writer half of a pair "
                "(260 configurations) x ")
    if ctx.tier == "quick":
        sub += carriers + ("every history of length 0-3 over the seven calls on any wrapper incl. those of the carrier; length 4 over the five "
                           "calls of the statement for the 20 bare ones")
    else:
        sub += carriers + ("every history of length 0-4 over the seven calls on any wrapper incl. those of the carrier; plus the bare form over "
                           "every carrier of depth exactly 2 (132 configurations) with every history of length 0-3")
    return driver.finish(
        ctx, "exploration",
        "sequential call histories on real wrapper compositions over counting fake resources, compared call by call with a reference model "
        "of what the statement fixes: (1) no fake's Close is called twice, and it has been called exactly once as soon as the history has "
        "closed any wrapper above it; (2) every Close (or LogClose) after the first Close of the same wrapper object returns nil, also when "
        "the resource's Close fails; (3) W.Closed() is false while no wrapper of W's chain (ancestors, W, descendants) has been closed and "
        "true once W.Close() was called - states where only another wrapper of the chain was closed are not asserted; (4) a reader+writer "
        "pair answers false while one half is certainly open and true when both halves are certainly closed. After each history every "
        "wrapper is asked Closed() once more. A panic in any call is a violation signed by its site. Exhaustive part: see "
        "exhaustive_subspace; random part: seeded configurations of depth <=4 (pairs branch, so up to 15 wrappers) with histories of "
        "1-12 calls. Carriers: a StreamWrappedConnection also holds the connection it runs over (`underlying`); in the carrier "
        "families that connection is itself a composition of this package's connection wrappers whose handles take part in the history "
        "(written StreamConnection(w;over=u)), so it can be closed through its own handle before, between or after the calls on the "
        "stream-wrapped connection and on the wrappers above it. The carrier is not a resource of the stream-wrapped connection: after "
        "a close of the carrier alone, the stream-wrapped connection and everything above it must still answer Closed()==false and "
        "their first Close must still reach the wrapped stream exactly once (stat:first_close_at_or_above_streamconnection_over_closed_carrier, "
        "stat:closed_asserted_false_over_closed_carrier count how often these situations were really compared); the carrier's own fakes "
        "obey rule (1) with respect to the carrier's wrappers; the carrier's Closed() is not asserted once the stream-wrapped connection "
        "or a wrapper above it has been closed (closing the carrier along with the stream is allowed, not required). Violations seen in "
        "that situation carry the suffix :over-closed-carrier. Besides the exhaustive carrier family (see exhaustive_subspace) there "
        "are seeded random configurations of depth <=4 in which at least one StreamConnection runs over a wrapper composition of depth "
        "1-2 (carrier_random_*). A case is one (configuration, history); distinct_nontrivial only keys exhaustive histories of length <=2 and the "
        "random ones (the longer exhaustive histories are counted in stat:exhaustive_histories_* and in evaluations).",
        ["sequential histories only: the property quantifies over call sequences, not schedules",
         "the resource of a StreamWrappedConnection is its `wrapped` stream; its `underlying` net.Conn (addresses/deadlines only) is not owned: "
         "outside the carrier families it is a separate plain fake that is observed only; in the carrier families it is a wrapper composition "
         "with its own handle, standing on fakes of its own (never the same fake as the wrapped stream's)",
         "a pair's two halves stand on two different fakes (tree-shaped compositions; no resource shared by two branches)",
         "the result of the FIRST Close of a wrapper is not asserted (the statement only fixes the repeats)"],
        extra_cov={"exhaustive": False, "exhaustive_subspace": sub},
        min_distinct=1 if ctx.replay else 2)
