"""C19 run plan (DESIGN.md §4 C19): stream wrappers close their resource exactly once."""
import driver


def run(ctx):
    b = ctx.build("internal/streams")
    n = 1 if ctx.replay else 16
    ctx.run_shards(b, "TestVerifC19", n, 600 if ctx.tier == "quick" else 3000, "c19", extra_env={"GOMAXPROCS": "1", "GOGC": "400"})
    space = ("every configuration of wrapper depth 1-2 built from the 12 constructors (NewSafe/Named Connection|Stream|Reader|Writer, "
             "NewReadWriteCloser, NewSimulatedConnection, NewStreamConnection, NewBufferedInputConnection) over counting fakes whose Close "
             "succeeds or fails (every combination; 788 configurations) x ")
    if ctx.tier == "quick":
        sub = space + ("every history of length 0-3 over {Read, Write, Close, Closed, String, TryClose, LogClose} on any wrapper of the "
                       "configuration; plus every history of length 4 over {Read, Write, Close, Closed, String} for all of these configurations "
                       "except those with a pair outermost over at least one wrapped half AND a mixed succeed/fail pattern (those get length 4 "
                       "in the thorough tier only; stat:exhaustive_configurations_with_len4 counts the ones done)")
    else:
        sub = space + ("every history of length 0-4 over {Read, Write, Close, Closed, String, TryClose, LogClose} on any wrapper of the "
                       "configuration")
    return driver.finish(
        ctx, "exploration",
        "sequential call histories on real wrapper compositions over counting fake resources, compared call by call with a reference model "
        "of what the statement fixes: (1) no fake's Close is called twice, and it has been called exactly once as soon as the history has "
        "closed any wrapper above it; (2) every Close (or LogClose) after the first Close of the same wrapper object returns nil, also when "
        "the resource's Close fails; (3) W.Closed() is false while no wrapper of W's chain (ancestors, W, descendants) has been closed and "
        "true once W.Close() was called - states where only another wrapper of the chain was closed are not asserted; (4) a reader+writer "
        "pair answers false while one half is certainly open and true when both halves are certainly closed. After each history every "
        "wrapper is asked Closed() once more. A panic in any call is a violation signed by its site. Exhaustive part: see "
        "exhaustive_subspace; random part: seeded configurations of depth <=4 (pairs branch, so up to 15 wrappers) with histories of "
        "1-12 calls. A case is one (configuration, history); distinct_nontrivial only keys exhaustive histories of length <=2 and the "
        "random ones (the longer exhaustive histories are counted in stat:exhaustive_histories_* and in evaluations).",
        ["sequential histories only: the property quantifies over call sequences, not schedules",
         "the resource of a StreamWrappedConnection is its `wrapped` stream; its `underlying` net.Conn (addresses/deadlines only) is a separate "
         "fake that is observed but not part of the oracle",
         "a pair's two halves stand on two different fakes (tree-shaped compositions; no resource shared by two branches)",
         "the result of the FIRST Close of a wrapper is not asserted (the statement only fixes the repeats)"],
        extra_cov={"exhaustive": False, "exhaustive_subspace": sub},
        min_distinct=1 if ctx.replay else 2)
