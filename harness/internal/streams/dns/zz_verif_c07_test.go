package dns

// C07: the DNS tunnel delivers every byte exactly once, in order (DESIGN.md §4 C07).
// Real ClientDnsConnection <-> real ServerDnsListener/userConnection through the adversarial
// in-memory communicator of zz_verif_shared_comm_test.go.

import (
	"encoding/json"
	"fmt"
	"io"
	"math/rand"
	"runtime"
	"sync"
	"sync/atomic"
	"testing"
	"time"

	"github.com/bokysan/socketace/v2/internal/streams/dns/commands"
	"github.com/bokysan/socketace/v2/internal/streams/dns/util"
	"github.com/bokysan/socketace/v2/internal/util/enc"
	"github.com/bokysan/socketace/v2/internal/zzverif/vcommon"
	mdns "github.com/miekg/dns"
	log "github.com/sirupsen/logrus"
	"golang.org/x/net/dns/dnsmessage"
)

type c07Scenario struct {
	Name        string  `json:"name"`
	Full        bool    `json:"full_handshake"` // real Handshake() incl. the built-in poll goroutine
	QType       uint16  `json:"qtype"`
	Up          string  `json:"up_codec"`
	Down        string  `json:"down_codec"`
	UpFrag      uint32  `json:"up_frag"`
	DownFrag    uint32  `json:"down_frag"`
	StartC2S    uint16  `json:"start_seq_c2s"`
	StartS2C    uint16  `json:"start_seq_s2c"`
	BytesC2S    int64   `json:"bytes_c2s"`
	BytesS2C    int64   `json:"bytes_s2c"`
	Script      string  `json:"script"` // transparent | random | everyk | wraploss | bursts | dupstorm | replay
	PLostQ      float64 `json:"p_query_lost"`
	PLostA      float64 `json:"p_answer_lost"`
	PDup        float64 `json:"p_dup"`
	PReplay     float64 `json:"p_replay"`
	MaxBurst    int     `json:"max_loss_burst"` // consecutive losses allowed by the script
	K           int     `json:"k"`
	LagMin      int     `json:"lag_min"`
	LagMax      int     `json:"lag_max"`
	WriteMode   string  `json:"write_sizes"`
	HitDir      string  `json:"hit_direction,omitempty"`      // script "exact": c2s | s2c
	HitSeq      uint16  `json:"hit_seq,omitempty"`            // the packet whose exchange gets the fate
	HitFate     string  `json:"hit_fate,omitempty"`           // query-lost | answer-lost | query-dup
	HitTimes    int     `json:"hit_times,omitempty"`          // how many consecutive exchanges of that packet are hit (<=3)
	DupCopies   int     `json:"dup_copies_at_once,omitempty"` // >1: the copies of a duplicated query reach the server at the same time
	ReaderPause int     `json:"reader_pause_ms,omitempty"`    // both readers lag: they sleep that long after every Read and take what has piled up in one gulp (64 KiB buffer)
	ZeroWrites  bool    `json:"zero_length_writes,omitempty"` // every 13th Write of either side is preceded by a Write of no bytes
	Seed        int64   `json:"seed"`
}

func c07Codec(name string) enc.Encoder {
	for _, c := range []byte{'T', 'S', 'U', 'W', 'X', 'V', 'R'} {
		e, _ := enc.FromCode(c)
		if e.Name() == name {
			return e
		}
	}
	panic("codec " + name)
}

type c07Session struct {
	client *ClientDnsConnection
	user   *userConnection
	comm   *vClientComm
	lst    *ServerDnsListener
	scomm  *vServerComm
}

const c07Domain = "t.example.org"

// c07Setup establishes a session. In deterministic mode only the version handshake runs and the
// parameters are set through the real option commands; no background poller exists.
func c07Setup(sc *c07Scenario) (*c07Session, error) {
	scomm := &vServerComm{}
	lst := NewServerDnsListener(c07Domain, scomm)
	comm := newVClientComm(scomm, vAddr(7))
	client, err := NewClientDnsConnection(c07Domain, comm)
	if err != nil {
		return nil, err
	}
	s := &c07Session{client: client, comm: comm, lst: lst, scomm: scomm}
	if sc.Full {
		if err := client.Handshake(); err != nil {
			return nil, fmt.Errorf("handshake: %v", err)
		}
	} else {
		qt := dnsmessage.Type(sc.QType)
		client.Serializer.Upstream.QueryType = &qt
		client.Serializer.Upstream.Encoder = enc.Base32Encoding
		client.Serializer.Downstream.Encoder = enc.Base32Encoding
		if err := client.VersionHandshake(); err != nil {
			return nil, fmt.Errorf("version: %v", err)
		}
		client.Serializer.Upstream.Encoder = c07Codec(sc.Up)
		if err := client.SetEncodingUpstream(); err != nil {
			return nil, err
		}
		if client.Serializer.Upstream.Encoder.Name() != sc.Up {
			return nil, fmt.Errorf("upstream codec %s refused", sc.Up)
		}
		client.Serializer.Downstream.Encoder = c07Codec(sc.Down)
		if err := client.SetEncodingDownstream(); err != nil {
			return nil, err
		}
		if client.Serializer.Downstream.Encoder.Name() != sc.Down {
			return nil, fmt.Errorf("downstream codec %s refused", sc.Down)
		}
		if err := client.SwitchFragmentSize(sc.DownFrag); err != nil {
			return nil, err
		}
		client.Serializer.Upstream.FragmentSize = sc.UpFrag
	}
	c, err := lst.Accept()
	if err != nil {
		return nil, err
	}
	s.user = c.(*userConnection)
	if !sc.Full {
		// starting sequence numbers: both ends of each direction must agree
		client.out.NextSeqNo, s.user.in.NextSeqNo = sc.StartC2S, sc.StartC2S
		s.user.out.NextSeqNo, client.in.NextSeqNo = sc.StartS2C, sc.StartS2C
	} else {
		if sc.UpFrag != 0 {
			client.Serializer.Upstream.FragmentSize = sc.UpFrag
		}
		if sc.DownFrag != 0 {
			if err := client.SwitchFragmentSize(sc.DownFrag); err != nil {
				return nil, err
			}
		}
	}
	return s, nil
}

// direction state shared between writer, reader and the monitor
type c07Dir struct {
	name     string
	key      uint64
	total    int64
	offered  int64 // bytes of returned writes + the buffer of the write in flight
	accepted int64 // sum of n of returned writes
	read     int64
	writeErr int64
	done     int32
}

type c07Verdict struct {
	sig  string
	info map[string]interface{}
}

func c07WriteSizes(mode string, frag int, rng *rand.Rand) func() int {
	base := []int{1, frag - 1, frag, frag + 1, 3*frag + 2}
	for i := range base {
		if base[i] < 1 {
			base[i] = 1
		}
	}
	switch mode {
	case "big":
		return func() int { return 65536 }
	case "one":
		return func() int { return 1 }
	case "mixed":
		return func() int {
			if rng.Intn(40) == 0 {
				if frag < 64 {
					return 256 * frag // (64 KiB in 4-byte chunks makes the queue's quadratic cleaning dominate the run)
				}
				return 65536
			}
			return base[rng.Intn(len(base))]
		}
	default: // "frag"
		return func() int { return base[rng.Intn(len(base))] }
	}
}

// c07OutagePoller: the real handshake with the client's own poll loop; a fragment is accepted by Write at the
// start of a total outage (the Write itself may fail after its retries, but it counts the fragment), then
// nobody but the client's own poller talks while sc.K further exchanges are lost; after the path recovers
// the accepted fragment must arrive and the connection must still be usable.
func c07OutagePoller(rec *vcommon.Rec, sc *c07Scenario) {
	rec.Mark(sc)
	s, err := c07Setup(sc)
	if err != nil {
		rec.Violation("setup:"+sc.Script, sc, err.Error())
		return
	}
	defer func() { s.comm.Close(); s.scomm.Close() }()
	var outage, recovered int32
	var lost, afterRecovery int64
	s.comm.SetScript(func(n int64, q *mdns.Msg) (vFate, int) {
		if atomic.LoadInt32(&outage) != 0 {
			atomic.AddInt64(&lost, 1)
			return vQueryLost, 0
		}
		if atomic.LoadInt32(&recovered) != 0 {
			atomic.AddInt64(&afterRecovery, 1)
		}
		return vDelivered, 0
	})
	key := uint64(sc.Seed)*2 + 1
	// reader on the server side
	var read int64
	var rerr atomic.Value
	go func() {
		buf := make([]byte, 4096)
		for {
			n, err := s.user.Read(buf)
			if n > 0 {
				if bad := vcommon.CheckKeyed(key, atomic.LoadInt64(&read), buf[:n]); bad >= 0 {
					rerr.Store(fmt.Sprintf("mismatch at %d", atomic.LoadInt64(&read)+int64(bad)))
					return
				}
				atomic.AddInt64(&read, int64(n))
			}
			if err != nil {
				return
			}
		}
	}()
	write := func(off int64, n int) (int, error) {
		buf := make([]byte, n)
		vcommon.FillKeyed(key, off, buf)
		return s.client.Write(buf)
	}
	var accepted int64
	// 1. the path works
	n, err := write(0, 300)
	accepted += int64(n)
	if err != nil {
		rec.Violation("full:outage-poller:write-error-on-a-working-path", sc, err.Error())
		return
	}
	// 2. the outage begins; one more fragment is handed to Write
	atomic.StoreInt32(&outage, 1)
	n, werr := write(accepted, 100)
	accepted += int64(n)
	// 3. only the client's own poller talks; wait (wall clock, the poller sleeps between its rounds) until the
	//    outage has swallowed sc.K exchanges
	deadline := time.Now().Add(120 * time.Second)
	for atomic.LoadInt64(&lost) < int64(sc.K) && time.Now().Before(deadline) && !s.client.Closed() {
		time.Sleep(50 * time.Millisecond)
	}
	lostN := atomic.LoadInt64(&lost)
	closedDuringOutage := s.client.Closed()
	// 4. the path recovers. First nobody but the client's own poll loop talks: it is the only thing in the client that
	//    sends a fragment again once the Write that queued it has given up. Four of its exchanges get through (it sleeps
	//    between them; the wait is workload, the verdict is the count) - the accepted fragment must have arrived by then.
	atomic.StoreInt32(&recovered, 1)
	atomic.StoreInt32(&outage, 0)
	if !closedDuringOutage {
		dl := time.Now().Add(150 * time.Second)
		for atomic.LoadInt64(&afterRecovery) < 4 && atomic.LoadInt64(&read) < accepted && time.Now().Before(dl) && !s.client.Closed() {
			time.Sleep(50 * time.Millisecond)
		}
		if got := atomic.LoadInt64(&afterRecovery); got >= 4 && atomic.LoadInt64(&read) < accepted {
			rec.Case(sc.Name, true)
			rec.Violation("full:outage-poller:accepted-bytes-not-sent-again-by-the-client's-own-poll-loop", sc, map[string]interface{}{"accepted": accepted,
				"read_by_peer": atomic.LoadInt64(&read), "lost_exchanges": lostN, "poll_exchanges_delivered_after_recovery": got, "write_error_during_outage": fmt.Sprint(werr)})
			return
		}
		rec.Stat("outage_poller_fragments_delivered_by_the_clients_own_poll_loop", 1)
	}
	for i := 0; i < 200 && atomic.LoadInt64(&read) < accepted; i++ {
		s.client.SendAndReceive(s.client.out.NextChunk())
		time.Sleep(10 * time.Millisecond)
	}
	rec.Case(sc.Name, true)
	rec.Stat("outage_poller_exchanges_lost", lostN)
	rec.Seen("script", sc.Script)
	rec.Sample(map[string]interface{}{"scenario": sc, "lost_exchanges": lostN, "accepted": accepted, "read": atomic.LoadInt64(&read), "write_error_during_outage": fmt.Sprint(werr)})
	info := map[string]interface{}{"accepted": accepted, "read_by_peer": atomic.LoadInt64(&read), "lost_exchanges": lostN,
		"client_closed_itself_during_outage": closedDuringOutage, "write_error_during_outage": fmt.Sprint(werr)}
	if v := rerr.Load(); v != nil {
		info["reader"] = v
		rec.Violation("full:outage-poller:stream-not-a-prefix", sc, info)
		return
	}
	if atomic.LoadInt64(&read) < accepted {
		rec.Violation("full:outage-poller:accepted-bytes-not-delivered-after-faults-stop", sc, info)
		return
	}
	// the connection must still carry data
	n, err = write(accepted, 200)
	accepted += int64(n)
	for i := 0; i < 200 && atomic.LoadInt64(&read) < accepted; i++ {
		s.client.SendAndReceive(s.client.out.NextChunk())
		time.Sleep(5 * time.Millisecond)
	}
	if err != nil || atomic.LoadInt64(&read) < accepted {
		info["after_recovery_write_error"] = fmt.Sprint(err)
		info["read_by_peer"] = atomic.LoadInt64(&read)
		rec.Violation("full:outage-poller:connection-unusable-after-recovery", sc, info)
		return
	}
	rec.Stat("bytes_verified_c2s", atomic.LoadInt64(&read))
}

func c07Run(rec *vcommon.Rec, sc *c07Scenario) {
	if sc.Script == "outage-poller" {
		c07OutagePoller(rec, sc)
		return
	}
	rec.Mark(sc)
	s, err := c07Setup(sc)
	if err != nil {
		// the handshake itself ran over a transparent path: failing is a finding of its own
		rec.Violation("setup:"+sc.Script+":"+fmt.Sprint(sc.Full), sc, err.Error())
		return
	}
	rng := vcommon.NewRand(sc.Seed, "c07/"+sc.Name)
	s.comm.OnSilent = func(q *mdns.Msg, err error) string {
		req, derr := s.user.Serializer.DecodeDnsRequest(commands.ComposeRequest(q, c07Domain))
		if pr, ok := req.(*commands.PacketRequest); ok && derr == nil {
			seq := -1
			if pr.Packet != nil {
				seq = int(pr.Packet.SeqNo)
			}
			return fmt.Sprintf("[packet request seq=%d ack=%d; server expects seq %d, will send %d]", seq, pr.LastAckedSeqNo, s.user.in.NextSeqNo, s.user.out.NextSeqNo)
		}
		return fmt.Sprintf("[request %T decode error %v]", req, derr)
	}
	var phaseTransparent int32
	var consecutiveLoss int
	exactHits := 0
	c2s := &c07Dir{name: "c2s", key: uint64(sc.Seed)*2 + 1, total: sc.BytesC2S}
	s2c := &c07Dir{name: "s2c", key: uint64(sc.Seed)*2 + 2, total: sc.BytesS2C}
	upFrag := int(s.client.Serializer.Upstream.FragmentSize)
	downFrag := int(s.user.Serializer.Downstream.FragmentSize)
	wrapWindow := func() bool {
		// true while either direction is about to use a sequence number next to the 16-bit wrap
		// (estimated from the bytes delivered so far; packets are full fragments except at write ends)
		near := func(v uint16) bool { return v >= 65500 || v <= 40 }
		a := sc.StartC2S + uint16(atomic.LoadInt64(&c2s.read)/int64(maxInt(1, upFrag)))
		b := sc.StartS2C + uint16(atomic.LoadInt64(&s2c.read)/int64(maxInt(1, downFrag)))
		return near(a) || near(b)
	}
	s.comm.DupConcurrent = sc.DupCopies
	s.comm.SetScript(func(n int64, q *mdns.Msg) (vFate, int) {
		if atomic.LoadInt32(&phaseTransparent) != 0 || sc.Script == "transparent" {
			return vDelivered, 0
		}
		lose := func(f vFate) (vFate, int) {
			if consecutiveLoss >= sc.MaxBurst {
				consecutiveLoss = 0
				return vDelivered, 0
			}
			consecutiveLoss++
			return f, 0
		}
		switch sc.Script {
		case "outage":
			// a total outage of sc.K consecutive exchanges (every query lost), starting at exchange sc.LagMin
			if n >= int64(sc.LagMin) && n < int64(sc.LagMin+sc.K) {
				return vQueryLost, 0
			}
			return vDelivered, 0
		case "exact":
			// the exchange that carries one particular packet gets one particular fate (the sequence
			// number is read from the request itself / from the head of the server's queue: no estimate)
			if exactHits < sc.HitTimes {
				seq, has := -1, false
				if sc.HitDir == "c2s" {
					if req, err := s.user.Serializer.DecodeDnsRequest(commands.ComposeRequest(q, c07Domain)); err == nil {
						if pr, ok := req.(*commands.PacketRequest); ok && pr.Packet != nil {
							seq, has = int(pr.Packet.SeqNo), true
						}
					}
				} else if ch := s.user.out.NextChunk(); ch != nil {
					seq, has = int(ch.SeqNo), true
				}
				if has && seq == int(sc.HitSeq) {
					exactHits++
					rec.Stat("exact_hits", 1)
					switch sc.HitFate {
					case "query-lost":
						return vQueryLost, 0
					case "answer-lost":
						return vAnswerLost, 0
					case "query-dup":
						return vQueryDup, 0
					}
				}
			}
			return vDelivered, 0
		case "everyk":
			if n%int64(sc.K) == int64(sc.K)-1 {
				if (n/int64(sc.K))%2 == 0 {
					return lose(vQueryLost)
				}
				return lose(vAnswerLost)
			}
		case "wraploss":
			if wrapWindow() && rng.Intn(2) == 0 {
				if rng.Intn(2) == 0 {
					return lose(vQueryLost)
				}
				return lose(vAnswerLost)
			}
		}
		x := rng.Float64()
		switch {
		case x < sc.PLostQ:
			return lose(vQueryLost)
		case x < sc.PLostQ+sc.PLostA:
			return lose(vAnswerLost)
		case x < sc.PLostQ+sc.PLostA+sc.PDup:
			consecutiveLoss = 0
			return vQueryDup, 0
		case x < sc.PLostQ+sc.PLostA+sc.PDup+sc.PReplay:
			consecutiveLoss = 0
			lag := sc.LagMin
			if sc.LagMax > sc.LagMin {
				lag += rng.Intn(sc.LagMax - sc.LagMin + 1)
			}
			return vReplayOld, lag
		}
		consecutiveLoss = 0
		return vDelivered, 0
	})

	var verdicts []c07Verdict
	var vmu sync.Mutex
	var stop int32
	fail := func(sig string, info map[string]interface{}) {
		vmu.Lock()
		verdicts = append(verdicts, c07Verdict{sig, info})
		vmu.Unlock()
		atomic.StoreInt32(&stop, 1)
	}
	isolated := sc.MaxBurst <= 1

	writer := func(d *c07Dir, w io.Writer, frag int, tag string) {
		defer atomic.StoreInt32(&d.done, 1)
		wr := vcommon.NewRand(sc.Seed, "c07w/"+sc.Name+tag)
		next := c07WriteSizes(sc.WriteMode, frag, wr)
		var off int64
		for i := 0; off < atomic.LoadInt64(&d.total) && atomic.LoadInt32(&stop) == 0; i++ {
			if sc.ZeroWrites && i%13 == 5 {
				// a Write of no bytes moves nothing and must not disturb anything (net.Conn allows it)
				if n, err := w.Write([]byte{}); n != 0 || (err != nil && isolated) {
					fail(d.name+":zero-length-write-misbehaves", map[string]interface{}{"n": n, "err": fmt.Sprint(err)})
					return
				}
				rec.Stat("zero_length_writes", 1)
			}
			sz := int64(next())
			if tot := atomic.LoadInt64(&d.total); off+sz > tot {
				sz = tot - off
			}
			if sz <= 0 {
				break
			}
			buf := make([]byte, sz)
			vcommon.FillKeyed(d.key, off, buf)
			atomic.StoreInt64(&d.offered, off+sz)
			n, err := w.Write(buf)
			if n < 0 || int64(n) > sz {
				fail(d.name+":write-count-out-of-range", map[string]interface{}{"n": n, "len": sz})
				return
			}
			off += int64(n)
			atomic.StoreInt64(&d.accepted, off)
			atomic.StoreInt64(&d.offered, off)
			if err != nil {
				atomic.AddInt64(&d.writeErr, 1)
				if isolated {
					st := s.comm.Stats()
					fail(d.name+":write-error-on-isolated-loss", map[string]interface{}{"err": err.Error(), "n": n, "len": sz, "offset": off,
						"server_sent_nothing": st.ServerErr, "answer_pack_errors": st.PackErr, "last_reason": st.LastErr})
					return
				}
			} else if int64(n) != sz {
				fail(d.name+":short-write-without-error", map[string]interface{}{"n": n, "len": sz})
				return
			}
		}
	}
	reader := func(d *c07Dir, r io.Reader) {
		buf := make([]byte, 65536)
		for atomic.LoadInt32(&stop) == 0 {
			cur := atomic.LoadInt64(&d.read)
			if cur >= atomic.LoadInt64(&d.total) {
				return
			}
			if sc.ReaderPause > 0 {
				time.Sleep(time.Duration(sc.ReaderPause) * time.Millisecond)
			}
			n, err := r.Read(buf)
			if n > 0 {
				rec.StatMax("largest_single_read_bytes", int64(n))
				if bad := vcommon.CheckKeyed(d.key, cur, buf[:n]); bad >= 0 {
					kind := vcommon.Classify(d.key, cur+int64(bad), buf[bad:n], []uint64{c2s.key, s2c.key})
					cls := kind
					if i := indexByte(kind, '('); i > 0 {
						cls = kind[:i]
					}
					fail(d.name+":stream-not-a-prefix:"+cls, map[string]interface{}{"offset": cur + int64(bad), "kind": kind,
						"packet_no": (cur + int64(bad)) / int64(maxInt(1, int(sc.UpFrag)))})
					return
				}
				if cur+int64(n) > atomic.LoadInt64(&d.offered) {
					fail(d.name+":read-beyond-written", map[string]interface{}{"read": cur + int64(n), "offered": atomic.LoadInt64(&d.offered)})
					return
				}
				atomic.StoreInt64(&d.read, cur+int64(n))
			}
			if err != nil {
				if atomic.LoadInt32(&stop) == 0 {
					fail(d.name+":read-error", map[string]interface{}{"err": err.Error(), "at": cur})
				}
				return
			}
		}
	}

	var wg sync.WaitGroup
	start := func(f func()) {
		wg.Add(1)
		go func() { defer wg.Done(); f() }()
	}
	start(func() { writer(c2s, s.client, upFrag, "c") })
	start(func() { writer(s2c, s.user, downFrag, "s") })
	start(func() { reader(c2s, s.user) })
	start(func() { reader(s2c, s.client) })

	// the pump does what the client's own poll loop does, without sleeping
	var pumpStop int32
	var pumpErrs int64
	pumpDone := make(chan struct{})
	go func() {
		defer close(pumpDone)
		for atomic.LoadInt32(&pumpStop) == 0 {
			chunk := s.client.out.NextChunk()
			if err := s.client.SendAndReceive(chunk); err != nil {
				atomic.AddInt64(&pumpErrs, 1)
			}
			runtime.Gosched()
		}
	}()

	allDone := make(chan struct{})
	go func() { wg.Wait(); close(allDone) }()

	// monitor: logical stall rule + wall-clock deadlock watchdog
	lastBytes, lastEx, lastExAtProgress := int64(-1), int64(-1), int64(0)
	lastExChange := time.Now()
	drainStartEx := int64(-1)
	var drainBudget int64
	finished := false
	for !finished {
		select {
		case <-allDone:
			finished = true
			continue
		case <-time.After(20 * time.Millisecond):
		}
		st := s.comm.Stats()
		b := atomic.LoadInt64(&c2s.read) + atomic.LoadInt64(&s2c.read)
		if b != lastBytes {
			lastBytes = b
			lastExAtProgress = st.Exchanges
		}
		if st.Exchanges != lastEx {
			lastEx = st.Exchanges
			lastExChange = time.Now()
		}
		writersDone := atomic.LoadInt32(&c2s.done) != 0 && atomic.LoadInt32(&s2c.done) != 0
		if writersDone && drainStartEx < 0 {
			// faults stop: everything accepted must arrive within a bounded number of exchanges
			atomic.StoreInt32(&phaseTransparent, 1)
			drainStartEx = st.Exchanges
			out := (atomic.LoadInt64(&c2s.accepted)-atomic.LoadInt64(&c2s.read))/int64(maxInt(1, upFrag)) +
				(atomic.LoadInt64(&s2c.accepted)-atomic.LoadInt64(&s2c.read))/int64(maxInt(1, downFrag)) + 2
			drainBudget = 4*out + 64
			// a reader can only finish when everything accepted (not everything planned) arrived
			atomic.StoreInt64(&c2s.total, atomic.LoadInt64(&c2s.accepted))
			atomic.StoreInt64(&s2c.total, atomic.LoadInt64(&s2c.accepted))
			rec.Stat("drain_phases", 1)
		}
		if drainStartEx >= 0 && st.Exchanges-drainStartEx > drainBudget+20000 {
			// (+20000: exchanges the pump performs while this monitor sleeps are not the system's fault)
			if atomic.LoadInt64(&c2s.read) < atomic.LoadInt64(&c2s.accepted) || atomic.LoadInt64(&s2c.read) < atomic.LoadInt64(&s2c.accepted) {
				which := "c2s"
				if atomic.LoadInt64(&c2s.read) >= atomic.LoadInt64(&c2s.accepted) {
					which = "s2c"
				}
				fail(which+":accepted-bytes-not-delivered-after-faults-stop", map[string]interface{}{
					"c2s_accepted": c2s.accepted, "c2s_read": c2s.read, "s2c_accepted": s2c.accepted, "s2c_read": s2c.read,
					"exchanges_since_transparent": st.Exchanges - drainStartEx, "budget": drainBudget})
			}
			break
		}
		if drainStartEx < 0 && st.Exchanges-lastExAtProgress > 400000 {
			which := "c2s"
			if atomic.LoadInt32(&c2s.done) != 0 {
				which = "s2c"
			}
			fail(which+":no-delivery-progress", map[string]interface{}{"exchanges_without_a_byte": st.Exchanges - lastExAtProgress,
				"c2s_read": c2s.read, "s2c_read": s2c.read, "c2s_offered": c2s.offered, "s2c_offered": s2c.offered,
				"client_out_next": s.client.out.NextSeqNo, "server_in_next": s.user.in.NextSeqNo,
				"server_out_next": s.user.out.NextSeqNo, "client_in_next": s.client.in.NextSeqNo})
			break
		}
		if time.Since(lastExChange) > 60*time.Second {
			buf := make([]byte, 1<<16)
			buf = buf[:runtime.Stack(buf, true)]
			fail("deadlock:no-exchange-for-60s", map[string]interface{}{"goroutines": string(buf)})
			break
		}
		if atomic.LoadInt32(&stop) != 0 {
			break
		}
	}
	atomic.StoreInt32(&stop, 1)
	atomic.StoreInt32(&pumpStop, 1)
	select {
	case <-pumpDone:
	case <-time.After(5 * time.Second):
	}
	st := s.comm.Stats()
	for i, n := range st.ByFate {
		rec.Stat("exchanges_"+vFate(i).String(), n)
	}
	rec.Stat("exchanges", st.Exchanges)
	rec.Stat("bytes_verified_c2s", c2s.read)
	rec.Stat("bytes_verified_s2c", s2c.read)
	rec.Stat("packets_c2s", c2s.read/int64(maxInt(1, upFrag)))
	rec.Stat("packets_s2c", s2c.read/int64(maxInt(1, downFrag)))
	rec.Stat("write_errors_surfaced(allowed only for bursts>3)", c2s.writeErr+s2c.writeErr)
	if c2s.read/int64(maxInt(1, upFrag))+int64(sc.StartC2S) > 65536 {
		rec.Stat("wraps_crossed_c2s", 1)
	}
	if s2c.read/int64(maxInt(1, downFrag))+int64(sc.StartS2C) > 65536 {
		rec.Stat("wraps_crossed_s2c", 1)
	}
	rec.StatMax("replay_lag", st.MaxLag)
	rec.Seen("script", sc.Script)
	rec.Seen("codec_pair", sc.Up+"/"+sc.Down)
	rec.Seen("start_seq", fmt.Sprintf("%d/%d", sc.StartC2S, sc.StartS2C))
	rec.Case(sc.Name, c2s.read+s2c.read > 0)
	rec.Sample(map[string]interface{}{"scenario": sc, "exchanges": st.Exchanges, "by_fate": st.ByFate, "bytes_c2s": c2s.read, "bytes_s2c": s2c.read})
	vmu.Lock()
	for _, v := range verdicts {
		mode := "det"
		if sc.Full {
			mode = "full"
		}
		rec.Violation(mode+":"+v.sig, sc, v.info)
	}
	vmu.Unlock()
	// release what can be released; goroutines blocked inside a broken queue are abandoned
	s.comm.Close()
	s.scomm.Close()
}

func indexByte(s string, c byte) int {
	for i := 0; i < len(s); i++ {
		if s[i] == c {
			return i
		}
	}
	return -1
}

func maxInt(a, b int) int {
	if a > b {
		return a
	}
	return b
}

func c07Scenarios(rec *vcommon.Rec) []*c07Scenario {
	rng := vcommon.NewRand(rec.Seed(), "c07/scenarios")
	var out []*c07Scenario
	add := func(sc c07Scenario) {
		sc.Seed = rec.Seed()*1000 + int64(len(out))
		sc.ZeroWrites = len(out)%2 == 1
		sc.Name = fmt.Sprintf("%02d-%s", len(out), sc.Script)
		if sc.Script == "exact" {
			sc.Name += fmt.Sprintf("-%s-%s-%d-x%d", sc.HitDir, sc.HitFate, sc.HitSeq, sc.HitTimes)
		}
		if sc.MaxBurst == 0 {
			// "isolated" losses: a lost exchange is always followed by a delivered one. (The code happens to
			// absorb four consecutive losses; the statement only promises isolated ones, so only those are
			// required not to surface as Write errors.)
			sc.MaxBurst = 1
			if sc.Script == "exact" {
				sc.MaxBurst = sc.HitTimes
			}
		}
		if sc.WriteMode == "" {
			sc.WriteMode = "frag"
		}
		if sc.Up == "" {
			sc.Up, sc.Down = "Base32", "Base32"
		}
		if sc.QType == 0 {
			sc.QType = uint16(util.QueryTypeCname)
		}
		out = append(out, &sc)
	}
	starts := []uint16{0, 1, 127, 128, 32768, 65408, 65535}
	pick := func() uint16 { return starts[rng.Intn(len(starts))] }
	long := int64(72000) // packets: crosses the 16-bit wrap from any start
	// 1. transparent, long, across the wrap, tiny fragments
	add(c07Scenario{Script: "transparent", UpFrag: 4, DownFrag: 6, StartC2S: 0, StartS2C: 0, BytesC2S: long * 4, BytesS2C: long * 6})
	add(c07Scenario{Script: "transparent", UpFrag: 8, DownFrag: 5, StartC2S: pick(), StartS2C: pick(), BytesC2S: long * 8, BytesS2C: long * 5, WriteMode: "mixed"})
	// 2. isolated random losses / duplicates / replays
	add(c07Scenario{Script: "random", PLostQ: 0.02, PLostA: 0.02, PDup: 0.02, PReplay: 0.02, LagMin: 1, LagMax: 300, UpFrag: 7, DownFrag: 9, StartC2S: pick(), StartS2C: pick(), BytesC2S: 9000 * 7, BytesS2C: 9000 * 9})
	add(c07Scenario{Script: "random", PLostQ: 0.05, PLostA: 0.05, UpFrag: 16, DownFrag: 16, StartC2S: 65408, StartS2C: 65535, BytesC2S: 6000 * 16, BytesS2C: 6000 * 16, WriteMode: "mixed"})
	add(c07Scenario{Script: "everyk", K: 3, UpFrag: 5, DownFrag: 5, StartC2S: pick(), StartS2C: pick(), BytesC2S: 5000 * 5, BytesS2C: 5000 * 5})
	add(c07Scenario{Script: "everyk", K: 7, UpFrag: 4, DownFrag: 12, StartC2S: 127, StartS2C: 128, BytesC2S: long * 4, BytesS2C: 20000 * 12})
	// 3. losses exactly around the wrap
	add(c07Scenario{Script: "wraploss", UpFrag: 4, DownFrag: 4, StartC2S: 65408, StartS2C: 65408, BytesC2S: 3000 * 4, BytesS2C: 3000 * 4})
	add(c07Scenario{Script: "wraploss", UpFrag: 6, DownFrag: 6, StartC2S: 32768, StartS2C: 65535, BytesC2S: 34000 * 6, BytesS2C: 3000 * 6, PDup: 0.01})
	// 4. duplicate and replay storms (old queries from >=128 and >=65536 packets ago)
	add(c07Scenario{Script: "dupstorm", PDup: 0.5, UpFrag: 8, DownFrag: 8, StartC2S: pick(), StartS2C: pick(), BytesC2S: 8000 * 8, BytesS2C: 8000 * 8})
	// the same with the copies of every duplicated query arriving at the same time (one handler goroutine per datagram)
	add(c07Scenario{Script: "dupstorm", PDup: 0.5, DupCopies: 2, UpFrag: 8, DownFrag: 8, StartC2S: pick(), StartS2C: pick(), BytesC2S: 8000 * 8, BytesS2C: 8000 * 8})
	add(c07Scenario{Script: "dupstorm", PDup: 0.7, DupCopies: 4, UpFrag: 8, DownFrag: 8, StartC2S: 65000, StartS2C: 65300, BytesC2S: 12000 * 8, BytesS2C: 12000 * 8})
	add(c07Scenario{Script: "replay", PReplay: 0.2, LagMin: 128, LagMax: 2000, UpFrag: 6, DownFrag: 6, StartC2S: pick(), StartS2C: pick(), BytesC2S: 12000 * 6, BytesS2C: 12000 * 6})
	add(c07Scenario{Script: "replay", PReplay: 0.02, LagMin: 65400, LagMax: 65700, UpFrag: 4, DownFrag: 4, StartC2S: 0, StartS2C: 0, BytesC2S: long * 4, BytesS2C: long * 4})
	// 5. heavy bursts: write errors may surface, the prefix property and delivery after the faults stop must still hold
	add(c07Scenario{Script: "bursts", PLostQ: 0.25, PLostA: 0.25, MaxBurst: 12, UpFrag: 10, DownFrag: 10, StartC2S: pick(), StartS2C: pick(), BytesC2S: 3000 * 10, BytesS2C: 3000 * 10})
	// 6. other codecs / record types / realistic fragment sizes, and the real handshake with its own poller
	add(c07Scenario{Script: "random", PLostQ: 0.03, PLostA: 0.03, PDup: 0.03, Up: "Base128", Down: "Base64", QType: uint16(util.QueryTypeTxt), UpFrag: 100, DownFrag: 200, BytesC2S: 400000, BytesS2C: 400000, WriteMode: "mixed"})
	add(c07Scenario{Script: "random", PLostQ: 0.03, PLostA: 0.03, PDup: 0.03, Up: "Base64u", Down: "Raw", QType: uint16(util.QueryTypeNull), UpFrag: 90, DownFrag: 1000, BytesC2S: 300000, BytesS2C: 1500000, WriteMode: "mixed"})
	add(c07Scenario{Script: "random", Full: true, PLostQ: 0.02, PLostA: 0.02, PDup: 0.02, BytesC2S: 300000, BytesS2C: 600000, WriteMode: "mixed"})
	// lagging readers: the application reads every few milliseconds and takes everything that has piled up meanwhile
	add(c07Scenario{Script: "transparent", Full: true, BytesC2S: 6 << 20, BytesS2C: 6 << 20, WriteMode: "mixed", ReaderPause: 5})
	add(c07Scenario{Script: "transparent", Up: "Base128", Down: "Raw", QType: uint16(util.QueryTypeNull), UpFrag: 190, DownFrag: 1000, BytesC2S: 6 << 20, BytesS2C: 12 << 20, WriteMode: "mixed", ReaderPause: 2})
	add(c07Scenario{Script: "random", PLostQ: 0.01, PLostA: 0.01, PDup: 0.02, Up: "Base128", Down: "Raw", QType: uint16(util.QueryTypeNull), UpFrag: 190, DownFrag: 1000, BytesC2S: 3 << 20, BytesS2C: 6 << 20, WriteMode: "mixed", ReaderPause: 3})
	add(c07Scenario{Script: "transparent", Full: true, UpFrag: 5, DownFrag: 5, BytesC2S: 20000 * 5, BytesS2C: 20000 * 5})
	// 6b. a long total outage (longer than any retry ladder) and then recovery: with the real handshake and the
	// client's own poll loop; Write errors may surface during the outage, but the connection must survive it and
	// everything accepted must arrive afterwards
	for _, l := range []int{40, 120, 400} {
		add(c07Scenario{Script: "outage", Full: true, K: l, LagMin: 150, MaxBurst: l, BytesC2S: 60000, BytesS2C: 60000, WriteMode: "mixed"})
		add(c07Scenario{Script: "outage", Full: false, K: l, LagMin: 60, MaxBurst: l, UpFrag: 40, DownFrag: 40, BytesC2S: 30000, BytesS2C: 30000})
	}
	// 6c. the same with nobody but the client's own poll loop talking during the outage (wall-clock paced: the
	// poller sleeps between its rounds), for outages of 20, 45 and 90 lost exchanges
	for _, l := range []int{20, 45, 90} {
		add(c07Scenario{Script: "outage-poller", Full: true, K: l, MaxBurst: l})
	}
	// 7. one particular packet next to the 16-bit wrap gets one particular fate, in either direction
	for _, dir := range []string{"c2s", "s2c"} {
		for _, fate := range []string{"answer-lost", "query-dup", "query-lost"} {
			for _, seq := range []uint16{65534, 65535, 0, 1} {
				for _, times := range []int{1, 3} {
					if times == 3 && !(seq == 65535 || seq == 0) {
						continue
					}
					add(c07Scenario{Script: "exact", HitDir: dir, HitFate: fate, HitSeq: seq, HitTimes: times, UpFrag: 5, DownFrag: 5,
						StartC2S: 65530, StartS2C: 65530, BytesC2S: 40 * 5, BytesS2C: 40 * 5})
				}
			}
		}
	}
	if rec.Thorough() {
		codecs := []string{"Base32", "Base64", "Base64u", "Base85", "Base91", "Base128"}
		downs := []string{"Base32", "Base64", "Base64u", "Base85", "Base91", "Base128", "Raw"}
		qts := []dnsmessage.Type{util.QueryTypeNull, util.QueryTypePrivate, util.QueryTypeTxt, util.QueryTypeCname, util.QueryTypeMx}
		scripts := []string{"random", "everyk", "wraploss", "dupstorm", "replay", "bursts", "transparent"}
		for i := 0; i < 180; i++ {
			sc := c07Scenario{Script: scripts[i%len(scripts)], StartC2S: pick(), StartS2C: pick()}
			sc.UpFrag = uint32(4 + rng.Intn(13))
			sc.DownFrag = uint32(4 + rng.Intn(13))
			pk := int64(2000 + rng.Intn(8000))
			if i%9 == 0 {
				pk = long
			}
			sc.BytesC2S, sc.BytesS2C = pk*int64(sc.UpFrag), pk*int64(sc.DownFrag)
			sc.PLostQ, sc.PLostA, sc.PDup, sc.PReplay = rng.Float64()*0.08, rng.Float64()*0.08, rng.Float64()*0.1, rng.Float64()*0.05
			sc.LagMin, sc.LagMax = 1, 1+rng.Intn(3000)
			sc.K = 2 + rng.Intn(9)
			switch sc.Script {
			case "bursts":
				sc.MaxBurst = 4 + rng.Intn(10)
				sc.PLostQ, sc.PLostA = 0.2, 0.2
			case "dupstorm":
				sc.PDup = 0.3 + rng.Float64()*0.4
			case "replay":
				sc.PReplay = 0.1 + rng.Float64()*0.2
				if i%2 == 0 {
					sc.LagMin, sc.LagMax = 128, 4000
				}
			}
			sc.WriteMode = []string{"frag", "mixed", "frag", "one", "big"}[rng.Intn(5)]
			if sc.WriteMode == "one" {
				sc.BytesC2S, sc.BytesS2C = 3000, 3000
			}
			if i%3 == 0 {
				// only parameter combinations the negotiation can settle on (C11's evidence lists them): the
				// binary-safe record types take every downstream codec, the text record types only the
				// codecs whose alphabet survives DNS presentation format (the others are C10 findings),
				// and A/AAAA/SRV cannot carry the handshake at all
				sc.Up = codecs[rng.Intn(len(codecs))]
				sc.QType = uint16(qts[rng.Intn(len(qts))])
				switch dnsmessage.Type(sc.QType) {
				case util.QueryTypeNull, util.QueryTypePrivate:
					sc.Down = downs[rng.Intn(len(downs))]
				default:
					sc.Down = []string{"Base32", "Base64", "Base64u"}[rng.Intn(3)]
				}
			}
			if i%20 == 19 {
				sc.Full = true
				sc.UpFrag, sc.DownFrag = 0, 0
				sc.BytesC2S, sc.BytesS2C = 200000, 400000
			}
			add(sc)
		}
	}
	return out
}

func TestVerifC07(t *testing.T) {
	log.SetLevel(log.PanicLevel)
	log.SetOutput(io.Discard)
	rec := vcommon.Open()
	defer rec.Close()
	if rec.Replay != nil {
		var sc c07Scenario
		if err := json.Unmarshal(rec.Replay, &sc); err != nil {
			t.Fatal(err)
		}
		c07Run(rec, &sc)
		return
	}
	for i, sc := range c07Scenarios(rec) {
		if rec.Mine(i) {
			c07Run(rec, sc)
		}
	}
}
