// C09, family "colliding-domains": tunnel domains that are DERIVED FROM THE REQUEST'S OWN NAME.
//
// The data part of a query name is cut into labels of 57 characters plus one shorter last label. The other families
// use tunnel domains that can never look like such a label (several labels, fixed text). Here the tunnel domain of a
// case is made of text that also occurs in the data part of the very name the client forms for the request:
//
//	last            the domain is one label, equal to the last label of the data part        (…57….q.q.)
//	last.last       the domain repeats that label twice (a periodic domain)                  (…57….q.q.q.)
//	last.last.last  … three times
//	last.other      the domain's first label is the last data label                          (…57….q.q.net.)
//	other.last      the domain's last label is the last data label                           (…57….q.net.q.)
//	inner           the domain is one label of 57 characters, equal to a full inner label    (l1.D.l3.D.)
//	tail            the domain is one label, equal to the last characters of the last label  (…xyzq.q.)
//
// in the data's own spelling, lower case, upper case and swapped case (the server compares the domain without regard
// to case). Every case then runs through the ordinary monitored execution (c09Runner.run): the oracle is unchanged.
package dns

import (
	"encoding/binary"
	"encoding/hex"
	"fmt"
	"math/rand"
	"strings"

	"github.com/bokysan/socketace/v2/internal/streams/dns/commands"
	"github.com/bokysan/socketace/v2/internal/streams/dns/util"
	"github.com/bokysan/socketace/v2/internal/util/enc"
	"github.com/bokysan/socketace/v2/internal/zzverif/vcommon"
	mdns "github.com/miekg/dns"
)

const c09CollideMaxDomain = 176 // 3*57+2 +3: the longest domain any shape can produce

// c09Placeholder is a stand-in tunnel domain of exactly L characters (labels of 50 'p'): the name a request gets
// below it has the same data labels as the name it gets below any other domain of that length.
func c09Placeholder(L int) string {
	b := make([]byte, L)
	for i := range b {
		if i%51 == 50 && i != L-1 {
			b[i] = '.'
		} else {
			b[i] = 'p'
		}
	}
	return string(b)
}

func c09Alnum(b byte) bool {
	return b >= 'a' && b <= 'z' || b >= 'A' && b <= 'Z' || b >= '0' && b <= '9'
}

// c09PlainLabel: text that is a syntactically plain host-name label (letters and digits; '-' and '_' inside only).
func c09PlainLabel(l []byte) bool {
	if len(l) == 0 || len(l) > 63 {
		return false
	}
	for i, b := range l {
		if c09Alnum(b) {
			continue
		}
		if (b == '-' || b == '_') && i > 0 && i < len(l)-1 {
			continue
		}
		return false
	}
	return true
}

func c09SwapCase(s string) string {
	b := []byte(s)
	for i, c := range b {
		switch {
		case c >= 'a' && c <= 'z':
			b[i] = c - 32
		case c >= 'A' && c <= 'Z':
			b[i] = c + 32
		}
	}
	return string(b)
}

// c09DataLabels: the labels of the data part of the name the client's serializer forms for this request below the
// stand-in domain ph.
func c09DataLabels(ser commands.Serializer, req commands.Request, e enc.Encoder, ph string) ([][]byte, bool) {
	var msg *mdns.Msg
	var err error
	if p, _, _ := vcommon.Guard(func() { msg, err = ser.EncodeDnsRequestWithParams(req, util.QueryTypeCname, e) }); p || err != nil || msg == nil || len(msg.Question) != 1 {
		return nil, false
	}
	labels, problem := c09ParseName(msg.Question[0].Name)
	phl, _ := c09ParseName(ph + ".")
	if problem != "" || len(labels) <= len(phl) {
		return nil, false
	}
	return labels[:len(labels)-len(phl)], true
}

type c09Derived struct{ shape, domain string }

// c09DeriveDomains: the tunnel domains of exactly L characters that can be made of the data labels of a name.
// anyGap: the "tail" shape is taken for every length of the rest of the label (short requests), else for two lengths only.
func c09DeriveDomains(labels [][]byte, L int, anyGap bool) (out []c09Derived) {
	nd := len(labels)
	if nd == 0 {
		return nil
	}
	last := labels[nd-1]
	m := len(last)
	if nd >= 2 && c09PlainLabel(last) {
		T := string(last)
		switch {
		case m == L:
			out = append(out, c09Derived{"last", T})
		case 2*m+1 == L:
			out = append(out, c09Derived{"last.last", T + "." + T})
		case 3*m+2 == L:
			out = append(out, c09Derived{"last.last.last", T + "." + T + "." + T})
		}
		if m+4 == L {
			out = append(out, c09Derived{"last.other", T + ".net"}, c09Derived{"other.last", "net." + T})
		}
	}
	if nd >= 3 && L == 57 && len(labels[1]) == 57 && c09PlainLabel(labels[1]) {
		out = append(out, c09Derived{"inner", string(labels[1])})
	}
	// the first label starts with the command letter and three characters the harness does not control
	if gap := m - L; gap >= 1 && L <= 12 && (nd >= 2 || gap >= 4) && (anyGap || gap == 1 || gap == 7) && c09PlainLabel(last[gap:]) {
		out = append(out, c09Derived{"tail", string(last[gap:])})
	}
	return out
}

// c09ShapeHolds: does the name (labels) below the domain (domLabels) really have the shape the case was built for?
func c09ShapeHolds(shape string, labels, domLabels [][]byte) bool {
	nd := len(labels) - len(domLabels)
	if nd < 1 || len(domLabels) == 0 {
		return false
	}
	data := labels[:nd]
	last := string(data[nd-1])
	switch shape {
	case "last", "last.last", "last.last.last", "last.other":
		return nd >= 2 && strings.EqualFold(last, string(domLabels[0]))
	case "other.last":
		return nd >= 2 && strings.EqualFold(last, string(domLabels[len(domLabels)-1]))
	case "inner":
		for _, l := range data[1 : nd-1] {
			if strings.EqualFold(string(l), string(domLabels[0])) {
				return true
			}
		}
		return false
	case "tail":
		d := string(domLabels[0])
		return len(last) > len(d) && strings.EqualFold(last[len(last)-len(d):], d)
	}
	return false
}

// c09Steer rewrites the characters [from,to) of the encoded body of a packet request into letters and digits and
// returns the request fields that encode to it (the codec's own Decode is used as a generator only; the result is
// accepted only if encoding it again gives letters and digits at that place). ok=false: not possible for this input.
func c09Steer(e enc.Encoder, ack, seq uint16, payload []byte, from, to int, rng *rand.Rand) (nack, nseq uint16, npayload []byte, ok bool) {
	const al = "abcdefghijklmnopqrstuvwxyzABCDEFGHIJKLMNOPQRSTUVWXYZ0123456789"
	raw := make([]byte, 5+len(payload))
	binary.LittleEndian.PutUint16(raw[0:], ack)
	raw[2] = 0xFF
	binary.LittleEndian.PutUint16(raw[3:], seq)
	copy(raw[5:], payload)
	var back, again []byte
	var err error
	if p, _, _ := vcommon.Guard(func() {
		body := append([]byte{}, e.Encode(raw)...)
		if from < 8 || to > len(body) || from >= to {
			err = fmt.Errorf("out of range")
			return
		}
		for i := from; i < to; i++ {
			body[i] = al[rng.Intn(len(al))]
		}
		if back, err = e.Decode(body); err != nil {
			return
		}
		again = e.Encode(back)
		if len(again) != len(body) {
			err = fmt.Errorf("length changed")
		}
	}); p || err != nil {
		return 0, 0, nil, false
	}
	if len(back) != len(raw) || back[2] != 0xFF {
		return 0, 0, nil, false
	}
	for i := from; i < to; i++ {
		if !c09Alnum(again[i]) {
			return 0, 0, nil, false
		}
	}
	return binary.LittleEndian.Uint16(back[0:]), binary.LittleEndian.Uint16(back[3:]), back[5:], true
}

// drop forgets the fixture of a domain that is used by one case only (and closes its listener).
func (r *c09Runner) drop(domain string, codec enc.Encoder) {
	delete(r.fix, domain+"/"+codec.Name())
	if s, ok := r.lsrv[domain]; ok {
		_ = s.Close()
		delete(r.lsrv, domain)
	}
}

type c09Collider struct {
	r   *c09Runner
	e   enc.Encoder
	rng *rand.Rand
	n   int
}

// runDerived runs the request of tmpl (every field but the domain set) below every domain of L characters that can be
// derived from the labels of its own name.
func (k *c09Collider) runDerived(tmpl *c09Case, labels [][]byte, L int, anyGap bool) int {
	rec := k.r.rec
	ran := 0
	for _, d := range c09DeriveDomains(labels, L, anyGap) {
		c := *tmpl
		switch k.n % 4 {
		case 0:
			c.Domain = d.domain
		case 1:
			c.Domain = strings.ToLower(d.domain)
		case 2:
			c.Domain = strings.ToUpper(d.domain)
		default:
			c.Domain = c09SwapCase(d.domain)
		}
		c.Shape = d.shape
		c.QType = uint16(c09QTypes[k.n%len(c09QTypes)])
		c.Edns0 = (k.n/len(c09QTypes))%2 == 1
		k.n++
		if c.Cmd == "packet" {
			if mtu := k.r.fixture(c.Domain, k.e).mtu; uint32(len(c.DataHex)/2) > mtu {
				rec.Stat("colliding_domains_skipped:payload-above-the-fragment-size", 1)
				k.r.drop(c.Domain, k.e)
				continue
			}
		}
		k.r.run(&c)
		k.r.drop(c.Domain, k.e)
		rec.Seen("colliding_domain_shapes", d.shape+"/"+k.e.Name()+"/"+c.Cmd)
		rec.Seen("colliding_domain_lengths:"+d.shape, fmt.Sprintf("%03d", len(c.Domain)))
		if ran == 0 && k.n%97 == 0 {
			rec.Sample(&c)
		}
		ran++
	}
	return ran
}

// c09Colliding is the work item (codec e, part of parts): all domain lengths L with L%parts == part.
func (r *c09Runner) colliding(e enc.Encoder, part, parts int) {
	rec := r.rec
	k := &c09Collider{r: r, e: e, rng: vcommon.NewRand(rec.Seed(), fmt.Sprintf("c09/colliding-domains/%s/%d", e.Name(), part))}
	rng := k.rng
	base := func(cmd string) *c09Case {
		return &c09Case{Cmd: cmd, Codec: e.Name(), Lazy: -1, Multi: -1, Closed: -1, Frag: -1}
	}
	gens := []string{"random", "keyed", "random", "zero", "ff", "counter"}
	for L := 1; L <= c09CollideMaxDomain; L++ {
		if L%parts != part {
			continue
		}
		ph := c09Placeholder(L)
		cl, err := NewClientDnsConnection(ph, &testCommunicator{})
		if err != nil {
			r.t.Fatalf("NewClientDnsConnection(%q): %v", ph, err)
		}
		cl.Serializer.Upstream.Encoder = e
		ser := cl.Serializer
		mtu := int(cl.getUpstreamMtu())
		if mtu > 4096 {
			mtu = 4096
		}
		rec.Mark(map[string]interface{}{"family": "colliding-domains", "codec": e.Name(), "domain_length": L})

		// 1. data packets of every length up to the fragment size
		for plen := 0; plen <= mtu; plen++ {
			for gi, g := range gens {
				if gi >= 3 && plen%2 == 1 {
					continue
				}
				c := base("packet")
				c.Gen = g
				c.UserId = uint16(rng.Intn(1296))
				c.Ack, c.Seq = uint16(rng.Intn(65536)), uint16(rng.Intn(65536))
				payload := c09Payload(g, plen, uint64(plen)*131+uint64(gi)*7+uint64(L)*977+uint64(rec.Seed())*1000003, rng)
				c.DataHex = hex.EncodeToString(payload)
				labels, ok := c09DataLabels(ser, c.request(), e, ph)
				if !ok {
					continue
				}
				nd := len(labels)
				m := len(labels[nd-1])
				wanted := nd >= 2 && (m == L || 2*m+1 == L || 3*m+2 == L || m+4 == L)
				if wanted && !c09PlainLabel(labels[nd-1]) {
					// the codec's alphabet has more than letters and digits: steer the last label
					total := 0
					for _, l := range labels {
						total += len(l)
					}
					if a, s, p, ok := c09Steer(e, c.Ack, c.Seq, payload, total-6-m, total-6, rng); ok {
						c.Ack, c.Seq, c.DataHex, c.Gen = a, s, hex.EncodeToString(p), g+"+steered-last-label"
						payload = p
						if l2, ok := c09DataLabels(ser, c.request(), e, ph); ok {
							labels = l2
							rec.Stat("colliding_domains_steered", 1)
						}
					} else {
						rec.Stat("colliding_domains_not_steerable", 1)
					}
				}
				if L == 57 && nd >= 3 && len(labels[1]) == 57 && !c09PlainLabel(labels[1]) {
					if a, s, p, ok := c09Steer(e, c.Ack, c.Seq, payload, 57-6, 114-6, rng); ok {
						c.Ack, c.Seq, c.DataHex, c.Gen = a, s, hex.EncodeToString(p), c.Gen+"+steered-inner-label"
						if l2, ok := c09DataLabels(ser, c.request(), e, ph); ok {
							labels = l2
						}
					}
				}
				k.runDerived(c, labels, L, false)
			}
		}

		// 2. upstream-codec probes: the client's own patterns, and patterns of letters and digits of every length
		if L <= 120 {
			for _, pe := range c09ProbeCodecs {
				for pi, pat := range pe.TestPatterns() {
					c := base("probe-up")
					c.UserId = uint16(rng.Intn(1296))
					c.Gen = fmt.Sprintf("%s#%d", pe.Name(), pi)
					c.DataHex = hex.EncodeToString(c09ClientPattern(pat))
					if labels, ok := c09DataLabels(ser, c.request(), e, ph); ok {
						k.runDerived(c, labels, L, true)
					}
				}
			}
			const al = "abcdefghijklmnopqrstuvwxyzABCDEFGHIJKLMNOPQRSTUVWXYZ0123456789"
			for plen := 1; plen <= 240; plen++ {
				c := base("probe-up")
				c.UserId = uint16(rng.Intn(1296))
				c.Gen = "letters-and-digits"
				pat := make([]byte, plen)
				for i := range pat {
					pat[i] = al[rng.Intn(len(al))]
				}
				c.DataHex = hex.EncodeToString(c09ClientPattern(pat))
				labels, ok := c09DataLabels(ser, c.request(), e, ph)
				if !ok {
					break // the name is full
				}
				k.runDerived(c, labels, L, false)
			}
		}

		// 3. the short requests (one data label): the domain is the tail of that label
		if L <= 12 {
			for rep := 0; rep < 6; rep++ {
				for _, cmd := range []string{"version", "options", "ping", "probe-down", "probe-frag"} {
					c := base(cmd)
					c.UserId = uint16(rng.Intn(1296))
					switch cmd {
					case "version":
						c.Version = rng.Uint32()
					case "options":
						c.Lazy, c.Multi, c.Closed = rng.Intn(3)-1, rng.Intn(3)-1, rng.Intn(3)-1
						c.Up = c09AllCodes[rng.Intn(len(c09AllCodes))]
						if rng.Intn(2) == 0 {
							c.Down = c09AllCodes[rng.Intn(len(c09AllCodes))]
						}
						c.Frag = c09FragVals[rng.Intn(len(c09FragVals))]
					case "ping":
						c.Ack = uint16(rng.Intn(65536))
					case "probe-down":
						c.Down = c09AllCodes[rng.Intn(len(c09AllCodes))]
					case "probe-frag":
						c.Frag = c09FragVals[rng.Intn(len(c09FragVals))]
					}
					if labels, ok := c09DataLabels(ser, c.request(), e, ph); ok {
						k.runDerived(c, labels, L, true)
					}
				}
			}
		}
	}
}

const c09CollideParts = 4

// c09GenClass: the part of a generator's name that goes into a signature.
func c09GenClass(g string) string {
	if i := strings.IndexByte(g, '+'); i >= 0 {
		return g[:i]
	}
	return g
}
