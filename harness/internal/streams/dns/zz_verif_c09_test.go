// C09: DNS tunnel requests survive the wire for every command and size (DESIGN.md §4 C09).
//
// In-package harness (package dns) because the upstream fragment size the client computes
// (getUpstreamMtu) is unexported. For every generated request:
//
//	client serializer EncodeDnsRequestWithParams -> independent check of the question name ->
//	Msg.Pack -> Msg.Unpack -> ComposeRequest + command detection + DecodeRequestHeader +
//	server serializer DecodeDnsRequest (the steps of ServerDnsListener.onMessage) -> field comparison.
package dns

import (
	"bytes"
	"encoding/binary"
	"encoding/hex"
	"encoding/json"
	"fmt"
	"io"
	"math/rand"
	"net"
	"strings"
	"sync"
	"testing"
	"time"

	"github.com/bokysan/socketace/v2/internal/streams/dns/commands"
	"github.com/bokysan/socketace/v2/internal/streams/dns/util"
	"github.com/bokysan/socketace/v2/internal/util/enc"
	"github.com/bokysan/socketace/v2/internal/zzverif/vcommon"
	mdns "github.com/miekg/dns"
	"github.com/pkg/errors"
	"github.com/sirupsen/logrus"
	"golang.org/x/net/dns/dnsmessage"
)

// ---- case descriptor (replayable) -------------------------------------------------------------

type c09Case struct {
	Cmd     string `json:"cmd"`      // version | options | packet | ping | probe-up | probe-down | probe-frag
	Codec   string `json:"codec"`    // upstream codec selected by the client (the server's serializer has the same)
	Domain  string `json:"domain"`   // tunnel domain
	QType   uint16 `json:"qtype"`    // query type
	Edns0   bool   `json:"edns0"`    // Serializer.UseEdns0
	UserId  uint16 `json:"user_id"`  // 0..1295
	Version uint32 `json:"version"`  // version: ClientVersion
	Ack     uint16 `json:"ack"`      // packet/ping: LastAckedSeqNo
	Seq     uint16 `json:"seq"`      // packet: Packet.SeqNo
	Gen     string `json:"gen"`      // how the payload / pattern was made (informational)
	DataHex string `json:"data_hex"` // packet: Packet.Data; probe-up: Pattern
	Lazy    int    `json:"lazy"`     // options: -1 nil, 0 false, 1 true
	Multi   int    `json:"multi"`    // options
	Closed  int    `json:"closed"`   // options
	Down    string `json:"down"`     // options / probe-down: codec code, "" = nil
	Up      string `json:"up"`       // options: codec code, "" = nil
	Frag    int64  `json:"frag"`     // options: DownstreamFragmentSize (-1 = nil); probe-frag: FragmentSize
	Mtu     uint32 `json:"mtu"`      // getUpstreamMtu() for (domain, codec) (informational)
	// colliding-domains family: how the tunnel domain was derived from the data labels of the request's own name
	// ("" everywhere else); it is part of the signature
	Shape string `json:"shape,omitempty"`
}

var c09UpstreamCodecs = []enc.Encoder{
	enc.Base32Encoding, enc.Base64Encoding, enc.Base64uEncoding,
	enc.Base85Encoding, enc.Base91Encoding, enc.Base128Encoding,
}

// the codecs whose probe patterns the client sends (AutodetectEncodingUpstream)
var c09ProbeCodecs = []enc.Encoder{
	enc.Base128Encoding, enc.Base91Encoding, enc.Base85Encoding, enc.Base64Encoding, enc.Base64uEncoding,
}

// every codec code (enc.FromCode)
var c09AllCodes = []string{"T", "S", "U", "W", "X", "V", "Y", "R"}

var c09QTypes = []dnsmessage.Type{util.QueryTypeCname, util.QueryTypeTxt, util.QueryTypeNull, util.QueryTypeA,
	util.QueryTypeMx, util.QueryTypeSrv, util.QueryTypeAAAA, util.QueryTypePrivate}

var c09SeqVals = []uint16{0, 1, 255, 256, 32767, 65535}
var c09FragVals = []int64{0, 1, 2, 199, 200, 1200, 8192, 0xFFFFFFFE}

func c09CodecByName(n string) enc.Encoder {
	for _, e := range c09UpstreamCodecs {
		if e.Name() == n {
			return e
		}
	}
	return nil
}

func c09CodecByCode(c string) enc.Encoder {
	if c == "" {
		return nil
	}
	e, err := enc.FromCode(c[0])
	if err != nil {
		panic(err)
	}
	return e
}

func c09Tri(v int) *bool {
	if v < 0 {
		return nil
	}
	b := v == 1
	return &b
}

func c09TriOf(b *bool) int {
	if b == nil {
		return -1
	}
	if *b {
		return 1
	}
	return 0
}

func c09CodeOf(e enc.Encoder) string {
	if e == nil {
		return ""
	}
	return string([]byte{e.Code()})
}

// c09Domain makes a syntactically plain tunnel domain (letters and digits, labels of at most 17) of length L.
func c09Domain(L int) string {
	switch L {
	case 4:
		return "t.co"
	case 11:
		return "example.org"
	case 18:
		return "Tunnel.Example.COM"
	}
	const al = "abcdefghijklmnopqrstuvwxyz0123456789"
	rest := L - 4
	b := make([]byte, 0, L)
	for i := 0; i < rest; i++ {
		if i%17 == 16 && i != rest-1 {
			b = append(b, '.')
		} else {
			b = append(b, al[(i*7+L)%len(al)])
		}
	}
	return string(b) + ".net"
}

func (c *c09Case) request() commands.Request {
	switch c.Cmd {
	case "version":
		return &commands.VersionRequest{ClientVersion: c.Version}
	case "options":
		r := &commands.SetOptionsRequest{UserId: c.UserId, LazyMode: c09Tri(c.Lazy), MultiQuery: c09Tri(c.Multi), Closed: c09Tri(c.Closed),
			DownstreamEncoder: c09CodecByCode(c.Down), UpstreamEncoder: c09CodecByCode(c.Up)}
		if c.Frag >= 0 {
			f := uint32(c.Frag)
			r.DownstreamFragmentSize = &f
		}
		return r
	case "packet":
		d, _ := hex.DecodeString(c.DataHex)
		return &commands.PacketRequest{UserId: c.UserId, LastAckedSeqNo: c.Ack, Packet: &util.Packet{SeqNo: c.Seq, Data: d}}
	case "ping":
		return &commands.PacketRequest{UserId: c.UserId, LastAckedSeqNo: c.Ack}
	case "probe-up":
		d, _ := hex.DecodeString(c.DataHex)
		return &commands.TestUpstreamEncoderRequest{UserId: c.UserId, Pattern: d}
	case "probe-down":
		return &commands.TestDownstreamEncoderRequest{DownstreamEncoder: c09CodecByCode(c.Down)}
	case "probe-frag":
		return &commands.TestDownstreamFragmentSizeRequest{UserId: c.UserId, FragmentSize: uint32(c.Frag)}
	}
	panic("c09: unknown cmd " + c.Cmd)
}

// ---- independent reading of a presentation-format name (RFC 1035 §5.1: \DDD and \X) -------------

func c09ParseName(s string) (labels [][]byte, problem string) {
	if !strings.HasSuffix(s, ".") {
		return nil, "not-fqdn"
	}
	cur := []byte{}
	for i := 0; i < len(s); i++ {
		ch := s[i]
		switch {
		case ch == '\\':
			if i+3 < len(s) && c09Digit(s[i+1]) && c09Digit(s[i+2]) && c09Digit(s[i+3]) {
				v := int(s[i+1]-'0')*100 + int(s[i+2]-'0')*10 + int(s[i+3]-'0')
				if v > 255 {
					return nil, "bad-escape"
				}
				cur = append(cur, byte(v))
				i += 3
			} else if i+1 < len(s) {
				cur = append(cur, s[i+1])
				i++
			} else {
				return nil, "bad-escape"
			}
		case ch == '.':
			if len(cur) == 0 {
				return nil, "empty-label"
			}
			labels = append(labels, cur)
			cur = []byte{}
		default:
			cur = append(cur, ch)
		}
	}
	if len(cur) != 0 {
		return nil, "not-fqdn"
	}
	return labels, ""
}

func c09Digit(b byte) bool { return b >= '0' && b <= '9' }

// c09NameClass: which kind of octets the data part (everything before the tunnel domain) of the name contains.
func c09NameClass(labels [][]byte, domainLabels int) string {
	n := len(labels) - domainLabels
	if n < 0 {
		n = len(labels)
	}
	eight, special := false, false
	for _, l := range labels[:n] {
		for _, b := range l {
			if b < 0x21 || b > 0x7e {
				eight = true
			} else if strings.IndexByte("\"().;@\\$", b) >= 0 {
				special = true
			}
		}
	}
	switch {
	case eight:
		return "8bit"
	case special:
		return "special"
	}
	return "plain"
}

func c09LenClass(n int, mtu uint32) string {
	switch {
	case n == 0:
		return "len=0"
	case uint32(n) == mtu:
		return "len=mtu"
	case uint32(n)+8 >= mtu:
		return "len>=mtu-8"
	}
	return "len<mtu-8"
}

func c09DomClass(d string) string {
	switch {
	case len(d) <= 20:
		return "dom<=20"
	case len(d) <= 64:
		return "dom<=64"
	}
	return "dom>64"
}

// ---- fixtures ---------------------------------------------------------------------------------

type c09Fix struct {
	client *ClientDnsConnection
	server commands.Serializer
	mtu    uint32
}

type c09Runner struct {
	rec  *vcommon.Rec
	t    *testing.T
	fix  map[string]*c09Fix
	lsrv map[string]*ServerDnsListener
}

func (r *c09Runner) fixture(domain string, codec enc.Encoder) *c09Fix {
	k := domain + "/" + codec.Name()
	if f, ok := r.fix[k]; ok {
		return f
	}
	client, err := NewClientDnsConnection(domain, &testCommunicator{})
	if err != nil {
		r.t.Fatalf("NewClientDnsConnection(%q): %v", domain, err)
	}
	client.Serializer.Upstream.Encoder = codec
	srv, ok := r.lsrv[domain]
	if !ok {
		srv = NewServerDnsListener(domain, &testCommunicator{})
		r.lsrv[domain] = srv
	}
	ser := srv.DefaultSerializer // what a user connection starts from ...
	ser.Upstream.Encoder = codec // ... after setOptionsRequest has switched the upstream codec
	f := &c09Fix{client: client, server: ser, mtu: client.getUpstreamMtu()}
	r.fix[k] = f
	r.rec.Seen("mtu(codec/domain-length)", fmt.Sprintf("%s/%03d=%d", codec.Name(), len(domain), f.mtu))
	return f
}

// ---- the monitored execution of one case ------------------------------------------------------

func c09Clip(b []byte) string {
	if len(b) > 400 {
		return hex.EncodeToString(b[:400]) + "..."
	}
	return hex.EncodeToString(b)
}

func (r *c09Runner) run(c *c09Case) {
	rec := r.rec
	codec := c09CodecByName(c.Codec)
	if codec == nil {
		r.t.Fatalf("unknown upstream codec %q", c.Codec)
	}
	f := r.fixture(c.Domain, codec)
	c.Mtu = f.mtu
	req := c.request()
	payload, _ := hex.DecodeString(c.DataHex)

	key := fmt.Sprintf("%s|%s|%s|%d|%v|%d|%d|%d|%d|%d%d%d|%s%s|%d|%s", c.Cmd, c.Codec, c.Domain, c.QType, c.Edns0, c.UserId,
		c.Version, c.Ack, c.Seq, c.Lazy+1, c.Multi+1, c.Closed+1, c.Down, c.Up, c.Frag, payload)
	rec.Case(key, true)
	rec.Stat("cases:"+c.Cmd, 1)

	sigBase := c.Cmd + ":" + c.Codec + ":"
	if c.Cmd == "probe-up" {
		sigBase = c.Cmd + "(" + c09GenClass(c.Gen) + "):" + c.Codec + ":"
	}
	if c.Shape != "" {
		sigBase = "domain=" + c.Shape + ":" + sigBase
	}
	obs := map[string]interface{}{}
	lenCls := ""
	if c.Cmd == "packet" {
		lenCls = ":" + c09LenClass(len(payload), f.mtu)
	}

	// 1. client side: the serializer of a real ClientDnsConnection
	ser := f.client.Serializer
	ser.UseEdns0 = c.Edns0
	ser.UseMultiQuery = false
	var msg *mdns.Msg
	var err error
	if p, site, val := vcommon.Guard(func() { msg, err = ser.EncodeDnsRequestWithParams(req, dnsmessage.Type(c.QType), codec) }); p {
		rec.Violation(sigBase+"panic@"+site+":encode", c, val)
		return
	}
	if err != nil {
		cls := "error"
		if errors.Cause(err) == util.ErrTooLong {
			cls = "too-long"
		}
		obs["err"] = err.Error()
		rec.Violation(sigBase+"encode-"+cls+lenCls+":"+c09DomClass(c.Domain), c, obs)
		return
	}
	if len(msg.Question) != 1 {
		obs["questions"] = len(msg.Question)
		rec.Violation(sigBase+"name:question-count", c, obs)
		return
	}
	q := msg.Question[0]
	obs["name_hex"] = c09Clip([]byte(q.Name))
	if q.Qtype != c.QType || q.Qclass != mdns.ClassINET {
		obs["qtype"], obs["qclass"] = q.Qtype, q.Qclass
		rec.Violation(sigBase+"name:qtype-or-class", c, obs)
	}
	if c.Edns0 != (msg.IsEdns0() != nil) {
		rec.Violation(sigBase+"name:edns0-flag", c, obs)
	}

	// 2. the question name, read independently
	labels, problem := c09ParseName(q.Name)
	if problem != "" {
		rec.Violation(sigBase+"name:"+problem+lenCls, c, obs)
		return
	}
	domLabels, _ := c09ParseName(c.Domain + ".")
	nameCls := c09NameClass(labels, len(domLabels))
	total := len(labels) - 1
	maxLabel := 0
	for _, l := range labels {
		total += len(l)
		if len(l) > maxLabel {
			maxLabel = len(l)
		}
	}
	rec.StatMax("label_octets", int64(maxLabel))
	rec.StatMax("name_octets", int64(total))
	if maxLabel > 63 {
		obs["label_octets"] = maxLabel
		rec.Violation(sigBase+"name:label>63"+lenCls, c, obs)
	}
	if total > 253 {
		obs["name_octets"] = total
		rec.Violation(sigBase+"name:name>253"+lenCls+":"+c09DomClass(c.Domain), c, obs)
	}
	under := len(labels) > len(domLabels)
	for i := 0; under && i < len(domLabels); i++ {
		if !strings.EqualFold(string(labels[len(labels)-len(domLabels)+i]), string(domLabels[i])) {
			under = false
		}
	}
	if !under {
		rec.Violation(sigBase+"name:not-under-domain", c, obs)
	}
	if c.Shape != "" {
		// evidence only: the name really collides with the domain in the way the case was built for
		if c09ShapeHolds(c.Shape, labels, domLabels) {
			rec.Stat("colliding_names:"+c.Shape, 1)
		} else {
			rec.Stat("colliding_names_not_reproduced:"+c.Shape, 1)
		}
	}

	// 3. the wire
	var wire []byte
	if p, site, val := vcommon.Guard(func() { wire, err = msg.Pack() }); p {
		rec.Violation(sigBase+"panic@"+site+":pack", c, val)
		return
	}
	if err != nil {
		obs["err"] = err.Error()
		rec.Violation(sigBase+"pack-error:"+nameCls+lenCls, c, obs)
		return
	}
	rec.StatMax("wire_octets", int64(len(wire)))
	if len(wire) >= 12 {
		// the production server is a miekg dns.Server: it drops messages its MsgAcceptFunc does not accept
		h := mdns.Header{Id: binary.BigEndian.Uint16(wire[0:]), Bits: binary.BigEndian.Uint16(wire[2:]), Qdcount: binary.BigEndian.Uint16(wire[4:]),
			Ancount: binary.BigEndian.Uint16(wire[6:]), Nscount: binary.BigEndian.Uint16(wire[8:]), Arcount: binary.BigEndian.Uint16(wire[10:])}
		if act := mdns.DefaultMsgAcceptFunc(h); act != mdns.MsgAccept {
			obs["accept_action"] = int(act)
			rec.Violation(sigBase+"wire:not-accepted-by-dns-server", c, obs)
			return
		}
	}
	got := new(mdns.Msg)
	if err = got.Unpack(wire); err != nil {
		obs["err"] = err.Error()
		obs["wire_hex"] = c09Clip(wire)
		rec.Violation(sigBase+"unpack-error:"+nameCls+lenCls, c, obs)
		return
	}
	if len(got.Question) != 1 {
		rec.Violation(sigBase+"unpack:question-count", c, obs)
		return
	}
	obs["name_after_wire"] = got.Question[0].Name
	// sanity of the wire itself (independent of socketace): the labels that arrive are the labels that were sent
	if wl, wp := c09ParseName(got.Question[0].Name); wp != "" || len(wl) != len(labels) {
		rec.Violation(sigBase+"wire:labels-changed:"+nameCls, c, obs)
	} else {
		for i := range wl {
			if !bytes.Equal(wl[i], labels[i]) {
				rec.Violation(sigBase+"wire:labels-changed:"+nameCls, c, obs)
				break
			}
		}
	}

	// 4. server side, step by step as ServerDnsListener.onMessage does
	var request []byte
	var cmd *commands.Command
	var hdrUser uint16
	var hdrErr error
	var back commands.Request
	var decErr error
	stage := "compose"
	if p, site, val := vcommon.Guard(func() {
		request = commands.ComposeRequest(got, f.server.Domain)
		stage = "detect"
		for _, cc := range commands.Commands {
			if cc.IsOfType(request) {
				stage = "header"
				_, hdrUser, hdrErr = commands.DecodeRequestHeader(cc, request)
				c2 := cc
				cmd = &c2
				break
			}
		}
		if cmd == nil || hdrErr != nil {
			return
		}
		stage = "decode"
		back, decErr = f.server.DecodeDnsRequest(request)
	}); p {
		obs["panic"] = val
		obs["request_hex"] = c09Clip(request)
		rec.Violation(sigBase+"panic@"+site+":"+stage+":"+nameCls+lenCls, c, obs)
		return
	}
	obs["request_hex"] = c09Clip(request)
	want := req.Command()
	if cmd == nil {
		rec.Violation(sigBase+"detect:no-command:"+nameCls, c, obs)
		return
	}
	if cmd.Code != want.Code {
		obs["detected"] = string([]byte{cmd.Code})
		rec.Violation(sigBase+"detect:wrong-command:"+nameCls, c, obs)
		return
	}
	if hdrErr != nil {
		obs["err"] = hdrErr.Error()
		rec.Violation(sigBase+"header-error:"+nameCls, c, obs)
		return
	}
	if want.NeedsUserId && hdrUser != c.UserId {
		obs["header_user"] = hdrUser
		rec.Violation(sigBase+"header:user-id:"+nameCls, c, obs)
		return
	}
	if decErr != nil {
		obs["err"] = decErr.Error()
		rec.Violation(sigBase+"decode-error:"+nameCls+lenCls, c, obs)
		return
	}

	// 5. field comparison
	field, detail := c09Diff(req, back)
	rec.Stat("requests_compared", 1)
	rec.Stat("payload_bytes_compared", int64(len(payload)))
	if field != "" {
		obs["diff"] = detail
		rec.Violation(sigBase+"field-diff:"+field+":"+nameCls+lenCls, c, obs)
	}
}

func c09EncEq(a, b enc.Encoder) bool {
	if a == nil || b == nil {
		return a == nil && b == nil
	}
	return a.Code() == b.Code() && a.Name() == b.Name()
}

// c09Diff compares what the server decoded with what the client sent; it returns the first differing field.
// Representation-only differences are not differences: a nil and an empty Packet.Data / Pattern are the same
// byte string (InQueue.Append only looks at the bytes); encoders are compared by identity of the codec.
func c09Diff(want, got commands.Request) (string, string) {
	if got == nil {
		return "type", "nil request"
	}
	switch w := want.(type) {
	case *commands.VersionRequest:
		g, ok := got.(*commands.VersionRequest)
		if !ok {
			return "type", fmt.Sprintf("%T", got)
		}
		if g.ClientVersion != w.ClientVersion {
			return "ClientVersion", fmt.Sprintf("sent %d got %d", w.ClientVersion, g.ClientVersion)
		}
	case *commands.SetOptionsRequest:
		g, ok := got.(*commands.SetOptionsRequest)
		if !ok {
			return "type", fmt.Sprintf("%T", got)
		}
		if g.UserId != w.UserId {
			return "UserId", fmt.Sprintf("sent %d got %d", w.UserId, g.UserId)
		}
		if c09TriOf(g.LazyMode) != c09TriOf(w.LazyMode) {
			return "LazyMode", fmt.Sprintf("sent %d got %d", c09TriOf(w.LazyMode), c09TriOf(g.LazyMode))
		}
		if c09TriOf(g.MultiQuery) != c09TriOf(w.MultiQuery) {
			return "MultiQuery", fmt.Sprintf("sent %d got %d", c09TriOf(w.MultiQuery), c09TriOf(g.MultiQuery))
		}
		if c09TriOf(g.Closed) != c09TriOf(w.Closed) {
			return "Closed", fmt.Sprintf("sent %d got %d", c09TriOf(w.Closed), c09TriOf(g.Closed))
		}
		if !c09EncEq(g.DownstreamEncoder, w.DownstreamEncoder) {
			return "DownstreamEncoder", fmt.Sprintf("sent %q got %q", c09CodeOf(w.DownstreamEncoder), c09CodeOf(g.DownstreamEncoder))
		}
		if !c09EncEq(g.UpstreamEncoder, w.UpstreamEncoder) {
			return "UpstreamEncoder", fmt.Sprintf("sent %q got %q", c09CodeOf(w.UpstreamEncoder), c09CodeOf(g.UpstreamEncoder))
		}
		if (g.DownstreamFragmentSize == nil) != (w.DownstreamFragmentSize == nil) ||
			(g.DownstreamFragmentSize != nil && *g.DownstreamFragmentSize != *w.DownstreamFragmentSize) {
			return "DownstreamFragmentSize", fmt.Sprintf("sent %v got %v", c09U32(w.DownstreamFragmentSize), c09U32(g.DownstreamFragmentSize))
		}
	case *commands.PacketRequest:
		g, ok := got.(*commands.PacketRequest)
		if !ok {
			return "type", fmt.Sprintf("%T", got)
		}
		if g.UserId != w.UserId {
			return "UserId", fmt.Sprintf("sent %d got %d", w.UserId, g.UserId)
		}
		if g.LastAckedSeqNo != w.LastAckedSeqNo {
			return "LastAckedSeqNo", fmt.Sprintf("sent %d got %d", w.LastAckedSeqNo, g.LastAckedSeqNo)
		}
		if (g.Packet == nil) != (w.Packet == nil) {
			return "Packet-presence", fmt.Sprintf("sent packet=%v got packet=%v", w.Packet != nil, g.Packet != nil)
		}
		if w.Packet != nil {
			if g.Packet.SeqNo != w.Packet.SeqNo {
				return "SeqNo", fmt.Sprintf("sent %d got %d", w.Packet.SeqNo, g.Packet.SeqNo)
			}
			if !bytes.Equal(g.Packet.Data, w.Packet.Data) {
				return c09BytesDiff("Data", w.Packet.Data, g.Packet.Data)
			}
		}
	case *commands.TestUpstreamEncoderRequest:
		g, ok := got.(*commands.TestUpstreamEncoderRequest)
		if !ok {
			return "type", fmt.Sprintf("%T", got)
		}
		if g.UserId != w.UserId {
			return "UserId", fmt.Sprintf("sent %d got %d", w.UserId, g.UserId)
		}
		if !bytes.Equal(g.Pattern, w.Pattern) {
			return c09BytesDiff("Pattern", w.Pattern, g.Pattern)
		}
	case *commands.TestDownstreamEncoderRequest:
		g, ok := got.(*commands.TestDownstreamEncoderRequest)
		if !ok {
			return "type", fmt.Sprintf("%T", got)
		}
		if !c09EncEq(g.DownstreamEncoder, w.DownstreamEncoder) {
			return "DownstreamEncoder", fmt.Sprintf("sent %q got %q", c09CodeOf(w.DownstreamEncoder), c09CodeOf(g.DownstreamEncoder))
		}
	case *commands.TestDownstreamFragmentSizeRequest:
		g, ok := got.(*commands.TestDownstreamFragmentSizeRequest)
		if !ok {
			return "type", fmt.Sprintf("%T", got)
		}
		if g.UserId != w.UserId {
			return "UserId", fmt.Sprintf("sent %d got %d", w.UserId, g.UserId)
		}
		if g.FragmentSize != w.FragmentSize {
			return "FragmentSize", fmt.Sprintf("sent %d got %d", w.FragmentSize, g.FragmentSize)
		}
	default:
		return "type", fmt.Sprintf("harness: unexpected request type %T", want)
	}
	return "", ""
}

func c09U32(p *uint32) string {
	if p == nil {
		return "nil"
	}
	return fmt.Sprint(*p)
}

func c09BytesDiff(field string, want, got []byte) (string, string) {
	kind := "bytes"
	if len(got) < len(want) {
		kind = "shorter"
	} else if len(got) > len(want) {
		kind = "longer"
	}
	first := -1
	for i := 0; i < len(want) && i < len(got); i++ {
		if want[i] != got[i] {
			first = i
			break
		}
	}
	return field + "-" + kind, fmt.Sprintf("sent %d bytes, got %d bytes, first differing index %d, got_hex=%s", len(want), len(got), first, c09Clip(got))
}

// ---- workload ---------------------------------------------------------------------------------

type c09Item struct {
	fam    string
	codec  enc.Encoder
	domain int // index into the domain list (families that sweep one domain)
	part   int
}

func c09Payload(gen string, n int, key uint64, rng *rand.Rand) []byte {
	b := make([]byte, n)
	switch gen {
	case "zero":
	case "ff":
		for i := range b {
			b[i] = 0xff
		}
	case "random":
		rng.Read(b)
	case "counter":
		for i := range b {
			b[i] = byte(uint64(i) + key)
		}
	default: // keyed
		vcommon.FillKeyed(key, 0, b)
	}
	return b
}

// c09ClientBuilt: the requests the real client builds by itself (its own padding and size budgets), for one tunnel domain:
// version handshake, fragment-size probes, the switch of the upstream codec and a write of exactly the upstream budget per
// codec. Every one must reach the real server and be answered / delivered; nothing is lost on this path.
func c09ClientBuilt(rec *vcommon.Rec, L int) {
	domain := c09Domain(L)
	desc := map[string]interface{}{"family": "client-built-requests", "domain_length": L, "domain": domain}
	rec.Mark(desc)
	scomm := &vServerComm{}
	lst := NewServerDnsListener(domain, scomm)
	users := make(chan net.Conn, 4)
	stop := make(chan struct{})
	go func() {
		for {
			select {
			case <-stop:
				return
			case u := <-lst.accept:
				select {
				case users <- u:
				default:
				}
			}
		}
	}()
	defer func() { close(stop); scomm.Close() }()
	comm := newVClientComm(scomm, vAddr(9))
	fail := func(step string, err error) {
		rec.Case(fmt.Sprintf("client-built/%d", L), true)
		rec.Violation("client-built:"+step+":"+c09DomClass(domain), desc, map[string]interface{}{"step": step, "err": fmt.Sprint(err), "last_transport_note": comm.Stats().LastErr})
	}
	var cl *ClientDnsConnection
	var err error
	var step string
	var user net.Conn
	done := make(chan struct{})
	var problem error
	go func() {
		defer close(done)
		if p, site, val := vcommon.Guard(func() {
			cl, err = NewClientDnsConnection(domain, comm)
			if err != nil {
				step, problem = "new", err
				return
			}
			qt := dnsmessage.Type(10) // NULL: the answers are not the limit here
			cl.Serializer.Upstream.QueryType = &qt
			cl.Serializer.Upstream.Encoder = enc.Base32Encoding
			cl.Serializer.Downstream.Encoder = enc.Base32Encoding
			if err = cl.VersionHandshake(); err != nil {
				step, problem = "version-handshake", err
				return
			}
			select {
			case user = <-users:
			case <-time.After(10 * time.Second):
				step, problem = "server-never-accepted-the-session", errors.New("no accept")
				return
			}
			for _, size := range []uint32{50, 1000} {
				r, e := cl.SendFragmentSizeTest(size, time.Second)
				if e != nil {
					step, problem = fmt.Sprintf("fragment-size-probe(%d)", size), e
					return
				}
				if r.Err != nil {
					step, problem = fmt.Sprintf("fragment-size-probe(%d):answered-with-error", size), r.Err
					return
				}
				rec.Stat("client_built_requests_answered", 1)
			}
			for _, codec := range c09UpstreamCodecs {
				cl.Serializer.Upstream.Encoder = codec
				if e := cl.SetEncodingUpstream(); e != nil {
					step, problem = "switch-upstream-codec:"+codec.Name(), e
					return
				}
				if cl.Serializer.Upstream.Encoder.Name() != codec.Name() {
					continue // refused by the server: not this family's subject
				}
				mtu := cl.getUpstreamMtu()
				cl.Serializer.Upstream.FragmentSize = mtu
				if mtu == 0 {
					continue
				}
				payload := make([]byte, mtu)
				vcommon.FillKeyed(uint64(L)*131+7, 0, payload)
				if _, e := cl.Write(payload); e != nil {
					step, problem = "write-of-the-whole-upstream-budget:"+codec.Name(), e
					return
				}
				got := make([]byte, len(payload))
				user.SetReadDeadline(time.Now().Add(10 * time.Second))
				if _, e := io.ReadFull(user, got); e != nil {
					step, problem = "write-of-the-whole-upstream-budget:"+codec.Name()+":not-delivered", e
					return
				}
				if !bytes.Equal(got, payload) {
					step, problem = "write-of-the-whole-upstream-budget:"+codec.Name()+":delivered-different", errors.New("bytes differ")
					return
				}
				rec.Stat("client_built_requests_answered", 1)
				rec.Stat("payload_bytes_compared", int64(len(payload)))
			}
		}); p {
			step, problem = "panic@"+site, errors.New(val)
		}
	}()
	select {
	case <-done:
	case <-time.After(60 * time.Second):
		comm.Close()
		rec.Case(fmt.Sprintf("client-built/%d", L), true)
		rec.Violation("client-built:never-returns:"+c09DomClass(domain), desc, map[string]interface{}{"meaning": "a client call did not return although every request that reached the path was answered at once"})
		return
	}
	if problem != nil {
		fail(step, problem)
		return
	}
	rec.Case(fmt.Sprintf("client-built/%d", L), true)
	rec.Stat("client_built_domains_verified", 1)
}

// c09Concurrent: the server decodes the requests of several users at the same time (one handler goroutine per datagram).
// k goroutines each push their own numbered packet requests through the whole path (client-side encoding with the shared
// codec objects, Pack, Unpack, ComposeRequest, DecodeDnsRequest); every one must get back exactly what it sent.
func c09Concurrent(rec *vcommon.Rec, codec enc.Encoder, k, rounds int) {
	domain := "t.example.org"
	desc := map[string]interface{}{"family": "concurrent-users", "codec": codec.Name(), "goroutines": k, "requests_each": rounds}
	rec.Mark(desc)
	qt := dnsmessage.Type(c09QTypes[0])
	cli := commands.Serializer{Domain: domain, Upstream: util.UpstreamConfig{Encoder: codec, QueryType: &qt}}
	srv := commands.Serializer{Domain: domain, Upstream: util.UpstreamConfig{Encoder: codec, QueryType: &qt}}
	// sequential control first: inputs that do not round-trip alone are not judged here (they are the other families' business)
	one := func(g, i int) (string, bool) {
		n := 1 + (i*7+g*13)%60
		payload := make([]byte, n)
		vcommon.FillKeyed(uint64(g)*1000003+7, int64(i)*64, payload)
		req := &commands.PacketRequest{UserId: uint16(g*37 + i%36), LastAckedSeqNo: uint16(i * 3), Packet: &util.Packet{SeqNo: uint16(i + g*1000), Data: payload}}
		msg, err := cli.EncodeDnsRequestWithParams(req, qt, codec)
		if err != nil {
			return "", false
		}
		wire, err := msg.Pack()
		if err != nil {
			return "", false
		}
		got := new(mdns.Msg)
		if err := got.Unpack(wire); err != nil {
			return "", false
		}
		back, err := srv.DecodeDnsRequest(commands.ComposeRequest(got, domain))
		if err != nil {
			return "decode-error: " + err.Error(), true
		}
		pr, ok := back.(*commands.PacketRequest)
		switch {
		case !ok:
			return fmt.Sprintf("decoded as %T", back), true
		case pr.UserId != req.UserId:
			return fmt.Sprintf("user id %d instead of %d", pr.UserId, req.UserId), true
		case pr.LastAckedSeqNo != req.LastAckedSeqNo:
			return fmt.Sprintf("ack %d instead of %d", pr.LastAckedSeqNo, req.LastAckedSeqNo), true
		case pr.Packet == nil || pr.Packet.SeqNo != req.Packet.SeqNo:
			return "sequence number differs", true
		case !bytes.Equal(pr.Packet.Data, payload):
			return fmt.Sprintf("payload differs (%d bytes sent)", n), true
		}
		return "", true
	}
	for g := 0; g < k; g++ {
		for i := 0; i < 64; i++ {
			if prob, ran := one(g, i); !ran || prob != "" {
				rec.Note("c09 concurrent: sequential control does not round-trip, family skipped for this codec", map[string]interface{}{"codec": codec.Name(), "problem": prob})
				return
			}
		}
	}
	var wg sync.WaitGroup
	var mu sync.Mutex
	var first string
	var firstG, firstI, bad, done int
	for g := 0; g < k; g++ {
		wg.Add(1)
		go func(g int) {
			defer wg.Done()
			for i := 0; i < rounds; i++ {
				var prob string
				var ran bool
				if p, site, val := vcommon.Guard(func() { prob, ran = one(g, i) }); p {
					prob, ran = "panic@"+site+": "+val, true
				}
				mu.Lock()
				if ran {
					done++
				}
				if prob != "" {
					bad++
					if first == "" {
						first, firstG, firstI = prob, g, i
					}
				}
				mu.Unlock()
			}
		}(g)
	}
	wg.Wait()
	rec.Case(fmt.Sprintf("concurrent/%s/%d/%d", codec.Name(), k, rounds), done > 0)
	rec.Stat("requests_compared", int64(done))
	rec.Stat("concurrent_requests_compared:"+codec.Name(), int64(done))
	if bad > 0 {
		desc["first_failure"] = map[string]interface{}{"goroutine": firstG, "request": firstI, "problem": first}
		rec.Violation("concurrent-users:"+codec.Name()+":request-not-recovered-although-it-is-alone", desc, map[string]interface{}{"failed": bad, "of": done, "first": first})
	}
}

func TestVerifC09(t *testing.T) {
	logrus.SetLevel(logrus.PanicLevel)
	logrus.SetOutput(io.Discard)
	rec := vcommon.Open()
	defer rec.Close()
	r := &c09Runner{rec: rec, t: t, fix: map[string]*c09Fix{}, lsrv: map[string]*ServerDnsListener{}}

	if rec.Replay != nil {
		var fam struct {
			Family string `json:"family"`
			Codec  string `json:"codec"`
			K      int    `json:"goroutines"`
			Rounds int    `json:"requests_each"`
		}
		var cb struct {
			Family string `json:"family"`
			L      int    `json:"domain_length"`
		}
		if json.Unmarshal(rec.Replay, &cb) == nil && cb.Family == "client-built-requests" {
			c09ClientBuilt(rec, cb.L)
			return
		}
		if json.Unmarshal(rec.Replay, &fam) == nil && fam.Family == "concurrent-users" {
			c09Concurrent(rec, c09CodecByName(fam.Codec), fam.K, fam.Rounds)
			return
		}
		var c c09Case
		if err := json.Unmarshal(rec.Replay, &c); err != nil {
			t.Fatal(err)
		}
		r.run(&c)
		return
	}

	// tunnel domains: lengths 4..120
	var domLens []int
	if rec.Thorough() {
		for l := 4; l <= 120; l += 3 {
			domLens = append(domLens, l)
		}
		domLens = append(domLens, 11, 18, 63, 120)
	} else {
		domLens = []int{4, 11, 18, 33, 64, 91, 120}
	}
	var domains []string
	seenDom := map[string]bool{}
	for _, l := range domLens {
		d := c09Domain(l)
		if !seenDom[d] {
			seenDom[d] = true
			domains = append(domains, d)
		}
	}
	qtN := len(c09QTypes)
	parts := 4

	var items []c09Item
	for _, e := range c09UpstreamCodecs {
		for d := range domains {
			for p := 0; p < parts; p++ {
				items = append(items, c09Item{"packet-sweep", e, d, p})
			}
		}
		for _, fam := range []string{"userids-options", "userids-packet", "userids-ping", "userids-probe-up", "userids-probe-frag",
			"options", "version", "probe-up", "probe-down", "probe-frag", "seqack", "mtu-edge"} {
			items = append(items, c09Item{fam, e, 0, 0})
		}
	}

	for _, e := range c09UpstreamCodecs {
		items = append(items, c09Item{"concurrent-users", e, 0, 0})
	}
	for p := 0; p < 4; p++ {
		items = append(items, c09Item{"client-built-requests", nil, 0, p})
	}
	for _, e := range c09UpstreamCodecs {
		for p := 0; p < c09CollideParts; p++ {
			items = append(items, c09Item{"colliding-domains", e, 0, p})
		}
	}

	for idx, it := range items {
		if !rec.Mine(idx) {
			continue
		}
		e := it.codec
		if it.fam == "client-built-requests" {
			// every tunnel-domain length from 4 to 200
			for L := 4 + it.part; L <= 200; L += 4 {
				c09ClientBuilt(rec, L)
			}
			continue
		}
		if it.fam == "concurrent-users" {
			c09Concurrent(rec, e, 8, rec.Pick(4000, 40000))
			continue
		}
		if it.fam == "colliding-domains" {
			r.colliding(e, it.part, c09CollideParts)
			rec.Seen("codec_family", e.Name()+"/"+it.fam)
			continue
		}
		tag := fmt.Sprintf("c09/%s/%s/%d/%d", it.fam, e.Name(), it.domain, it.part)
		rng := vcommon.NewRand(rec.Seed(), tag)
		rec.Mark(map[string]interface{}{"family": it.fam, "codec": e.Name(), "domain_index": it.domain, "part": it.part})
		n := 0
		// rotation of (query type, edns0, domain) for the families that do not take the full product
		rot := func(c *c09Case) {
			c.QType = uint16(c09QTypes[n%qtN])
			c.Edns0 = (n/qtN)%2 == 1
			c.Domain = domains[(n/(2*qtN))%len(domains)]
			n++
		}
		base := func(cmd string) *c09Case {
			return &c09Case{Cmd: cmd, Codec: e.Name(), Lazy: -1, Multi: -1, Closed: -1, Frag: -1}
		}

		switch it.fam {
		case "packet-sweep":
			dom := domains[it.domain]
			mtu := int(r.fixture(dom, e).mtu)
			if mtu > 4096 {
				rec.Inconclusive("getUpstreamMtu() is implausibly large; the sweep is capped", map[string]interface{}{"codec": e.Name(), "domain": dom, "mtu": mtu})
				mtu = 4096
			}
			gens := []string{"keyed", "random", "zero", "ff", "counter"}
			if rec.Thorough() {
				gens = append(gens, "keyed", "random")
			}
			for l := it.part; l <= mtu; l += parts {
				rec.Seen("payload_lengths:"+e.Name(), fmt.Sprint(l))
				for gi, g := range gens {
					data := c09Payload(g, l, uint64(l)*131+uint64(gi)*7+uint64(it.domain)+uint64(rec.Seed())*1000003, rng)
					combos := 1
					if rec.Thorough() {
						combos = 2 * qtN
						if gi >= 2 && gi <= 4 {
							combos = 4
						}
					}
					for k := 0; k < combos; k++ {
						c := base("packet")
						c.Domain, c.Gen, c.DataHex = dom, g, hex.EncodeToString(data)
						qi := n
						if rec.Thorough() {
							qi = k
						}
						c.QType = uint16(c09QTypes[qi%qtN])
						c.Edns0 = (qi/qtN)%2 == 1
						n++
						c.UserId = uint16(rng.Intn(1296))
						if n%3 == 0 {
							c.Ack, c.Seq = uint16(rng.Intn(65536)), uint16(rng.Intn(65536))
						} else {
							c.Ack, c.Seq = c09SeqVals[n%6], c09SeqVals[(n/6)%6]
						}
						r.run(c)
						if l == 33 && gi == 0 && k == 0 && it.domain == 1 {
							rec.Sample(c)
						}
					}
				}
			}
			rec.Seen("swept(codec/domain-length)", fmt.Sprintf("%s/%d", e.Name(), len(dom)))

		case "userids-options", "userids-packet", "userids-ping", "userids-probe-up", "userids-probe-frag":
			cmd := strings.TrimPrefix(it.fam, "userids-")
			pats := enc.Base64Encoding.TestPatterns()
			for id := 0; id < 1296; id++ {
				c := base(cmd)
				rot(c)
				c.UserId = uint16(id)
				rec.Seen("user_ids:"+cmd, fmt.Sprint(id))
				switch cmd {
				case "options":
					c.Lazy, c.Multi, c.Closed = id%3-1, (id/3)%3-1, (id/9)%3-1
					c.Up = c09AllCodes[id%8]
					c.Frag = c09FragVals[id%8]
				case "packet":
					mtu := int(r.fixture(c.Domain, e).mtu)
					c.Gen = "keyed"
					c.DataHex = hex.EncodeToString(c09Payload("keyed", id%(mtu+1), uint64(id), rng))
					c.Ack, c.Seq = uint16(rng.Intn(65536)), uint16(rng.Intn(65536))
				case "ping":
					c.Ack = uint16(rng.Intn(65536))
				case "probe-up":
					c.Gen = "Base64#0"
					c.DataHex = hex.EncodeToString(c09ClientPattern(pats[0]))
				case "probe-frag":
					c.Frag = c09FragVals[id%8]
				}
				r.run(c)
			}

		case "options":
			fi := 0
			for flags := 0; flags < 27; flags++ {
				for di := -1; di < 8; di++ {
					for ui := -1; ui < 8; ui++ {
						fr := []int64{-1}
						fr = append(fr, c09FragVals...)
						if !rec.Thorough() {
							fr = []int64{fr[fi%9]} // quick: the fragment size rotates instead of multiplying
							fi++
						}
						for _, fv := range fr {
							c := base("options")
							rot(c)
							c.UserId = uint16(rng.Intn(1296))
							c.Lazy, c.Multi, c.Closed = flags%3-1, (flags/3)%3-1, (flags/9)%3-1
							if di >= 0 {
								c.Down = c09AllCodes[di]
							}
							if ui >= 0 {
								c.Up = c09AllCodes[ui]
							}
							c.Frag = fv
							rec.Seen("options_tuples(flags,down,up)", fmt.Sprintf("%d/%s/%s", flags, c.Down, c.Up))
							r.run(c)
							if flags == 5 && di == 2 && ui == 3 {
								rec.Sample(c)
							}
						}
					}
				}
			}

		case "version":
			vals := []uint32{0, 1, 0xff, 0x100, ProtocolVersion, 0x7fffffff, 0x80000000, 0xfffffffe, 0xffffffff}
			for k := 0; k < rec.Pick(40, 400); k++ {
				vals = append(vals, rng.Uint32())
			}
			for _, v := range vals {
				for rep := 0; rep < 2*qtN; rep++ {
					c := base("version")
					rot(c)
					c.Version = v
					r.run(c)
				}
			}

		case "probe-up":
			for _, pe := range c09ProbeCodecs {
				for pi, pat := range pe.TestPatterns() {
					for rep := 0; rep < 2*qtN*len(domains); rep++ {
						c := base("probe-up")
						rot(c)
						c.UserId = uint16(rng.Intn(1296))
						c.Gen = fmt.Sprintf("%s#%d", pe.Name(), pi)
						c.DataHex = hex.EncodeToString(c09ClientPattern(pat))
						rec.Seen("probe_patterns", c.Gen)
						r.run(c)
						if rep == 0 && pi == 0 {
							rec.Sample(c)
						}
					}
				}
			}

		case "probe-down":
			for _, code := range c09AllCodes {
				for rep := 0; rep < 2*qtN*len(domains); rep++ {
					c := base("probe-down")
					rot(c)
					c.Down = code
					rec.Seen("probe_down_codecs", code)
					r.run(c)
				}
			}

		case "probe-frag":
			fv := append([]int64{}, c09FragVals...)
			for k := 0; k < rec.Pick(24, 400); k++ {
				v := int64(rng.Uint32())
				if v == 0xFFFFFFFF {
					v--
				}
				fv = append(fv, v)
			}
			for _, v := range fv {
				for rep := 0; rep < 2*qtN; rep++ {
					c := base("probe-frag")
					rot(c)
					c.UserId = uint16(rng.Intn(1296))
					c.Frag = v
					r.run(c)
				}
			}

		case "mtu-edge":
			// the length budget at the top of the range, for EVERY domain length 4..120
			for dl := 4; dl <= 120; dl++ {
				dom := c09Domain(dl)
				mtu := int(r.fixture(dom, e).mtu)
				if mtu > 4096 {
					rec.Inconclusive("getUpstreamMtu() is implausibly large; the edge family is capped", map[string]interface{}{"codec": e.Name(), "domain": dom, "mtu": mtu})
					mtu = 4096
				}
				rec.Seen("edge_domain_lengths", fmt.Sprintf("%03d", dl))
				for l := mtu - 2; l <= mtu; l++ {
					if l < 0 {
						continue
					}
					for gi, g := range []string{"keyed", "random", "zero", "ff", "counter"} {
						c := base("packet")
						c.QType = uint16(c09QTypes[n%qtN])
						c.Edns0 = (n/qtN)%2 == 1
						n++
						c.Domain, c.Gen = dom, g
						c.DataHex = hex.EncodeToString(c09Payload(g, l, uint64(dl)*977+uint64(gi)+uint64(rec.Seed())*1000003, rng))
						c.UserId = uint16(rng.Intn(1296))
						c.Ack, c.Seq = c09SeqVals[n%6], c09SeqVals[(n/6)%6]
						r.run(c)
					}
				}
			}

		case "seqack":
			type pair struct{ a, s uint16 }
			var ps []pair
			for _, a := range c09SeqVals {
				for _, s := range c09SeqVals {
					ps = append(ps, pair{a, s})
				}
			}
			for k := 0; k < rec.Pick(200, 4000); k++ {
				ps = append(ps, pair{uint16(rng.Intn(65536)), uint16(rng.Intn(65536))})
			}
			for _, p := range ps {
				for _, cmd := range []string{"ping", "packet"} {
					c := base(cmd)
					rot(c)
					c.UserId = uint16(rng.Intn(1296))
					c.Ack = p.a
					if cmd == "packet" {
						c.Seq = p.s
						c.Gen = "random"
						c.DataHex = hex.EncodeToString(c09Payload("random", rng.Intn(24), 0, rng))
					}
					r.run(c)
				}
			}
		}
		rec.Seen("codec_family", e.Name()+"/"+it.fam)
	}
	for _, d := range domains {
		rec.Seen("domain_lengths", fmt.Sprintf("%03d", len(d)))
	}
	for i := 0; i < qtN; i++ {
		rec.Seen("query_types", mdns.Type(c09QTypes[i]).String())
	}
}

// c09ClientPattern is what ClientDnsConnection.EncodingTestUpstream puts on the wire for a codec's test pattern.
func c09ClientPattern(pat []byte) []byte {
	if len(pat) >= 2 && string(pat[0:2]) == "aA" {
		return pat
	}
	return append([]byte("aA"), pat...)
}
