package dns

// C11: DNS auto-negotiation only settles on parameters that work (DESIGN.md §4 C11).
//
// For every path behaviour of a generated family a fresh ServerDnsListener and a fresh
// ClientDnsConnection are connected through the shared in-memory DNS network with a path model
// (c11Path) that mangles queries and answers in wire form. The REAL Handshake() runs; then
//   * termination is decided in logical steps (exchanges counted by the path, never seconds);
//   * an error is an accepted outcome;
//   * success is followed by payloads of 1 byte .. 8 fragments in both directions over THE SAME path
//     instance, which must arrive intact.

import (
	"bytes"
	"encoding/json"
	"fmt"
	"hash/fnv"
	"io"
	"regexp"
	"runtime"
	"sort"
	"strings"
	"sync"
	"testing"
	"time"

	"github.com/bokysan/socketace/v2/internal/zzverif/vcommon"
	mdns "github.com/miekg/dns"
	"github.com/pkg/errors"
	log "github.com/sirupsen/logrus"
)

const (
	c11Domain          = "t.example.org"
	c11HandshakeLimit  = 20000  // exchanges without Handshake returning = does not terminate
	c11IdleAfterWriter = 1000   // extra exchanges before declaring accepted bytes lost
	c11StallExchanges  = 200000 // exchanges without any progress = hang
)

// ---- behaviours ------------------------------------------------------------------------------

type c11Behaviour struct {
	Name      string   `json:"name"`
	Case      string   `json:"case,omitempty"`      // lower | upper | random (0x20 mixing, seeded)
	CaseSeed  int64    `json:"case_seed,omitempty"` //
	SevenBit  string   `json:"seven_bit,omitempty"` // drop | qmark : what happens to query names with octets >= 0x80
	Types     []string `json:"types,omitempty"`     // record types that are answered (empty = all eight)
	Refuse    string   `json:"refuse,omitempty"`    // timeout | nxdomain | empty : what the other types get
	Limit     int      `json:"limit,omitempty"`     // max octets of a packed answer (0 = unlimited)
	Oversize  string   `json:"oversize,omitempty"`  // drop | tc
	StripEdns bool     `json:"strip_edns,omitempty"`
	// a transient fault during the negotiation only: the queries number LoseFrom .. LoseFrom+LoseCount-1 of one command
	// letter are lost (the path is otherwise as described above, also afterwards)
	LoseCmd   string `json:"lose_negotiation_cmd,omitempty"`
	LoseFrom  int    `json:"lose_from,omitempty"`
	LoseCount int    `json:"lose_count,omitempty"`
	LoseWhat  string `json:"lose_what,omitempty"` // "" = the query never reaches the server | "answer" = the server acts on it, its answer is lost
	DataSeed  int64  `json:"data_seed"`
	// query names may only consist of host-name characters (letters, digits, '-'): drop | replace
	Ldh string `json:"hostname_characters_only,omitempty"`
	// host names inside answers (CNAME, MX, SRV targets) come back lower- / upper-cased
	AnswerCase string `json:"answer_case,omitempty"`
	// the tunnel domain, when it is not the usual t.example.org (the length of the domain decides how much room the probes
	// and packets of every codec have in a query name)
	Domain string `json:"domain,omitempty"`
}

func (b *c11Behaviour) domain() string {
	if b.Domain != "" {
		return b.Domain
	}
	return c11Domain
}

// c11LongDomain builds a tunnel domain of exactly n characters out of labels of at most 63.
func c11LongDomain(n int) string {
	var sb strings.Builder
	for sb.Len() < n {
		if sb.Len() > 0 {
			sb.WriteByte('.')
		}
		room := n - sb.Len()
		l := 40
		if room <= 63 {
			l = room
		} else if room-l == 1 { // never leave room for a dot alone
			l = 39
		}
		for i := 0; i < l; i++ {
			sb.WriteByte("tunnelzone"[i%10])
		}
	}
	return sb.String()
}

var c11TypeNames = []string{"NULL", "PRIVATE", "TXT", "SRV", "MX", "CNAME", "AAAA", "A"}

func c11TypeCode(name string) uint16 {
	switch name {
	case "NULL":
		return mdns.TypeNULL
	case "PRIVATE":
		return 0xFFA0
	case "TXT":
		return mdns.TypeTXT
	case "SRV":
		return mdns.TypeSRV
	case "MX":
		return mdns.TypeMX
	case "CNAME":
		return mdns.TypeCNAME
	case "AAAA":
		return mdns.TypeAAAA
	case "A":
		return mdns.TypeA
	}
	panic("type " + name)
}

func c11TypeName(code uint16) string {
	for _, n := range c11TypeNames {
		if c11TypeCode(n) == code {
			return n
		}
	}
	return fmt.Sprintf("TYPE%d", code)
}

// Class names the kinds of mangling configured (not the particular subset / seed).
func (b *c11Behaviour) Class() string {
	var p []string
	if b.Case != "" {
		p = append(p, "case="+b.Case)
	}
	if b.SevenBit != "" {
		p = append(p, "7bit="+b.SevenBit)
	}
	if len(b.Types) > 0 && len(b.Types) < 8 {
		p = append(p, "refused-types="+b.Refuse)
	}
	if b.Limit > 0 {
		p = append(p, fmt.Sprintf("limit=%d/%s", b.Limit, b.Oversize))
	}
	if b.StripEdns {
		p = append(p, "no-edns0")
	}
	if b.LoseCmd != "" {
		p = append(p, fmt.Sprintf("negotiation-loses-%s%s#%d+%d", b.LoseWhat, b.LoseCmd, b.LoseFrom, b.LoseCount))
	}
	if b.Ldh != "" {
		p = append(p, "hostname-characters-only="+b.Ldh)
	}
	if b.AnswerCase != "" {
		p = append(p, "answer-names="+b.AnswerCase)
	}
	if b.Domain != "" {
		p = append(p, fmt.Sprintf("domain-of-%d-characters", len(b.Domain)))
	}
	if len(p) == 0 {
		return "transparent"
	}
	return strings.Join(p, "+")
}

func (b *c11Behaviour) Key() string {
	return fmt.Sprintf("%s|%s|%d", b.Class(), strings.Join(b.Types, ","), b.CaseSeed)
}

// ---- the path model --------------------------------------------------------------------------

// what the path did to one exchange (bit set)
const (
	c11CaseChanged  = 1 << iota // rewrite: letters of the query name changed case
	c11HiReplaced               // rewrite: octets >= 0x80 replaced by '?'
	c11EdnsStripped             // rewrite: OPT removed from the query
	c11QDropHi                  // loss: query with 8-bit octets dropped
	c11QDropType                // loss: query of a refused type dropped
	c11ANxdomain                // loss: refused type answered NXDOMAIN
	c11AEmpty                   // loss: refused type answered NOERROR without records
	c11ADropSize                // loss: answer above the size limit dropped
	c11ATcSize                  // loss: answer above the size limit truncated (TC, no records)
	c11ServerSilent             // loss: the server itself sent nothing (onMessage error / pack failure)
	c11QLostOnce                // loss: a query of the negotiation lost by the transient fault
	c11AnsCase                  // rewrite: letters of the host names in an answer's record data changed case
	c11LdhReplaced              // rewrite: octets other than letters, digits and '-' replaced by '-'
	c11QDropLdh                 // loss: query whose name has octets other than letters, digits and '-' dropped
	c11RewriteMask  = c11CaseChanged | c11HiReplaced | c11EdnsStripped | c11AnsCase | c11LdhReplaced
)

var c11FateNames = []string{"case-changed", "8bit-replaced", "edns0-stripped", "query-dropped(8bit)", "query-dropped(type)",
	"answer-nxdomain(type)", "answer-empty(type)", "answer-dropped(size)", "answer-truncated(size)", "server-sent-nothing", "negotiation-query-lost(transient)", "answer-host-names-case-changed", "non-hostname-octets-replaced", "query-dropped(non-hostname-octets)"}

func c11FateClass(bits int) string {
	if bits&^c11RewriteMask != 0 {
		bits &^= c11RewriteMask // something was lost: that is what makes probes / transfers fail
	}
	if bits&^c11ServerSilent != 0 {
		bits &^= c11ServerSilent // name what the path did; the server's own silence only when the path lost nothing
	}
	if bits == 0 {
		return "nothing-lost-nothing-rewritten"
	}
	var p []string
	for i, n := range c11FateNames {
		if bits&(1<<uint(i)) != 0 {
			p = append(p, n)
		}
	}
	return strings.Join(p, "+")
}

type c11Path struct {
	b        *c11Behaviour
	answered map[uint16]bool
	comm     *vClientComm

	mu         sync.Mutex
	exch       int64
	phase      int // 0 = handshake, 1 = data
	tripped    bool
	tripStep   string
	tripStack  string
	pending    bool
	cur        int
	window     [64]int // fates of the last exchanges
	wpos       int
	cmds       [64]byte
	fateCount  map[int]int64
	last       int // fate of the most recent exchange
	maxAnswer  int
	maxQuery   int
	cmdSeen    [256]int // queries per command letter (transient fault)
	loseAnswer bool
}

func newC11Path(b *c11Behaviour) *c11Path {
	p := &c11Path{b: b, fateCount: map[int]int64{}}
	if len(b.Types) > 0 {
		p.answered = map[uint16]bool{}
		for _, t := range b.Types {
			p.answered[c11TypeCode(t)] = true
		}
	}
	return p
}

func (p *c11Path) push(f int) {
	p.window[p.wpos%len(p.window)] = f
	p.last = f
	p.wpos++
	p.fateCount[f]++
	p.pending = false
}

// resetWindow forgets the recent fates (called at the start of every transfer)
func (p *c11Path) resetWindow() {
	p.mu.Lock()
	if p.pending {
		p.push(p.cur | c11ServerSilent)
	}
	for i := range p.window {
		p.window[i] = 0
		p.cmds[i] = 0
	}
	p.mu.Unlock()
}

func (p *c11Path) windowBits() (bits int, cmds string) {
	p.mu.Lock()
	defer p.mu.Unlock()
	if p.pending {
		p.push(p.cur | c11ServerSilent)
	}
	seen := map[byte]bool{}
	for i, f := range p.window {
		bits |= f
		if c := p.cmds[i]; c != 0 && !seen[c] {
			seen[c] = true
			cmds += string(c)
		}
	}
	b := []byte(cmds)
	sort.Slice(b, func(i, j int) bool { return b[i] < b[j] })
	return bits, string(b)
}

func (p *c11Path) Exchanges() int64 {
	p.mu.Lock()
	defer p.mu.Unlock()
	return p.exch
}

var c11FrameRe = regexp.MustCompile(`\(\*ClientDnsConnection\)\.([A-Za-z0-9_]+)`)

// c11Step names the method Handshake was executing, from the stack of the calling goroutine.
func c11Step(stack string) string {
	var frames []string
	for _, l := range strings.Split(stack, "\n") {
		if strings.HasPrefix(l, "\t") {
			continue
		}
		if m := c11FrameRe.FindStringSubmatch(l); m != nil {
			frames = append(frames, m[1])
		}
	}
	for i, f := range frames {
		if f == "Handshake" && i > 0 {
			return frames[i-1]
		}
	}
	if len(frames) > 0 {
		return frames[len(frames)-1]
	}
	return "unknown"
}

// mangleNames rewrites the label octets of the question names in a packed query.
func c11MangleNames(wire []byte, f func(name []byte, idx [][2]int)) {
	if len(wire) < 12 {
		return
	}
	qd := int(wire[4])<<8 | int(wire[5])
	off := 12
	for q := 0; q < qd; q++ {
		var idx [][2]int
		for off < len(wire) {
			l := int(wire[off])
			if l == 0 {
				off++
				break
			}
			if l&0xC0 != 0 || off+1+l > len(wire) {
				return
			}
			idx = append(idx, [2]int{off + 1, off + 1 + l})
			off += 1 + l
		}
		f(wire, idx)
		off += 4
	}
}

func (p *c11Path) Query(q *mdns.Msg) *mdns.Msg {
	p.mu.Lock()
	defer p.mu.Unlock()
	if p.pending {
		p.push(p.cur | c11ServerSilent)
	}
	p.exch++
	cmd := byte('?')
	if len(q.Question) > 0 && len(q.Question[0].Name) > 0 {
		cmd = q.Question[0].Name[0] | 0x20
	}
	p.cmds[p.wpos%len(p.cmds)] = cmd
	if p.phase == 0 && p.exch > c11HandshakeLimit && !p.tripped {
		// this runs on the goroutine that executes Handshake(): its own stack says which step loops
		p.tripped = true
		buf := make([]byte, 1<<15)
		buf = buf[:runtime.Stack(buf, false)]
		p.tripStack = string(buf)
		p.tripStep = c11Step(p.tripStack)
		p.comm.Close() // the loops of Handshake test Closed()
	}
	fate := 0
	b := p.b
	if p.phase == 0 && b.LoseCmd != "" && cmd == b.LoseCmd[0] {
		k := p.cmdSeen[cmd]
		p.cmdSeen[cmd]++
		if k >= b.LoseFrom && k < b.LoseFrom+b.LoseCount {
			if b.LoseWhat == "answer" {
				p.loseAnswer = true // delivered to the server; what comes back is dropped (see Answer)
			} else {
				p.push(c11QLostOnce)
				return nil
			}
		}
	}
	if b.StripEdns && q.IsEdns0() != nil {
		var ex []mdns.RR
		for _, rr := range q.Extra {
			if _, ok := rr.(*mdns.OPT); !ok {
				ex = append(ex, rr)
			}
		}
		q.Extra = ex
		fate |= c11EdnsStripped
	}
	wire, err := q.Pack()
	if err != nil {
		p.push(fate | c11ServerSilent)
		return nil
	}
	if len(wire) > p.maxQuery {
		p.maxQuery = len(wire)
	}
	hi, drop, nonLdh := false, false, false
	c11MangleNames(wire, func(w []byte, idx [][2]int) {
		// 0x20 mixing is a function of the (case-folded) name, so the path is deterministic per message
		var h uint64
		if b.Case == "random" {
			hh := fnv.New64a()
			fmt.Fprintf(hh, "%d/", b.CaseSeed)
			for _, r := range idx {
				hh.Write(bytes.ToLower(w[r[0]:r[1]]))
				hh.Write([]byte{'.'})
			}
			h = hh.Sum64()
		}
		n := 0
		for _, r := range idx {
			for i := r[0]; i < r[1]; i++ {
				c := w[i]
				if b.Ldh != "" && !((c >= 'a' && c <= 'z') || (c >= 'A' && c <= 'Z') || (c >= '0' && c <= '9') || c == '-') {
					// a resolver that only lets host names through (letters, digits, hyphen)
					nonLdh = true
					if b.Ldh == "replace" {
						w[i] = '-'
						fate |= c11LdhReplaced
					}
					continue
				}
				switch {
				case c >= 0x80:
					hi = true
					if b.SevenBit == "qmark" {
						w[i] = '?'
						fate |= c11HiReplaced
					}
				case (c >= 'a' && c <= 'z') || (c >= 'A' && c <= 'Z'):
					nc := c
					switch b.Case {
					case "lower":
						nc = c | 0x20
					case "upper":
						nc = c &^ 0x20
					case "random":
						n++
						x := (h + uint64(n)*0x9e3779b97f4a7c15)
						x ^= x >> 29
						x *= 0xbf58476d1ce4e5b9
						x ^= x >> 32
						if x&1 == 0 {
							nc = c | 0x20
						} else {
							nc = c &^ 0x20
						}
					}
					if nc != c {
						w[i] = nc
						fate |= c11CaseChanged
					}
				}
			}
		}
	})
	if hi && b.SevenBit == "drop" {
		drop = true
		fate |= c11QDropHi
	}
	if nonLdh && b.Ldh == "drop" {
		drop = true
		fate |= c11QDropLdh
	}
	if drop {
		p.push(fate)
		return nil
	}
	out := new(mdns.Msg)
	if err := out.Unpack(wire); err != nil {
		p.push(fate | c11QDropHi)
		return nil
	}
	if p.answered != nil && len(out.Question) > 0 && !p.answered[out.Question[0].Qtype] && b.Refuse == "timeout" {
		p.push(fate | c11QDropType)
		return nil
	}
	p.cur = fate
	p.pending = true
	return out
}

func c11Rewire(m *mdns.Msg) *mdns.Msg {
	w, err := m.Pack()
	if err != nil {
		return nil
	}
	out := new(mdns.Msg)
	if out.Unpack(w) != nil {
		return nil
	}
	return out
}

func (p *c11Path) Answer(q *mdns.Msg, a *mdns.Msg, wire []byte) *mdns.Msg {
	p.mu.Lock()
	defer p.mu.Unlock()
	fate := p.cur
	b := p.b
	if p.loseAnswer {
		p.loseAnswer = false
		p.push(fate | c11QLostOnce)
		return nil
	}
	if p.answered != nil && len(q.Question) > 0 && !p.answered[q.Question[0].Qtype] {
		// the resolver does not serve this type: whatever the tunnel server said is replaced
		r := new(mdns.Msg)
		if b.Refuse == "nxdomain" {
			r.SetRcode(q, mdns.RcodeNameError)
			fate |= c11ANxdomain
		} else {
			r.SetReply(q)
			fate |= c11AEmpty
		}
		p.push(fate)
		return c11Rewire(r)
	}
	if len(wire) > p.maxAnswer {
		p.maxAnswer = len(wire)
	}
	limit := b.Limit
	if b.StripEdns && (limit == 0 || limit > 512) {
		limit = 512 // without EDNS0 a resolver carries at most 512 octets over UDP
	}
	if limit > 0 && len(wire) > limit {
		if b.Oversize == "tc" {
			a.Truncated = true
			a.Answer, a.Ns, a.Extra = nil, nil, nil
			p.push(fate | c11ATcSize)
			return c11Rewire(a)
		}
		p.push(fate | c11ADropSize)
		return nil
	}
	if b.AnswerCase != "" {
		// a resolver that normalises the case of the host names it hands out (CNAME, MX and SRV targets are names)
		fold := func(name string) string {
			out := []byte(name)
			for i, c := range out {
				if (c >= 'a' && c <= 'z') || (c >= 'A' && c <= 'Z') {
					if b.AnswerCase == "lower" {
						out[i] = c | 0x20
					} else {
						out[i] = c &^ 0x20
					}
				}
			}
			return string(out)
		}
		changed := false
		for _, rr := range a.Answer {
			switch t := rr.(type) {
			case *mdns.CNAME:
				if n := fold(t.Target); n != t.Target {
					t.Target, changed = n, true
				}
			case *mdns.MX:
				if n := fold(t.Mx); n != t.Mx {
					t.Mx, changed = n, true
				}
			case *mdns.SRV:
				if n := fold(t.Target); n != t.Target {
					t.Target, changed = n, true
				}
			}
		}
		if changed {
			p.push(fate | c11AnsCase)
			return c11Rewire(a)
		}
	}
	p.push(fate)
	return a
}

// ---- one behaviour ---------------------------------------------------------------------------

type c11Verdict struct {
	sig  string
	info map[string]interface{}
}

func c11ErrClass(err error) string {
	if err == nil {
		return "nil"
	}
	if isTimeout(err) {
		return "timeout"
	}
	s := errors.Cause(err).Error()
	if i := strings.IndexAny(s, ":\n"); i > 0 {
		s = s[:i]
	}
	s = regexp.MustCompile(`[0-9]+|"[^"]*"|#`).ReplaceAllString(s, "N")
	s = strings.Join(strings.Fields(s), "-")
	if len(s) > 48 {
		s = s[:48]
	}
	return s
}

func c11AllStacks() string {
	buf := make([]byte, 1<<18)
	return string(buf[:runtime.Stack(buf, true)])
}

// c11LockWait looks for the goroutine that runs Handshake; when it is parked in a mutex Lock it returns the
// socketace function that asked for the lock.
func c11LockWait(stacks string) string {
	for _, g := range strings.Split(stacks, "\n\n") {
		if !strings.Contains(g, ".(*ClientDnsConnection).Handshake(") || !strings.Contains(g, "sync.(*Mutex).Lock") {
			continue
		}
		lines := strings.Split(g, "\n")
		for i, l := range lines {
			if strings.HasPrefix(l, "sync.(*Mutex).Lock") || strings.HasPrefix(l, "sync.(*Mutex).lockSlow") {
				for _, c := range lines[i+1:] {
					if strings.HasPrefix(c, "github.com/bokysan/socketace") {
						f := c[strings.LastIndex(c, "/")+1:]
						if k := strings.LastIndex(f, "("); k > 0 {
							f = f[:k]
						}
						return f
					}
				}
			}
		}
		return "?"
	}
	return ""
}

func c11Run(rec *vcommon.Rec, b *c11Behaviour) {
	rec.Mark(b)
	class := b.Class()
	path := newC11Path(b)
	scomm := &vServerComm{}
	lst := NewServerDnsListener(b.domain(), scomm)
	comm := newVClientComm(scomm, vAddr(11))
	comm.path = path
	path.comm = comm
	defer func() { comm.Close(); scomm.Close() }()
	client, err := NewClientDnsConnection(b.domain(), comm)
	if err != nil {
		rec.Inconclusive("NewClientDnsConnection: "+err.Error(), b)
		return
	}

	type hsResult struct {
		err      error
		panicked bool
		site     string
		val      string
	}
	done := make(chan hsResult, 1)
	go func() {
		var r hsResult
		r.panicked, r.site, r.val = vcommon.Guard(func() { r.err = client.Handshake() })
		done <- r
	}()

	// Termination is decided by the path (exchange count). The wall clock is only a backstop for a
	// Handshake that blocks without exchanging anything.
	var res hsResult
	lastEx, lastChange := int64(-1), time.Now()
	waiting := true
	for waiting {
		select {
		case res = <-done:
			waiting = false
		case <-time.After(50 * time.Millisecond):
			if n := path.Exchanges(); n != lastEx {
				lastEx, lastChange = n, time.Now()
			} else if time.Since(lastChange) > 60*time.Second {
				// A Handshake that waits for a LOCK while nothing is exchanged is not slow, it is stuck: nobody is left to
				// release the lock (every timeout of the path is virtual, an exchange takes microseconds).
				if fn := c11LockWait(c11AllStacks()); fn != "" {
					rec.Violation("handshake-does-not-terminate:waits-for-a-lock-nobody-holds:"+fn, b, map[string]interface{}{
						"exchanges_when_stuck": n, "path_class": class, "seconds_without_an_exchange": 60, "goroutines": c11AllStacks()})
					rec.Stat("behaviours", 1)
					rec.Stat("outcome:non-termination", 1)
					rec.Seen("behaviour_class", class)
					rec.Seen("outcome_by_class", class+" => non-termination")
					rec.Case(b.Key(), true)
					return
				}
				rec.Inconclusive("watchdog: Handshake neither returned nor exchanged anything for 60s ("+class+")",
					map[string]interface{}{"behaviour": b, "exchanges": n, "goroutines": c11AllStacks()})
				rec.Stat("outcome:inconclusive", 1)
				return
			}
		}
	}
	hsExchanges := path.Exchanges()
	path.mu.Lock()
	path.phase = 1
	tripped, step, stack := path.tripped, path.tripStep, path.tripStack
	path.mu.Unlock()
	rec.Stat("behaviours", 1)
	rec.Seen("behaviour_class", class)
	rec.Stat("handshake_exchanges", hsExchanges)

	finish := func(outcome string, nontrivial bool) {
		rec.Note("behaviour", map[string]interface{}{"name": b.Name, "types": b.Types, "outcome": outcome, "handshake_exchanges": hsExchanges, "err": fmt.Sprint(res.err)})
		rec.Stat("outcome:"+outcome, 1)
		rec.Seen("outcome_by_class", class+" => "+outcome)
		rec.Case(b.Key(), nontrivial)
		path.mu.Lock()
		for f, n := range path.fateCount {
			if f != 0 {
				for i, name := range c11FateNames {
					if f&(1<<uint(i)) != 0 {
						rec.Stat("path:"+name, n)
					}
				}
			} else {
				rec.Stat("path:untouched", n)
			}
		}
		rec.StatMax("answer_octets", int64(path.maxAnswer))
		rec.StatMax("query_octets", int64(path.maxQuery))
		path.mu.Unlock()
	}

	switch {
	case tripped:
		bits, cmds := path.windowBits()
		sig := fmt.Sprintf("handshake-does-not-terminate:%s:%s", step, c11FateClass(bits))
		rec.Violation(sig, b, map[string]interface{}{"exchanges_when_stopped": hsExchanges, "limit": c11HandshakeLimit,
			"commands_in_last_64_exchanges": cmds, "path_class": class, "last_server_reason": comm.Stats().LastErr,
			"handshake_returned_after_close": fmt.Sprint(res.err), "stack_of_handshake_goroutine": stack})
		finish("non-termination", true)
		return
	case res.panicked:
		_, cmds := path.windowBits()
		path.mu.Lock()
		last := path.last
		path.mu.Unlock()
		// the panic is raised while the answer of the last exchange is decoded
		sig := fmt.Sprintf("handshake-panics:%s:%s", res.site, c11FateClass(last))
		rec.Violation(sig, b, map[string]interface{}{"panic": res.val, "exchanges": hsExchanges, "commands_in_last_64_exchanges": cmds, "path_class": class})
		finish("panic", true)
		return
	case res.err != nil:
		rec.StatMax("handshake_exchanges(returned)", hsExchanges)
		rec.Seen("handshake_errors", c11ErrClass(res.err))
		rec.Sample(map[string]interface{}{"behaviour": b, "outcome": "error", "error": res.err.Error(), "exchanges": hsExchanges})
		finish("error(accepted)", hsExchanges > 0)
		return
	}
	rec.StatMax("handshake_exchanges(returned)", hsExchanges)

	// success: the server side of this session
	var user *userConnection
	for len(lst.accept) > 0 {
		c, err := lst.Accept()
		if err != nil {
			break
		}
		if u := c.(*userConnection); u.UserId == client.userId {
			user = u
		}
	}
	if user == nil {
		rec.Violation("negotiated-parameters-do-not-work:setup:no-server-session-for-user", b, map[string]interface{}{"user": client.userId})
		finish("success", true)
		return
	}
	verdicts, bytesOK := c11Data(rec, b, path, comm, client, user)
	for _, v := range verdicts {
		rec.Violation(v.sig, b, v.info)
	}
	if len(verdicts) > 0 {
		finish("success-but-data-fails", true)
	} else {
		finish("success", bytesOK > 0)
	}
}

// ---- data phase ------------------------------------------------------------------------------

type c11Transfer struct {
	dir     string // c2s | s2c | both
	size    [2]int // bytes c2s, s2c
	content string
}

var c11Special = func() []byte {
	s := []byte{'.', '\\', ' ', '"', ';', '(', ')', '@', '$', 0x7f}
	for c := 0; c < 0x20; c++ {
		s = append(s, byte(c))
	}
	for c := 0x80; c <= 0xff; c++ {
		s = append(s, byte(c))
	}
	return s
}()

func c11Fill(content string, key uint64, off int64, buf []byte) {
	switch content {
	case "zeros":
		for i := range buf {
			buf[i] = 0
		}
	case "ones":
		for i := range buf {
			buf[i] = 0xff
		}
	case "special":
		for i := range buf {
			buf[i] = c11Special[(int(off)+i)%len(c11Special)]
		}
	case "dots":
		for i := range buf {
			buf[i] = ".\\"[(int(off)+i)&1]
		}
	default:
		vcommon.FillKeyed(key, off, buf)
	}
}

type c11Dir struct {
	name     string
	key      uint64
	expected []byte
	read     int
	w        io.Writer
	hasData  func() bool
	r        io.Reader
	frag     int
}

func c11Data(rec *vcommon.Rec, b *c11Behaviour, path *c11Path, comm *vClientComm, client *ClientDnsConnection, user *userConnection) ([]c11Verdict, int64) {
	qt := c11TypeName(uint16(*client.Serializer.Upstream.QueryType))
	up, down := client.Serializer.Upstream.Encoder.Name(), client.Serializer.Downstream.Encoder.Name()
	upFrag := int(client.Serializer.Upstream.FragmentSize)
	downFrag := int(user.Serializer.Downstream.FragmentSize)
	tupleClass := qt + "/" + up + "/" + down
	tuple := fmt.Sprintf("%s edns0=%v lazy=%v upfrag=%d downfrag=%d", tupleClass, client.Serializer.UseEdns0, client.lazymode, upFrag, downFrag)
	rec.Seen("negotiated_tuple", tuple)
	rec.Seen("negotiated_tuple_class", tupleClass)
	srv := fmt.Sprintf("%s/%s", user.Serializer.Upstream.Encoder.Name(), user.Serializer.Downstream.Encoder.Name())
	if srv != up+"/"+down {
		rec.Seen("server_mirror_differs(client=>server)", tupleClass+" => "+srv)
	}
	rec.Sample(map[string]interface{}{"behaviour": b, "outcome": "success", "negotiated": tuple, "client_downfrag": client.Serializer.Downstream.FragmentSize})

	var verdicts []c11Verdict
	fail := func(dir, what string, info map[string]interface{}) {
		bits, cmds := path.windowBits()
		info["negotiated"] = tuple
		info["path_class"] = b.Class()
		info["commands_in_last_64_exchanges"] = cmds
		info["last_server_reason"] = comm.Stats().LastErr
		verdicts = append(verdicts, c11Verdict{fmt.Sprintf("negotiated-parameters-do-not-work:%s:%s:%s:%s", dir, what, tupleClass, c11FateClass(bits)), info})
	}
	if upFrag < 1 || downFrag < 1 {
		fail("setup", "fragment-size-zero", map[string]interface{}{"upfrag": upFrag, "downfrag": downFrag})
		return verdicts, 0
	}

	dirs := [2]*c11Dir{
		{name: "c2s", key: uint64(b.DataSeed)*2 + 1, w: client, r: user, hasData: user.in.HasData, frag: upFrag},
		{name: "s2c", key: uint64(b.DataSeed)*2 + 2, w: user, r: client, hasData: client.in.HasData, frag: downFrag},
	}
	var plan []c11Transfer
	for d := 0; d < 2; d++ {
		f := dirs[d].frag
		name := dirs[d].name
		one := func(n int, content string) {
			if n < 1 {
				n = 1
			}
			t := c11Transfer{dir: name, content: content}
			t.size[d] = n
			plan = append(plan, t)
		}
		for _, n := range []int{1, 2, f - 1, f, f + 1, 2*f + 3, 8 * f} {
			one(n, "keyed")
		}
		for _, c := range []string{"zeros", "ones", "special", "dots"} {
			one(1, c)
			one(f, c)
			one(3*f+1, c)
		}
	}
	plan = append(plan, c11Transfer{dir: "both", size: [2]int{5*upFrag + 1, 3*downFrag + 2}, content: "keyed"})
	plan = append(plan, c11Transfer{dir: "both", size: [2]int{8 * upFrag, 8 * downFrag}, content: "special"})

	var pumpErrs int64
	var lastPumpErr string
	buf := make([]byte, 1<<16)
	var verified int64

	for _, t := range plan {
		path.resetWindow()
		type wres struct {
			n   int
			err error
		}
		var results [2]chan wres
		var pending [2]bool
		var lens [2]int
		packets := 0
		for d := 0; d < 2; d++ {
			if t.size[d] == 0 {
				continue
			}
			dd := dirs[d]
			data := make([]byte, t.size[d])
			c11Fill(t.content, dd.key, int64(len(dd.expected)), data)
			dd.expected = append(dd.expected, data...)
			results[d] = make(chan wres, 1)
			pending[d] = true
			lens[d] = len(data)
			packets += (len(data) + dd.frag - 1) / dd.frag
			go func(w io.Writer, data []byte, ch chan wres) {
				n, err := w.Write(data)
				ch <- wres{n, err}
			}(dd.w, data, results[d])
		}
		budget := int64(50*packets + 1000)
		var counted, idle, sinceProgress int64
		lastState := time.Now()
		failed := false
		desc := func() map[string]interface{} {
			return map[string]interface{}{"transfer": t.dir, "content": t.content, "bytes_c2s": t.size[0], "bytes_s2c": t.size[1],
				"c2s_read": dirs[0].read, "c2s_written": len(dirs[0].expected), "s2c_read": dirs[1].read, "s2c_written": len(dirs[1].expected),
				"pump_exchanges": counted, "budget": budget, "pump_errors": pumpErrs, "last_pump_error": lastPumpErr,
				"client_out_next": client.out.NextSeqNo, "server_in_next": user.in.NextSeqNo, "server_out_next": user.out.NextSeqNo, "client_in_next": client.in.NextSeqNo}
		}
		for !failed {
			progress := false
			// writers
			for d := 0; d < 2; d++ {
				if !pending[d] {
					continue
				}
				select {
				case r := <-results[d]:
					pending[d] = false
					progress = true
					if r.err != nil {
						info := desc()
						info["write_error"] = r.err.Error()
						info["write_n"] = r.n
						fail(dirs[d].name, "write-error("+c11ErrClass(r.err)+")", info)
						failed = true
					} else if r.n != lens[d] {
						info := desc()
						info["write_n"] = r.n
						fail(dirs[d].name, "short-write-without-error", info)
						failed = true
					}
				default:
				}
			}
			if failed {
				break
			}
			// readers (never block: Read is only called when the queue has data)
			for d := 0; d < 2; d++ {
				dd := dirs[d]
				for dd.hasData() {
					n, err := dd.r.Read(buf)
					if n > 0 {
						progress = true
						if dd.read+n > len(dd.expected) || !bytes.Equal(buf[:n], dd.expected[dd.read:dd.read+n]) {
							bad := 0
							for bad < n && dd.read+bad < len(dd.expected) && buf[bad] == dd.expected[dd.read+bad] {
								bad++
							}
							info := desc()
							info["first_bad_offset"] = dd.read + bad
							hi := bad + 24
							if hi > n {
								hi = n
							}
							info["got"] = fmt.Sprintf("% x", buf[bad:hi])
							eh := dd.read + bad + 24
							if eh > len(dd.expected) {
								eh = len(dd.expected)
							}
							if dd.read+bad <= eh {
								info["expected"] = fmt.Sprintf("% x", dd.expected[dd.read+bad:eh])
							}
							kind := "altered"
							if dd.read+n > len(dd.expected) {
								kind = "more-than-written"
							}
							fail(dd.name, "corrupt("+kind+":"+t.content+")", info)
							failed = true
							break
						}
						dd.read += n
						verified += int64(n)
					}
					if err != nil {
						info := desc()
						info["read_error"] = err.Error()
						fail(dd.name, "read-error("+c11ErrClass(err)+")", info)
						failed = true
						break
					}
				}
				if failed {
					break
				}
			}
			if failed {
				break
			}
			allRead := dirs[0].read == len(dirs[0].expected) && dirs[1].read == len(dirs[1].expected)
			if allRead && !pending[0] && !pending[1] {
				break
			}
			if progress {
				sinceProgress = 0
				lastState = time.Now()
			}
			outstanding := client.out.NextChunk() != nil || user.out.NextChunk() != nil
			writersDone := !pending[0] && !pending[1]
			switch {
			case outstanding, writersDone && !allRead:
				if !outstanding {
					idle++
				} else {
					counted++
				}
				sinceProgress++
				// The exchange itself is in-memory with virtual timeouts, so it returns within microseconds unless
				// the client dead-locks on one of its own mutexes. That must not hang the harness: the call runs
				// under a watch, and a call that is still blocked after 45 s while the process is idle (nothing
				// is left to act but the client itself) is the violation "client call never returns".
				var perr error
				pdone := make(chan struct{})
				go func() { defer close(pdone); perr = client.SendAndReceive(client.out.NextChunk()) }()
				select {
				case <-pdone:
				case <-time.After(45 * time.Second):
					info := desc()
					info["goroutines"] = c11AllStacks()
					fail("c2s", "client-call-never-returns(deadlock)", info)
					failed = true
				}
				if failed {
					break
				}
				if err := perr; err != nil {
					pumpErrs++
					lastPumpErr = err.Error()
				}
				which := "c2s"
				if dirs[0].read == len(dirs[0].expected) && !pending[0] {
					which = "s2c"
				}
				if counted > budget {
					fail(which, "not-delivered-within-50x-packets", desc())
					failed = true
				} else if writersDone && idle > c11IdleAfterWriter {
					fail(which, "accepted-bytes-lost", desc())
					failed = true
				} else if sinceProgress > c11StallExchanges {
					fail(which, "no-progress", desc())
					failed = true
				}
			default:
				// nothing is queued on either side and a writer has not returned yet: it is either being
				// scheduled or blocked inside Write. Only the wall clock can tell; that is inconclusive.
				runtime.Gosched()
				if time.Since(lastState) > 45*time.Second {
					info := desc()
					info["goroutines"] = c11AllStacks()
					info["behaviour"] = b
					rec.Inconclusive("watchdog: Write has not returned for 45s with nothing queued ("+tupleClass+")", info)
					failed = true
				}
			}
		}
		rec.Stat("transfers", 1)
		rec.Stat("data_pump_exchanges", counted+idle)
		if failed {
			break
		}
		rec.Stat("transfers_intact", 1)
		rec.Seen("transfer_kinds", t.dir+"/"+t.content)
	}
	rec.Stat("bytes_verified", verified)
	rec.Stat("bytes_verified["+tupleClass+"]", verified)
	rec.Stat("pump_errors", pumpErrs)
	return verdicts, verified
}

// ---- behaviours to run -----------------------------------------------------------------------

func c11Subset(mask int) []string {
	var out []string
	for i, n := range c11TypeNames {
		if mask&(1<<uint(i)) != 0 {
			out = append(out, n)
		}
	}
	return out
}

func c11Behaviours(rec *vcommon.Rec) []*c11Behaviour {
	rng := vcommon.NewRand(rec.Seed(), "c11/behaviours")
	var out []*c11Behaviour
	add := func(b c11Behaviour) {
		if b.Case == "random" && b.CaseSeed == 0 {
			b.CaseSeed = rec.Seed()*100000 + int64(len(out)) + 1
		}
		if len(b.Types) == 8 {
			b.Types = nil
		}
		if len(b.Types) > 0 && b.Refuse == "" {
			b.Refuse = "timeout"
		}
		if len(b.Types) == 0 {
			b.Refuse = ""
		}
		if b.Limit > 0 && b.Oversize == "" {
			b.Oversize = "drop"
		}
		b.DataSeed = rec.Seed()*100000 + int64(len(out))
		b.Name = fmt.Sprintf("%03d-%s", len(out), b.Class())
		out = append(out, &b)
	}
	cases := []string{"", "lower", "upper", "random"}
	refuses := []string{"timeout", "nxdomain", "empty"}
	limits := []int{512, 1024, 2048, 4096, 8192}
	except := func(names ...string) []string {
		var o []string
		for _, n := range c11TypeNames {
			keep := true
			for _, x := range names {
				if x == n {
					keep = false
				}
			}
			if keep {
				o = append(o, n)
			}
		}
		return o
	}

	// fixed part (the same at every seed apart from the 0x20 seeds and the payload bytes)
	add(c11Behaviour{})
	add(c11Behaviour{Case: "lower"})
	add(c11Behaviour{Case: "upper"})
	add(c11Behaviour{Case: "random"})
	add(c11Behaviour{SevenBit: "drop"})
	add(c11Behaviour{SevenBit: "qmark"})
	for _, l := range limits {
		add(c11Behaviour{Limit: l, Oversize: "drop"})
	}
	add(c11Behaviour{Limit: 512, Oversize: "tc"})
	add(c11Behaviour{Limit: 2048, Oversize: "tc"})
	add(c11Behaviour{StripEdns: true})
	for _, t := range c11TypeNames { // exactly one type answered, the others time out
		add(c11Behaviour{Types: []string{t}, Refuse: "timeout"})
	}
	add(c11Behaviour{Types: except("NULL"), Refuse: "nxdomain"})
	add(c11Behaviour{Types: except("NULL", "PRIVATE"), Refuse: "empty"})
	add(c11Behaviour{Types: except("NULL", "PRIVATE"), Refuse: "timeout", Case: "lower"})
	add(c11Behaviour{Types: except("NULL", "PRIVATE", "TXT"), Refuse: "timeout", SevenBit: "qmark"})
	add(c11Behaviour{Types: []string{"CNAME", "A"}, Refuse: "timeout", Limit: 1024})
	add(c11Behaviour{Types: []string{"TXT"}, Refuse: "timeout", SevenBit: "drop", Limit: 4096})
	add(c11Behaviour{Types: []string{"MX", "AAAA"}, Refuse: "timeout", StripEdns: true})
	add(c11Behaviour{Case: "lower", SevenBit: "drop", Limit: 8192, Oversize: "tc"})

	random := func() c11Behaviour {
		var b c11Behaviour
		b.Case = cases[rng.Intn(4)]
		b.SevenBit = []string{"", "", "drop", "qmark"}[rng.Intn(4)]
		if rng.Intn(3) > 0 {
			b.Types = c11Subset(1 + rng.Intn(255))
			b.Refuse = refuses[rng.Intn(3)]
		}
		if rng.Intn(2) == 0 {
			b.Limit = limits[rng.Intn(len(limits))]
			b.Oversize = []string{"drop", "tc"}[rng.Intn(2)]
		}
		b.StripEdns = rng.Intn(5) == 0
		return b
	}
	for len(out) < 40 {
		add(random())
	}
	// transient faults during the negotiation: some queries of one command are lost, then the path is as before. Whatever the
	// negotiation settles on after that must work like any other outcome.
	{
		bases := []c11Behaviour{{}, {Case: "lower"}, {SevenBit: "qmark"}, {Limit: 1024, Oversize: "drop"}, {Types: []string{"TXT"}, Refuse: "timeout"}, {Types: []string{"CNAME", "MX"}, Refuse: "nxdomain"}}
		k := 0
		for _, cmd := range []string{"y", "v", "z", "o", "r", "s"} {
			for _, from := range []int{0, 1, 2} {
				for _, cnt := range []int{1, 2, 5, 9} {
					k++
					if !rec.Thorough() && k%3 != 0 {
						continue
					}
					b := bases[k%len(bases)]
					b.LoseCmd, b.LoseFrom, b.LoseCount = cmd, from, cnt
					add(b)
					// the same fault with the ANSWERS lost: the server has acted on the request, the client does not know
					// (only fewer in a row than the client's five attempts per step: when all five answers of the codec switch are
					// lost the two sides cannot agree any more - the client falls back, the server has switched - and nothing in
					// the protocol lets the client find out; that is a run of losses, not a behaviour of the path, and is not judged)
					if cnt <= 2 {
						b2 := b
						b2.LoseWhat = "answer"
						add(b2)
					}
				}
			}
		}
	}
	// resolvers that only let host names through: every octet other than a letter, a digit or '-' makes the query fail (or is
	// replaced), case is preserved or folded
	for _, l := range []string{"drop", "replace"} {
		add(c11Behaviour{Ldh: l})
		add(c11Behaviour{Ldh: l, Case: "lower"})
		add(c11Behaviour{Ldh: l, Case: "random"})
		add(c11Behaviour{Ldh: l, StripEdns: true})
		add(c11Behaviour{Ldh: l, Limit: 1024, Oversize: "drop"})
		add(c11Behaviour{Ldh: l, AnswerCase: "lower"})
		for i, ts := range [][]string{{"TXT"}, {"CNAME"}, {"MX", "A"}, {"SRV", "TXT"}, {"NULL"}, {"PRIVATE", "AAAA"}} {
			add(c11Behaviour{Ldh: l, Types: ts, Refuse: refuses[i%3]})
		}
	}
	// resolvers that normalise the case of host names in the answers they hand out, alone and together with case folding of
	// the query names, on paths where host-name records are what is left
	for _, ac := range []string{"lower", "upper"} {
		add(c11Behaviour{AnswerCase: ac})
		for _, ts := range [][]string{{"CNAME"}, {"MX"}, {"SRV"}, {"CNAME", "MX", "A"}, {"TXT", "SRV", "MX", "CNAME"}, {"SRV", "AAAA"}} {
			for i, rf := range refuses {
				add(c11Behaviour{AnswerCase: ac, Types: ts, Refuse: rf})
				if i == 0 {
					add(c11Behaviour{AnswerCase: ac, Types: ts, Refuse: rf, Case: ac})
					add(c11Behaviour{AnswerCase: ac, Types: ts, Refuse: rf, SevenBit: "qmark"})
					add(c11Behaviour{AnswerCase: ac, Types: ts, Refuse: rf, Limit: 1024, Oversize: "drop"})
				}
			}
		}
	}
	// other tunnel domains: the room that is left in a query name shrinks with the domain, down to where probes of the
	// denser codecs do not fit any more
	{
		bases := []c11Behaviour{{}, {SevenBit: "qmark"}, {SevenBit: "drop"}, {Case: "lower"}, {Types: []string{"TXT"}, Refuse: "timeout"},
			{Types: []string{"CNAME", "MX"}, Refuse: "nxdomain", SevenBit: "qmark"}, {Limit: 1024, Oversize: "drop"}, {Case: "lower", SevenBit: "drop"}}
		lens := []int{4, 63, 100, 130, 150, 170, 190, 200}
		if rec.Thorough() {
			lens = []int{4, 17, 40, 63, 64, 80, 100, 120, 130, 140, 150, 160, 170, 180, 190, 200, 210}
		}
		for i, n := range lens {
			for j, base := range bases {
				if !rec.Thorough() && (i+j)%2 == 1 {
					continue
				}
				b := base
				b.Domain = c11LongDomain(n)
				add(b)
			}
		}
	}
	if rec.Thorough() {
		// all 255 non-empty subsets of answered types x two size limits, case modes and refusal modes rotating
		for mask := 1; mask <= 255; mask++ {
			for v := 0; v < 2; v++ {
				b := c11Behaviour{Types: c11Subset(mask), Refuse: refuses[(mask+v)%3], Case: cases[(mask/3+2*v)%4]}
				if v == 1 {
					b.Limit = limits[mask%len(limits)]
					b.Oversize = []string{"drop", "tc"}[(mask/5)%2]
				}
				add(b)
			}
		}
		for len(out) < 1010 {
			add(random())
		}
	}
	return out
}

func TestVerifC11(t *testing.T) {
	log.SetLevel(log.PanicLevel)
	log.SetOutput(io.Discard)
	rec := vcommon.Open()
	defer rec.Close()
	if rec.Replay != nil {
		var b c11Behaviour
		if err := json.Unmarshal(rec.Replay, &b); err != nil {
			t.Fatal(err)
		}
		c11Run(rec, &b)
		return
	}
	for i, b := range c11Behaviours(rec) {
		if rec.Mine(i) {
			c11Run(rec, b)
		}
	}
}
