package dns

// C12 bomb children: requests that make the unrepaired server allocate or loop without bound.
// Each runs alone in a child process under `ulimit -v` (checks/C12.py); the verdict is the measured
// TotalAlloc (or, when the runtime cannot even get the memory, the recorded death of the child).

import (
	"fmt"
	"os"
	"runtime"
	"sync/atomic"
	"time"

	"github.com/bokysan/socketace/v2/internal/zzverif/vcommon"
	mdns "github.com/miekg/dns"
)

var c12BombSigs = map[string]string{
	"r-2^24":    "server:alloc-unbounded:r:fragsize=2^24",
	"r-2^28":    "server:alloc-unbounded:r:fragsize=2^28",
	"r-2^32-1":  "server:alloc-unbounded:r:fragsize=2^32-1",
	"o-0-write": "server:alloc-unbounded:o:fragsize=0:server-write-never-ends",
}

const c12BombStop = 256 << 20 // stop measuring here: the point is made, the box must survive

func c12Bomb(rec *vcommon.Rec, name string) {
	sig, ok := c12BombSigs[name]
	if !ok {
		panic("unknown bomb " + name)
	}
	desc := c12Case{Side: "bomb", Seed: rec.Seed(), Bomb: name, Domain: c12Domains[0], Qtype: mdns.TypeCNAME}
	fx, err := c12NewFx(c12Domains[0], mdns.TypeCNAME, rec.Seed())
	if err != nil {
		rec.Inconclusive("fixture: the sessions could not be established: "+err.Error(), desc)
		return
	}
	var m0 runtime.MemStats
	runtime.ReadMemStats(&m0)
	alloc := func() uint64 {
		var m runtime.MemStats
		runtime.ReadMemStats(&m)
		return m.TotalAlloc - m0.TotalAlloc
	}
	rec.Mark(desc) // from here on a death of the process belongs to this request
	fail := func(a uint64, what string) {
		rec.Case("bomb/"+name, true)
		rec.Violation(sig, desc, map[string]interface{}{"TotalAlloc_delta_bytes": a, "bound": c12AllocBound, "state": what})
		rec.Close()
		os.Exit(0)
	}
	done := make(chan string, 1)
	switch name {
	case "r-2^24", "r-2^28", "r-2^32-1":
		size := map[string]uint32{"r-2^24": 1 << 24, "r-2^28": 1 << 28, "r-2^32-1": 0xFFFFFFFF}[name]
		go func() {
			// the sender owns session H and asks from H's address: a request the protocol entitles it to
			resp, err := fx.hClient.SendFragmentSizeTest(size, time.Second)
			switch {
			case err != nil:
				done <- "client-error:" + err.Error()
			case resp.Err != nil:
				done <- "tunnel-error:" + resp.Err.Error()
			default:
				done <- fmt.Sprintf("answered with %d bytes", len(resp.Data))
			}
		}()
		start := time.Now()
		for {
			select {
			case how := <-done:
				a := alloc()
				rec.StatMax("bomb_alloc_bytes:"+name, int64(a))
				rec.Seen("bomb_outcome", name+": "+c12Clip(how, 80))
				if a > c12AllocBound {
					fail(a, "request returned: "+how)
				}
				rec.Case("bomb/"+name, true)
				return
			case <-time.After(5 * time.Millisecond):
				if a := alloc(); a > c12BombStop {
					fail(a, "still working on the request")
				}
				if time.Since(start) > c12Watchdog {
					rec.Inconclusive("bomb request did not return within the watchdog and stayed below the allocation bound", desc)
					return
				}
			}
		}
	case "o-0-write":
		resp, err := fx.hClient.SendSetDownstreamFragmentSize(0, time.Second)
		how := "accepted"
		if err != nil {
			how = "client-error:" + err.Error()
		} else if resp.Err != nil {
			how = "tunnel-error:" + resp.Err.Error()
		}
		rec.Seen("bomb_outcome", name+": options(fragsize=0) "+c12Clip(how, 80))
		buf := make([]byte, 100)
		key := uint64(rec.Seed())*4 + 3
		vcommon.FillKeyed(key, 0, buf)
		go func() {
			_, err := fx.hUser.Write(buf)
			if err != nil {
				done <- "write-error:" + err.Error()
			} else {
				done <- "written"
			}
		}()
		// give the writer the processor first: a runaway Write shows within a blink, a healthy one just waits for polls
		finished := ""
		var last uint64
		quiet := 0
		for i := 0; i < 2000 && finished == "" && quiet < 4; i++ {
			select {
			case finished = <-done:
			case <-time.After(5 * time.Millisecond):
			}
			a := alloc()
			if a > c12BombStop/4 {
				fail(a, "server-side Write(100 bytes) still running (no poll sent yet) after options(fragsize=0) was "+how)
			}
			if a-last < 4096 {
				quiet++ // the writer is parked, waiting for polls
			} else {
				quiet = 0
			}
			last = a
		}
		// now poll like the client would (in a goroutine: a poll can sit behind the runaway writer's lock)
		var got int64
		bad := make(chan string, 1)
		pumped := make(chan struct{})
		var stopPump int32
		go func() {
			defer close(pumped)
			rb := make([]byte, 4096)
			for i := 0; i < 4000 && atomic.LoadInt32(&stopPump) == 0; i++ {
				fx.hClient.SendAndReceive(fx.hClient.out.NextChunk())
				for fx.hClient.in.HasData() {
					n, _ := fx.hClient.Read(rb)
					if vcommon.CheckKeyed(key, atomic.LoadInt64(&got), rb[:n]) >= 0 {
						select {
						case bad <- "bytes-differ":
						default:
						}
						return
					}
					atomic.AddInt64(&got, int64(n))
				}
				runtime.Gosched()
			}
		}()
		start := time.Now()
		pumpEnded := false
		for finished == "" && !pumpEnded {
			select {
			case finished = <-done:
			case <-pumped:
				pumpEnded = true
			case <-time.After(5 * time.Millisecond):
			}
			a := alloc()
			if a > c12BombStop {
				fail(a, "server-side Write(100 bytes) still running after options(fragsize=0) was "+how)
			}
			if time.Since(start) > c12Watchdog {
				if a > c12AllocBound {
					fail(a, "server-side Write(100 bytes) still running at the watchdog after options(fragsize=0) was "+how)
				}
				rec.Inconclusive("server-side Write after options(fragsize=0) did not return within the watchdog and stayed below the allocation bound", desc)
				return
			}
		}
		atomic.StoreInt32(&stopPump, 1)
		if finished == "" {
			select {
			case finished = <-done:
			case <-time.After(2 * time.Second):
			}
		}
		select {
		case <-pumped:
		case <-time.After(5 * time.Second):
		}
		select {
		case <-bad:
			rec.Violation("server:session-broken-after-fragsize-0:bytes-differ", desc, nil)
			return
		default:
		}
		a := alloc()
		rec.StatMax("bomb_alloc_bytes:"+name, int64(a))
		if a > c12AllocBound {
			fail(a, "after the write: "+finished)
		}
		if finished == "" {
			rec.Inconclusive("server-side Write after options(fragsize=0) neither returned within 4000 polls nor exceeded the allocation bound", desc)
			return
		}
		rec.Seen("bomb_outcome", fmt.Sprintf("%s: write %s, %d of 100 bytes arrived", name, finished, atomic.LoadInt64(&got)))
		if finished == "written" && atomic.LoadInt64(&got) != 100 {
			rec.Violation("server:session-broken-after-fragsize-0:bytes-missing", desc, map[string]int64{"arrived": atomic.LoadInt64(&got)})
		}
		rec.Case("bomb/"+name, true)
	}
}
