package dns

// C12 client side: hostile answers -> Serializer.DecodeDnsResponseWithParams, ClientDnsConnection.QueryWithData
// and SendAndReceive through a scripted communicator. Oracle: no panic (decode errors are fine).
// Answers with a compression loop or with RDATA that contradicts its type (A with 1-3 bytes, ...) are
// rejected by Msg.Unpack inside miekg's client and never reach socketace; they are counted, not judged.

import (
	"encoding/binary"
	"encoding/hex"
	"fmt"
	"math/rand"
	"net"
	"strings"
	"sync/atomic"
	"time"

	"github.com/bokysan/socketace/v2/internal/streams/dns/commands"
	"github.com/bokysan/socketace/v2/internal/streams/dns/util"
	"github.com/bokysan/socketace/v2/internal/util/enc"
	"github.com/bokysan/socketace/v2/internal/zzverif/vcommon"
	mdns "github.com/miekg/dns"
	"github.com/pkg/errors"
	"golang.org/x/net/dns/dnsmessage"
)

// c12Script answers every query with the scripted message (id and question echoed, as a real
// resolver or man in the middle would).
type c12Script struct {
	wire   []byte
	echoQ  bool
	closed int32
	n      int
}

func (c *c12Script) SendAndReceive(m *mdns.Msg, timeout *time.Duration) (*mdns.Msg, time.Duration, error) {
	c.n++
	a := new(mdns.Msg)
	if err := a.Unpack(c.wire); err != nil {
		return nil, 0, errors.WithStack(err)
	}
	a.Id = m.Id
	if c.echoQ {
		a.Question = m.Question
	}
	return a, time.Millisecond, nil
}
func (c *c12Script) Close() error                       { atomic.StoreInt32(&c.closed, 1); return nil }
func (c *c12Script) Closed() bool                       { return atomic.LoadInt32(&c.closed) != 0 }
func (c *c12Script) LocalAddr() net.Addr                { return c12AddrS() }
func (c *c12Script) RemoteAddr() net.Addr               { return &net.UDPAddr{IP: net.IPv4(127, 0, 0, 1), Port: 53} }
func (c *c12Script) SetDeadline(t time.Time) error      { return nil }
func (c *c12Script) SetReadDeadline(t time.Time) error  { return nil }
func (c *c12Script) SetWriteDeadline(t time.Time) error { return nil }

var c12ClientOps = []string{"decode", "query:v", "poll", "query:r", "query:y", "query:o", "query:z", "version"}

func c12ClientItems(thorough bool) int { return len(c12Domains) * len(c12Codecs) }

// ---- record shapes -------------------------------------------------------------------------------

type c12RR struct {
	name string
	mk   func(owner, domain string, rng *rand.Rand) mdns.RR
}

func c12Hdr(owner string, t uint16) mdns.RR_Header {
	return mdns.RR_Header{Name: owner, Rrtype: t, Class: mdns.ClassINET, Ttl: 1}
}

func c12Shapes() []c12RR {
	var out []c12RR
	add := func(name string, mk func(owner, domain string, rng *rand.Rand) mdns.RR) {
		out = append(out, c12RR{name, mk})
	}
	for _, n := range []int{0, 1, 2, 3, 40} {
		n := n
		add(fmt.Sprintf("NULL/%d", n), func(o, d string, r *rand.Rand) mdns.RR {
			return &mdns.NULL{Hdr: c12Hdr(o, 10), Data: string(c12RandBytes(r, n, ""))}
		})
		add(fmt.Sprintf("PRIVATE/%d", n), func(o, d string, r *rand.Rand) mdns.RR {
			return &mdns.PrivateRR{Hdr: c12Hdr(o, util.TypeSocketAce), Data: &util.SocketAcePrivate{Data: c12RandBytes(r, n, "")}}
		})
		add(fmt.Sprintf("unknown-type-99/%d", n), func(o, d string, r *rand.Rand) mdns.RR {
			return &mdns.RFC3597{Hdr: c12Hdr(o, 99), Rdata: hex.EncodeToString(c12RandBytes(r, n, ""))}
		})
		add(fmt.Sprintf("old-private-65000/%d", n), func(o, d string, r *rand.Rand) mdns.RR {
			return &mdns.RFC3597{Hdr: c12Hdr(o, 65000), Rdata: hex.EncodeToString(c12RandBytes(r, n, ""))}
		})
	}
	for _, txt := range [][]string{nil, {""}, {"a"}, {"", ""}, {"", "ab"}, {"a", "b"}, {"ab"}, {"abc"}, {"aaxyz", "more"}, {"\\000\\001"}, {"a", ""}} {
		txt := txt
		add(fmt.Sprintf("TXT/%q", txt), func(o, d string, r *rand.Rand) mdns.RR { return &mdns.TXT{Hdr: c12Hdr(o, mdns.TypeTXT), Txt: txt} })
	}
	targets := []string{".", "a.", "ab.", "abc.", "$D.", "a.$D.", "ab.$D.", "abcdef.$D.", "ab.other.example.", "mail.google.com.", "abq.x$D.", "ab\\.$D."}
	for _, tg := range targets {
		tg := tg
		t := func(d string) string { return strings.Replace(tg, "$D", d, -1) }
		add("CNAME/"+tg, func(o, d string, r *rand.Rand) mdns.RR {
			return &mdns.CNAME{Hdr: c12Hdr(o, mdns.TypeCNAME), Target: t(d)}
		})
		add("MX/"+tg, func(o, d string, r *rand.Rand) mdns.RR {
			return &mdns.MX{Hdr: c12Hdr(o, mdns.TypeMX), Preference: uint16(r.Intn(3) * 10), Mx: t(d)}
		})
		add("SRV/"+tg, func(o, d string, r *rand.Rand) mdns.RR {
			return &mdns.SRV{Hdr: c12Hdr(o, mdns.TypeSRV), Priority: uint16(r.Intn(3)), Target: t(d)}
		})
		add("NS/"+tg, func(o, d string, r *rand.Rand) mdns.RR { return &mdns.NS{Hdr: c12Hdr(o, mdns.TypeNS), Ns: t(d)} })
	}
	add("A/0", func(o, d string, r *rand.Rand) mdns.RR { return &mdns.A{Hdr: c12Hdr(o, mdns.TypeA)} })
	add("A/4", func(o, d string, r *rand.Rand) mdns.RR {
		return &mdns.A{Hdr: c12Hdr(o, mdns.TypeA), A: net.IP(c12RandBytes(r, 4, ""))}
	})
	add("AAAA/0", func(o, d string, r *rand.Rand) mdns.RR { return &mdns.AAAA{Hdr: c12Hdr(o, mdns.TypeAAAA)} })
	add("AAAA/16", func(o, d string, r *rand.Rand) mdns.RR {
		return &mdns.AAAA{Hdr: c12Hdr(o, mdns.TypeAAAA), AAAA: net.IP(c12RandBytes(r, 16, ""))}
	})
	add("SOA", func(o, d string, r *rand.Rand) mdns.RR {
		return &mdns.SOA{Hdr: c12Hdr(o, mdns.TypeSOA), Ns: "ns." + d + ".", Mbox: "h." + d + ".", Serial: 1}
	})
	add("OPT", func(o, d string, r *rand.Rand) mdns.RR {
		return &mdns.OPT{Hdr: mdns.RR_Header{Name: ".", Rrtype: mdns.TypeOPT, Class: 4096}}
	})
	return out
}

// c12RRClass: the measured shape of one record, for signatures.
func c12RRClass(rr mdns.RR, domain string) string {
	short := func(t string, n int) string {
		switch {
		case n < 2:
			return t + "-target<2"
		case n < len(domain)+2:
			return t + "-target-shorter-than-domain"
		}
		return t + "-target"
	}
	switch v := rr.(type) {
	case *mdns.NULL:
		if len(v.Data) < 2 {
			return "NULL-rdata<2"
		}
		return "NULL"
	case *mdns.PrivateRR:
		if v.Data == nil || v.Data.Len() < 2 {
			return "PRIVATE-rdata<2"
		}
		return "PRIVATE"
	case *mdns.TXT:
		switch {
		case len(v.Txt) == 0:
			return "TXT-no-strings"
		case len(v.Txt[0]) < 2 && len(strings.Join(v.Txt, "")) < 2:
			return "TXT-text<2"
		case len(v.Txt[0]) < 2:
			return "TXT-first-string<2"
		}
		return "TXT"
	case *mdns.CNAME:
		if len(v.Target) >= 2 && len(v.Target)-2 < len(domain)+2 {
			return "CNAME-target-shorter-than-domain"
		}
		return short("CNAME", len(v.Target))
	case *mdns.MX:
		return short("MX", len(v.Mx))
	case *mdns.SRV:
		return short("SRV", len(v.Target))
	case *mdns.A:
		if len(v.A) == 0 {
			return "A-rdata-empty"
		}
		return "A"
	case *mdns.AAAA:
		if len(v.AAAA) < 2 {
			return "AAAA-rdata-empty"
		}
		return "AAAA"
	}
	return "other-type"
}

// c12ClientClass attributes a client panic to the record (or payload) that causes it, by handing each
// record on its own to the function that panicked.
func c12ClientClass(a *mdns.Msg, domain, site string) string {
	if strings.Contains(site, "TypePriority") {
		for _, rr := range a.Answer {
			rr := rr
			if p, _, _ := vcommon.Guard(func() { util.TypePriority(rr) }); p {
				return c12RRClass(rr, domain)
			}
		}
		return "records"
	}
	if strings.Contains(site, "UnwrapDnsResponse") {
		for _, rr := range a.Answer {
			one := &mdns.Msg{Answer: []mdns.RR{rr}}
			if p, _, _ := vcommon.Guard(func() { util.UnwrapDnsResponse(one, domain) }); p {
				return c12RRClass(rr, domain)
			}
		}
		return "records"
	}
	var data []byte
	if p, _, _ := vcommon.Guard(func() { data = util.UnwrapDnsResponse(a, domain) }); p {
		return "records"
	}
	switch {
	case len(data) == 0:
		return "empty-payload"
	case !c12IsCmd(data[0]):
		return "payload:not-a-command"
	}
	c := data[0] | 0x20
	switch {
	case c == 'l' || c == 'm':
		return fmt.Sprintf("payload:command-without-NewResponse(%c)", c)
	case c == 'v' && len(data) < 3:
		return "payload:v-shorter-than-userid"
	}
	return fmt.Sprintf("payload:%c:body", c)
}

// ---- payloads -----------------------------------------------------------------------------------

// c12Payloads: byte strings a hostile server puts into well-formed records.
func c12Payload(i int, codec enc.Encoder, rng *rand.Rand) (string, []byte) {
	b32 := enc.Base32Encoding
	le := c12LE
	errs := []string{"BADIP", "BADUSER", "", "x", strings.Repeat("E", 300), "BAD\x00IP", "\x00"}
	kinds := 16
	switch i % kinds {
	case 0:
		return "empty", nil
	case 1:
		return "letter-only", []byte{c12Letters[(i/kinds)%len(c12Letters)]}
	case 2:
		return "letter+1", []byte{c12CmdChars[(i/kinds)%len(c12CmdChars)], c12Alnum[rng.Intn(len(c12Alnum))]}
	case 3:
		return "letter+2", append([]byte{c12CmdChars[(i/kinds)%len(c12CmdChars)]}, c12RandBytes(rng, 2, c12Alnum)...)
	case 4: // version answers
		raw := append(le(uint32(ProtocolVersion)), []byte{0, 1, 255}[rng.Intn(3)])
		raw = append(raw, errs[rng.Intn(len(errs))]...)
		raw = raw[:rng.Intn(len(raw)+1)]
		uid := [][]byte{[]byte("00"), []byte("zz"), []byte("z!"), []byte("-1"), {0xff, 0xff}, []byte("1")}[rng.Intn(6)]
		return "v-answer", append(append([]byte{'v'}, uid...), b32.Encode(raw)...)
	case 5: // packet answers
		raw := []byte{[]byte{0, 1, 0xff, 2}[rng.Intn(4)]}
		raw = append(raw, le(uint16(rng.Intn(65536)))...)
		raw = append(raw, le(uint16(rng.Intn(4)))...)
		raw = append(raw, c12RandBytes(rng, rng.Intn(60), "")...)
		raw = raw[:rng.Intn(len(raw)+1)]
		return "c-answer", append([]byte{'c'}, codec.Encode(raw)...)
	case 6: // fragment-size answers
		raw := []byte{[]byte{0, 1, 255}[rng.Intn(3)]}
		raw = append(raw, le([]uint32{0, 5, 0xFFFFFFFF, 1 << 31}[rng.Intn(4)])...)
		raw = append(raw, c12RandBytes(rng, rng.Intn(40), "")...)
		raw = raw[:rng.Intn(len(raw)+1)]
		return "r-answer", append([]byte{'r'}, codec.Encode(raw)...)
	case 7:
		flag := []byte{'e', 'o', 'x', 0}[rng.Intn(4)]
		return "y-answer", append([]byte{'y', flag}, codec.Encode(c12RandBytes(rng, rng.Intn(50), ""))...)
	case 8:
		raw := append([]byte{[]byte{0, 1, 255}[rng.Intn(3)]}, c12RandBytes(rng, rng.Intn(30), "")...)
		return "o/z-answer", append([]byte{"oz"[rng.Intn(2)]}, b32.Encode(raw[:rng.Intn(len(raw)+1)])...)
	case 9:
		return "e-answer", append([]byte{'e'}, b32.Encode([]byte(errs[(i/kinds)%len(errs)]))...)
	case 10: // body in a codec other than the negotiated one
		other := c12Codec(c12Codecs[rng.Intn(len(c12Codecs))])
		return "foreign-codec-body", append([]byte{c12CmdChars[rng.Intn(len(c12CmdChars))]}, other.Encode(c12RandBytes(rng, rng.Intn(80), ""))...)
	case 11:
		return "garbage8", append([]byte{c12CmdChars[rng.Intn(len(c12CmdChars))]}, c12RandBytes(rng, 1+rng.Intn(100), "")...)
	case 12:
		return "garbage8-any-first-byte", c12RandBytes(rng, 1+rng.Intn(20), "")
	case 13:
		return "long", append([]byte{c12CmdChars[rng.Intn(len(c12CmdChars))]}, codec.Encode(c12RandBytes(rng, 300+rng.Intn(3000), ""))...)
	case 14:
		c := c12CmdChars[rng.Intn(len(c12CmdChars))] &^ 0x20
		return "uppercase-letter", append([]byte{c}, b32.Encode(c12RandBytes(rng, rng.Intn(10), ""))...)
	}
	return "alnum", c12RandBytes(rng, 1+rng.Intn(12), c12Alnum)
}

// ---- one case ------------------------------------------------------------------------------------

type c12Client struct {
	rec      *vcommon.Rec
	seed     int64
	thorough bool
	item     int
	domain   string
	codec    enc.Encoder
	n        int
}

func (c *c12Client) desc(gen, op string, qt uint16, wire []byte) c12Case {
	return c12Case{Side: "client", Seed: c.seed, Thorough: c.thorough, Item: c.item, Index: c.n, Domain: c.domain, Gen: gen, Codec: c.codec.Name(),
		Op: op, Qtype: qt, WireHex: hex.EncodeToString(wire)}
}

// c12ClientRun feeds one answer (wire form) to one client entry point.
func c12ClientRun(rec *vcommon.Rec, d *c12Case, wire []byte, codec enc.Encoder) {
	a := new(mdns.Msg)
	if err := a.Unpack(wire); err != nil {
		rec.Stat("client_answers_rejected_by_unpack(never reach socketace)", 1)
		return
	}
	qt := dnsmessage.Type(d.Qtype)
	script := &c12Script{wire: wire, echoQ: true}
	var derr error
	panicked, site, val := vcommon.Guard(func() {
		if d.Op == "decode" {
			ser := commands.Serializer{Domain: d.Domain}
			_, derr = ser.DecodeDnsResponseWithParams(a, codec)
			return
		}
		cl, err := NewClientDnsConnection(d.Domain, script)
		if err != nil {
			panic(err)
		}
		cl.Serializer.Upstream.QueryType = &qt
		cl.Serializer.Upstream.Encoder = enc.Base32Encoding
		cl.Serializer.Downstream.Encoder = codec
		switch d.Op {
		case "poll":
			derr = cl.SendAndReceive(nil)
		case "version":
			derr = cl.VersionHandshake()
		case "query:v":
			_, derr = cl.QueryWithData(&commands.VersionRequest{ClientVersion: ProtocolVersion}, time.Second, qt, enc.Base32Encoding, codec)
		case "query:r":
			_, derr = cl.SendFragmentSizeTest(1200, time.Second)
		case "query:y":
			derr = cl.SendQueryTypeTest(qt, time.Second)
		case "query:o":
			_, derr = cl.SendSetDownstreamFragmentSize(1200, time.Second)
		case "query:z":
			_, derr = cl.SendEncodingTestUpstream([]byte("aAbBcC"), time.Second)
		}
	})
	rec.Case("client/"+d.Op+"/"+d.Codec+"/"+d.Domain+"/"+d.WireHex, true)
	rec.Stat("client_answers_fed", 1)
	rec.Seen("client_op", d.Op)
	rec.Seen("client_answer_gen", d.Gen)
	rec.Seen("client_codec", d.Codec)
	rec.Seen("client_query_type", fmt.Sprint(d.Qtype))
	switch {
	case panicked:
		rec.Stat("client_outcome:panic", 1)
		rec.Violation("client:panic@"+site+":"+c12ClientClass(a, d.Domain, site), d, map[string]string{"panic": c12Clip(val, 300), "consequence": "the client process dies"})
	case derr != nil:
		rec.Stat("client_outcome:error-reported", 1)
	default:
		rec.Stat("client_outcome:accepted", 1)
	}
}

// feed hands one answer to the plain decoder and to one more entry point (rot selects which; rot < 0: all).
func (c *c12Client) feed(gen string, a *mdns.Msg, qt uint16, rot int) {
	wire, err := a.Pack()
	if err != nil {
		c.rec.Stat("client_answers_not_representable_on_the_wire", 1)
		return
	}
	ops := []string{"decode", c12ClientOps[1+((rot%7)+7)%7]}
	if rot < 0 {
		ops = c12ClientOps
	}
	for _, op := range ops {
		d := c.desc(gen, op, qt, wire)
		c.n++
		if c.n%211 == 0 {
			c.rec.Sample(map[string]interface{}{"side": "client", "gen": gen, "op": op, "codec": d.Codec, "answer": c12Clip(strings.Replace(a.String(), "\n", " / ", -1), 400)})
		}
		c12ClientRun(c.rec, &d, wire, c.codec)
	}
}

func (c *c12Client) reply(qt uint16, rng *rand.Rand) (*mdns.Msg, string) {
	q := new(mdns.Msg)
	owner := "vabc" + string(c12RandBytes(rng, 6, "abcdefghijklmnopqrstuvwxyz")) + "." + c.domain + "."
	q.SetQuestion(owner, qt)
	a := new(mdns.Msg)
	a.SetReply(q)
	return a, owner
}

func c12ClientItem(rec *vcommon.Rec, seed int64, thorough bool, item int) {
	c := &c12Client{rec: rec, seed: seed, thorough: thorough, item: item, domain: c12Domains[item%len(c12Domains)],
		codec: c12Codec(c12Codecs[(item/len(c12Domains))%len(c12Codecs)])}
	rec.Mark(c12Case{Side: "client", Seed: seed, Thorough: thorough, Item: item, Index: -1, Domain: c.domain, Codec: c.codec.Name()})
	rng := vcommon.NewRand(seed, fmt.Sprintf("c12/client/%d", item))
	shapes := c12Shapes()
	owners := func(o string, i int) string {
		if i%5 == 4 {
			return "www.elsewhere.example."
		}
		return o
	}
	// (1) no records at all, with every rcode / flag; records only in the other sections
	for qi, qt := range c12TunnelQ {
		for _, rcode := range []int{0, mdns.RcodeServerFailure, mdns.RcodeNameError, mdns.RcodeRefused, mdns.RcodeFormatError} {
			for _, tc := range []bool{false, true} {
				a, o := c.reply(qt, rng)
				a.Rcode, a.Truncated = rcode, tc
				c.feed(fmt.Sprintf("no-answer-records/rcode=%d/tc=%v", rcode, tc), a, qt, -1)
				if rcode == 0 {
					a, o = c.reply(qt, rng)
					a.Truncated = tc
					a.Ns = []mdns.RR{shapes[(qi*7)%len(shapes)].mk(o, c.domain, rng)}
					a.Extra = []mdns.RR{shapes[(qi*11+3)%len(shapes)].mk(o, c.domain, rng)}
					c.feed("records-only-in-authority/additional", a, qt, qi)
				}
			}
		}
	}
	// (2) every record shape alone, then every ordered pair (the sort only compares when there are two)
	for si, s := range shapes {
		qt := c12TunnelQ[si%len(c12TunnelQ)]
		a, o := c.reply(qt, rng)
		a.Answer = []mdns.RR{s.mk(owners(o, si), c.domain, rng)}
		c.feed("single:"+s.name, a, qt, -1)
	}
	for i, s1 := range shapes {
		for j, s2 := range shapes {
			if thorough || (i*31+j*17+item)%6 == 0 {
				qt := c12TunnelQ[(i+j)%len(c12TunnelQ)]
				a, o := c.reply(qt, rng)
				a.Answer = []mdns.RR{s1.mk(o, c.domain, rng), s2.mk(owners(o, i+j), c.domain, rng)}
				a.Truncated = (i+j)%9 == 0
				c.feed("pair:"+s1.name+"+"+s2.name, a, qt, i+j/7)
			}
		}
	}
	// (3) mixtures of 3..40 records
	nmix := 150
	if thorough {
		nmix = 3000
	}
	for k := 0; k < nmix; k++ {
		qt := c12TunnelQ[k%len(c12TunnelQ)]
		a, o := c.reply(qt, rng)
		n := 3 + rng.Intn(6)
		if k%25 == 0 {
			n = 40
		}
		for x := 0; x < n; x++ {
			a.Answer = append(a.Answer, shapes[rng.Intn(len(shapes))].mk(owners(o, x), c.domain, rng))
		}
		a.Truncated = k%7 == 0
		c.feed("mixture", a, qt, k)
	}
	// (4) hostile payloads in well-formed records of every type (the repository's own wrapper as the peer)
	npay := 16 * 68
	if thorough {
		npay *= 12
	}
	for k := 0; k < npay; k++ {
		qt := c12TunnelQ[(k/16+k)%len(c12TunnelQ)]
		gen, payload := c12Payload(k, c.codec, rng)
		a, _ := c.reply(qt, rng)
		var werr error
		if p, _, _ := vcommon.Guard(func() { werr = util.WrapDnsResponse(a, payload, dnsmessage.Type(qt), c.domain) }); p || werr != nil {
			rec.Stat("client_payloads_the_wrapper_refused", 1)
			continue
		}
		a.Truncated = k%13 == 0
		c.feed("payload:"+gen, a, qt, k/16)
		if k%4 == 0 && len(a.Answer) > 0 {
			// the same records with one of them cut short / a stray record in front
			b, o := c.reply(qt, rng)
			b.Answer = append([]mdns.RR{shapes[rng.Intn(len(shapes))].mk(o, c.domain, rng)}, a.Answer...)
			c.feed("payload+stray-record:"+gen, b, qt, k/16+3)
		}
	}
	// (5) raw order tags: records whose tag bytes are extreme
	for k := 0; k < 64; k++ {
		qt := c12TunnelQ[k%len(c12TunnelQ)]
		a, o := c.reply(qt, rng)
		tag := make([]byte, 2)
		binary.LittleEndian.PutUint16(tag, uint16(rng.Intn(65536)))
		a.Answer = []mdns.RR{
			&mdns.NULL{Hdr: c12Hdr(o, 10), Data: string(tag) + "v"},
			&mdns.TXT{Hdr: c12Hdr(o, mdns.TypeTXT), Txt: []string{string(c12RandBytes(rng, 2, "")) + "x"}},
			&mdns.CNAME{Hdr: c12Hdr(o, mdns.TypeCNAME), Target: string(c12RandBytes(rng, 2, c12Alnum+"-")) + "abc." + c.domain + "."},
		}
		c.feed("extreme-order-tags", a, qt, k)
	}
}

func c12ClientReplay(rec *vcommon.Rec, d *c12Case) {
	wire, err := hex.DecodeString(d.WireHex)
	if err != nil {
		panic(err)
	}
	codec := enc.Base32Encoding
	for _, c := range c12Codecs {
		if e := c12Codec(c); e.Name() == d.Codec {
			codec = e
		}
	}
	rec.Mark(d)
	c12ClientRun(rec, d, wire, codec)
}
