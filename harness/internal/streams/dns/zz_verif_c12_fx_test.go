package dns

// C12 fixture: one real ServerDnsListener behind the shared in-memory network, a victim session S
// that carries keyed data, a sacrificial hostile session H, and the monitored delivery of one
// hostile message to the listener's registered onMessage callback.

import (
	"fmt"
	"net"
	"reflect"
	"runtime"
	"strings"
	"time"

	"github.com/bokysan/socketace/v2/internal/streams/dns/commands"
	"github.com/bokysan/socketace/v2/internal/streams/dns/util"
	"github.com/bokysan/socketace/v2/internal/util/enc"
	"github.com/bokysan/socketace/v2/internal/zzverif/vcommon"
	mdns "github.com/miekg/dns"
	"golang.org/x/net/dns/dnsmessage"
)

const (
	c12AllocBound = 8 << 20 // bytes of runtime.MemStats.TotalAlloc one message may cost
	c12SFrag      = 100     // downstream fragment size of the victim session
	c12C2SBytes   = 230
	c12S2CBytes   = 317
)

var c12Watchdog = 60 * time.Second

type c12Fx struct {
	domain string
	qt     uint16
	scomm  *vServerComm
	lst    *ServerDnsListener
	// real != nil: the listener is registered on the repository's own NetConnectionServerCommunicator and every message
	// (the sessions' own traffic included) enters through its handleRequest (zz_verif_c12_handler_test.go)
	real *NetConnectionServerCommunicator

	sClient *ClientDnsConnection
	sComm   *vClientComm
	sUser   *userConnection
	sId     uint16

	hClient *ClientDnsConnection
	hComm   *vClientComm
	hUser   *userConnection
	hId     int // -1: no hostile session

	stop chan struct{}

	keyC2S, keyS2C uint64
	offC2S, offS2C int64 // bytes verified so far
	wrS2C          int64 // bytes handed to the server-side Write so far
	srvWrite       chan error
	snap           string
	broken         bool // the fixture can no longer be used (watchdog fired)
}

func c12AddrS() net.Addr  { return vAddr(1) }
func c12AddrH() net.Addr  { return vAddr(2) }
func c12AddrF() net.Addr  { return vAddr(3) }
func c12AddrF6() net.Addr { return &net.UDPAddr{IP: net.ParseIP("2001:db8::53"), Port: 5353} }

func c12From(from string) net.Addr {
	switch from {
	case "H":
		return c12AddrH()
	case "F6":
		return c12AddrF6()
	case "S":
		return c12AddrS()
	}
	return c12AddrF()
}

func c12NewClient(domain string, comm *vClientComm, qt uint16) (*ClientDnsConnection, error) {
	client, err := NewClientDnsConnection(domain, comm)
	if err != nil {
		return nil, err
	}
	t := dnsmessage.Type(qt)
	client.Serializer.Upstream.QueryType = &t
	client.Serializer.Upstream.Encoder = enc.Base32Encoding
	client.Serializer.Downstream.Encoder = enc.Base32Encoding
	if err := client.VersionHandshake(); err != nil {
		return nil, fmt.Errorf("version: %v", err)
	}
	return client, nil
}

// c12NewFx builds listener + S + H. Everything is deterministic; no poller goroutine exists.
func c12NewFx(domain string, qt uint16, seed int64) (*c12Fx, error) {
	return c12NewFxVia(domain, qt, seed, false)
}

func c12NewFxVia(domain string, qt uint16, seed int64, viaHandleRequest bool) (*c12Fx, error) {
	fx := &c12Fx{domain: domain, qt: qt, hId: -1, stop: make(chan struct{})}
	fx.scomm = &vServerComm{}
	if viaHandleRequest {
		// what NewNetConnectionServerCommunicator builds, without the socket and without the global handler registration
		fx.real = &NetConnectionServerCommunicator{server: &mdns.Server{PacketConn: c12NoConn{}}}
		fx.lst = NewServerDnsListener(domain, fx.real)
		fx.scomm.RegisterAccept(fx.viaHandleRequest)
	} else {
		fx.lst = NewServerDnsListener(domain, fx.scomm)
	}
	fx.sComm = newVClientComm(fx.scomm, c12AddrS())
	var err error
	if fx.sClient, err = c12NewClient(domain, fx.sComm, qt); err != nil {
		return nil, err
	}
	if err := fx.sClient.SwitchFragmentSize(c12SFrag); err != nil {
		return nil, err
	}
	fx.sClient.Serializer.Upstream.FragmentSize = 90
	c, err := fx.lst.Accept()
	if err != nil {
		return nil, err
	}
	fx.sUser = c.(*userConnection)
	fx.sId = fx.sUser.UserId
	// sequence numbers away from zero (and away from the 16-bit wrap, which is C07's subject)
	fx.sClient.out.NextSeqNo, fx.sUser.in.NextSeqNo = 1000, 1000
	fx.sUser.out.NextSeqNo, fx.sClient.in.NextSeqNo = 2000, 2000
	fx.keyC2S = uint64(seed)*4 + 1
	fx.keyS2C = uint64(seed)*4 + 2
	// the production server consumes the accept channel all the time
	go func() {
		for {
			select {
			case <-fx.stop:
				return
			case <-fx.lst.accept:
			}
		}
	}()
	fx.ensureH()
	if fx.hId < 0 {
		return nil, fmt.Errorf("could not establish the hostile session")
	}
	return fx, nil
}

func (fx *c12Fx) close() {
	close(fx.stop)
	fx.sComm.Close()
	if fx.hComm != nil {
		fx.hComm.Close()
	}
	fx.scomm.Close()
	if fx.real != nil {
		fx.real.Close()
	}
}

// ensureH (re-)establishes the sacrificial session of the hostile address when it is gone.
func (fx *c12Fx) ensureH() {
	if fx.hId >= 0 && fx.hUser != nil && fx.lst.connections[fx.hId] == fx.hUser && !fx.hUser.closed {
		return
	}
	fx.hId, fx.hUser = -1, nil
	fx.hComm = newVClientComm(fx.scomm, c12AddrH())
	var cl *ClientDnsConnection
	var err error
	if p, _, _ := vcommon.Guard(func() { cl, err = c12NewClient(fx.domain, fx.hComm, fx.qt) }); p || err != nil {
		return
	}
	fx.hClient = cl
	id := int(cl.userId)
	if u := fx.lst.connections[id]; u != nil && u.remoteAddress.String() == c12AddrH().String() {
		fx.hId, fx.hUser = id, u
	}
}

// ---- state snapshot of the victim session (server side) ----------------------------------------

func c12U16s(v reflect.Value) []uint16 {
	out := make([]uint16, v.Len())
	for i := range out {
		out[i] = uint16(v.Index(i).Uint())
	}
	return out
}

func c12EncName(e enc.Encoder) string {
	if e == nil {
		return "nil"
	}
	return e.Name()
}

func c12SerString(s commands.Serializer) string {
	qt := "nil"
	if s.Upstream.QueryType != nil {
		qt = fmt.Sprint(uint16(*s.Upstream.QueryType))
	}
	return fmt.Sprintf("up=%s/%d/qt%s down=%s/%d edns=%v multi=%v lazy=%v dom=%s", c12EncName(s.Upstream.Encoder), s.Upstream.FragmentSize, qt,
		c12EncName(s.Downstream.Encoder), s.Downstream.FragmentSize, s.UseEdns0, s.UseMultiQuery, s.UseLazyMode, s.Domain)
}

// c12Snap renders everything the property says a stray message must not touch, as field=value
// pairs separated by " | " (so that the differing field can be named).
func c12Snap(l *ServerDnsListener, u *userConnection) string {
	in := reflect.ValueOf(&u.in).Elem()
	out := reflect.ValueOf(&u.out).Elem()
	inBuf := in.FieldByName("in")
	h := uint64(1469598103934665603)
	for i := 0; i < inBuf.Len(); i++ {
		h = (h ^ inBuf.Index(i).Uint()) * 1099511628211
	}
	var fut []string
	f := in.FieldByName("future")
	for i := 0; i < f.Len(); i++ {
		p := f.Index(i).Elem()
		fut = append(fut, fmt.Sprintf("%d/%d", p.FieldByName("SeqNo").Uint(), p.FieldByName("Data").Len()))
	}
	var oq []string
	o := out.FieldByName("out")
	for i := 0; i < o.Len(); i++ {
		p := o.Index(i).Elem()
		oq = append(oq, fmt.Sprintf("%d/%d", p.FieldByName("SeqNo").Uint(), p.FieldByName("Data").Len()))
	}
	live := int(u.UserId) < len(l.connections) && l.connections[u.UserId] == u
	old := int(u.UserId) < len(l.oldConnections) && l.oldConnections[u.UserId] != nil
	return strings.Join([]string{
		fmt.Sprintf("id=%d", u.UserId),
		fmt.Sprintf("in.NextSeqNo=%d", u.in.NextSeqNo),
		fmt.Sprintf("out.NextSeqNo=%d", u.out.NextSeqNo),
		fmt.Sprintf("in.buffer=%d:%x", inBuf.Len(), h),
		fmt.Sprintf("in.future=%v", fut),
		fmt.Sprintf("in.acked=%v", c12U16s(in.FieldByName("acked"))),
		fmt.Sprintf("out.queue=%v", oq),
		fmt.Sprintf("out.acked=%v", c12U16s(out.FieldByName("acked"))),
		"serializer=" + c12SerString(u.Serializer),
		"remoteAddress=" + u.remoteAddress.String(),
		fmt.Sprintf("closed=%v", u.closed),
		fmt.Sprintf("in-table=%v", live),
		fmt.Sprintf("retired-entry=%v", old),
	}, " | ")
}

func c12SnapDiff(a, b string) string {
	x, y := strings.Split(a, " | "), strings.Split(b, " | ")
	for i := range x {
		if i >= len(y) || x[i] != y[i] {
			if p := strings.IndexByte(x[i], '='); p > 0 {
				return x[i][:p]
			}
			return "?"
		}
	}
	return "?"
}

// ---- keyed traffic of the victim session ---------------------------------------------------------

// c12Timed runs f with the generous watchdog; false = it did not return.
func c12Timed(f func()) bool {
	done := make(chan struct{})
	go func() { defer close(done); f() }()
	select {
	case <-done:
		return true
	case <-time.After(c12Watchdog):
		return false
	}
}

func (fx *c12Fx) pumpOnce() error {
	return fx.sClient.SendAndReceive(fx.sClient.out.NextChunk())
}

// clientDrain reads what has arrived at S's client and checks it against the keyed stream.
func (fx *c12Fx) clientDrain() string {
	buf := make([]byte, 4096)
	for fx.sClient.in.HasData() {
		n, err := fx.sClient.Read(buf)
		if err != nil {
			return "s2c:read-error(" + err.Error() + ")"
		}
		if bad := vcommon.CheckKeyed(fx.keyS2C, fx.offS2C, buf[:n]); bad >= 0 {
			return "s2c:bytes-differ"
		}
		fx.offS2C += int64(n)
		if fx.offS2C > fx.wrS2C {
			return "s2c:read-beyond-written"
		}
	}
	return ""
}

// c2s moves c12C2SBytes from S's client to the server side and verifies them.
func (fx *c12Fx) c2s() string {
	buf := make([]byte, c12C2SBytes)
	vcommon.FillKeyed(fx.keyC2S, fx.offC2S, buf)
	n, err := fx.sClient.Write(buf)
	if err != nil || n != len(buf) {
		return fmt.Sprintf("c2s:write-failed(n=%d err=%v; %s)", n, err, fx.sComm.Stats().LastErr)
	}
	got := 0
	rb := make([]byte, 4096)
	for fx.sUser.in.HasData() {
		m, err := fx.sUser.Read(rb)
		if err != nil {
			return "c2s:read-error(" + err.Error() + ")"
		}
		if bad := vcommon.CheckKeyed(fx.keyC2S, fx.offC2S, rb[:m]); bad >= 0 {
			return "c2s:bytes-differ"
		}
		fx.offC2S += int64(m)
		got += m
	}
	if got != len(buf) {
		return fmt.Sprintf("c2s:bytes-missing(got %d of %d)", got, len(buf))
	}
	return ""
}

// roundStart leaves S in a non-trivial state: data moved both ways, three downstream packets still
// queued on the server (its Write blocked), and takes the snapshot. "" = fine; "!watchdog" = stuck.
func (fx *c12Fx) roundStart() (fail string) {
	ok := c12Timed(func() {
		if fail = fx.c2s(); fail != "" {
			return
		}
		buf := make([]byte, c12S2CBytes)
		vcommon.FillKeyed(fx.keyS2C, fx.wrS2C, buf)
		fx.wrS2C += int64(len(buf))
		want := fx.sUser.out.NextSeqNo + uint16((c12S2CBytes+c12SFrag-1)/c12SFrag)
		fx.srvWrite = make(chan error, 1)
		go func(ch chan error) {
			_, err := fx.sUser.Write(buf)
			ch <- err
		}(fx.srvWrite)
		for i := 0; fx.sUser.out.NextSeqNo != want; i++ {
			if i > 5000000 {
				fail = "s2c:server-write-did-not-queue"
				return
			}
			runtime.Gosched()
		}
		// one poll: one packet travels, the rest stays queued
		if err := fx.pumpOnce(); err != nil {
			fail = fmt.Sprintf("s2c:poll-failed(%v; %s)", err, fx.sComm.Stats().LastErr)
			return
		}
		if fail = fx.clientDrain(); fail != "" {
			return
		}
		fx.snap = c12Snap(fx.lst, fx.sUser)
	})
	if !ok {
		fx.broken = true
		return "!watchdog"
	}
	return fail
}

// roundEnd: S must complete the transfer that was in flight during the hostile batch, exactly.
func (fx *c12Fx) roundEnd() (fail string) {
	ok := c12Timed(func() {
		done := false
		for i := 0; i < 64 && !done; i++ {
			if err := fx.pumpOnce(); err != nil {
				fail = fmt.Sprintf("s2c:poll-failed(%v; %s)", err, fx.sComm.Stats().LastErr)
				return
			}
			if fail = fx.clientDrain(); fail != "" {
				return
			}
			select {
			case err := <-fx.srvWrite:
				if err != nil {
					fail = "s2c:server-write-error(" + err.Error() + ")"
					return
				}
				done = true
			default:
				runtime.Gosched()
			}
		}
		if !done {
			// every packet acknowledged? then the writer only needs to be scheduled
			if fx.offS2C == fx.wrS2C {
				if err := <-fx.srvWrite; err != nil {
					fail = "s2c:server-write-error(" + err.Error() + ")"
				}
			} else {
				fail = fmt.Sprintf("s2c:bytes-missing-after-64-polls(got %d of %d)", fx.offS2C, fx.wrS2C)
			}
			return
		}
		if fx.offS2C != fx.wrS2C {
			fail = fmt.Sprintf("s2c:bytes-missing(got %d of %d)", fx.offS2C, fx.wrS2C)
		}
	})
	if !ok {
		fx.broken = true
		return "!watchdog"
	}
	return fail
}

// ---- one hostile message -----------------------------------------------------------------------

type c12Res struct {
	timedOut  bool
	panicked  bool
	site, val string
	resp      *mdns.Msg
	err       error
	alloc     uint64
	packErr   string
	packPanic string
	answer    *mdns.Msg // the answer as it would arrive (packed and unpacked); nil = nothing is sent
	writes    int       // via handleRequest: datagrams written
}

// call hands q to the registered onMessage callback as handleRequest would and measures it.
func (fx *c12Fx) call(q *mdns.Msg, addr net.Addr) c12Res {
	if fx.real != nil {
		return fx.callHandleRequest(q, addr)
	}
	h := fx.scomm.handler()
	ch := make(chan c12Res, 1)
	go func() {
		var r c12Res
		var m1, m2 runtime.MemStats
		runtime.ReadMemStats(&m1)
		r.panicked, r.site, r.val = vcommon.Guard(func() { r.resp, r.err = h(q, addr) })
		runtime.ReadMemStats(&m2)
		r.alloc = m2.TotalAlloc - m1.TotalAlloc
		if !r.panicked && r.err == nil && r.resp != nil {
			// what ResponseWriter.WriteMsg does; a failure there is logged and nothing is sent
			var wire []byte
			var perr error
			if p, _, v := vcommon.Guard(func() { wire, perr = r.resp.Pack() }); p {
				r.packPanic = v
			} else if perr != nil {
				r.packErr = perr.Error()
			} else {
				back := new(mdns.Msg)
				if back.Unpack(wire) == nil {
					r.answer = back
				}
			}
		}
		ch <- r
	}()
	select {
	case r := <-ch:
		return r
	case <-time.After(c12Watchdog):
		return c12Res{timedOut: true}
	}
}

// callHandleRequest hands q to NetConnectionServerCommunicator.handleRequest as miekg's serveDNS would and measures it.
func (fx *c12Fx) callHandleRequest(q *mdns.Msg, addr net.Addr) c12Res {
	ch := make(chan c12Res, 1)
	go func() {
		var r c12Res
		w := &c12Writer{remote: addr}
		var m1, m2 runtime.MemStats
		runtime.ReadMemStats(&m1)
		r.panicked, r.site, r.val = vcommon.Guard(func() { fx.real.handleRequest(w, q) })
		runtime.ReadMemStats(&m2)
		r.alloc = m2.TotalAlloc - m1.TotalAlloc
		r.writes = len(w.wires)
		switch {
		case r.panicked:
		case len(w.wires) > 0:
			r.resp = w.msgs[0]
			back := new(mdns.Msg)
			if back.Unpack(w.wires[0]) == nil {
				r.answer = back
			}
		case w.lastErr != nil:
			// WriteMsg failed (handleRequest logs it): nothing is sent
			r.resp = new(mdns.Msg)
			r.packErr = w.lastErr.Error()
		default:
			r.err = errC12NothingSent
		}
		ch <- r
	}()
	select {
	case r := <-ch:
		return r
	case <-time.After(c12Watchdog):
		return c12Res{timedOut: true}
	}
}

// c12AnswerClass names what came back, for the evidence: tunnel error / command answer.
func c12AnswerClass(a *mdns.Msg, domain string) (class string, isErr bool) {
	var data []byte
	if p, _, _ := vcommon.Guard(func() { data = util.UnwrapDnsResponse(a, domain) }); p {
		return "answer:unreadable", false
	}
	if len(data) == 0 {
		return "answer:empty", false
	}
	c := data[0]
	if c == 'e' {
		d, _ := enc.Base32Encoding.Decode(data[1:])
		return "tunnel-error:" + string(d), true
	}
	for _, known := range commands.BadErrors {
		// in-command error flag followed by the error text (Base32 for v/o/z/y-e; r/c use the user's codec)
		for _, e := range []enc.Encoder{enc.Base32Encoding} {
			off := 1
			if c == 'v' {
				off = 3
			}
			if c == 'y' && len(data) > 1 && data[1] == 'e' {
				off = 2
			}
			if len(data) > off {
				if d, err := e.Decode(data[off:]); err == nil && strings.Contains(string(d), known.Error()) {
					return fmt.Sprintf("command-answer:%c:err=%s", c, known.Error()), true
				}
			}
		}
	}
	return fmt.Sprintf("command-answer:%c", c), false
}
