package dns

// C12 server side: the grammar of hostile single-question queries.

import (
	"bytes"
	"encoding/binary"
	"fmt"
	"math/rand"
	"strings"

	"github.com/bokysan/socketace/v2/internal/streams/dns/commands"
	"github.com/bokysan/socketace/v2/internal/util/enc"
	"github.com/bokysan/socketace/v2/internal/zzverif/vcommon"
	mdns "github.com/miekg/dns"
)

var (
	c12Domains = []string{"t.example.org", "example.com", "m.x.io", "l0.tunnel.example.net", "vpn.corp.example"}
	c12TunnelQ = []uint16{10, 0xFFA0, mdns.TypeTXT, mdns.TypeSRV, mdns.TypeMX, mdns.TypeCNAME, mdns.TypeAAAA, mdns.TypeA}
	// query types a session can be run over in this tree for any payload length (SRV answers with >63 characters and
	// A/AAAA answers whose length is no multiple of the address size cannot be packed: C10's subject, not this one's)
	c12SessionQ = []uint16{10, 0xFFA0, mdns.TypeTXT, mdns.TypeMX, mdns.TypeCNAME}
	c12OtherQ   = []uint16{mdns.TypeNS, mdns.TypeSOA, mdns.TypeANY, 0, 65535, 65000, mdns.TypeOPT, mdns.TypeAXFR, mdns.TypePTR}
	c12Classes  = []uint16{mdns.ClassINET, mdns.ClassCHAOS, mdns.ClassANY, 0, mdns.ClassNONE}
	c12Codecs   = []byte{'T', 'S', 'U', 'W', 'X', 'V', 'Y', 'R'}
	c12CmdChars = "vlorymzce"
	c12Alnum    = "abcdefghijklmnopqrstuvwxyzABCDEFGHIJKLMNOPQRSTUVWXYZ0123456789"
	c12Letters  = c12Alnum + "-_*\x00\xff "
	c12Words    = []string{"mail", "www", "login", "email", "ns1", "mx", "ftp", "vpn", "_dmarc", "_sip._tcp", "zone", "cloud", "ocsp", "relay",
		"yahoo", "years", "version", "e", "l", "m", "y", "yr", "yrs", "autodiscover", "lyncdiscover", "enterpriseregistration", "wpad", "isatap",
		"c", "cdn", "o", "r", "z", "v", "static.cdn", "e2e.test", "m.img", "y.a.b"}
	c12Foreign = []string{"www.google.com", "mail.example.com", "login.live.com", "email.foo.org", "e.root-servers.net", "m.root-servers.net",
		"l.gtld-servers.net", "years.com", "yahoo.com", "yr.no", "versailles.fr", "localhost", "com", "example.org", "org", "1.0.0.127.in-addr.arpa",
		"b._dns-sd._udp.local", "ytimg.com", "cloudflare.com", "office.com", "zoom.us", "reddit.com", "e.co", "m.me", "l.de", "yt.be", "o2.co.uk", "c.cc", "z.cn", "r.mail.ru"}
	c12Uids      = []string{"S", "H", "zz", "free", "bad!", "neg", "UP", "hi8", "dot", "00"}
	c12Bodies    = []string{"none", "short", "hdr", "hdr+uid", "valid", "valid-trunc", "valid-mut", "codec", "garbage8", "max"}
	c12FragSizes = []uint32{0, 1, 2, 100, 1200, 8192, 65535, 65536, 1 << 21, 1 << 24, 1 << 28, 0xFFFFFFFF, 0xFFFFFFFE}
)

type c12Spec struct {
	Kind   string `json:"kind"` // root | short | bare | foreign | word | cmd | esc
	Cmd    byte   `json:"cmd,omitempty"`
	Body   string `json:"body,omitempty"`
	Uid    string `json:"uid,omitempty"`
	Sfx    string `json:"sfx,omitempty"` // dom | DOM | none | foreign | lookalike
	From   string `json:"from"`
	Qtype  uint16 `json:"qtype"`
	Qclass uint16 `json:"qclass"`
	Text   string `json:"text,omitempty"`
	Arg    int    `json:"arg,omitempty"`
	Sub    int64  `json:"sub,omitempty"`
	Hdr    int    `json:"hdr,omitempty"`
	// Env: what else the query carries besides its question (zz_verif_c12_handler_test.go); "" = what Hdr says
	Env string `json:"env,omitempty"`
}

func (sp *c12Spec) key() string {
	return fmt.Sprintf("%s/%q/%s/%s/%s/%s/%d/%d/%q/%d/%d/%d/%s", sp.Kind, string(sp.Cmd), sp.Body, sp.Uid, sp.Sfx, sp.From, sp.Qtype, sp.Qclass, sp.Text, sp.Arg, sp.Sub, sp.Hdr, sp.Env)
}

// c12Esc renders raw labels as a presentation-format name miekg's packer accepts.
func c12Esc(labels [][]byte) string {
	if len(labels) == 0 {
		return "."
	}
	var sb strings.Builder
	for _, l := range labels {
		for _, b := range l {
			switch {
			case b == '.' || b == '\\':
				sb.WriteByte('\\')
				sb.WriteByte(b)
			case b <= 0x20 || b >= 0x7f:
				fmt.Fprintf(&sb, "\\%03d", b)
			default:
				sb.WriteByte(b)
			}
		}
		sb.WriteByte('.')
	}
	return sb.String()
}

func c12Split(data []byte, mode int, rng *rand.Rand) [][]byte {
	var out [][]byte
	for len(data) > 0 {
		n := 57
		switch mode % 4 {
		case 1:
			n = 63
		case 2:
			n = 1 + rng.Intn(63)
		case 3:
			n = 60
		}
		if n > len(data) {
			n = len(data)
		}
		out = append(out, data[:n])
		data = data[n:]
	}
	return out
}

func c12DomLabels(d string) [][]byte {
	var out [][]byte
	for _, l := range strings.Split(d, ".") {
		if l != "" {
			out = append(out, []byte(l))
		}
	}
	return out
}

func c12RandBytes(rng *rand.Rand, n int, alphabet string) []byte {
	b := make([]byte, n)
	for i := range b {
		if alphabet == "" {
			b[i] = byte(rng.Intn(256))
		} else {
			b[i] = alphabet[rng.Intn(len(alphabet))]
		}
	}
	return b
}

func c12Codec(code byte) enc.Encoder {
	e, err := enc.FromCode(code)
	if err != nil {
		return enc.Base32Encoding
	}
	return e
}

func c12NeedsUid(cmd byte) bool {
	switch cmd | 0x20 {
	case 'o', 'r', 'z', 'c':
		return true
	}
	return false
}

// uid renders the two user-id characters of a request.
func (fx *c12Fx) uid(kind string, rng *rand.Rand) []byte {
	switch kind {
	case "S":
		return []byte(commands.EncodeUserId(fx.sId))
	case "H":
		if fx.hId >= 0 {
			return []byte(commands.EncodeUserId(uint16(fx.hId)))
		}
		return []byte("01")
	case "zz":
		return []byte("zz")
	case "free":
		return []byte("zy")
	case "bad!":
		return []byte("z!")
	case "neg":
		return []byte("-1")
	case "UP":
		return []byte("ZZ")
	case "hi8":
		return []byte{0xff, 0xfe}
	case "dot":
		return []byte("1.")
	case "00":
		return []byte("00")
	}
	return c12RandBytes(rng, 2, "0123456789abcdefghijklmnopqrstuvwxyz")
}

// upstreamCodecFor: the codec the server will use for a packet request carrying this uid.
func (fx *c12Fx) upstreamCodecFor(uid []byte) enc.Encoder {
	e := enc.Base32Encoding
	if string(uid) == commands.EncodeUserId(fx.sId) {
		return fx.sUser.Serializer.Upstream.Encoder
	}
	if fx.hId >= 0 && string(uid) == commands.EncodeUserId(uint16(fx.hId)) && fx.hUser.Serializer.Upstream.Encoder != nil {
		return fx.hUser.Serializer.Upstream.Encoder
	}
	return e
}

func c12LE(v interface{}) []byte {
	b := &bytes.Buffer{}
	binary.Write(b, binary.LittleEndian, v)
	return b.Bytes()
}

// validBody: a well-formed body for cmd whose fields take boundary values.
func (fx *c12Fx) validBody(cmd byte, uid []byte, sp *c12Spec, rng *rand.Rand) []byte {
	b32 := enc.Base32Encoding
	switch cmd | 0x20 {
	case 'v':
		vers := []uint32{0, 0xffffffff, ProtocolVersion + 1, ProtocolVersion << 8, ProtocolVersion, 1, 0x80000000, ProtocolVersion}
		v := vers[sp.Arg%len(vers)]
		if v == ProtocolVersion && sp.Arg%16 >= 8 && rng.Intn(4) != 0 {
			v = rng.Uint32() // keep the user table from filling up with hostile sessions too quickly
		}
		raw := c12LE(v)
		if sp.Arg%5 == 4 {
			raw = raw[:rng.Intn(4)]
		}
		return b32.Encode(raw)
	case 'o':
		tri := []byte{0, 1, 255, 7}
		codes := []byte{' ', 'T', 'S', 'U', 'W', 'X', 'V', 'Y', 'R', 't', '?', 0}
		raw := []byte{tri[rng.Intn(4)], tri[rng.Intn(4)], tri[(sp.Arg/3)%4], codes[rng.Intn(len(codes))], codes[rng.Intn(len(codes))]}
		raw = append(raw, c12LE(c12FragSizes[sp.Arg%len(c12FragSizes)])...)
		return b32.Encode(raw)
	case 'r':
		return b32.Encode(c12LE(c12FragSizes[sp.Arg%len(c12FragSizes)]))
	case 'y':
		all := "TSUWXVYRtsuwxvyr?a0 "
		return []byte{all[sp.Arg%len(all)]}
	case 'z':
		n := []int{0, 1, 10, 59, 150}[sp.Arg%5]
		if sp.Arg%2 == 0 {
			return c12RandBytes(rng, n, c12Alnum)
		}
		return c12RandBytes(rng, n, "")
	case 'c':
		codec := fx.upstreamCodecFor(uid)
		next := uint16(0)
		if string(uid) == commands.EncodeUserId(fx.sId) {
			next = fx.sUser.in.NextSeqNo
		} else if fx.hUser != nil {
			next = fx.hUser.in.NextSeqNo
		}
		seqs := []uint16{next, next + 1, next + 127, next + 128, next - 1, next + 2, uint16(rng.Intn(65536)), 0, 65535}
		acks := []uint16{0, 65535, uint16(rng.Intn(65536)), fx.sUser.out.NextSeqNo - 1, fx.sUser.out.NextSeqNo - 2}
		flags := []byte{0xff, 0, 1, 2, 0x80}
		raw := c12LE(acks[rng.Intn(len(acks))])
		fl := flags[(sp.Arg/9)%len(flags)]
		raw = append(raw, fl)
		raw = append(raw, c12LE(seqs[sp.Arg%len(seqs)])...)
		raw = append(raw, c12RandBytes(rng, []int{0, 1, 30, 100}[rng.Intn(4)], "")...)
		if sp.Arg%11 == 10 {
			raw = raw[:rng.Intn(len(raw))]
		}
		return codec.Encode(raw)
	}
	// l, m, e and letters that are no command: anything
	return b32.Encode(c12RandBytes(rng, rng.Intn(12), ""))
}

// maxData: how many data bytes fit before the suffix when cut into 63-byte labels.
func c12MaxData(sfx [][]byte) int {
	wire := 1
	for _, l := range sfx {
		wire += len(l) + 1
	}
	room := 255 - wire
	n := 0
	for room > 1 {
		l := room - 1
		if l > 63 {
			l = 63
		}
		n += l
		room -= l + 1
	}
	return n
}

// build materialises sp against the fixture's current state. data is the request string before
// it is cut into labels (nil for names that are not built from one).
func (fx *c12Fx) build(sp *c12Spec) *mdns.Msg {
	rng := vcommon.NewRand(sp.Sub, "c12/spec")
	var labels [][]byte
	dom := c12DomLabels(fx.domain)
	var sfx [][]byte
	switch sp.Sfx {
	case "dom":
		sfx = dom
	case "DOM":
		for i, l := range dom {
			if i%2 == 0 {
				sfx = append(sfx, []byte(strings.ToUpper(string(l))))
			} else {
				sfx = append(sfx, l)
			}
		}
	case "foreign":
		sfx = c12DomLabels(c12Foreign[rng.Intn(len(c12Foreign))])
	case "lookalike":
		sfx = append([][]byte{append([]byte("x"), dom[0]...)}, dom[1:]...)
	}
	switch sp.Kind {
	case "root":
	case "bare":
		labels = sfx
	case "word", "foreign":
		labels = append(c12DomLabels(sp.Text), sfx...)
	case "esc":
		// a label that ends in ".<first label of the domain>": the escaped dot sits right where the
		// domain suffix is cut off
		first := append([]byte(sp.Text+"."), dom[0]...)
		labels = append([][]byte{first}, dom[1:]...)
	case "short":
		labels = append([][]byte{[]byte(sp.Text)}, sfx...)
	case "cmd":
		data := []byte{sp.Cmd}
		cache := c12RandBytes(rng, 3, "abcdefghijklmnopqrstuvwxyz0123456789")
		var uid []byte
		if sp.Uid != "" && sp.Uid != "none" {
			uid = fx.uid(sp.Uid, rng)
		}
		switch sp.Body {
		case "none":
		case "short":
			data = append(data, c12RandBytes(rng, 1+sp.Arg%5, "abcdefghijklmnopqrstuvwxyz0123456789")...)
		case "hdr":
			data = append(data, cache...)
		case "hdr+uid":
			data = append(append(data, cache...), uid...)
			if sp.Arg%2 == 1 && len(data) > 4 {
				data = data[:len(data)-1] // one character of the user id only
			}
		case "valid", "valid-trunc", "valid-mut":
			body := fx.validBody(sp.Cmd, uid, sp, rng)
			if sp.Body == "valid-trunc" && len(body) > 0 {
				body = body[:rng.Intn(len(body))]
			}
			if sp.Body == "valid-mut" && len(body) > 0 {
				body = append([]byte{}, body...)
				body[rng.Intn(len(body))] = byte(rng.Intn(256))
			}
			data = append(append(append(data, cache...), uid...), body...)
		case "codec":
			codec := c12Codec(c12Codecs[sp.Arg%len(c12Codecs)])
			n := []int{0, 1, 2, 3, 5, 8, 50, 100}[(sp.Arg/8)%8]
			data = append(append(append(data, cache...), uid...), codec.Encode(c12RandBytes(rng, n, ""))...)
		case "garbage8":
			n := []int{1, 2, 7, 40, 120}[sp.Arg%5]
			data = append(append(append(data, cache...), uid...), c12RandBytes(rng, n, "")...)
		case "max":
			n := c12MaxData(sfx) - 4 - len(uid) - sp.Arg%3
			alpha := []string{"abcdefghijklmnopqrstuvwxyz012345", c12Alnum, "\\", "."}[(sp.Arg/3)%4]
			if alpha == "\\" || alpha == "." {
				n = n/2 - 4
			}
			if n < 0 {
				n = 0
			}
			data = append(append(append(data, cache...), uid...), c12RandBytes(rng, n, alpha)...)
		}
		mode := sp.Arg
		if sp.Body == "max" {
			mode = 1
		}
		labels = append(c12Split(data, mode, rng), sfx...)
	}
	m := new(mdns.Msg)
	m.Id = uint16(rng.Intn(65536))
	m.Question = []mdns.Question{{Name: c12Esc(labels), Qtype: sp.Qtype, Qclass: sp.Qclass}}
	switch sp.Hdr % 6 {
	case 0:
		m.RecursionDesired = true
	case 1:
		m.RecursionDesired, m.CheckingDisabled, m.AuthenticatedData = true, true, true
	case 2:
		m.Opcode = mdns.OpcodeNotify
	case 3:
		m.RecursionDesired = true
		m.SetEdns0(4096, true)
	case 4:
		m.SetEdns0(512, false)
		m.Extra = append(m.Extra, &mdns.TXT{Hdr: mdns.RR_Header{Name: "x.", Rrtype: mdns.TypeTXT, Class: mdns.ClassINET}, Txt: []string{"extra"}})
	}
	if sp.Env != "" {
		c12ApplyEnv(m, sp.Env, rng)
	}
	return m
}

// ---- the case lists ----------------------------------------------------------------------------------

// c12Core: the classes every item runs (they decide which signatures exist; none is left to chance).
func c12Core(item int) []c12Spec {
	var out []c12Spec
	q := func(i int) uint16 { return c12TunnelQ[(item+i)%len(c12TunnelQ)] }
	add := func(sp c12Spec) {
		if sp.From == "" {
			sp.From = []string{"F", "H", "F6"}[len(out)%3]
		}
		if sp.Qtype == 0 {
			sp.Qtype = q(len(out))
		}
		if sp.Qclass == 0 {
			sp.Qclass = mdns.ClassINET
		}
		sp.Sub = int64(item)*100000 + int64(len(out))
		out = append(out, sp)
	}
	add(c12Spec{Kind: "root"})
	for _, s := range []string{"dom", "DOM", "lookalike", "foreign"} {
		add(c12Spec{Kind: "bare", Sfx: s})
	}
	for _, w := range c12Words {
		add(c12Spec{Kind: "word", Text: w, Sfx: "dom"})
	}
	for _, w := range []string{"mail", "login", "email", "y", "yrs", "version", "www"} {
		add(c12Spec{Kind: "word", Text: w, Sfx: "none"})
	}
	for _, w := range c12Foreign {
		add(c12Spec{Kind: "foreign", Text: w, Sfx: "none"})
	}
	for _, w := range []string{"x", "vabc", "yabcT", "zab00", ""} {
		add(c12Spec{Kind: "esc", Text: w})
	}
	// every command letter, both cases: 1, 2, 3 characters, header only, header + user id (1 and 2 characters)
	for _, c := range []byte(c12CmdChars + strings.ToUpper(c12CmdChars)) {
		for _, sfx := range []string{"dom", "none"} {
			if sfx == "none" && c < 'a' {
				continue
			}
			add(c12Spec{Kind: "cmd", Cmd: c, Body: "none", Sfx: sfx})
			add(c12Spec{Kind: "cmd", Cmd: c, Body: "short", Arg: 0, Sfx: sfx})
			add(c12Spec{Kind: "cmd", Cmd: c, Body: "short", Arg: 1, Sfx: sfx})
			add(c12Spec{Kind: "cmd", Cmd: c, Body: "hdr", Sfx: sfx})
			add(c12Spec{Kind: "cmd", Cmd: c, Body: "hdr+uid", Uid: "S", Arg: 1, Sfx: sfx})
			add(c12Spec{Kind: "cmd", Cmd: c, Body: "hdr+uid", Uid: "H", Arg: 0, Sfx: sfx, From: "H"})
			add(c12Spec{Kind: "cmd", Cmd: c, Body: "hdr+uid", Uid: "S", Arg: 0, Sfx: sfx})
		}
	}
	return out
}

// c12Grid: the systematic product (command letter x body kind x user id x origin), identical for every
// seed; qtype, class, header variant, suffix and the random content inside a body rotate.
func c12Grid() []c12Spec {
	var out []c12Spec
	n := 0
	for _, c := range []byte(c12Letters) {
		isCmd := strings.IndexByte(c12CmdChars, c|0x20) >= 0 && c != 0 && c != 0xff
		for bi, body := range c12Bodies {
			args := 2
			uids := []string{"none"}
			if isCmd {
				args = 12
				if body == "codec" {
					args = 64
				}
				if body == "valid" {
					args = 48
				}
				if body != "none" && body != "short" && body != "hdr" {
					uids = []string{"S", "H", "zz", "free", "bad!", "00", "UP", "neg", "hi8", "dot"}
					if !c12NeedsUid(c) {
						uids = []string{"none", "S"}
					}
				}
			}
			for a := 0; a < args; a++ {
				for ui, u := range uids {
					if ui >= 2 && (a+ui)%3 != 0 {
						continue // the rarer user-id shapes get a third of the arguments
					}
					for _, from := range []string{"F", "H"} {
						n++
						sp := c12Spec{Kind: "cmd", Cmd: c, Body: body, Uid: u, From: from, Arg: a}
						if n%29 == 0 {
							sp.From = "F6"
						}
						sp.Sfx = []string{"dom", "dom", "dom", "DOM", "none", "foreign", "lookalike"}[(n+bi)%7]
						sp.Qtype = c12TunnelQ[n%len(c12TunnelQ)]
						if n%13 == 0 {
							sp.Qtype = c12OtherQ[(n/13)%len(c12OtherQ)]
						}
						sp.Qclass = mdns.ClassINET
						if n%17 == 0 {
							sp.Qclass = c12Classes[(n/17)%len(c12Classes)]
						}
						sp.Hdr = n % 7
						out = append(out, sp)
					}
				}
			}
		}
	}
	// every qtype x class, on a command name, a harmless name and a name outside the domain
	for _, qt := range append(append([]uint16{}, c12OtherQ...), c12TunnelQ...) {
		for _, cl := range c12Classes {
			for _, from := range []string{"F", "H"} {
				out = append(out, c12Spec{Kind: "cmd", Cmd: 'y', Body: "valid", Arg: 0, Sfx: "dom", Qtype: qt, Qclass: cl, From: from})
				out = append(out, c12Spec{Kind: "cmd", Cmd: 'z', Body: "valid", Uid: "H", Arg: 2, Sfx: "dom", Qtype: qt, Qclass: cl, From: from})
				out = append(out, c12Spec{Kind: "word", Text: "www", Sfx: "dom", Qtype: qt, Qclass: cl, From: from})
				out = append(out, c12Spec{Kind: "foreign", Text: "www.example.net", Sfx: "none", Qtype: qt, Qclass: cl, From: from})
			}
		}
	}
	// all 1-, 2- and 3-character names over the interesting first letters
	for _, c := range []byte(c12Alnum) {
		for l := 1; l <= 3; l++ {
			for _, sfx := range []string{"dom", "none"} {
				n++
				t := string(c) + "q7"[:l-1]
				out = append(out, c12Spec{Kind: "short", Text: t, Sfx: sfx, From: []string{"F", "H"}[n%2], Qtype: c12TunnelQ[n%len(c12TunnelQ)], Qclass: mdns.ClassINET})
			}
		}
	}
	return out
}

// c12Random: one random sentence of the grammar.
func c12Random(rng *rand.Rand) c12Spec {
	sp := c12Spec{From: []string{"F", "H", "H", "F6"}[rng.Intn(4)], Qclass: mdns.ClassINET, Hdr: rng.Intn(7), Arg: rng.Intn(1 << 20)}
	sp.Qtype = c12TunnelQ[rng.Intn(len(c12TunnelQ))]
	if rng.Intn(8) == 0 {
		sp.Qtype = c12OtherQ[rng.Intn(len(c12OtherQ))]
	}
	if rng.Intn(40) == 0 {
		sp.Qtype = uint16(rng.Intn(65536))
	}
	if rng.Intn(10) == 0 {
		sp.Qclass = c12Classes[rng.Intn(len(c12Classes))]
	}
	sp.Sfx = []string{"dom", "dom", "dom", "dom", "DOM", "none", "foreign", "lookalike"}[rng.Intn(8)]
	switch x := rng.Intn(100); {
	case x < 3:
		sp.Kind, sp.Text = "word", c12Words[rng.Intn(len(c12Words))]
	case x < 6:
		sp.Kind, sp.Text, sp.Sfx = "foreign", c12Foreign[rng.Intn(len(c12Foreign))], "none"
	case x < 9:
		sp.Kind, sp.Text = "short", string(c12RandBytes(rng, 1+rng.Intn(3), c12Alnum))
	case x < 11:
		sp.Kind, sp.Text = "esc", string(c12RandBytes(rng, rng.Intn(8), c12Alnum))
	case x < 13:
		sp.Kind, sp.Text = "word", string(c12RandBytes(rng, 1+rng.Intn(40), "")) // 8-bit label
	default:
		sp.Kind = "cmd"
		if rng.Intn(5) == 0 {
			sp.Cmd = c12Letters[rng.Intn(len(c12Letters))]
		} else {
			sp.Cmd = c12CmdChars[rng.Intn(len(c12CmdChars))]
			if rng.Intn(4) == 0 {
				sp.Cmd &^= 0x20
			}
		}
		sp.Body = c12Bodies[rng.Intn(len(c12Bodies))]
		if rng.Intn(2) == 0 {
			sp.Body = "valid"
		}
		sp.Uid = c12Uids[rng.Intn(len(c12Uids))]
		if rng.Intn(3) == 0 {
			sp.Uid = []string{"S", "H"}[rng.Intn(2)]
		}
		if !c12NeedsUid(sp.Cmd) && rng.Intn(3) != 0 {
			sp.Uid = "none"
		}
	}
	return sp
}

type c12Plan struct {
	items, perItem int
}

func c12ServerPlan(thorough bool) c12Plan {
	if thorough {
		return c12Plan{items: 960, perItem: 2080}
	}
	return c12Plan{items: 96, perItem: 620}
}

// c12ItemSpecs is a pure function of (seed, tier, item).
func c12ItemSpecs(seed int64, thorough bool, item int) []c12Spec {
	pl := c12ServerPlan(thorough)
	out := c12Core(item)
	grid := c12Grid()
	const slices = 96
	per := (len(grid) + slices - 1) / slices
	k := item % slices
	for i := k * per; i < (k+1)*per && i < len(grid); i++ {
		sp := grid[i]
		sp.Sub = seed*1000003 + int64(item)*100000 + int64(i)
		out = append(out, sp)
	}
	rng := vcommon.NewRand(seed, fmt.Sprintf("c12/item/%d", item))
	for len(out) < pl.perItem {
		sp := c12Random(rng)
		sp.Sub = rng.Int63()
		out = append(out, sp)
	}
	return out
}
