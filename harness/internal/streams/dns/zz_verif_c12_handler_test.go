package dns

// C12, the layer above the listener's callback: NetConnectionServerCommunicator.handleRequest, the function miekg/dns
// calls on a goroutine of its own for every accepted query (nothing recovers a panic there: the process dies). It is
// driven here the way miekg's serveDNS drives it: a query that went through Pack/Unpack and that DefaultMsgAcceptFunc
// accepts (one question, at most one answer record, one authority record and two additional records), and a
// dns.ResponseWriter that behaves like miekg's own `response` of a server without TSIG secrets (socketace configures
// none): TsigStatus() is nil for every message, WriteMsg packs the message and writes it, and fails when it cannot be
// packed or is too large for the transport.
//
// What the other server items lack and these have: queries that carry MORE than their question -- a TSIG record (every
// algorithm name, key names, MAC sizes, error/other-data fields; alone, after an OPT or TXT record, before an OPT
// record), a SIG(0) record, an OPT record with options, a SOA in the answer section (NOTIFY) or in the authority
// section (IXFR style) -- crossed with every way the listener's callback can end: an answer, a tunnel error, an error
// together with a message (record types the tunnel cannot wrap), an error and no message (user-id fields that are no
// number), an answer that cannot be packed. The victim and the hostile peer's own session run through handleRequest as
// well, so the state oracle and the in-flight transfer of the victim are the same as in the other server items.

import (
	"encoding/base64"
	"encoding/binary"
	"encoding/hex"
	"errors"
	"fmt"
	"math/rand"
	"net"
	"strings"
	"time"

	"github.com/bokysan/socketace/v2/internal/zzverif/vcommon"
	mdns "github.com/miekg/dns"
)

// ---- what a query may carry besides its question ---------------------------------------------------------

var c12Envs = []string{
	"plain", "opt", "opt-options",
	"tsig", "tsig-sha1", "tsig-sha256-mac", "tsig-sha512-mac", "tsig-unknown-alg", "tsig-root-key", "tsig-long-key", "tsig-badtime-otherdata", "tsig-8bit-key",
	"opt+tsig", "txt+tsig", "tsig+opt", "tsig+tsig",
	"sig0", "opt+sig0",
	"notify-soa", "notify-soa+tsig", "ixfr-soa", "ixfr-soa+tsig", "answer+authority+opt+tsig",
}

func c12Tsig(m *mdns.Msg, key, algo string, macLen int, rng *rand.Rand) *mdns.TSIG {
	t := &mdns.TSIG{Hdr: mdns.RR_Header{Name: key, Rrtype: mdns.TypeTSIG, Class: mdns.ClassANY}, Algorithm: algo, Fudge: 300, OrigId: m.Id}
	// (a fixed clock: the message is a pure function of the seed)
	t.TimeSigned = uint64(1700000000 + rng.Intn(100000000))
	if macLen > 0 {
		t.MAC = hex.EncodeToString(c12RandBytes(rng, macLen, ""))
		t.MACSize = uint16(macLen)
	}
	return t
}

func c12Soa(name string) *mdns.SOA {
	return &mdns.SOA{Hdr: mdns.RR_Header{Name: name, Rrtype: mdns.TypeSOA, Class: mdns.ClassINET, Ttl: 60}, Ns: "ns." + strings.TrimPrefix(name, "."), Mbox: "h.example.",
		Serial: 2020010101, Refresh: 3600, Retry: 600, Expire: 86400, Minttl: 60}
}

func c12Sig0(rng *rand.Rand) *mdns.SIG {
	s := &mdns.SIG{}
	s.Hdr = mdns.RR_Header{Name: ".", Rrtype: mdns.TypeSIG, Class: mdns.ClassANY}
	s.Algorithm = mdns.RSASHA256
	s.Expiration, s.Inception = 1700000300, 1700000000
	s.KeyTag = uint16(rng.Intn(65536))
	s.SignerName = "key.example."
	s.Signature = base64.StdEncoding.EncodeToString(c12RandBytes(rng, 64, ""))
	return s
}

// c12ApplyEnv replaces everything but the question of m. Every shape stays within what DefaultMsgAcceptFunc lets through.
func c12ApplyEnv(m *mdns.Msg, env string, rng *rand.Rand) {
	m.Answer, m.Ns, m.Extra = nil, nil, nil
	qname := m.Question[0].Name
	opt := func(size uint16, do bool) { m.SetEdns0(size, do) }
	txt := &mdns.TXT{Hdr: mdns.RR_Header{Name: "x.", Rrtype: mdns.TypeTXT, Class: mdns.ClassINET}, Txt: []string{"extra"}}
	for _, part := range strings.Split(env, "+") {
		switch part {
		case "plain":
		case "opt":
			opt(4096, true)
		case "opt-options":
			opt(1232, false)
			o := m.IsEdns0()
			o.Option = append(o.Option, &mdns.EDNS0_COOKIE{Code: mdns.EDNS0COOKIE, Cookie: hex.EncodeToString(c12RandBytes(rng, 8, ""))},
				&mdns.EDNS0_NSID{Code: mdns.EDNS0NSID}, &mdns.EDNS0_LOCAL{Code: 65001, Data: c12RandBytes(rng, 1+rng.Intn(40), "")})
		case "txt":
			m.Extra = append(m.Extra, txt)
		case "tsig":
			m.Extra = append(m.Extra, c12Tsig(m, "axfr.", mdns.HmacMD5, 0, rng))
		case "tsig-sha1":
			m.Extra = append(m.Extra, c12Tsig(m, "axfr.", mdns.HmacSHA1, 20, rng))
		case "tsig-sha256-mac":
			m.Extra = append(m.Extra, c12Tsig(m, "key.example.", mdns.HmacSHA256, 32, rng))
		case "tsig-sha512-mac":
			m.Extra = append(m.Extra, c12Tsig(m, "tunnel-key.", mdns.HmacSHA512, 64, rng))
		case "tsig-unknown-alg":
			m.Extra = append(m.Extra, c12Tsig(m, "k.", "hmac-none.example.", 3, rng))
		case "tsig-root-key":
			m.Extra = append(m.Extra, c12Tsig(m, ".", mdns.HmacSHA256, 16, rng))
		case "tsig-long-key":
			m.Extra = append(m.Extra, c12Tsig(m, strings.Repeat("abcdefghijklmnopqrstuvwxyz0123456789abcdefghijklmnopqrstuvw.", 3), mdns.HmacSHA256, 32, rng))
		case "tsig-8bit-key":
			m.Extra = append(m.Extra, c12Tsig(m, c12Esc([][]byte{c12RandBytes(rng, 1+rng.Intn(20), "")}), mdns.HmacMD5, 16, rng))
		case "tsig-badtime-otherdata":
			t := c12Tsig(m, "axfr.", mdns.HmacSHA256, 32, rng)
			t.Error, t.OtherLen, t.OtherData = mdns.RcodeBadTime, 6, hex.EncodeToString(c12RandBytes(rng, 6, ""))
			t.TimeSigned, t.Fudge = 0xFFFFFFFFFFFF, 0
			m.Extra = append(m.Extra, t)
		case "sig0":
			m.Extra = append(m.Extra, c12Sig0(rng))
		case "notify-soa":
			m.Opcode = mdns.OpcodeNotify
			m.Answer = []mdns.RR{c12Soa(qname)}
		case "ixfr-soa":
			m.Ns = []mdns.RR{c12Soa(qname)}
		case "answer", "authority":
			if part == "answer" {
				m.Answer = []mdns.RR{&mdns.A{Hdr: mdns.RR_Header{Name: qname, Rrtype: mdns.TypeA, Class: mdns.ClassINET, Ttl: 1}, A: net.IPv4(192, 0, 2, 1)}}
			} else {
				m.Ns = []mdns.RR{&mdns.NS{Hdr: mdns.RR_Header{Name: qname, Rrtype: mdns.TypeNS, Class: mdns.ClassINET, Ttl: 1}, Ns: "ns.example."}}
			}
		}
	}
}

// c12EnvClass: what the query, as the server unpacked it, carries besides the question (for signatures and evidence).
func c12EnvClass(q *mdns.Msg) string {
	var parts []string
	if len(q.Answer) > 0 {
		parts = append(parts, "answer-records")
	}
	if len(q.Ns) > 0 {
		parts = append(parts, "authority-records")
	}
	switch {
	case q.IsTsig() != nil:
		parts = append(parts, "tsig")
	case len(q.Extra) > 0 && q.Extra[len(q.Extra)-1].Header().Rrtype == mdns.TypeSIG:
		parts = append(parts, "sig0")
	case len(q.Extra) > 0:
		parts = append(parts, "additional-records")
	}
	if len(parts) == 0 {
		return "question-only"
	}
	return strings.Join(parts, "+")
}

// c12AdditionalClass: the additional section of the query as the server unpacked it, by the record that ends it (signatures).
func c12AdditionalClass(q *mdns.Msg) string {
	if len(q.Extra) == 0 {
		return "no-additional-records"
	}
	switch q.Extra[len(q.Extra)-1].Header().Rrtype {
	case mdns.TypeTSIG:
		return "tsig"
	case mdns.TypeSIG:
		return "sig0"
	case mdns.TypeOPT:
		return "opt"
	}
	return "other-additional-records"
}

// c12Accepted: would miekg's server hand this datagram to the handler at all?
func c12Accepted(wire []byte) bool {
	if len(wire) < 12 {
		return false
	}
	u := func(i int) uint16 { return binary.BigEndian.Uint16(wire[i:]) }
	dh := mdns.Header{Id: u(0), Bits: u(2), Qdcount: u(4), Ancount: u(6), Nscount: u(8), Arcount: u(10)}
	return mdns.DefaultMsgAcceptFunc(dh) == mdns.MsgAccept
}

// ---- the scripted dns.ResponseWriter ------------------------------------------------------------------------

// c12Writer does what miekg's `response` does for a server that has no TSIG secrets.
type c12Writer struct {
	remote  net.Addr
	tcp     bool
	closed  bool
	wires   [][]byte    // what went out
	msgs    []*mdns.Msg // the messages handed to WriteMsg that went out
	lastErr error       // why the last WriteMsg sent nothing
	calls   int
}

func (w *c12Writer) LocalAddr() net.Addr {
	if w.tcp {
		return &net.TCPAddr{IP: net.IPv4(127, 0, 0, 1), Port: 53}
	}
	return &net.UDPAddr{IP: net.IPv4(127, 0, 0, 1), Port: 53}
}
func (w *c12Writer) RemoteAddr() net.Addr { return w.remote }
func (w *c12Writer) WriteMsg(m *mdns.Msg) error {
	w.calls++
	if w.closed {
		w.lastErr = errors.New("dns: WriteMsg called after Close")
		return w.lastErr
	}
	data, err := m.Pack()
	if err != nil {
		w.lastErr = err
		return err
	}
	if _, err = w.Write(data); err != nil {
		w.lastErr = err
		return err
	}
	w.msgs = append(w.msgs, m)
	return nil
}
func (w *c12Writer) Write(b []byte) (int, error) {
	if w.closed {
		return 0, errors.New("dns: Write called after Close")
	}
	if w.tcp && len(b) > mdns.MaxMsgSize {
		return 0, errors.New("dns: message too large")
	}
	w.wires = append(w.wires, append([]byte{}, b...))
	return len(b), nil
}
func (w *c12Writer) Close() error        { w.closed = true; return nil }
func (w *c12Writer) TsigStatus() error   { return nil }
func (w *c12Writer) TsigTimersOnly(bool) {}
func (w *c12Writer) Hijack()             {}

// c12NoConn stands where the listening socket is in the real communicator (only its address is ever asked for).
type c12NoConn struct{}

func (c12NoConn) ReadFrom(p []byte) (int, net.Addr, error) {
	return 0, nil, errors.New("c12: no socket")
}
func (c12NoConn) WriteTo(p []byte, a net.Addr) (int, error) {
	return 0, errors.New("c12: no socket")
}
func (c12NoConn) Close() error                       { return nil }
func (c12NoConn) LocalAddr() net.Addr                { return &net.UDPAddr{IP: net.IPv4(127, 0, 0, 1), Port: 53} }
func (c12NoConn) SetDeadline(t time.Time) error      { return nil }
func (c12NoConn) SetReadDeadline(t time.Time) error  { return nil }
func (c12NoConn) SetWriteDeadline(t time.Time) error { return nil }

var errC12NothingSent = errors.New("handleRequest sent nothing")

// viaHandleRequest carries the traffic of the fixture's own sessions (victim, hostile peer) through handleRequest.
func (fx *c12Fx) viaHandleRequest(m *mdns.Msg, addr net.Addr) (*mdns.Msg, error) {
	w := &c12Writer{remote: addr}
	fx.real.handleRequest(w, m)
	if len(w.msgs) == 0 {
		if w.lastErr != nil {
			return nil, w.lastErr
		}
		return nil, errC12NothingSent
	}
	return w.msgs[0], nil
}

// ---- the case list --------------------------------------------------------------------------------------------

// c12EnvsFor: the small tier keeps one envelope of every kind.
func c12EnvsFor(thorough bool) []string {
	if thorough {
		return c12Envs
	}
	return []string{"plain", "opt", "tsig", "tsig-sha256-mac", "opt+tsig", "tsig+opt", "sig0", "notify-soa+tsig"}
}

func c12HandlerPlan(thorough bool) c12Plan {
	if thorough {
		return c12Plan{items: 64, perItem: 1100}
	}
	return c12Plan{items: 16, perItem: 900}
}

// c12HandlerBase: one query for every way the listener's callback can end, identical for every seed (the random content
// inside a body rotates with the seed). Names that are no commands, every command letter in both cases with bodies of
// every kind, and -- for the commands that carry a user id -- every shape of the id field.
func c12HandlerBase() []c12Spec {
	var out []c12Spec
	out = append(out, c12Spec{Kind: "root"}, c12Spec{Kind: "bare", Sfx: "dom"}, c12Spec{Kind: "bare", Sfx: "foreign"},
		c12Spec{Kind: "word", Text: "www", Sfx: "dom"}, c12Spec{Kind: "word", Text: "mail", Sfx: "DOM"}, c12Spec{Kind: "word", Text: "version", Sfx: "dom"},
		c12Spec{Kind: "word", Text: "_sip._tcp", Sfx: "dom"}, c12Spec{Kind: "foreign", Text: "www.google.com", Sfx: "none"},
		c12Spec{Kind: "foreign", Text: "1.0.0.127.in-addr.arpa", Sfx: "none"}, c12Spec{Kind: "short", Text: "y", Sfx: "dom"},
		c12Spec{Kind: "short", Text: "cq7", Sfx: "dom"}, c12Spec{Kind: "esc", Text: "zab00"})
	for _, c := range []byte(c12CmdChars + strings.ToUpper(c12CmdChars) + "a7") {
		for _, body := range []string{"none", "short", "hdr", "hdr+uid", "valid", "valid-trunc", "valid-mut", "codec", "garbage8", "max"} {
			uids := []string{"none"}
			args := []int{0}
			switch body {
			case "hdr+uid":
				uids, args = []string{"S", "H"}, []int{0, 1}
			case "valid", "valid-trunc", "valid-mut", "codec", "garbage8", "max":
				if c12NeedsUid(c) {
					uids = c12Uids
				} else if c12IsCmd(c) {
					uids = []string{"none", "S"}
				}
				if body == "valid" {
					args = []int{0, 3, 7, 10, 11}
				}
			}
			for _, u := range uids {
				for _, a := range args {
					out = append(out, c12Spec{Kind: "cmd", Cmd: c, Body: body, Uid: u, Arg: a, Sfx: "dom"})
				}
			}
		}
	}
	return out
}

// c12HandlerSpecs is a pure function of (seed, tier, item): the product base x envelope in a fixed order, cut into as
// many slices as there are items (every tier runs all of it), then random sentences of the grammar in random envelopes.
func c12HandlerSpecs(seed int64, thorough bool, item int) []c12Spec {
	pl := c12HandlerPlan(thorough)
	base := c12HandlerBase()
	var out []c12Spec
	envs := c12EnvsFor(thorough)
	total := len(base) * len(envs)
	per := (total + pl.items - 1) / pl.items
	k := item % pl.items
	for n := k * per; n < (k+1)*per && n < total; n++ {
		// (envelope fastest: neighbouring messages differ in what they carry, not in what they ask)
		sp := base[n/len(envs)]
		sp.Env = envs[n%len(envs)]
		sp.From = []string{"F", "H", "F6", "H"}[(n/len(envs))%4]
		sp.Qtype = c12TunnelQ[(n/len(envs)+n%len(envs))%len(c12TunnelQ)]
		if n%11 == 0 {
			sp.Qtype = c12OtherQ[(n/11)%len(c12OtherQ)] // record types the tunnel cannot wrap: an error together with a message
		}
		sp.Qclass = mdns.ClassINET
		if n%37 == 0 {
			sp.Qclass = c12Classes[(n/37)%len(c12Classes)]
		}
		sp.Sub = seed*1000003 + int64(n)
		out = append(out, sp)
	}
	rng := vcommon.NewRand(seed, fmt.Sprintf("c12/handler/%d", item))
	for len(out) < pl.perItem {
		sp := c12Random(rng)
		sp.Env = envs[rng.Intn(len(envs))]
		sp.Sub = rng.Int63()
		out = append(out, sp)
	}
	return out
}
