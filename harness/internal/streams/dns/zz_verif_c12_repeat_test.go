package dns

// C12, repetition: "cannot make it allocate or loop without bound" also holds over a sequence of messages. An established
// session of the hostile peer's own sends ONE message again and again (the messages a sender is entitled to: data packets
// ahead of the expected sequence number, duplicates, option and probe commands); what the server retains because of them
// must not depend on how often they were sent: live heap after a collection, measured after N and after 4N repetitions.

import (
	"fmt"
	"runtime"

	"github.com/bokysan/socketace/v2/internal/streams/dns/commands"
	"github.com/bokysan/socketace/v2/internal/streams/dns/util"
	"github.com/bokysan/socketace/v2/internal/util/enc"
	"github.com/bokysan/socketace/v2/internal/zzverif/vcommon"
	"golang.org/x/net/dns/dnsmessage"
)

type c12Repeat struct {
	Kind  string `json:"repeated_message"`
	Ahead int    `json:"packet_sequence_ahead_of_expected,omitempty"`
	N     int    `json:"repetitions"`
}

var c12RepeatKinds = []c12Repeat{
	{Kind: "packet-ahead-of-sequence", Ahead: 1}, {Kind: "packet-ahead-of-sequence", Ahead: 5}, {Kind: "packet-ahead-of-sequence", Ahead: 127},
	{Kind: "packet-ahead-cycling"}, {Kind: "packet-duplicate-of-delivered"}, {Kind: "packet-behind-sequence", Ahead: -200},
	{Kind: "options"}, {Kind: "codec-probe"}, {Kind: "fragment-probe"}, {Kind: "version"},
}

const c12RepeatBound = 1 << 20 // retained bytes that 3N further repetitions of the same message may add

func c12LiveHeap() int64 {
	runtime.GC()
	runtime.GC()
	var m runtime.MemStats
	runtime.ReadMemStats(&m)
	return int64(m.HeapAlloc)
}

func c12RepeatItems() int { return len(c12RepeatKinds) }

func c12RepeatRun(rec *vcommon.Rec, seed int64, thorough bool, item int, only *c12Repeat) {
	r := c12RepeatKinds[item%len(c12RepeatKinds)]
	if only != nil {
		r = *only
	}
	if r.N == 0 {
		r.N = 8000
		if thorough {
			r.N = 40000
		}
	}
	domain := c12Domains[item%len(c12Domains)]
	d := &c12Case{Side: "repeat", Seed: seed, Thorough: thorough, Item: item, Index: -1, Domain: domain, Qtype: 16, Repeat: &r}
	rec.Mark(d)
	fx, err := c12NewFx(domain, 16, seed)
	if err != nil {
		rec.Inconclusive("c12 repeat: fixture: "+err.Error(), d)
		return
	}
	defer fx.close()
	if fx.hId < 0 {
		rec.Inconclusive("c12 repeat: no hostile session", d)
		return
	}
	ser := commands.Serializer{Domain: domain}
	qt := dnsmessage.Type(16)
	payload := make([]byte, 100)
	for i := range payload {
		payload[i] = byte(i*7 + 1)
	}
	mk := func(i int) []byte {
		var req commands.Request
		uid := uint16(fx.hId)
		next := fx.hUser.in.NextSeqNo
		switch r.Kind {
		case "packet-ahead-of-sequence", "packet-behind-sequence":
			req = &commands.PacketRequest{UserId: uid, LastAckedSeqNo: fx.hUser.out.NextSeqNo - 1, Packet: &util.Packet{SeqNo: next + uint16(r.Ahead), Data: payload}}
		case "packet-ahead-cycling":
			req = &commands.PacketRequest{UserId: uid, LastAckedSeqNo: fx.hUser.out.NextSeqNo - 1, Packet: &util.Packet{SeqNo: next + uint16(1+i%120), Data: payload}}
		case "packet-duplicate-of-delivered":
			req = &commands.PacketRequest{UserId: uid, LastAckedSeqNo: fx.hUser.out.NextSeqNo - 1, Packet: &util.Packet{SeqNo: next - 1, Data: payload}}
		case "options":
			f := uint32(200)
			req = &commands.SetOptionsRequest{UserId: uid, DownstreamFragmentSize: &f}
		case "codec-probe":
			req = &commands.TestUpstreamEncoderRequest{UserId: uid, Pattern: []byte("aAbBcCdDeEfFgGhHiIjJkKlLmMnNoOpPqQrRsStTuUvVwWxXyYzZ")}
		case "fragment-probe":
			req = &commands.TestDownstreamFragmentSizeRequest{UserId: uid, FragmentSize: 500}
		case "version":
			req = &commands.VersionRequest{ClientVersion: ProtocolVersion}
		}
		var wire []byte
		if p, _, _ := vcommon.Guard(func() {
			m, err := ser.EncodeDnsRequestWithParams(req, qt, enc.Base32Encoding)
			if err == nil {
				wire, _ = m.Pack()
			}
		}); p {
			return nil
		}
		return wire
	}
	if r.Kind == "packet-duplicate-of-delivered" {
		// deliver one packet properly first, so that there is something to duplicate
		if w := func() []byte {
			m, err := ser.EncodeDnsRequestWithParams(&commands.PacketRequest{UserId: uint16(fx.hId), LastAckedSeqNo: fx.hUser.out.NextSeqNo - 1,
				Packet: &util.Packet{SeqNo: fx.hUser.in.NextSeqNo, Data: payload}}, qt, enc.Base32Encoding)
			if err != nil {
				return nil
			}
			w, _ := m.Pack()
			return w
		}(); w != nil {
			fx.hComm.deliver(w)
		}
	}
	send := func(from, to int) (answered int, panicked bool, site, val string) {
		for i := from; i < to; i++ {
			w := mk(i)
			if w == nil {
				continue
			}
			p, s, v := vcommon.Guard(func() {
				if a, _, _ := fx.hComm.deliver(w); a != nil {
					answered++
				}
			})
			if p {
				return answered, true, s, v
			}
		}
		return answered, false, "", ""
	}
	if mk(0) == nil {
		rec.Inconclusive("c12 repeat: the request could not be encoded: "+r.Kind, d)
		return
	}
	if f := fx.roundStart(); f != "" {
		rec.Inconclusive("c12 repeat: the victim's transfer could not be started: "+f, d)
		return
	}
	a1, p, site, val := send(0, r.N)
	if p {
		rec.Case("repeat/"+r.Kind+fmt.Sprint(r.Ahead), true)
		rec.Violation("server:panic@"+site+":repeated:"+r.Kind, d, map[string]string{"panic": c12Clip(val, 300)})
		return
	}
	h1 := c12LiveHeap()
	a2, p, site, val := send(r.N, 4*r.N)
	if p {
		rec.Case("repeat/"+r.Kind+fmt.Sprint(r.Ahead), true)
		rec.Violation("server:panic@"+site+":repeated:"+r.Kind, d, map[string]string{"panic": c12Clip(val, 300)})
		return
	}
	h2 := c12LiveHeap()
	rec.Case("repeat/"+r.Kind+fmt.Sprint(r.Ahead), a1+a2 > 0)
	rec.Stat("repeat_messages_sent", int64(4*r.N))
	rec.Stat("repeat_messages_answered", int64(a1+a2))
	rec.StatMax("repeat_max_retained_growth_bytes(N->4N)", h2-h1)
	rec.Seen("repeat_kinds", r.Kind)
	if h2-h1 > c12RepeatBound {
		rec.Violation("server:retained-memory-grows-with-repetitions:"+r.Kind, d, map[string]interface{}{
			"live_heap_after_N": h1, "live_heap_after_4N": h2, "N": r.N, "growth_bytes": h2 - h1, "bound": c12RepeatBound,
			"meaning": "what the server keeps because of one repeated message grows with the number of repetitions"})
		return
	}
	// the victim session completes the transfer that was in flight meanwhile
	if prob := fx.roundEnd(); prob == "!watchdog" {
		rec.Inconclusive("c12 repeat: watchdog while the victim finished its transfer", d)
	} else if prob != "" {
		rec.Violation("server:repeated:"+r.Kind+":victim-disturbed", d, prob)
	} else {
		rec.Stat("repeat_victim_transfers_completed", 1)
	}
}
