package dns

// C12, start-up window: NewNetConnectionServerCommunicator registers handleRequest with miekg/dns before the listener
// that owns it has registered its callback (NewServerDnsListener does that a moment later). A query that arrives in
// between - a client polling a server that is just (re)starting - reaches handleRequest with no callback set. It must be
// ignored or refused like any other stray query, not crash the server.

import (
	"github.com/bokysan/socketace/v2/internal/zzverif/vcommon"
	mdns "github.com/miekg/dns"
)

func c12StartupWindow(rec *vcommon.Rec, seed int64) {
	d := &c12Case{Side: "startup", Seed: seed, Index: -1, Domain: c12Domains[0]}
	rec.Mark(d)
	comm := &NetConnectionServerCommunicator{server: &mdns.Server{PacketConn: c12NoConn{}}} // as constructed, callback not registered yet
	names := []string{"vabcdefaaaa." + d.Domain + ".", "c01aaaaaaaaaaaaaaa." + d.Domain + ".", "www.example.net.", d.Domain + ".", "."}
	types := []uint16{mdns.TypeNULL, mdns.TypeTXT, mdns.TypeCNAME, mdns.TypeA, mdns.TypeNS}
	n := 0
	for _, name := range names {
		for _, qt := range types {
			q := new(mdns.Msg)
			q.SetQuestion(name, qt)
			w := &c12Writer{remote: c12AddrF()}
			p, site, val := vcommon.Guard(func() { comm.handleRequest(w, q) })
			n++
			rec.Case("startup/"+name+"/"+mdns.TypeToString[qt], true)
			rec.Stat("startup_window_queries", 1)
			if p {
				rec.Violation("server:panic@"+site+":query-before-the-listener-registered-its-callback", d,
					map[string]string{"panic": c12Clip(val, 300), "query": name + " " + mdns.TypeToString[qt], "consequence": "the server process dies (miekg/dns does not recover)"})
				return
			}
		}
	}
}
