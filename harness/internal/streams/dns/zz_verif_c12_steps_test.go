package dns

// C12 client side, negotiation steps: the real client runs its whole Handshake() against the real server in memory
// while a man in the middle tampers with the answer to the n-th request of one command letter (or with all of them from
// the n-th on). The tampered answers are what a resolver chain or a hostile server can produce: the probe seen from
// another source port (in-command BADIP), a session the server forgot, error records, no records, a payload cut after k
// bytes, another command's letter, case folding, an old answer. Oracle: the client must not panic (C12: "no DNS answer
// ... can crash the client"); errors and fall-backs are fine.

import (
	"fmt"
	"net"
	"os"
	"sort"
	"strings"
	"sync"
	"time"

	"github.com/bokysan/socketace/v2/internal/streams/dns/commands"
	"github.com/bokysan/socketace/v2/internal/streams/dns/util"
	"github.com/bokysan/socketace/v2/internal/util/enc"
	"github.com/bokysan/socketace/v2/internal/zzverif/vcommon"
	mdns "github.com/miekg/dns"
	"github.com/pkg/errors"
	"golang.org/x/net/dns/dnsmessage"
)

type c12StepPlan struct {
	Qtype  uint16 `json:"client_query_type(0=autodetect)"`
	Letter string `json:"command_letter"`
	Nth    int    `json:"nth_request_of_that_letter"`
	Sticky bool   `json:"and_all_later_ones"`
	Mode   string `json:"tampering"`
}

func (p c12StepPlan) String() string {
	return fmt.Sprintf("qt=%d/%s#%d/sticky=%v/%s", p.Qtype, p.Letter, p.Nth, p.Sticky, p.Mode)
}

var c12StepModes = []string{
	"other-source-port", "session-forgotten", "timeout", "no-records", "servfail", "nxdomain",
	"e:BADUSER", "e:BADIP", "e:BADCONN", "e:BADLEN", "e:BADCODEC", "e:unknown",
	"cut-1", "cut-2", "cut-3", "cut-4", "cut-5", "cut-6", "cut-7", "cut-8", "cut-10", "cut-12", "cut-half", "cut-last-1", "cut-last-2",
	"letter-c", "letter-v", "letter-upper", "payload-upper", "payload-lower", "payload-flip", "payload-doubled", "previous-answer", "answer-of-other-letter",
}

type c12Tamper struct {
	inner, alt *vClientComm
	lst        *ServerDnsListener
	domain     string
	plan       *c12StepPlan // nil: faithful

	mu       sync.Mutex
	counts   map[string]int
	last     map[string]*mdns.Msg
	queries  int
	tampered int
	failed   int
	closed   bool
	trace    []string
}

const c12StepQueryCap = 4000

func (c *c12Tamper) letterOf(m *mdns.Msg) string {
	if len(m.Question) == 0 || len(m.Question[0].Name) == 0 {
		return "?"
	}
	return strings.ToLower(m.Question[0].Name[:1])
}

func (c *c12Tamper) SendAndReceive(m *mdns.Msg, timeout *time.Duration) (*mdns.Msg, time.Duration, error) {
	c.mu.Lock()
	if c.closed {
		c.mu.Unlock()
		return nil, 0, errors.WithStack(os.ErrClosed)
	}
	c.queries++
	if c.queries > c12StepQueryCap {
		c.closed = true
		c.mu.Unlock()
		return nil, 0, errors.WithStack(os.ErrClosed)
	}
	l := c.letterOf(m)
	k := c.counts[l]
	c.counts[l] = k + 1
	hit := c.plan != nil && c.plan.Letter == l && (k == c.plan.Nth || (c.plan.Sticky && k > c.plan.Nth))
	prev := c.last[l]
	var other *mdns.Msg
	for ol, om := range c.last {
		if ol != l && (other == nil || ol < c.letterOf(other)) {
			other = om
		}
	}
	c.mu.Unlock()

	if !hit {
		a, d, err := c.inner.SendAndReceive(m, timeout)
		if a != nil {
			c.mu.Lock()
			c.last[l] = a.Copy()
			c.mu.Unlock()
		}
		return a, d, err
	}
	a, err := c.tamper(m, timeout, prev, other)
	c.mu.Lock()
	c.tampered++
	if len(c.trace) < 6 {
		desc := "timeout"
		if a != nil {
			desc = c12Clip(strings.Replace(a.String(), "\n", " / ", -1), 300)
		}
		c.trace = append(c.trace, fmt.Sprintf("%s#%d -> %s", l, k, desc))
	}
	c.mu.Unlock()
	if a == nil {
		if err == nil {
			err = vTimeout(m)
		}
		return nil, 0, err
	}
	return a, time.Millisecond, nil
}

func (c *c12Tamper) rewrap(m *mdns.Msg, payload []byte) *mdns.Msg {
	a := new(mdns.Msg)
	a.SetReply(m)
	var werr error
	if p, _, _ := vcommon.Guard(func() {
		werr = util.WrapDnsResponse(a, payload, dnsmessage.Type(m.Question[0].Qtype), c.domain)
	}); p || werr != nil {
		return nil
	}
	return a
}

func (c *c12Tamper) tamper(m *mdns.Msg, timeout *time.Duration, prev, other *mdns.Msg) (*mdns.Msg, error) {
	mode := c.plan.Mode
	fix := func(a *mdns.Msg) *mdns.Msg {
		if a == nil {
			return nil
		}
		a = a.Copy()
		a.Id = m.Id
		a.Question = m.Question
		return a
	}
	switch {
	case mode == "other-source-port":
		a, _, err := c.alt.SendAndReceive(m, timeout)
		return a, err
	case mode == "session-forgotten":
		c.lst.usersLock.Lock()
		for i, u := range c.lst.connections {
			if u != nil {
				c.lst.connections[i] = nil
			}
		}
		c.lst.usersLock.Unlock()
		a, _, err := c.inner.SendAndReceive(m, timeout)
		return a, err
	case mode == "timeout":
		return nil, vTimeout(m)
	case mode == "previous-answer":
		if prev == nil {
			break
		}
		return fix(prev), nil
	case mode == "answer-of-other-letter":
		if other == nil {
			break
		}
		// the records of an answer to another command, under this question
		return fix(other), nil
	case strings.HasPrefix(mode, "e:"):
		e := error(errors.New("SOMETHING"))
		for _, be := range commands.BadErrors {
			if be.Error() == mode[2:] {
				e = be
			}
		}
		ser := commands.Serializer{Domain: c.domain}
		a, err := ser.EncodeDnsResponseWithParams(&commands.ErrorResponse{Err: e}, m, dnsmessage.Type(m.Question[0].Qtype), enc.Base32Encoding)
		if err != nil || a == nil {
			break
		}
		return a, nil
	}
	a, _, err := c.inner.SendAndReceive(m, timeout)
	if a == nil {
		return nil, err
	}
	switch mode {
	case "no-records":
		a.Answer = nil
		return a, nil
	case "servfail":
		a.Answer, a.Rcode = nil, mdns.RcodeServerFailure
		return a, nil
	case "nxdomain":
		a.Answer, a.Rcode = nil, mdns.RcodeNameError
		return a, nil
	}
	var payload []byte
	if p, _, _ := vcommon.Guard(func() { payload = util.UnwrapDnsResponse(a, c.domain) }); p || len(payload) == 0 {
		c.mu.Lock()
		c.failed++
		c.mu.Unlock()
		return a, nil
	}
	p := append([]byte{}, payload...)
	cut := func(n int) {
		if n < 0 {
			n = 0
		}
		if n < len(p) {
			p = p[:n]
		}
	}
	switch mode {
	case "cut-half":
		cut(len(p) / 2)
	case "cut-last-1":
		cut(len(p) - 1)
	case "cut-last-2":
		cut(len(p) - 2)
	case "letter-c":
		p[0] = 'c'
	case "letter-v":
		p[0] = 'v'
	case "letter-upper":
		p[0] = p[0] &^ 0x20
	case "payload-upper":
		p = []byte(strings.ToUpper(string(p)))
		p[0] = payload[0]
	case "payload-lower":
		p = []byte(strings.ToLower(string(p)))
	case "payload-flip":
		p[len(p)/2] ^= 0x21
	case "payload-doubled":
		p = append(p, payload[1:]...)
	default:
		if strings.HasPrefix(mode, "cut-") {
			n := 0
			fmt.Sscanf(mode[4:], "%d", &n)
			cut(n)
		}
	}
	if b := c.rewrap(m, p); b != nil {
		return b, nil
	}
	c.mu.Lock()
	c.failed++
	c.mu.Unlock()
	return a, nil
}

func (c *c12Tamper) Close() error {
	c.mu.Lock()
	c.closed = true
	c.mu.Unlock()
	return nil
}
func (c *c12Tamper) Closed() bool {
	c.mu.Lock()
	defer c.mu.Unlock()
	return c.closed
}

// c12StepOnce runs one Handshake under the plan; it returns the per-letter request counts of the run.
func c12StepOnce(rec *vcommon.Rec, domain string, plan *c12StepPlan, qtype uint16) map[string]int {
	scomm := &vServerComm{}
	lst := NewServerDnsListener(domain, scomm)
	stop := make(chan struct{})
	go func() {
		for {
			select {
			case <-stop:
				return
			case <-lst.accept:
			}
		}
	}()
	defer func() {
		close(stop)
		scomm.Close()
	}()
	tm := &c12Tamper{inner: newVClientComm(scomm, vAddr(7)), lst: lst, domain: domain, plan: plan, counts: map[string]int{}, last: map[string]*mdns.Msg{}}
	va := vAddr(7).(*net.UDPAddr)
	tm.alt = newVClientComm(scomm, &net.UDPAddr{IP: va.IP, Port: va.Port + 1})

	d := &c12Case{Side: "client-steps", Seed: rec.Seed(), Thorough: rec.Thorough(), Domain: domain, Step: plan, Qtype: qtype}
	type outcome struct {
		panicked  bool
		site, val string
		err       error
	}
	done := make(chan outcome, 1)
	go func() {
		var o outcome
		o.panicked, o.site, o.val = vcommon.Guard(func() {
			cl, err := NewClientDnsConnection(domain, tm)
			if err != nil {
				panic(err)
			}
			if qtype != 0 {
				qt := dnsmessage.Type(qtype)
				cl.Serializer.Upstream.QueryType = &qt
			}
			o.err = cl.Handshake()
			if o.err == nil {
				// a session that came up is used once and closed, like the application would
				_, _ = cl.Write([]byte("hello through the tunnel"))
				_ = cl.SendAndReceive(cl.out.NextChunk())
				_ = cl.Close()
			}
			// after a failed Handshake the production caller (client/upstream/dns.go) drops the connection object without closing it
		})
		done <- o
	}()
	var o outcome
	select {
	case o = <-done:
	case <-time.After(60 * time.Second):
		tm.Close()
		select {
		case o = <-done:
			rec.Stat("steps_handshakes_that_returned_only_after_the_carrier_was_closed", 1)
		case <-time.After(30 * time.Second):
			rec.Stat("steps_handshakes_that_never_returned", 1)
			rec.Note("c12 steps: Handshake did not return (not a crash; not judged)", d)
			return nil
		}
	}
	tm.mu.Lock()
	counts, tampered, failed, queries, trace := tm.counts, tm.tampered, tm.failed, tm.queries, tm.trace
	tm.mu.Unlock()
	if plan == nil {
		return counts
	}
	rec.Case("client-steps/"+domain+"/"+plan.String(), tampered > 0)
	rec.Stat("steps_handshakes_run", 1)
	rec.Stat("steps_answers_tampered", int64(tampered))
	rec.Stat("steps_tamperings_not_representable(answer passed unchanged)", int64(failed))
	rec.StatMax("steps_max_requests_in_one_handshake", int64(queries))
	rec.Seen("steps_tampering", plan.Mode)
	rec.Seen("steps_letter", plan.Letter)
	switch {
	case o.panicked:
		rec.Stat("steps_outcome:panic", 1)
		rec.Violation("client:panic@"+o.site+":handshake:"+plan.Letter+":"+c12StepModeClass(plan.Mode), d,
			map[string]interface{}{"panic": c12Clip(o.val, 300), "consequence": "the client process dies", "tampered_exchanges": trace, "requests_sent": queries})
	case o.err != nil:
		rec.Stat("steps_outcome:handshake-failed-with-error", 1)
		rec.Seen("steps_handshake_errors", c12Clip(strings.SplitN(o.err.Error(), "\n", 2)[0], 60))
	default:
		rec.Stat("steps_outcome:handshake-completed", 1)
	}
	if queries > c12StepQueryCap {
		rec.Stat("steps_handshakes_stopped_at_the_request_cap", 1)
		rec.Seen("steps_plans_stopped_at_the_request_cap(not judged here: C11)", plan.String())
	}
	return counts
}

func c12StepModeClass(m string) string {
	if strings.HasPrefix(m, "cut-") {
		return "cut"
	}
	if strings.HasPrefix(m, "e:") {
		return "error-record"
	}
	return m
}

var c12StepQtypes = []uint16{0, mdns.TypeTXT, mdns.TypeCNAME, 10, mdns.TypeMX, mdns.TypeSRV, mdns.TypeA}

const c12StepShards = 8

func c12StepItems(thorough bool) int {
	n := 3
	if thorough {
		n = len(c12StepQtypes)
	}
	return n * c12StepShards
}

// c12StepItem enumerates (letter, n-th, sticky, mode) from the request counts of a faithful run.
func c12StepItem(rec *vcommon.Rec, thorough bool, item int) {
	qtype := c12StepQtypes[item/c12StepShards]
	part := item % c12StepShards
	domain := c12Domains[(item/c12StepShards)%len(c12Domains)]
	rec.Mark(c12Case{Side: "client-steps", Seed: rec.Seed(), Thorough: thorough, Item: item, Index: -1, Domain: domain, Qtype: qtype})
	counts := c12StepOnce(rec, domain, nil, qtype)
	if len(counts) == 0 {
		rec.Inconclusive("c12 steps: the faithful handshake sent no requests", map[string]interface{}{"qtype": qtype})
		return
	}
	var letters []string
	for l := range counts {
		letters = append(letters, l)
	}
	sort.Strings(letters)
	rec.Seen("steps_faithful_handshake_requests", fmt.Sprintf("qt=%d %v", qtype, counts))
	k := 0
	for _, l := range letters {
		nths := map[int]bool{0: true, 1: true, 2: true, counts[l] - 1: true, counts[l] / 2: true}
		var ns []int
		for n := range nths {
			if n >= 0 && n < counts[l] {
				ns = append(ns, n)
			}
		}
		sort.Ints(ns)
		for _, n := range ns {
			for _, sticky := range []bool{false, true} {
				for _, mode := range c12StepModes {
					k++
					if k%c12StepShards != part {
						continue
					}
					c12StepOnce(rec, domain, &c12StepPlan{Qtype: qtype, Letter: l, Nth: n, Sticky: sticky, Mode: mode}, qtype)
				}
			}
		}
	}
}

func c12StepReplay(rec *vcommon.Rec, d *c12Case) {
	if d.Step == nil {
		return
	}
	c12StepOnce(rec, d.Domain, d.Step, d.Step.Qtype)
}

func (c *c12Tamper) LocalAddr() net.Addr                { return c.inner.LocalAddr() }
func (c *c12Tamper) RemoteAddr() net.Addr               { return c.inner.RemoteAddr() }
func (c *c12Tamper) SetDeadline(t time.Time) error      { return nil }
func (c *c12Tamper) SetReadDeadline(t time.Time) error  { return nil }
func (c *c12Tamper) SetWriteDeadline(t time.Time) error { return nil }
