package dns

// C12: DNS endpoints withstand arbitrary messages with bounded work (DESIGN.md §4 C12).
// Server: hostile single-question queries -> the listener's registered onMessage callback (what
// NetConnectionServerCommunicator.handleRequest calls; nothing recovers a panic there). Monitors:
// panic, TotalAlloc per message, return within the watchdog, answer class, victim session undisturbed.
// Client: hostile answers -> DecodeDnsResponseWithParams / QueryWithData / SendAndReceive; monitor: panic.
// miekg's DefaultMsgAcceptFunc rejects every message whose question count is not 1 before the
// handler runs (server.go serveDNS; socketace does not replace it), so 0- and 2+-question messages
// never reach onMessage and are not generated.

import (
	"encoding/hex"
	"encoding/json"
	"fmt"
	"io"
	"os"
	"strconv"
	"strings"
	"testing"

	"github.com/bokysan/socketace/v2/internal/streams/dns/commands"
	"github.com/bokysan/socketace/v2/internal/util/enc"
	"github.com/bokysan/socketace/v2/internal/zzverif/vcommon"
	mdns "github.com/miekg/dns"
	log "github.com/sirupsen/logrus"
)

type c12Case struct {
	Side     string   `json:"side"` // server | client | bomb
	Seed     int64    `json:"seed"`
	Thorough bool     `json:"thorough"`
	Item     int      `json:"item"`
	Index    int      `json:"index"`
	Domain   string   `json:"domain"`
	From     string   `json:"from,omitempty"`
	Spec     *c12Spec `json:"spec,omitempty"`
	Name     string   `json:"name,omitempty"`
	Qtype    uint16   `json:"qtype"`
	Qclass   uint16   `json:"qclass,omitempty"`
	WireHex  string   `json:"wire_hex,omitempty"`
	Request  string   `json:"request_as_seen_by_server,omitempty"`
	// client side
	Gen   string `json:"gen,omitempty"`
	Codec string `json:"codec,omitempty"`
	Op    string `json:"op,omitempty"`
	// bomb
	Bomb string `json:"bomb,omitempty"`
	// client negotiation steps
	Step *c12StepPlan `json:"step,omitempty"`
	// one message repeated
	Repeat *c12Repeat `json:"repeat,omitempty"`
}

func c12Clip(s string, n int) string {
	if len(s) > n {
		return s[:n] + "..."
	}
	return s
}

func c12IsCmd(b byte) bool {
	return strings.IndexByte(c12CmdChars, b|0x20) >= 0 && ((b >= 'a' && b <= 'z') || (b >= 'A' && b <= 'Z'))
}

// c12ServerClass: coarse class of a request string as the server sees it (after ComposeRequest).
func c12ServerClass(data []byte) string {
	if len(data) == 0 {
		return "empty-name"
	}
	c := data[0]
	if !c12IsCmd(c) {
		return "not-a-command"
	}
	c |= 0x20
	switch {
	case len(data) < 4:
		return "name-shorter-than-header"
	case c12NeedsUid(c) && len(data) < 6:
		return "name-shorter-than-userid"
	case c == 'l' || c == 'm' || c == 'e':
		return fmt.Sprintf("command-without-NewRequest(%c)", c)
	case c == 'y' && len(data) == 4:
		return "y:no-codec-character"
	}
	return fmt.Sprintf("%c:body", c)
}

func c12Log2Class(v uint32) string {
	switch {
	case v == 0xFFFFFFFF:
		return "2^32-1"
	case v < 1<<16:
		return "<2^16"
	}
	// (one class: which size above any DNS message a mutated body happens to carry differs from seed to seed;
	// the sizes 2^24, 2^28 and 2^32-1 have their own children and fixed signatures)
	return ">=2^16"
}

// c12FieldClass: which field of the request explains an allocation.
func c12FieldClass(data []byte) string {
	if len(data) == 0 || !c12IsCmd(data[0]) {
		return "-:namelen~" + strconv.Itoa(len(data)/64*64)
	}
	c := data[0] | 0x20
	if c == 'r' && len(data) >= 6 {
		if d, err := enc.Base32Encoding.Decode(data[6:]); err == nil && len(d) >= 4 {
			v := uint32(d[0]) | uint32(d[1])<<8 | uint32(d[2])<<16 | uint32(d[3])<<24
			if cls := c12Log2Class(v); cls[0] == '<' || cls[0] == '>' {
				return "r:fragsize" + cls
			} else {
				return "r:fragsize=" + cls
			}
		}
	}
	return fmt.Sprintf("%c:namelen~%d", c, len(data)/64*64)
}

// c12ProbeSize: the fragment size a probe request asks for, and its user id (-1: not a probe).
func c12ProbeSize(data []byte) (int, uint32) {
	if len(data) < 6 || data[0]|0x20 != 'r' {
		return -1, 0
	}
	id, err := strconv.ParseUint(string(data[4:6]), 36, 16)
	if err != nil {
		return -1, 0
	}
	d, err := enc.Base32Encoding.Decode(data[6:])
	if err != nil || len(d) < 4 {
		return -1, 0
	}
	return int(id), uint32(d[0]) | uint32(d[1])<<8 | uint32(d[2])<<16 | uint32(d[3])<<24
}

type c12Server struct {
	rec      *vcommon.Rec
	seed     int64
	thorough bool
	only     int // replay: judge only this message of the item (the ones before it rebuild the state); -1 = all
	// side: "server" = messages go to the listener's registered callback; "handler" = they go to
	// NetConnectionServerCommunicator.handleRequest with a scripted ResponseWriter (zz_verif_c12_handler_test.go)
	side string
}

func (s *c12Server) handler() bool { return s.side == "handler" }

// runItem runs the hostile messages [0, upTo] of one item against a fresh fixture.
func (s *c12Server) runItem(item int, upTo int) {
	rec := s.rec
	domain := c12Domains[item%len(c12Domains)]
	qt := c12SessionQ[(item/len(c12Domains))%len(c12SessionQ)]
	rec.Mark(c12Case{Side: s.side, Seed: s.seed, Thorough: s.thorough, Item: item, Index: -1, Domain: domain, Qtype: qt})
	fx, err := c12NewFxVia(domain, qt, s.seed*4096+int64(item), s.handler())
	if err != nil {
		// a handshake over a transparent path that fails is some other property's subject; here nothing was observed
		rec.Inconclusive("fixture: the victim/hostile sessions could not be established: "+err.Error(), c12Case{Side: s.side, Seed: s.seed, Thorough: s.thorough, Item: item, Index: -1, Domain: domain, Qtype: qt})
		return
	}
	defer fx.close()
	specs := c12ItemSpecs(s.seed, s.thorough, item)
	if s.handler() {
		specs = c12HandlerSpecs(s.seed, s.thorough, item)
	}
	if upTo >= 0 && upTo+1 < len(specs) {
		specs = specs[:upTo+1]
	}
	const round = 128
	inRound := false
	itemCase := func(i int) c12Case {
		return c12Case{Side: s.side, Seed: s.seed, Thorough: s.thorough, Item: item, Index: i, Domain: domain, Qtype: qt}
	}
	endRound := func(i int) bool {
		if !inRound {
			return true
		}
		inRound = false
		fail := fx.roundEnd()
		if fail == "!watchdog" {
			rec.Inconclusive("victim session traffic did not finish within the watchdog after a hostile batch", itemCase(i))
			return false
		}
		if fail != "" {
			stage := fail
			if p := strings.IndexByte(stage, '('); p > 0 {
				stage = stage[:p]
			}
			rec.Violation("server:session-broken-after-hostile-batch:"+stage, itemCase(i), map[string]interface{}{"failure": fail, "batch": fmt.Sprintf("messages %d..%d of the item", i-i%round, i)})
			return false
		}
		rec.Stat(s.side+"_victim_bytes_verified", c12C2SBytes+c12S2CBytes)
		rec.Stat(s.side+"_rounds_with_victim_transfer_verified", 1)
		return true
	}
	for i := range specs {
		sp := specs[i]
		if i%round == 0 {
			if !endRound(i) {
				return
			}
			fail := fx.roundStart()
			if fail == "!watchdog" {
				rec.Inconclusive("victim session traffic did not finish within the watchdog", itemCase(i))
				return
			}
			if fail != "" {
				stage := fail
				if p := strings.IndexByte(stage, '('); p > 0 {
					stage = stage[:p]
				}
				rec.Violation("server:session-broken-after-hostile-batch:"+stage, itemCase(i), map[string]interface{}{"failure": fail, "at": "start of the next round"})
				return
			}
			inRound = true
		}
		if !s.one(fx, item, i, &sp) {
			return
		}
	}
	endRound(len(specs) - 1)
}

// one delivers one hostile message; false = the fixture cannot be used any more.
func (s *c12Server) one(fx *c12Fx, item, idx int, sp *c12Spec) bool {
	rec := s.rec
	fx.ensureH()
	m := fx.build(sp)
	wire, err := m.Pack()
	if err != nil {
		rec.Stat(s.side+"_names_not_representable_on_the_wire", 1)
		return true
	}
	pfx := s.side + "_"
	if s.handler() && !c12Accepted(wire) {
		rec.Stat(pfx+"queries_rejected_by_miekg_accept_function(not judged)", 1)
		return true
	}
	q := new(mdns.Msg)
	if err := q.Unpack(wire); err != nil {
		rec.Stat(pfx+"queries_rejected_by_unpack", 1)
		return true
	}
	desc := c12Case{Side: s.side, Seed: s.seed, Thorough: s.thorough, Item: item, Index: idx, Domain: fx.domain, From: sp.From, Spec: sp,
		Name: c12Clip(q.Question[0].Name, 300), Qtype: q.Question[0].Qtype, Qclass: q.Question[0].Qclass, WireHex: hex.EncodeToString(wire)}
	addr := c12From(sp.From)

	// the request string as the server will see it (observation only; the same call is the first thing onMessage does)
	var data []byte
	composePanic, _, _ := vcommon.Guard(func() { data = commands.ComposeRequest(q, fx.domain) })
	desc.Request = c12Clip(strconv.Quote(string(data)), 200)
	class := c12ServerClass(data)
	if composePanic {
		class = "name-ends-in-escape-after-domain-cut"
	}
	// a fragment-size probe that the sender is entitled to and that asks for megabytes
	// is the subject of the bomb children: in this process it would take the other cases down with it
	if id, size := c12ProbeSize(data); id >= 0 && size >= 1<<22 && id < len(fx.lst.connections) {
		if u := fx.lst.connections[id]; u != nil && u.remoteAddress.String() == addr.String() {
			rec.Stat(pfx+"big_probes_left_to_the_bomb_children", 1)
			return true
		}
	}

	res := fx.call(q, addr)
	if s.only >= 0 && idx != s.only {
		if res.timedOut {
			return false
		}
		fx.snap = c12Snap(fx.lst, fx.sUser)
		return true
	}
	nameKind := sp.Kind
	if sp.Kind == "cmd" {
		nameKind = "cmd:" + sp.Body
	}
	rec.Seen(pfx+"name_kind", nameKind+"/"+sp.Sfx)
	rec.Seen(pfx+"first_character", strconv.QuoteToASCII(string(sp.Cmd)))
	rec.Seen(pfx+"qtype", strconv.Itoa(int(sp.Qtype)))
	rec.Seen(pfx+"qclass", strconv.Itoa(int(sp.Qclass)))
	rec.Seen(pfx+"origin", sp.From+"/uid="+sp.Uid)
	rec.Seen(pfx+"request_class", class)
	rec.Stat(pfx+"messages", 1)
	if res.timedOut {
		rec.Case(s.side+"/"+desc.WireHex+"/"+sp.From, false)
		rec.Inconclusive("a hostile message did not return from onMessage within the watchdog", desc)
		fx.broken = true
		return false
	}
	rec.Case(s.side+"/"+desc.WireHex+"/"+sp.From, true)
	rec.StatMax(pfx+"alloc_per_message", int64(res.alloc))
	outcome := ""
	switch {
	case res.panicked:
		outcome = "panic"
		sig := "server:panic@" + res.site + ":" + class
		if s.handler() {
			// (what the query carried besides its question belongs to the class: the same name without it may be harmless)
			sig += ":query-carries=" + c12AdditionalClass(q)
		}
		rec.Violation(sig, desc, map[string]string{"panic": c12Clip(res.val, 300), "consequence": "handleRequest does not recover: the server process dies"})
	case res.err == errC12NothingSent:
		outcome = "ignored(handleRequest sent nothing)"
	case res.err != nil:
		outcome = "ignored(error returned, nothing sent)"
	case res.resp == nil:
		outcome = "nil-answer-without-error"
		rec.Violation("server:nil-answer-without-error:"+class, desc, "onMessage returned (nil, nil): handleRequest passes the nil message to WriteMsg, which dereferences it")
	case res.packPanic != "":
		outcome = "panic-in-WriteMsg"
		rec.Violation("server:panic@WriteMsg(Pack):"+class, desc, map[string]string{"panic": c12Clip(res.packPanic, 300)})
	case res.packErr != "":
		outcome = "ignored(answer cannot be packed, nothing sent)"
	case res.answer == nil:
		outcome = "ignored(answer unreadable)"
	default:
		cls, isErr := c12AnswerClass(res.answer, fx.domain)
		outcome = cls
		under := strings.HasSuffix(strings.ToLower(q.Question[0].Name), "."+strings.ToLower(fx.domain)+".")
		if !isErr && !under {
			rec.Seen(pfx+"success_answer_to_name_outside_domain(not judged)", cls)
		}
	}
	rec.Seen(pfx+"outcome", outcome)
	if s.handler() {
		ec := c12EnvClass(q)
		rec.Seen("handler_envelope", sp.Env)
		rec.Seen("handler_query_carries", ec)
		rec.Seen("handler_query_carries_x_outcome", ec+" -> "+strings.SplitN(outcome, ":", 2)[0])
		if res.answer != nil && q.IsTsig() != nil {
			if res.answer.IsTsig() != nil {
				rec.Stat("handler_answers_to_tsig_queries_carrying_tsig", 1)
			} else {
				rec.Stat("handler_answers_to_tsig_queries_without_tsig", 1)
			}
		}
		if res.writes > 1 {
			rec.Stat("handler_more_than_one_datagram_written(not judged)", 1)
		}
	}
	rec.Stat(pfx+"outcome:"+strings.SplitN(outcome, ":", 2)[0], 1)
	if res.alloc > c12AllocBound {
		rec.Violation("server:alloc-unbounded:"+c12FieldClass(data), desc, map[string]interface{}{"TotalAlloc_delta_bytes": res.alloc, "bound": c12AllocBound})
	}
	// victim undisturbed (every sender here is foreign to S)
	if now := c12Snap(fx.lst, fx.sUser); now != fx.snap {
		field := c12SnapDiff(fx.snap, now)
		idc := "other-id"
		if sp.Uid == "S" || sp.Uid == "00" {
			idc = "victim-id"
		}
		rec.Violation(fmt.Sprintf("server:session-disturbed:%s:%s:%s", field, class, idc), desc, map[string]string{"before": fx.snap, "after": now})
		fx.snap = now
	}
	rec.Stat(pfx+"victim_snapshots_compared", 1)
	if idx%97 == 0 {
		rec.Sample(map[string]interface{}{"side": s.side, "name": desc.Name, "qtype": desc.Qtype, "from": sp.From, "seen_by_server": desc.Request, "outcome": outcome, "alloc": res.alloc})
	}
	return true
}

func TestVerifC12(t *testing.T) {
	log.SetLevel(log.PanicLevel)
	log.SetOutput(io.Discard)
	rec := vcommon.Open()
	defer rec.Close()

	if mode := os.Getenv("VERIF_C12_MODE"); strings.HasPrefix(mode, "bomb:") {
		c12Bomb(rec, mode[5:])
		return
	}
	if rec.Replay != nil {
		var d c12Case
		if err := json.Unmarshal(rec.Replay, &d); err != nil {
			t.Fatal(err)
		}
		switch d.Side {
		case "server", "handler":
			(&c12Server{rec: rec, seed: d.Seed, thorough: d.Thorough, only: d.Index, side: d.Side}).runItem(d.Item, d.Index)
		case "client":
			c12ClientReplay(rec, &d)
		case "bomb":
			c12Bomb(rec, d.Bomb)
		case "client-steps":
			c12StepReplay(rec, &d)
		case "startup":
			c12StartupWindow(rec, d.Seed)
		case "repeat":
			c12RepeatRun(rec, d.Seed, d.Thorough, d.Item, d.Repeat)
		}
		return
	}

	srv := &c12Server{rec: rec, seed: rec.Seed(), thorough: rec.Thorough(), only: -1, side: "server"}
	hnd := &c12Server{rec: rec, seed: rec.Seed(), thorough: rec.Thorough(), only: -1, side: "handler"}
	pl := c12ServerPlan(rec.Thorough())
	n := 0
	for item := 0; item < pl.items; item++ {
		if rec.Mine(n) {
			srv.runItem(item, -1)
		}
		n++
	}
	for item := 0; item < c12ClientItems(rec.Thorough()); item++ {
		if rec.Mine(n) {
			c12ClientItem(rec, rec.Seed(), rec.Thorough(), item)
		}
		n++
	}
	for item := 0; item < c12StepItems(rec.Thorough()); item++ {
		if rec.Mine(n) {
			c12StepItem(rec, rec.Thorough(), item)
		}
		n++
	}
	if rec.Mine(n) {
		c12StartupWindow(rec, rec.Seed())
	}
	n++
	for item := 0; item < c12RepeatItems(); item++ {
		if rec.Mine(n) {
			c12RepeatRun(rec, rec.Seed(), rec.Thorough(), item, nil)
		}
		n++
	}
	for item := 0; item < c12HandlerPlan(rec.Thorough()).items; item++ {
		if rec.Mine(n) {
			hnd.runItem(item, -1)
		}
		n++
	}
}
