package dns

// C13 part 2: scenario (a) CONCURRENCY. k clients, each behind its own source address, open, configure, use,
// probe each other's ids and close sessions on one listener from k goroutines. The recorder at the listener
// boundary writes the history for the offline porcupine check; online monitors watch for duplicate ids,
// foreign addresses being served, owners being turned away and foreign bytes in a stream.

import (
	"fmt"
	"runtime"
	"sync"
	"time"

	"github.com/bokysan/socketace/v2/internal/streams/dns/util"
	"github.com/bokysan/socketace/v2/internal/verifhook"
	"github.com/bokysan/socketace/v2/internal/zzverif/vcommon"
	"golang.org/x/net/dns/dnsmessage"
)

type c13AScn struct {
	Part   string `json:"part"`
	Name   string `json:"name"`
	K      int    `json:"k"`
	Rounds int    `json:"rounds"`
	Hook   string `json:"hook"` // none | gosched | sleep  (action inside newUser between finding and storing the slot)
	HookN  int    `json:"hook_n"`
	Seed   int64  `json:"seed"`
}

func c13SetHook(sc *c13AScn) {
	switch sc.Hook {
	case "gosched":
		n := sc.HookN
		verifhook.Set("dns.newUser.slot", func() {
			for i := 0; i < n; i++ {
				runtime.Gosched()
			}
		})
	case "sleep":
		d := time.Duration(sc.HookN) * time.Microsecond
		verifhook.Set("dns.newUser.slot", func() { time.Sleep(d) })
	default:
		verifhook.Set("dns.newUser.slot", nil)
	}
}

// (A and AAAA are left out: on this tree a version handshake over those record types gets no answer at all; SRV is left out because
// larger downstream fragments get no answer. Both are C09/C10 matter, not isolation.)
var c13AQTypes = []dnsmessage.Type{util.QueryTypeCname, util.QueryTypeTxt, util.QueryTypeNull, util.QueryTypeMx}
var c13AUps = []string{"Base32", "Base64", "Base64u", "Base128"}

func c13RunA(rec *vcommon.Rec, sc *c13AScn) {
	rec.Mark(sc)
	c13SetHook(sc)
	defer verifhook.Set("dns.newUser.slot", nil)
	hook0 := verifhook.Count("dns.newUser.slot")
	n := newC13Net(rec)
	n.online = true
	defer n.close()

	var sessions, transfers, probes, bytes, setupProblems, ended, versionBadconn int64
	var smu sync.Mutex
	endedBy := map[string]int{}
	var wg sync.WaitGroup
	client := func(i int) {
		defer wg.Done()
		rng := vcommon.NewRand(sc.Seed, fmt.Sprintf("c13a/%s/%d", sc.Name, i))
		idx := i + 1
		for r := 0; r < sc.Rounds; r++ {
			cfg := c13Cfg{QType: uint16(c13AQTypes[rng.Intn(len(c13AQTypes))]), Up: c13AUps[rng.Intn(len(c13AUps))], Down: "Base32",
				UpFrag: uint32(8 + rng.Intn(33)), DownFrag: uint32(8 + rng.Intn(93))}
			key := uint64(sc.Seed&0xffff)<<32 | uint64(i)<<16 | uint64(r)
			who := fmt.Sprintf("client %d session %d", i, r)
			s, prob := n.open(idx, cfg, key, who)
			smu.Lock()
			sessions++
			smu.Unlock()
			if prob != "" {
				smu.Lock()
				setupProblems++
				endedBy["setup:"+prob]++
				smu.Unlock()
				if prob == "accept-timeout" {
					rec.Inconclusive("c13a: server-side connection of a new session was not delivered by Accept within 30s", sc)
					return
				}
				if prob == "version:BADCONN" {
					// onMessage validates id 0 for the id-less version request: an address whose earlier session in slot 0 is
					// retired is refused until somebody else reuses slot 0. Not an isolation failure; counted.
					smu.Lock()
					versionBadconn++
					smu.Unlock()
				}
				if s != nil {
					s.comm.Close()
				}
				continue
			}
			s.publish()
			steps := 1 + rng.Intn(3)
			broken := ""
			for st := 0; st < steps && broken == ""; st++ {
				if rng.Intn(3) == 0 {
					// a command carrying somebody else's id, sent from this client's own address
					target := rng.Intn(sc.K + 2)
					if target == s.id {
						target = (target + 1) % (sc.K + 2)
					}
					n.kmu.Lock()
					sq := n.seqs[target]
					n.kmu.Unlock()
					next, out := uint16(0), []uint16{}
					if sq != nil {
						next, out = sq[0], []uint16{sq[1]}
					}
					kind := c13Hostiles[rng.Intn(len(c13Hostiles))]
					for _, req := range c13HostileReqs(kind, uint16(target), next, out, c13Keyed(s.keyUp, 4000, 12), rng, cfg) {
						c13Raw(s.comm, req, dnsmessage.Type(cfg.QType), s.client.Serializer.Upstream.Encoder)
						smu.Lock()
						probes++
						smu.Unlock()
					}
					continue
				}
				nUp := rng.Intn(3 * int(cfg.UpFrag))
				nDown := rng.Intn(3 * int(cfg.DownFrag))
				broken = s.transfer(nUp, nDown)
				smu.Lock()
				transfers++
				smu.Unlock()
			}
			smu.Lock()
			bytes += s.bytes()
			smu.Unlock()
			if broken != "" {
				smu.Lock()
				ended++
				endedBy[broken]++
				smu.Unlock()
				switch {
				case len(broken) > 7 && broken[:7] == "tunnel:":
					// judged by the owner-rejected monitor and by the offline check
				case len(broken) > 13 && broken[:13] == "inconclusive:":
					rec.Inconclusive("c13a: "+broken, sc)
				default:
					sig := "stream-corrupt:" + broken
					if i := indexOf(broken, "cross-talk"); i >= 0 {
						sig = "cross-talk"
					}
					n.addViolation(sig, map[string]interface{}{"session": who, "slot": s.id, "problem": broken})
				}
				s.comm.Close()
				continue
			}
			switch x := rng.Intn(10); {
			case x < 7:
				_ = s.client.Close()
			case x < 8:
				n.serverClose(s)
				s.poll() // the old owner talks to its retired id once more
				s.comm.Close()
			default:
				s.comm.Close() // abandoned: the session stays open for the rest of the history
			}
		}
	}
	for i := 0; i < sc.K; i++ {
		wg.Add(1)
		go client(i)
	}
	done := make(chan struct{})
	go func() { wg.Wait(); close(done) }()
	select {
	case <-done:
	case <-time.After(180 * time.Second):
		buf := make([]byte, 1<<16)
		buf = buf[:runtime.Stack(buf, true)]
		rec.Inconclusive("c13a: clients still busy after 180s (history written with the open operations)", map[string]interface{}{"scenario": sc, "goroutines": string(buf)})
	}
	path, ops, open := n.dump(sc.Name, sc)
	rec.Stat("a_histories_recorded", 1)
	rec.Stat("a_operations_recorded", int64(ops))
	rec.StatMax("a_operations_per_history", int64(ops))
	rec.Stat("a_operations_never_returned", int64(open))
	rec.Stat("a_sessions_opened", sessions)
	rec.Stat("a_transfers", transfers)
	rec.Stat("a_foreign_id_commands_sent", probes)
	rec.Stat("a_bytes_verified", bytes)
	rec.Stat("a_session_setups_refused", setupProblems)
	rec.Stat("a_version_requests_refused_with_BADCONN(retired slot 0 of the same address)", versionBadconn)
	rec.Stat("a_sessions_ended_by_a_problem", ended)
	rec.Stat("a_newUser_hook_visits", verifhook.Count("dns.newUser.slot")-hook0)
	rec.Seen("a_k", fmt.Sprint(sc.K))
	rec.Seen("a_hook", sc.Hook)
	rec.Case("a/"+sc.Name, ops > 0 && bytes > 0)
	rec.Sample(map[string]interface{}{"scenario": sc, "history": path, "operations": ops, "sessions": sessions, "bytes_verified": bytes, "ended_by": endedBy})
	n.mu.Lock()
	for _, v := range n.viols {
		rec.Violation("concurrency:"+v.sig, sc, map[string]interface{}{"observed": v.obs, "occurrences": n.vcount[v.sig], "ended_by": endedBy})
	}
	n.mu.Unlock()
}

func indexOf(s, sub string) int {
	for i := 0; i+len(sub) <= len(s); i++ {
		if s[i:i+len(sub)] == sub {
			return i
		}
	}
	return -1
}

func c13AScenarios(rec *vcommon.Rec, race bool) []*c13AScn {
	var out []*c13AScn
	add := func(k int, hook string, hn int) {
		rounds := 160 / k
		if rounds < 5 {
			rounds = 5
		}
		if rounds > 40 {
			rounds = 40
		}
		if race {
			rounds = (rounds + 1) / 2
		}
		sc := &c13AScn{Part: "a", K: k, Rounds: rounds, Hook: hook, HookN: hn}
		sc.Seed = rec.Seed()*1000 + int64(len(out))
		sc.Name = fmt.Sprintf("a%02d-k%d-%s", len(out), k, hook)
		out = append(out, sc)
	}
	add(2, "none", 0)
	add(2, "sleep", 200)
	add(3, "gosched", 20)
	add(4, "sleep", 100)
	add(8, "none", 0)
	add(8, "sleep", 200)
	add(16, "gosched", 50)
	add(16, "sleep", 100)
	add(32, "none", 0)
	add(32, "sleep", 100)
	add(5, "sleep", 500)
	add(24, "gosched", 10)
	if rec.Thorough() && !race {
		rng := vcommon.NewRand(rec.Seed(), "c13a/scenarios")
		hooks := []string{"none", "gosched", "sleep"}
		for k := 2; k <= 32; k++ {
			add(k, hooks[k%3], 20+rng.Intn(300))
		}
		for i := 0; i < 12; i++ {
			add(2+rng.Intn(31), hooks[rng.Intn(3)], 20+rng.Intn(300))
		}
	}
	return out
}
