package dns

// C13 part 3: scenario (b) SPOOFING (every command with a live victim's id from a foreign address) and
// scenario (c) CLOSED IDS (the same commands against a retired id, before and after the slot is reused,
// and the server application closing its handle of the earlier session after the slot was reused).
// Everything here is single-threaded and deterministic.

import (
	"fmt"
	"net"
	"strings"

	"github.com/bokysan/socketace/v2/internal/util/enc"
	"github.com/bokysan/socketace/v2/internal/zzverif/vcommon"
	mdns "github.com/miekg/dns"
	"golang.org/x/net/dns/dnsmessage"
)

type c13BItem struct {
	Part    string `json:"part"`
	Name    string `json:"name"`
	Cfg     c13Cfg `json:"victim"`
	Phase   string `json:"phase"` // fresh | midflight | unpolled
	Fillers int    `json:"sessions_before"`
	Seed    int64  `json:"seed"`
	Only    string `json:"only_command,omitempty"`
	OnlyEnc string `json:"only_request_codec,omitempty"`
	From    string `json:"only_from,omitempty"`
}

var c13DefaultCfg = c13Cfg{QType: uint16(dnsmessage.TypeCNAME), Up: "Base32", Down: "Base32", UpFrag: 16, DownFrag: 24}

func c13Strip(s string) string {
	if i := strings.IndexByte(s, '('); i > 0 {
		return s[:i]
	}
	return s
}

// c13Midflight puts data in flight in both directions: upstream bytes the server application has not read yet,
// downstream chunks queued at the server; with polled the client has received (but not acknowledged) the first.
func c13Midflight(s *c13Sess, polled bool) string {
	nUp := 2*int(s.cfg.UpFrag) + 1
	buf := c13Keyed(s.keyUp, s.upSent, nUp)
	s.upSent += int64(nUp)
	if p := s.clientWrite(buf); p != "" {
		return p
	}
	if p := s.startDown(2*int(s.cfg.DownFrag) + 2); p != "" {
		return p
	}
	if polled {
		return s.poll()
	}
	return ""
}

// c13Control runs the script of a case once without any hostile command. A configuration the transport cannot carry even
// then (some record type / fragment size combinations get no answer on this tree: C09/C10 matter) is skipped, not judged.
func c13Control(rec *vcommon.Rec, n *c13Net, cfg c13Cfg) bool {
	s, p := n.open(9, cfg, 99, "control session")
	if p == "" {
		p = c13Midflight(s, true)
	}
	if p == "" {
		p = s.finish(2*int(cfg.UpFrag) + 3)
	}
	if p == "" {
		p = s.transfer(int(cfg.UpFrag), int(cfg.DownFrag)+1)
	}
	if s != nil {
		_ = s.client.Close()
	}
	if p != "" {
		rec.Stat("bc_work_items_skipped(transport fails for this configuration without any interference)", 1)
		rec.Seen("bc_configurations_skipped", cfg.String()+": "+c13Strip(p))
		return false
	}
	return true
}

type c13Shot struct {
	results []string
	leaked  bool
	err     string
}

// c13Fire sends the requests of one hostile command from comm and classifies the answers.
func c13Fire(comm *vClientComm, kind string, id int, target *userConnection, data []byte, rng interface{ Intn(int) int }, cfg c13Cfg,
	up enc.Encoder, answerCodec enc.Encoder, secrets [][]byte) c13Shot {
	var sh c13Shot
	next, out := uint16(0), []uint16{}
	if target != nil {
		next, out = target.in.NextSeqNo, c13Outstanding(target)
	}
	for _, req := range c13HostileReqs(kind, uint16(id), next, out, data, rng, cfg) {
		var a *mdns.Msg
		var err error
		a, err = c13Raw(comm, req, dnsmessage.Type(cfg.QType), up)
		if err != nil && !isTimeout(err) {
			sh.err = err.Error()
			continue
		}
		res, _ := c13Result(a, err, answerCodec)
		sh.results = append(sh.results, res)
		if c13Leaks(a, secrets) {
			sh.leaked = true
		}
	}
	return sh
}

func c13Has(list []string, x string) bool {
	for _, s := range list {
		if s == x {
			return true
		}
	}
	return false
}

func c13RunB(rec *vcommon.Rec, it *c13BItem) {
	rec.Mark(it)
	n := newC13Net(rec)
	defer n.close()
	rng := vcommon.NewRand(it.Seed, "c13b/"+it.Name)
	for f := 0; f < it.Fillers; f++ {
		if _, p := n.open(100+f, c13DefaultCfg, uint64(900+f), "filler"); p != "" {
			rec.Inconclusive("c13b: filler session could not be set up: "+p, it)
			return
		}
	}
	x, p := n.open(2, c13DefaultCfg, 7, "attacker's own session")
	if p != "" {
		rec.Inconclusive("c13b: attacker's own session could not be set up: "+p, it)
		return
	}
	attKey := uint64(0xA77AC)
	n.addKey(attKey, "the attacker")
	if !c13Control(rec, n, it.Cfg) {
		return
	}
	caseNo := 0
	for _, cmd := range c13Hostiles {
		for _, reqEnc := range []string{"victim", "default"} {
			if reqEnc == "default" && it.Cfg.Up == "Base32" {
				continue
			}
			if it.Only != "" && (it.Only != cmd || it.OnlyEnc != reqEnc) {
				continue
			}
			caseNo++
			desc := *it
			desc.Only, desc.OnlyEnc = cmd, reqEnc
			v, p := n.open(10+caseNo, it.Cfg, uint64(1000+caseNo), fmt.Sprintf("victim %d", caseNo))
			if p == "" {
				switch it.Phase {
				case "midflight":
					p = c13Midflight(v, true)
				case "unpolled":
					p = c13Midflight(v, false)
				}
			}
			if p != "" {
				// nobody interfered yet: the victim's own set-up failed
				rec.Violation("spoof:victim-setup:"+c13Strip(p), desc, p)
				continue
			}
			snap0 := c13Snapshot(n.lst, v.user)
			secrets := c13Secrets(v.user)
			up := enc.Base32Encoding
			if reqEnc == "victim" {
				up = c13Codec(it.Cfg.Up)
			}
			// three origins: the attacker's own session address, the victim's host with another port, another host with the victim's port
			sh := c13Fire(x.comm, cmd, v.id, v.user, c13Keyed(attKey, int64(caseNo)*16, 12), rng, it.Cfg, up, c13Codec(it.Cfg.Down), secrets)
			origin := "attacker-session-address"
			if va, ok := v.addr.(*net.UDPAddr); ok {
				for _, o := range []struct {
					name string
					addr net.Addr
				}{
					{"victim-host-other-port", &net.UDPAddr{IP: va.IP, Port: va.Port + 1}},
					{"other-host-victim-port", &net.UDPAddr{IP: net.IPv4(10, 9, va.IP[len(va.IP)-2], va.IP[len(va.IP)-1]), Port: va.Port}},
				} {
					sh2 := c13Fire(newVClientComm(n.scomm, o.addr), cmd, v.id, v.user, c13Keyed(attKey, int64(caseNo)*16, 12), rng, it.Cfg, up, c13Codec(it.Cfg.Down), secrets)
					rec.Stat("b_spoofed_requests_from:"+o.name, int64(len(sh2.results)))
					if (c13Has(sh2.results, "ok") || sh2.leaked) && !(c13Has(sh.results, "ok") || sh.leaked) {
						origin = o.name
					}
					sh.results = append(sh.results, sh2.results...)
					sh.leaked = sh.leaked || sh2.leaked
				}
			}
			snap1 := c13Snapshot(n.lst, v.user)
			diff := c13Diff(snap0, snap1)
			next := v.finish(2*int(it.Cfg.UpFrag) + 3)
			if next == "" {
				next = v.transfer(int(it.Cfg.UpFrag), int(it.Cfg.DownFrag)+1)
			}
			_ = v.client.Close()
			rec.Stat("b_spoofed_requests:"+cmd, int64(len(sh.results)))
			for _, r := range sh.results {
				rec.Seen("b_answers_to_spoofed_commands", cmd+" -> "+r)
			}
			rec.Stat("b_bytes_verified_after_spoof", v.bytes())
			rec.Seen("b_victim_slot", fmt.Sprint(v.id))
			var problems []string
			if c13Has(sh.results, "ok") {
				problems = append(problems, "accepted")
			}
			if sh.leaked {
				problems = append(problems, "leaked-session-data")
			}
			if len(diff) > 0 {
				problems = append(problems, "changed:"+diff[0])
			}
			if strings.HasPrefix(next, "inconclusive:") {
				rec.Inconclusive("c13b: "+next, desc)
			} else if next != "" {
				problems = append(problems, "next-transfer:"+c13Strip(next))
			}
			rec.Case(fmt.Sprintf("b/%s/%s/%d/%s/%s", it.Cfg, it.Phase, it.Fillers, cmd, reqEnc), len(sh.results) > 0 && v.bytes() > 0)
			if len(problems) > 0 {
				rec.Violation("spoof:"+cmd+":"+problems[0], desc, map[string]interface{}{"all_problems": problems, "answers": sh.results,
					"victim_slot": v.id, "victim_address": v.addr.String(), "spoofer_address": x.addr.String(), "first_accepting_origin": origin, "changed_fields": diff,
					"before": snap0, "after": snap1, "victim_next_transfer": next})
			} else {
				rec.Sample(map[string]interface{}{"scenario": "b", "command": cmd, "phase": it.Phase, "victim": it.Cfg, "answers": sh.results, "victim_bytes_verified_afterwards": v.bytes()})
			}
		}
	}
}

type c13CItem struct {
	Part    string `json:"part"`
	Name    string `json:"name"`
	Cfg     c13Cfg `json:"session"`
	Fillers int    `json:"sessions_before"`
	CloseBy string `json:"closed_by"` // client | server
	Seed    int64  `json:"seed"`
	Only    string `json:"only_command,omitempty"`
	From    string `json:"only_from,omitempty"`
}

func c13RunC(rec *vcommon.Rec, it *c13CItem) {
	rec.Mark(it)
	n := newC13Net(rec)
	defer n.close()
	rng := vcommon.NewRand(it.Seed, "c13c/"+it.Name)
	for f := 0; f < it.Fillers; f++ {
		if _, p := n.open(100+f, c13DefaultCfg, uint64(900+f), "filler"); p != "" {
			rec.Inconclusive("c13c: filler session could not be set up: "+p, it)
			return
		}
	}
	x, p := n.open(2, c13DefaultCfg, 7, "attacker's own session")
	if p != "" {
		rec.Inconclusive("c13c: attacker's own session could not be set up: "+p, it)
		return
	}
	attKey := uint64(0xA77AC)
	n.addKey(attKey, "the attacker")
	if !c13Control(rec, n, it.Cfg) {
		return
	}
	caseNo := 0
	closeIt := func(s *c13Sess) {
		if it.CloseBy == "server" {
			_ = s.user.Close()
			s.comm.Close()
		} else {
			_ = s.client.Close()
		}
	}
	for _, cmd := range c13Hostiles {
		for _, from := range []string{"old-owner", "foreign"} {
			if it.Only != "" && (it.Only != cmd || it.From != from) {
				continue
			}
			if it.Only == "stale-close" {
				continue
			}
			caseNo++
			desc := *it
			desc.Only, desc.From = cmd, from
			a, p := n.open(1000+caseNo, it.Cfg, uint64(3000+caseNo), fmt.Sprintf("earlier session %d", caseNo))
			if p == "" {
				p = c13Midflight(a, true)
			}
			if p != "" {
				rec.Violation("closed-id:setup:"+c13Strip(p), desc, p)
				continue
			}
			closeIt(a)
			src := x.comm
			if from == "old-owner" {
				src = newVClientComm(n.scomm, a.addr)
			}
			up := c13Codec(it.Cfg.Up)
			var problems []string
			obs := map[string]interface{}{"slot": a.id, "earlier_session_address": a.addr.String(), "sender": from}

			// stage 1: the id is retired, the slot not yet reused
			snapA0 := c13Snapshot(n.lst, a.user)
			sh := c13Fire(src, cmd, a.id, a.user, c13Keyed(attKey, int64(caseNo)*16, 12), rng, it.Cfg, up, enc.Base32Encoding, c13Secrets(a.user))
			snapA1 := c13Snapshot(n.lst, a.user)
			obs["answers_retired"] = sh.results
			rec.Stat("c_requests_against_retired_id:"+cmd, int64(len(sh.results)))
			for _, r := range sh.results {
				rec.Seen("c_answers", "retired/"+from+"/"+cmd+" -> "+r)
			}
			if c13Has(sh.results, "ok") {
				problems = append(problems, "retired:accepted")
			}
			if sh.leaked {
				problems = append(problems, "retired:leaked-session-data")
			}
			if d := c13Diff(snapA0, snapA1); len(d) > 0 {
				problems = append(problems, "retired:changed:"+d[0])
				obs["retired_before"], obs["retired_after"] = snapA0, snapA1
			}

			// stage 2: a new session from another address reuses the slot
			nw, p := n.open(2000+caseNo, it.Cfg, uint64(5000+caseNo), fmt.Sprintf("new session %d", caseNo))
			reused := p == "" && nw.id == a.id
			var bytesAfter int64
			if p != "" {
				problems = append(problems, "reopen-failed:"+c13Strip(p))
			} else if !reused {
				rec.Stat("c_slot_not_reused(cases skipped)", 1)
				_ = nw.client.Close()
			} else if p = c13Midflight(nw, true); p != "" {
				problems = append(problems, "reused-slot:new-session-broken-before-any-hostile-command:"+c13Strip(p))
			} else {
				snapN0 := c13Snapshot(n.lst, nw.user)
				snapA2 := c13Snapshot(n.lst, a.user)
				secrets := append(c13Secrets(nw.user), c13Secrets(a.user)...)
				sh2 := c13Fire(src, cmd, nw.id, nw.user, c13Keyed(attKey, int64(caseNo)*16+4000, 12), rng, it.Cfg, up, c13Codec(it.Cfg.Down), secrets)
				snapN1 := c13Snapshot(n.lst, nw.user)
				snapA3 := c13Snapshot(n.lst, a.user)
				obs["answers_reused"] = sh2.results
				rec.Stat("c_requests_against_reused_slot:"+cmd, int64(len(sh2.results)))
				for _, r := range sh2.results {
					rec.Seen("c_answers", "reused/"+from+"/"+cmd+" -> "+r)
				}
				if c13Has(sh2.results, "ok") {
					problems = append(problems, "reused-slot:accepted")
				}
				if sh2.leaked {
					problems = append(problems, "reused-slot:leaked-session-data")
				}
				if d := c13Diff(snapN0, snapN1); len(d) > 0 {
					problems = append(problems, "reused-slot:changed:"+d[0])
					obs["new_before"], obs["new_after"] = snapN0, snapN1
				}
				if d := c13Diff(snapA2, snapA3); len(d) > 0 {
					problems = append(problems, "reused-slot:retired-changed:"+d[0])
				}
				next := nw.finish(2*int(it.Cfg.UpFrag) + 3)
				if next == "" {
					next = nw.transfer(int(it.Cfg.UpFrag), int(it.Cfg.DownFrag)+1)
				}
				if strings.HasPrefix(next, "inconclusive:") {
					rec.Inconclusive("c13c: "+next, desc)
				} else if next != "" {
					problems = append(problems, "reused-slot:next-transfer:"+c13Strip(next))
					obs["new_session_next_transfer"] = next
				}
				bytesAfter = nw.bytes()
				rec.Stat("c_bytes_verified_on_reused_slot", bytesAfter)
				_ = nw.client.Close()
			}
			rec.Case(fmt.Sprintf("c/%s/%d/%s/%s/%s", it.Cfg, it.Fillers, it.CloseBy, cmd, from), len(sh.results) > 0 && (bytesAfter > 0 || !reused))
			if len(problems) > 0 {
				obs["all_problems"] = problems
				rec.Violation("closed-id:"+cmd+":from-"+from+":"+problems[0], desc, obs)
			} else {
				rec.Sample(map[string]interface{}{"scenario": "c", "command": cmd, "from": from, "answers_retired": sh.results, "answers_reused": obs["answers_reused"], "slot": a.id})
			}
		}
	}
	// the server application closes its net.Conn of the EARLIER session after the slot has been reused
	for _, mode := range []string{"other", "same"} {
		if it.Only != "" && (it.Only != "stale-close" || it.From != mode) {
			continue
		}
		caseNo++
		desc := *it
		desc.Only, desc.From = "stale-close", mode
		a, p := n.open(1000+caseNo, it.Cfg, uint64(3000+caseNo), "earlier session")
		if p == "" {
			p = a.transfer(int(it.Cfg.UpFrag)+2, int(it.Cfg.DownFrag)+2)
		}
		if p != "" {
			rec.Violation("closed-id:setup:"+c13Strip(p), desc, p)
			continue
		}
		_ = a.client.Close() // the client ends the session; the server application still holds its net.Conn
		idx := 2000 + caseNo
		if mode == "same" {
			idx = 1000 + caseNo
		}
		nw, p := n.open(idx, it.Cfg, uint64(5000+caseNo), "later session")
		if p == "" {
			p = nw.transfer(int(it.Cfg.UpFrag)+2, int(it.Cfg.DownFrag)+2)
		}
		if p != "" {
			rec.Violation("closed-id:stale-close:"+mode+"-address:later-session-broken-before-the-close:"+c13Strip(p), desc, p)
			continue
		}
		if nw.id != a.id {
			rec.Stat("c_slot_not_reused(cases skipped)", 1)
			continue
		}
		before := c13Snapshot(n.lst, nw.user)
		_ = a.user.Close()
		after := c13Snapshot(n.lst, nw.user)
		next := nw.transfer(2*int(it.Cfg.UpFrag)+1, 2*int(it.Cfg.DownFrag)+1)
		rec.Stat("c_stale_close_cases", 1)
		rec.Case(fmt.Sprintf("c/%s/%d/stale-close/%s", it.Cfg, it.Fillers, mode), true)
		if strings.HasPrefix(next, "inconclusive:") {
			rec.Inconclusive("c13c: "+next, desc)
		} else if d := c13Diff(before, after); len(d) > 0 || next != "" {
			rec.Violation("closed-id:stale-close:"+mode+"-address:live-session-killed", desc, map[string]interface{}{
				"history": fmt.Sprintf("session A (%s) gets slot %d and is closed by its client; session B (%s) gets the same slot and transfers data; "+
					"the server application closes its net.Conn of A; B's next transfer: %q", a.addr, a.id, nw.addr, next),
				"changed_fields_of_B": d, "B_before": before, "B_after": after})
		}
		_ = nw.client.Close()
	}
}

func c13Cfgs(rec *vcommon.Rec) []c13Cfg {
	q := func(t dnsmessage.Type) uint16 { return uint16(t) }
	out := []c13Cfg{
		{q(dnsmessage.TypeCNAME), "Base32", "Base32", 16, 24},
		{q(dnsmessage.TypeTXT), "Base64", "Base64", 20, 40},
		{q(dnsmessage.Type(10)), "Base64u", "Raw", 30, 60},
		{q(dnsmessage.TypeMX), "Base32", "Base32", 10, 12},
		{q(dnsmessage.TypeSRV), "Base64u", "Base32", 12, 10},
		{q(dnsmessage.TypeTXT), "Base128", "Base64", 32, 64},
	}
	if rec.Thorough() {
		rng := vcommon.NewRand(rec.Seed(), "c13/cfgs")
		qts := []dnsmessage.Type{dnsmessage.TypeCNAME, dnsmessage.TypeTXT, dnsmessage.Type(10), dnsmessage.TypeMX, dnsmessage.TypeSRV}
		ups := []string{"Base32", "Base64", "Base64u", "Base128"}
		downs := []string{"Base32", "Base64", "Base64u"}
		for i := 0; i < 12; i++ {
			c := c13Cfg{QType: q(qts[rng.Intn(len(qts))]), Up: ups[rng.Intn(len(ups))], Down: downs[rng.Intn(len(downs))],
				UpFrag: uint32(8 + rng.Intn(40)), DownFrag: uint32(8 + rng.Intn(60))}
			if c.QType == q(dnsmessage.TypeSRV) {
				c.DownFrag = uint32(8 + rng.Intn(9)) // larger fragments get no answer over SRV on this tree
			}
			out = append(out, c)
		}
	}
	return out
}
