package dns

// C13 part 4: scenario (d) EXPIRY and the test entry point. The janitor of the listener sleeps a literal
// minute per pass, so this scenario waits for real passes (observed through verifhook.Count) with the two
// timeouts shortened. The verdict is the logical outcome after an OBSERVED pass; that a pumped session was
// active within ConnectionTimeout before every pass holds by construction (it exchanges a message every
// 100 ms; a gap of more than half the timeout makes its cases inconclusive).

import (
	"encoding/json"
	"fmt"
	"io"
	"os"
	"strings"
	"sync"
	"testing"
	"time"

	"github.com/bokysan/socketace/v2/internal/util/enc"
	"github.com/bokysan/socketace/v2/internal/verifhook"
	"github.com/bokysan/socketace/v2/internal/zzverif/vcommon"
	log "github.com/sirupsen/logrus"
	"golang.org/x/net/dns/dnsmessage"
)

type c13DDesc struct {
	Part              string `json:"part"`
	ConnectionTimeout string `json:"ConnectionTimeout"`
	OldTimeout        string `json:"OldConnectionTimeout"`
	Passes            int    `json:"passes"`
}

type c13Pumped struct {
	s        *c13Sess
	role     string
	predAddr string    // owner of the retired entry that was in the slot when this session was opened ("" = none)
	predLast time.Time // its last contact
	predHow  string    // closed | expired-by-janitor
	openedAt time.Time

	mu      sync.Mutex
	stop    chan struct{}
	done    chan struct{}
	dead    string
	deadAt  time.Time
	lastOK  time.Time
	maxGap  time.Duration
	rounds  int64
	problem string
	judged  bool
}

func (p *c13Pumped) start() {
	p.stop, p.done = make(chan struct{}), make(chan struct{})
	p.mu.Lock()
	p.lastOK = time.Now()
	p.mu.Unlock()
	go func() {
		defer close(p.done)
		for {
			select {
			case <-p.stop:
				return
			case <-time.After(100 * time.Millisecond):
			}
			r := p.s.transfer(8, 8)
			now := time.Now()
			p.mu.Lock()
			if r == "" {
				if g := now.Sub(p.lastOK); g > p.maxGap {
					p.maxGap = g
				}
				p.lastOK = now
				p.rounds++
				p.mu.Unlock()
				continue
			}
			if strings.HasPrefix(r, "tunnel:") {
				p.dead, p.deadAt = r, now
			} else {
				p.problem = r
			}
			p.mu.Unlock()
			return
		}
	}()
}

func (p *c13Pumped) pause() {
	if p.stop != nil {
		close(p.stop)
		<-p.done
		p.stop = nil
	}
}

// c13LogHook lets the scenario act at the moment the listener logs a line (observability / scheduling only).
type c13LogHook struct{ fire func(e *log.Entry) }

func (h *c13LogHook) Levels() []log.Level { return []log.Level{log.InfoLevel} }
func (h *c13LogHook) Fire(e *log.Entry) error {
	h.fire(e)
	return nil
}

func c13RunD(rec *vcommon.Rec) {
	oldC, oldO := ConnectionTimeout, OldConnectionTimeout
	ConnectionTimeout, OldConnectionTimeout = 40*time.Second, 45*time.Second
	defer func() { ConnectionTimeout, OldConnectionTimeout = oldC, oldO }()
	// the listener's own Info lines are used as scheduling points (output stays discarded). Hooks run under logrus' mutex and
	// what the hook does logs again: the mutex is switched off (this process runs nothing but this scenario).
	log.StandardLogger().SetNoLock()
	log.SetLevel(log.InfoLevel)
	defer func() {
		log.SetLevel(log.PanicLevel)
		log.StandardLogger().ReplaceHooks(make(log.LevelHooks))
	}()
	passes := rec.Pick(2, 3)
	desc := &c13DDesc{Part: "d", ConnectionTimeout: ConnectionTimeout.String(), OldTimeout: OldConnectionTimeout.String(), Passes: passes}
	rec.Mark(desc)
	base := verifhook.Count("dns.expiry.pass")
	created := time.Now() // the janitor sleeps a full minute before each pass: pass p reads the clock at >= created + p minutes
	n := newC13Net(rec)
	defer n.close()
	cfg := c13DefaultCfg
	var pumped []*c13Pumped
	nextIdx := 1
	var openAt func(idx int, role string) *c13Pumped
	open := func(role string) *c13Pumped {
		idx := nextIdx
		nextIdx++
		return openAt(idx, role)
	}
	openAt = func(idx int, role string) *c13Pumped {
		s, p := n.open(idx, cfg, uint64(70+idx), role)
		if p != "" {
			rec.Violation("expiry:open-failed:"+c13Strip(p), desc, map[string]interface{}{"role": role, "problem": p})
			return nil
		}
		pp := &c13Pumped{s: s, role: role, openedAt: time.Now()}
		n.lst.usersLock.Lock()
		if o := n.lst.oldConnections[s.id]; o != nil {
			pp.predAddr, pp.predLast, pp.predHow = o.remoteAddress.String(), o.lastConnection, "expired-by-janitor"
			if o.closed {
				pp.predHow = "closed"
			}
		}
		n.lst.usersLock.Unlock()
		if r := s.transfer(24, 24); r != "" {
			rec.Violation("expiry:reopen-unusable", desc, map[string]interface{}{"role": role, "slot": s.id, "first_transfer": r,
				"retired_entry_in_slot": pp.predAddr, "opened_after_passes": verifhook.Count("dns.expiry.pass") - base})
			return nil
		}
		return pp
	}
	pump := func(pp *c13Pumped) *c13Pumped {
		if pp != nil {
			pumped = append(pumped, pp)
			pp.start()
		}
		return pp
	}
	defer func() {
		for _, pp := range pumped {
			pp.pause()
		}
	}()

	// slots: A -> 0 (closed at once, reused by B), C -> 1 (left idle), A2 -> 2 (active ~25 s, then closed, reused by B2), K -> 3 (control)
	a, c, a2 := open("A"), open("C"), open("A2")
	k := pump(open("K: never had a predecessor"))
	if a == nil || c == nil || a2 == nil || k == nil {
		return
	}
	// S is left idle like C. At the moment the janitor reports S as stale (its own log line, i.e. in the middle of a pass) the
	// scenario tries to change the table: if the table's lock can be had at that moment, the server application closes S and a
	// new peer H completes its handshake right there, inside the pass (H then holds S's slot while the pass is still running);
	// if the lock is held (the pass is one critical section) the same two steps are done right after the pass instead.
	// Either way H is a live session that must survive that pass and the following ones.
	si := open("S")
	if si == nil {
		return
	}
	var hookMu sync.Mutex
	var hookSeen, actedInside bool
	var hInside *c13Pumped
	sMark := "(" + si.s.addr.String() + ")"
	hRole := "H: takes the slot of S (idle; closed by the server application when the janitor reported it stale)"
	log.AddHook(&c13LogHook{fire: func(e *log.Entry) {
		if !strings.HasPrefix(e.Message, "Removing stale user connection") || !strings.Contains(e.Message, sMark) {
			return
		}
		hookMu.Lock()
		first := !hookSeen
		hookSeen = true
		hookMu.Unlock()
		if !first {
			return
		}
		if !n.lst.usersLock.TryLock() {
			return // the pass holds the table: nothing can happen to it before the pass is over
		}
		n.lst.usersLock.Unlock()
		_ = si.s.user.Close()
		h := openAt(900, hRole)
		hookMu.Lock()
		actedInside, hInside = true, h
		hookMu.Unlock()
	}})
	_ = a.s.client.Close()
	b := pump(open("B: reuses the slot of A, which was closed before the first pass"))
	if b != nil && b.s.id != a.s.id {
		rec.Note("c13d: B did not get A's slot", map[string]int{"A": a.s.id, "B": b.s.id})
	}
	pump(a2)
	idleProbe := func() string {
		comm := newVClientComm(n.scomm, c.s.addr)
		a, err := c13Raw(comm, c13HostileReqs("pkt-ack-only", uint16(c.s.id), 0, nil, nil, nil, cfg)[0], dnsmessage.Type(cfg.QType), enc.Base32Encoding)
		r, _ := c13Result(a, err, enc.Base32Encoding)
		return r
	}

	evaluate := func(pass int) {
		lower := created.Add(time.Duration(pass) * time.Minute)
		for _, pp := range pumped {
			if pp.judged {
				continue
			}
			pp.pause()
			pp.mu.Lock()
			dead, gap, rounds, problem := pp.dead, pp.maxGap, pp.rounds, pp.problem
			if g := time.Since(pp.lastOK); dead == "" && g > gap {
				gap = g
			}
			pp.mu.Unlock()
			if problem != "" {
				pp.judged = true
				if strings.HasPrefix(problem, "inconclusive:") {
					rec.Inconclusive("c13d: "+problem, desc)
				} else {
					rec.Violation("expiry:stream-corrupt:"+c13Strip(problem), desc, map[string]interface{}{"role": pp.role, "slot": pp.s.id, "problem": problem})
				}
				continue
			}
			if dead == "" {
				if r := pp.s.transfer(24, 24); strings.HasPrefix(r, "tunnel:") {
					dead = r
				} else if r != "" {
					pp.judged = true
					rec.Violation("expiry:stream-corrupt:"+c13Strip(r), desc, map[string]interface{}{"role": pp.role, "slot": pp.s.id, "problem": r, "after_pass": pass})
					continue
				}
			}
			predExpired := pp.predAddr != "" && pp.predLast.Add(OldConnectionTimeout).Before(lower)
			key := fmt.Sprintf("d/%s/pass%d", strings.SplitN(pp.role, ":", 2)[0], pass)
			if gap > ConnectionTimeout/2 {
				pp.judged = true
				rec.Inconclusive(fmt.Sprintf("c13d: session %q was silent for %v (more than half of ConnectionTimeout): its activity before pass %d is not guaranteed", pp.role, gap, pass), desc)
				continue
			}
			if dead != "" {
				pp.judged = true
				n.lst.usersLock.Lock()
				liveEntry := n.lst.connections[pp.s.id] == pp.s.user
				var retired string
				if o := n.lst.oldConnections[pp.s.id]; o != nil {
					retired = fmt.Sprintf("%s (last contact %.0fs after the listener was created, closed=%v)", o.remoteAddress, o.lastConnection.Sub(created).Seconds(), o.closed)
				}
				n.lst.usersLock.Unlock()
				obs := map[string]interface{}{"session": pp.role, "slot": pp.s.id, "address": pp.s.addr.String(), "answer_to_its_next_message": dead,
					"detected_after_pass": pass, "exchanged_rounds_before": rounds, "longest_silence_of_the_session": gap.String(),
					"still_in_live_table": liveEntry, "retired_entry_in_slot_now": retired,
					"retired_entry_in_slot_when_opened": pp.predAddr, "how_the_earlier_session_ended": pp.predHow,
					"earlier_session_last_contact_s": pp.predLast.Sub(created).Seconds(), "ConnectionTimeout": ConnectionTimeout.String(), "OldConnectionTimeout": OldConnectionTimeout.String()}
				rec.Case(key, true)
				if pp.predAddr != "" {
					rec.Violation("expiry:live-session-killed-by-expiry-of-earlier-session", desc, obs)
				} else {
					rec.Violation("expiry:active-session-killed", desc, obs)
				}
				continue
			}
			rec.Case(key, pp.predAddr == "" || predExpired)
			rec.Stat("d_live_sessions_surviving_a_pass", 1)
			if predExpired {
				rec.Stat("d_live_sessions_surviving_the_expiry_of_their_predecessor", 1)
			}
			rec.Stat("d_bytes_verified", pp.s.bytes())
			pp.s.upRead, pp.s.upSent, pp.s.downRead, pp.s.downSent = 0, 0, 0, 0
			pp.s.keyUp, pp.s.keyDown = pp.s.keyUp+1000, pp.s.keyDown+1000 // fresh streams, so that the byte counters above are per pass
			pp.start()
		}
	}

	switched := false
	for pass := 1; pass <= passes; pass++ {
		t0 := time.Now()
		for verifhook.Count("dns.expiry.pass")-base < int64(pass) {
			if !switched && time.Since(created) > 25*time.Second {
				// A2 has been active for 25 s: its retirement must not expire at the first pass, only at the second
				switched = true
				a2.pause()
				a2.judged = true
				_ = a2.s.client.Close()
				// the same peer comes back at once: same address, same slot, while the record of its earlier session still waits to expire
				pump(openAt(a2.s.idx, "B2: reuses the slot of A2 from A2's own address; A2 was closed 25 s after the listener was created"))
			}
			if time.Since(t0) > 200*time.Second {
				rec.Inconclusive(fmt.Sprintf("c13d: expiry pass %d was not observed within 200 s", pass), desc)
				return
			}
			time.Sleep(50 * time.Millisecond)
		}
		rec.Stat("d_expiry_passes_observed", 1)
		if pass == 1 {
			hookMu.Lock()
			seen, inside, h := hookSeen, actedInside, hInside
			hookMu.Unlock()
			switch {
			case !seen:
				rec.Seen("d_table_when_the_janitor_reported_S_stale", "log line not observed")
			case inside:
				rec.Seen("d_table_when_the_janitor_reported_S_stale", "lock free: S closed and H opened inside the pass")
				pump(h)
			default:
				rec.Seen("d_table_when_the_janitor_reported_S_stale", "lock held by the pass: S closed and H opened after the pass")
			}
		}
		if pass == 1 {
			r := idleProbe()
			rec.Seen("d_idle_session_after_first_pass(answer to its next message)", r)
			if c13IsReject(r) {
				rec.Stat("d_idle_sessions_retired_by_a_pass", 1)
			}
		}
		evaluate(pass)
		if pass == 1 && c13IsReject(idleProbe()) {
			// C was retired by the janitor. Its peer comes back from the same address and gets the slot again; only then does the
			// server-side application give up on C's old connection and close it. The new session must not notice.
			if g := pump(openAt(c.s.idx, "G: reuses the slot of C (retired by the janitor) from C's own address; C's server-side connection is closed afterwards")); g != nil {
				if g.s.id != c.s.id {
					rec.Note("c13d: G did not get C's slot", map[string]int{"C": c.s.id, "G": g.s.id})
				} else {
					rec.Stat("d_late_closes_of_expired_sessions_whose_slot_is_live_again", 1)
				}
				_ = c.s.user.Close()
			}
		}
		if pass == 1 {
			hookMu.Lock()
			inside := actedInside
			hookMu.Unlock()
			if !inside {
				_ = si.s.user.Close()
				pump(openAt(900, hRole))
			}
		}
		if pass < passes {
			pump(open(fmt.Sprintf("F%d: opened after pass %d", pass, pass)))
		}
	}
	var roles []string
	for _, pp := range pumped {
		roles = append(roles, fmt.Sprintf("%s slot=%d predecessor=%q(%s) dead=%q", pp.role, pp.s.id, pp.predAddr, pp.predHow, pp.dead))
	}
	rec.Sample(map[string]interface{}{"scenario": "d", "passes": passes, "sessions": roles})
}

// ---- entry point -----------------------------------------------------------------------------------------

type c13Item struct {
	a *c13AScn
	b *c13BItem
	c *c13CItem
	e *c13EScn
	f *c13FScn
}

func c13Items(rec *vcommon.Rec, part string, race bool) []c13Item {
	var as, bs, cs, es []c13Item
	if strings.Contains(part, "f") {
		// (appended to the (e) list: both are short lists of whole-history scenarios)
		for _, sc := range c13FScenarios(rec) {
			es = append(es, c13Item{f: sc})
		}
	}
	if strings.Contains(part, "e") {
		for _, sc := range c13EScenarios(rec) {
			es = append(es, c13Item{e: sc})
		}
	}
	if strings.Contains(part, "a") {
		for _, sc := range c13AScenarios(rec, race) {
			as = append(as, c13Item{a: sc})
		}
	}
	cfgs := c13Cfgs(rec)
	if strings.Contains(part, "b") {
		for i, cfg := range cfgs {
			for j, ph := range []string{"fresh", "midflight", "unpolled"} {
				it := &c13BItem{Part: "b", Cfg: cfg, Phase: ph, Fillers: (i + j) % 4, Seed: rec.Seed()*1000 + int64(len(bs))}
				it.Name = fmt.Sprintf("b%02d-%s-%s", len(bs), cfg, ph)
				bs = append(bs, c13Item{b: it})
			}
		}
	}
	if strings.Contains(part, "c") {
		for i, cfg := range cfgs {
			for j, by := range []string{"client", "server"} {
				it := &c13CItem{Part: "c", Cfg: cfg, Fillers: (i + 2*j) % 4, CloseBy: by, Seed: rec.Seed()*1000 + int64(len(cs))}
				it.Name = fmt.Sprintf("c%02d-%s-%s", len(cs), cfg, by)
				cs = append(cs, c13Item{c: it})
			}
		}
	}
	var out []c13Item
	for i := 0; i < len(as) || i < len(bs) || i < len(cs) || i < len(es); i++ {
		if i < len(es) {
			out = append(out, es[i])
		}
		if i < len(as) {
			out = append(out, as[i])
		}
		if i < len(bs) {
			out = append(out, bs[i])
		}
		if i < len(cs) {
			out = append(out, cs[i])
		}
	}
	return out
}

func TestVerifC13(t *testing.T) {
	log.SetLevel(log.PanicLevel)
	log.SetOutput(io.Discard)
	rec := vcommon.Open()
	defer rec.Close()
	part := os.Getenv("C13_PART")
	if part == "" {
		part = "abc"
	}
	race := os.Getenv("C13_RACE") != ""
	if rec.Replay != nil {
		var d struct {
			Part string `json:"part"`
		}
		if err := json.Unmarshal(rec.Replay, &d); err != nil {
			t.Fatal(err)
		}
		switch d.Part {
		case "a":
			var sc c13AScn
			json.Unmarshal(rec.Replay, &sc)
			c13RunA(rec, &sc)
		case "b":
			var it c13BItem
			json.Unmarshal(rec.Replay, &it)
			c13RunB(rec, &it)
		case "c":
			var it c13CItem
			json.Unmarshal(rec.Replay, &it)
			c13RunC(rec, &it)
		case "d":
			c13RunD(rec)
		case "e":
			var sc c13EScn
			json.Unmarshal(rec.Replay, &sc)
			c13RunE(rec, &sc)
		case "f":
			var sc c13FScn
			json.Unmarshal(rec.Replay, &sc)
			c13RunF(rec, &sc)
		default:
			t.Fatalf("replay descriptor without a part: %s", rec.Replay)
		}
		return
	}
	if part == "d" {
		c13RunD(rec)
		return
	}
	for i, it := range c13Items(rec, part, race) {
		if !rec.Mine(i) {
			continue
		}
		switch {
		case it.a != nil:
			c13RunA(rec, it.a)
		case it.b != nil:
			c13RunB(rec, it.b)
		case it.c != nil:
			c13RunC(rec, it.c)
		case it.e != nil:
			c13RunE(rec, it.e)
		case it.f != nil:
			c13RunF(rec, it.f)
		}
	}
}
