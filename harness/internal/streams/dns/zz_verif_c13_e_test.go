package dns

// C13 part 5: scenario (e) CROWD. The other scenarios keep at most a few dozen sessions alive at a time, so
// only the lowest identifiers (one significant base-36 digit) are ever handed out, the table is never full and
// no handshake is ever refused for lack of room. Here a population of sessions, each behind an address of its
// own, is built up to (and past) the capacity of the listener's table and kept standing:
//
//	populate  N handshakes (N may exceed the capacity; the surplus has to be refused or, if it is served, must
//	          not be given an id somebody holds), from one or several goroutines, with or without a delay
//	          inside newUser's critical section
//	use       every standing session moves keyed bytes both ways (several goroutines)
//	probe     hostile commands carrying the id of a standing session (the highest and lowest ids, the ids around
//	          the digit carries, random ones) from another standing session's address and from a fresh address:
//	          judged like scenario (b)
//	cycles    a random part of the population (always including the holder of the highest id) is closed (by the
//	          client / by the server application), the old owners try their retired ids once more, then as many
//	          sessions plus a surplus are opened from fresh addresses (the freed slots, wherever they are, are
//	          re-taken) and the whole population transfers again
//
// The judges are the ones of scenario (a): the recorder at the listener boundary (no id handed out while its
// holder has not asked to close, no foreign address served, no owner turned away), the keyed streams (every
// byte read belongs to the session's own stream) and the offline porcupine check of the recorded history.

import (
	"fmt"
	"sort"
	"strings"
	"sync"
	"sync/atomic"
	"time"

	"github.com/bokysan/socketace/v2/internal/streams/dns/commands"
	"github.com/bokysan/socketace/v2/internal/verifhook"
	"github.com/bokysan/socketace/v2/internal/zzverif/vcommon"
	"golang.org/x/net/dns/dnsmessage"
)

type c13EScn struct {
	Part    string `json:"part"`
	Name    string `json:"name"`
	N       int    `json:"handshakes_in_the_first_wave"`
	Workers int    `json:"goroutines"`
	Cycles  int    `json:"cycles"`
	Churn   int    `json:"closed_per_cycle"`
	Surplus int    `json:"surplus_handshakes_per_cycle"`
	Probes  int    `json:"probed_sessions"`
	Hook    string `json:"hook"`
	HookN   int    `json:"hook_n"`
	Seed    int64  `json:"seed"`
}

type c13Crowd struct {
	rec *vcommon.Rec
	sc  *c13EScn
	n   *c13Net

	nextIdx int64 // addresses are never reused within a scenario

	mu                                                             sync.Mutex
	endedBy                                                        map[string]int
	opened, refused, setupProblems, transfers, broken, bytes, mism int64
	highest                                                        int
	seenIds                                                        map[int]bool
	inconclusive                                                   bool
}

// parallel runs f(i) for i in [0,k) on the scenario's goroutines.
func (c *c13Crowd) parallel(k int, f func(i int)) {
	w := c.sc.Workers
	if w < 1 {
		w = 1
	}
	var next int64 = -1
	var wg sync.WaitGroup
	for g := 0; g < w; g++ {
		wg.Add(1)
		go func() {
			defer wg.Done()
			for {
				i := int(atomic.AddInt64(&next, 1))
				if i >= k {
					return
				}
				f(i)
			}
		}()
	}
	wg.Wait()
}

func (c *c13Crowd) cfgOf(idx int) c13Cfg {
	rng := vcommon.NewRand(c.sc.Seed, fmt.Sprintf("c13e/%s/cfg/%d", c.sc.Name, idx))
	return c13Cfg{QType: uint16(c13AQTypes[rng.Intn(len(c13AQTypes))]), Up: c13AUps[rng.Intn(len(c13AUps))], Down: "Base32",
		UpFrag: uint32(8 + rng.Intn(33)), DownFrag: uint32(8 + rng.Intn(93))}
}

// openMany tries count handshakes from fresh addresses; returns the sessions that were set up, in address order.
func (c *c13Crowd) openMany(count int, phase string) []*c13Sess {
	base := int(atomic.AddInt64(&c.nextIdx, int64(count))) - count
	got := make([]*c13Sess, count)
	c.parallel(count, func(i int) {
		idx := base + i + 1
		who := fmt.Sprintf("peer %d (%s)", idx, phase)
		s, prob := c.n.openOpt(idx, c.cfgOf(idx), uint64(c.sc.Seed&0xffff)<<32|uint64(idx), who, true)
		c.mu.Lock()
		defer c.mu.Unlock()
		if prob != "" {
			c.endedBy["setup:"+prob]++
			switch {
			case prob == "accept-timeout":
				c.inconclusive = true
				c.rec.Inconclusive("c13e: server-side connection of a new session was not delivered by Accept within 30s", c.sc)
			case strings.HasPrefix(prob, "version:"):
				c.refused++
				c.rec.Seen("e_answers_to_refused_handshakes", phase+": "+prob)
			default:
				c.setupProblems++
			}
			if s != nil {
				s.comm.Close()
			}
			return
		}
		c.opened++
		c.seenIds[s.id] = true
		if s.id > c.highest {
			c.highest = s.id
		}
		if int(s.user.UserId) != s.id {
			c.mism++ // not judged by itself; what follows from it is (somebody else's id, or an id nobody serves)
			c.rec.Seen("e_sessions_told_another_id_than_the_slot_bound_to_their_address", fmt.Sprintf("told %d, bound %d", s.id, s.user.UserId))
		}
		s.publish()
		got[i] = s
	})
	var out []*c13Sess
	for _, s := range got {
		if s != nil {
			out = append(out, s)
		}
	}
	return out
}

func (c *c13Crowd) judgeBroken(s *c13Sess, broken string) {
	c.mu.Lock()
	defer c.mu.Unlock()
	c.broken++
	c.endedBy[broken]++
	switch {
	case strings.HasPrefix(broken, "tunnel:"):
		// judged by the owner-rejected monitor and by the offline check
	case strings.HasPrefix(broken, "inconclusive:"):
		c.rec.Inconclusive("c13e: "+broken, c.sc)
	default:
		sig := "stream-corrupt:" + c13Strip(broken)
		if indexOf(broken, "cross-talk") >= 0 {
			sig = "cross-talk"
		}
		c.n.addViolation(sig, map[string]interface{}{"session": s.who, "slot": s.id, "address": s.addr.String(), "problem": broken})
	}
	s.comm.Close()
}

// useAll lets every session of the list transfer keyed bytes both ways; returns the ones that are intact.
func (c *c13Crowd) useAll(list []*c13Sess, phase string) []*c13Sess {
	ok := make([]bool, len(list))
	c.parallel(len(list), func(i int) {
		s := list[i]
		rng := vcommon.NewRand(c.sc.Seed, fmt.Sprintf("c13e/%s/use/%s/%d", c.sc.Name, phase, s.idx))
		nUp := 1 + rng.Intn(2*int(s.cfg.UpFrag))
		nDown := 1 + rng.Intn(2*int(s.cfg.DownFrag))
		before := s.bytes()
		broken := s.transfer(nUp, nDown)
		c.mu.Lock()
		c.transfers++
		c.bytes += s.bytes() - before
		c.mu.Unlock()
		if broken != "" {
			c.judgeBroken(s, broken)
			return
		}
		ok[i] = true
	})
	var out []*c13Sess
	for i, s := range list {
		if ok[i] {
			out = append(out, s)
		}
	}
	return out
}

// probe: hostile commands with the ids of standing sessions from other addresses, judged like scenario (b).
func (c *c13Crowd) probe(standing []*c13Sess, phase string) []*c13Sess {
	if c.sc.Probes <= 0 || len(standing) < 2 {
		return standing
	}
	rng := vcommon.NewRand(c.sc.Seed, fmt.Sprintf("c13e/%s/probe/%s", c.sc.Name, phase))
	byId := append([]*c13Sess{}, standing...)
	sort.Slice(byId, func(i, j int) bool { return byId[i].id < byId[j].id })
	chosen := map[*c13Sess]bool{}
	var victims []*c13Sess
	pick := func(s *c13Sess) {
		if s != nil && !chosen[s] && len(victims) < c.sc.Probes {
			chosen[s] = true
			victims = append(victims, s)
		}
	}
	pick(byId[len(byId)-1])
	pick(byId[0])
	for _, s := range byId { // around the digit carries of the two-character id
		if s.id%36 == 35 || s.id%36 == 0 {
			if rng.Intn(8) == 0 || s.id == 35 || s.id == 36 || s.id >= 1260 {
				pick(s)
			}
		}
	}
	for len(victims) < c.sc.Probes && len(victims) < len(byId) {
		pick(byId[rng.Intn(len(byId))])
	}
	attKey := uint64(0xA77AC)
	c.n.addKey(attKey, "the attacker")
	dead := map[*c13Sess]bool{}
	for k, v := range victims {
		x := byId[rng.Intn(len(byId))]
		for try := 0; (x == v || dead[x]) && try < 1000; try++ {
			x = byId[rng.Intn(len(byId))]
		}
		if x == v || dead[x] || dead[v] {
			continue
		}
		cmd := c13Hostiles[rng.Intn(len(c13Hostiles))]
		midflight := rng.Intn(2) == 0
		desc := map[string]interface{}{"scenario": c.sc, "phase": phase, "command": cmd, "victim_slot": v.id, "victim_address": v.addr.String(),
			"victim": v.cfg, "data_in_flight": midflight, "spoofer_address": x.addr.String(), "spoofer_slot": x.id}
		p := ""
		if midflight {
			p = c13Midflight(v, true)
		}
		if p != "" {
			c.judgeBroken(v, p)
			dead[v] = true
			continue
		}
		snap0 := c13Snapshot(c.n.lst, v.user)
		secrets := c13Secrets(v.user)
		data := c13Keyed(attKey, int64(k)*16, 12)
		up, down := c13Codec(v.cfg.Up), c13Codec(v.cfg.Down)
		sh := c13Fire(x.comm, cmd, v.id, v.user, data, rng, v.cfg, up, down, secrets)
		fresh := newVClientComm(c.n.scomm, vAddr(int(atomic.AddInt64(&c.nextIdx, 1))))
		sh2 := c13Fire(fresh, cmd, v.id, v.user, data, rng, v.cfg, up, down, secrets)
		sh.results, sh.leaked = append(sh.results, sh2.results...), sh.leaked || sh2.leaked
		snap1 := c13Snapshot(c.n.lst, v.user)
		diff := c13Diff(snap0, snap1)
		before := v.bytes()
		next := v.finish(2*int(v.cfg.UpFrag) + 3)
		if next == "" {
			next = v.transfer(int(v.cfg.UpFrag), int(v.cfg.DownFrag)+1)
		}
		c.rec.Stat("e_spoofed_requests", int64(len(sh.results)))
		c.rec.Stat("e_bytes_verified_after_spoof", v.bytes()-before)
		for _, r := range sh.results {
			c.rec.Seen("e_answers_to_spoofed_commands", cmd+" -> "+r)
		}
		c.mu.Lock()
		c.bytes += v.bytes() - before
		c.mu.Unlock()
		var problems []string
		if c13Has(sh.results, "ok") {
			problems = append(problems, "accepted")
		}
		if sh.leaked {
			problems = append(problems, "leaked-session-data")
		}
		if len(diff) > 0 {
			problems = append(problems, "changed:"+diff[0])
		}
		if strings.HasPrefix(next, "inconclusive:") {
			c.rec.Inconclusive("c13e: "+next, desc)
			dead[v] = true
			v.comm.Close()
		} else if next != "" {
			problems = append(problems, "next-transfer:"+c13Strip(next))
			dead[v] = true
			v.comm.Close()
		}
		if len(problems) > 0 {
			c.n.addViolation("spoof:"+cmd+":"+problems[0], map[string]interface{}{"case": desc, "all_problems": problems, "answers": sh.results,
				"changed_fields": diff, "before": snap0, "after": snap1, "victim_next_transfer": next})
		}
	}
	var out []*c13Sess
	for _, s := range standing {
		if !dead[s] {
			out = append(out, s)
		}
	}
	return out
}

// retire closes the chosen sessions; every old owner then names its retired id once more.
func (c *c13Crowd) retire(list []*c13Sess, phase string) {
	c.parallel(len(list), func(i int) {
		s := list[i]
		rng := vcommon.NewRand(c.sc.Seed, fmt.Sprintf("c13e/%s/close/%s/%d", c.sc.Name, phase, s.idx))
		how := "client"
		if rng.Intn(10) < 3 {
			how = "server"
			c.n.serverClose(s)
		} else {
			_ = s.client.Close()
		}
		// (the recorder and the offline check judge the answer: nobody may be served on a retired id)
		// (a fresh socket with the old owner's address: the client's Close closes its communicator)
		a, err := c13Raw(newVClientComm(c.n.scomm, s.addr), &commands.PacketRequest{UserId: uint16(s.id), LastAckedSeqNo: 65535}, dnsmessage.Type(s.cfg.QType), s.client.Serializer.Upstream.Encoder)
		res, _ := c13Result(a, err, c13Codec(s.cfg.Down))
		c.rec.Seen("e_answers_to_the_old_owner_of_a_retired_id", how+"-closed -> "+res)
		s.comm.Close()
	})
}

func c13RunE(rec *vcommon.Rec, sc *c13EScn) {
	rec.Mark(sc)
	// the population idles between the phases: no janitor pass may retire it, however slowly this machine runs
	oldC, oldO := ConnectionTimeout, OldConnectionTimeout
	ConnectionTimeout, OldConnectionTimeout = 24*time.Hour, 48*time.Hour
	defer func() { ConnectionTimeout, OldConnectionTimeout = oldC, oldO }()
	c13SetHook(&c13AScn{Hook: sc.Hook, HookN: sc.HookN})
	defer verifhook.Set("dns.newUser.slot", nil)
	n := newC13Net(rec)
	n.online = true
	defer n.close()
	c := &c13Crowd{rec: rec, sc: sc, n: n, endedBy: map[string]int{}, seenIds: map[int]bool{}, highest: -1}

	standing := c.useAll(c.openMany(sc.N, "wave 0"), "wave 0")
	maxStanding := len(standing)
	standing = c.probe(standing, "wave 0")
	for cy := 1; cy <= sc.Cycles && len(standing) > 0 && !c.inconclusive; cy++ {
		phase := fmt.Sprintf("wave %d", cy)
		rng := vcommon.NewRand(sc.Seed, fmt.Sprintf("c13e/%s/cycle/%d", sc.Name, cy))
		// who leaves: the holder of the highest id, and a random part of the rest
		sort.Slice(standing, func(i, j int) bool { return standing[i].id < standing[j].id })
		leave := map[int]bool{len(standing) - 1: true}
		for len(leave) < sc.Churn && len(leave) < len(standing) {
			leave[rng.Intn(len(standing))] = true
		}
		var going, staying []*c13Sess
		for i, s := range standing {
			if leave[i] {
				going = append(going, s)
			} else {
				staying = append(staying, s)
			}
		}
		c.retire(going, phase)
		fresh := c.openMany(len(going)+sc.Surplus, phase)
		standing = c.useAll(append(staying, fresh...), phase)
		if len(standing) > maxStanding {
			maxStanding = len(standing)
		}
		if cy == sc.Cycles {
			standing = c.probe(standing, phase)
		}
	}

	path, ops, open := n.dump(sc.Name, sc)
	rec.Stat("e_histories_recorded", 1)
	rec.Stat("e_operations_recorded", int64(ops))
	rec.Stat("e_operations_never_returned", int64(open))
	rec.Stat("e_sessions_opened", c.opened)
	rec.Stat("e_handshakes_refused", c.refused)
	rec.Stat("e_session_setups_refused_after_the_handshake", c.setupProblems)
	rec.Stat("e_transfers", c.transfers)
	rec.Stat("e_bytes_verified", c.bytes)
	rec.Stat("e_sessions_ended_by_a_problem", c.broken)
	rec.StatMax("e_sessions_standing_at_the_same_time", int64(maxStanding))
	rec.StatMax("e_highest_id_handed_out", int64(c.highest))
	rec.StatMax("e_distinct_ids_handed_out_in_one_history", int64(len(c.seenIds)))
	rec.Seen("e_population", fmt.Sprintf("%d handshakes, %d goroutines, hook %s", sc.N, sc.Workers, sc.Hook))
	// non-trivial: the population reached the size it was meant to have (the table's capacity when more handshakes
	// than that were tried: some were refused then) and bytes were compared
	reached := maxStanding >= sc.N || (c.refused > 0 && maxStanding >= 2)
	rec.Case("e/"+sc.Name, ops > 0 && c.bytes > 0 && reached)
	rec.Sample(map[string]interface{}{"scenario": sc, "history": path, "operations": ops, "sessions_opened": c.opened, "handshakes_refused": c.refused,
		"standing_at_most": maxStanding, "highest_id": c.highest, "bytes_verified": c.bytes, "ended_by": c.endedBy})
	n.mu.Lock()
	for _, v := range n.viols {
		rec.Violation("crowd:"+v.sig, sc, map[string]interface{}{"observed": v.obs, "occurrences": n.vcount[v.sig], "ended_by": c.endedBy,
			"sessions_standing_at_most": maxStanding, "highest_id_handed_out": c.highest})
	}
	n.mu.Unlock()
}

func c13EScenarios(rec *vcommon.Rec) []*c13EScn {
	const capacity = 36 * 36 // two base-36 characters: what the wire format can name
	var out []*c13EScn
	add := func(n, workers, cycles, churn, surplus, probes int, hook string, hn int) {
		sc := &c13EScn{Part: "e", N: n, Workers: workers, Cycles: cycles, Churn: churn, Surplus: surplus, Probes: probes, Hook: hook, HookN: hn}
		sc.Seed = rec.Seed()*1000 + 500 + int64(len(out))
		sc.Name = fmt.Sprintf("e%02d-n%d-g%d-%s", len(out), n, workers, hook)
		out = append(out, sc)
	}
	add(capacity+5, 1, 2, 40, 3, 10, "none", 0)      // one handshake after the other: slot i goes to the i-th peer
	add(capacity+24, 8, 2, 200, 8, 10, "gosched", 5) // handshakes in flight at the same time
	add(120, 4, 3, 30, 0, 8, "sleep", 50)            // below the capacity: nobody may be refused, ids cross the first digit carries
	if rec.Thorough() {
		rng := vcommon.NewRand(rec.Seed(), "c13e/scenarios")
		hooks := []string{"none", "gosched", "sleep"}
		add(capacity, 2, 4, capacity, 0, 12, "none", 0) // exactly full; then everybody leaves and the table is filled again
		add(capacity-1, 3, 3, 100, 1, 12, "gosched", 10)
		for i := 0; i < 6; i++ {
			add(capacity-40+rng.Intn(120), 1+rng.Intn(24), 2+rng.Intn(4), 1+rng.Intn(600), rng.Intn(30), 16, hooks[rng.Intn(3)], 5+rng.Intn(60))
		}
		for i := 0; i < 4; i++ {
			add(30+rng.Intn(600), 1+rng.Intn(16), 2+rng.Intn(5), 1+rng.Intn(200), rng.Intn(10), 16, hooks[rng.Intn(3)], 5+rng.Intn(60))
		}
	}
	return out
}
