package dns

// C13 part 6: scenario (f) REORDERED DELIVERY. The stock client sends one upstream packet at a time and waits for
// its acknowledgement, so in the other scenarios the server only ever sees every session's packets in order and the
// listener's out-of-order store is never used. A DNS path does not promise that (several resolvers, a
// retransmission that crosses a slow path, a client that pipelines): here k sessions are opened by the real client
// and then every session's keyed upstream stream is cut into packets which reach the server in an order that is
// locally shuffled (packet n+1, n+2.. before packet n, always inside the protocol's window), some of them twice,
// and the deliveries of the k sessions are interleaved (one merged schedule on one goroutine, or the sessions'
// senders on several goroutines). After every delivery the server-side stream of that session is read: every byte
// must belong to the session's own keyed stream at the position it is read at. The recorder's monitors (no owner
// turned away, no foreign address served) and the offline check run as in (a).

import (
	"fmt"
	"strings"
	"sync"

	"github.com/bokysan/socketace/v2/internal/streams/dns/commands"
	"github.com/bokysan/socketace/v2/internal/streams/dns/util"
	"github.com/bokysan/socketace/v2/internal/zzverif/vcommon"
	"golang.org/x/net/dns/dnsmessage"
)

type c13FScn struct {
	Part    string `json:"part"`
	Name    string `json:"name"`
	K       int    `json:"k"`
	Packets int    `json:"packets_per_session"`
	Window  int    `json:"shuffle_window"`
	DupPct  int    `json:"duplicates_percent"`
	Workers int    `json:"goroutines"` // 1: one merged schedule; more: the sessions' senders run at the same time
	Seed    int64  `json:"seed"`
}

type c13FPkt struct {
	seq   uint16
	off   int64
	n     int
	ahead bool // delivered before a packet with a lower sequence number
}

type c13FSender struct {
	s      *c13Sess
	order  []c13FPkt
	next   int
	broken bool
}

// c13FOrder cuts total bytes into packets and returns them in delivery order.
func c13FOrder(rng interface{ Intn(int) int }, packets, frag, window, dupPct int) ([]c13FPkt, int64) {
	pk := make([]c13FPkt, packets)
	var off int64
	for i := range pk {
		n := frag/2 + 1 + rng.Intn(frag-frag/2)
		pk[i] = c13FPkt{seq: uint16(i), off: off, n: n}
		off += int64(n)
	}
	var order []c13FPkt
	for i := 0; i < packets; {
		b := 1 + rng.Intn(window)
		if i+b > packets {
			b = packets - i
		}
		blk := append([]c13FPkt{}, pk[i:i+b]...)
		for j := len(blk) - 1; j > 0; j-- {
			k := rng.Intn(j + 1)
			blk[j], blk[k] = blk[k], blk[j]
		}
		for j := range blk {
			for k := j + 1; k < len(blk); k++ {
				if blk[k].seq < blk[j].seq {
					blk[j].ahead = true
				}
			}
		}
		// retransmissions: a packet of the block once more, somewhere after its first delivery
		for j := 0; j < b; j++ {
			if rng.Intn(100) < dupPct {
				src := rng.Intn(len(blk))
				d := blk[src]
				d.ahead = false
				at := src + 1 + rng.Intn(len(blk)-src)
				blk = append(blk[:at], append([]c13FPkt{d}, blk[at:]...)...)
			}
		}
		order = append(order, blk...)
		i += b
	}
	return order, off
}

func c13RunF(rec *vcommon.Rec, sc *c13FScn) {
	rec.Mark(sc)
	n := newC13Net(rec)
	n.online = true
	defer n.close()
	var mu sync.Mutex
	var deliveries, ahead, bytes, notTaken int64
	answers := map[string]int{}

	senders := make([]*c13FSender, 0, sc.K)
	for i := 0; i < sc.K; i++ {
		rng := vcommon.NewRand(sc.Seed, fmt.Sprintf("c13f/%s/%d", sc.Name, i))
		cfg := c13Cfg{QType: uint16(c13AQTypes[rng.Intn(len(c13AQTypes))]), Up: c13AUps[rng.Intn(len(c13AUps))], Down: "Base32",
			UpFrag: uint32(16 + rng.Intn(25)), DownFrag: uint32(8 + rng.Intn(93))}
		who := fmt.Sprintf("reordered session %d", i)
		s, prob := n.open(i+1, cfg, uint64(sc.Seed&0xffff)<<32|uint64(i+1), who)
		if prob != "" {
			rec.Inconclusive("c13f: session could not be set up: "+prob, sc)
			return
		}
		sd := &c13FSender{s: s}
		var total int64
		sd.order, total = c13FOrder(rng, sc.Packets, int(cfg.UpFrag), sc.Window, sc.DupPct)
		s.upSent = total
		senders = append(senders, sd)
	}

	// deliver hands the sender's next packet to the server and reads the session's server-side stream.
	deliver := func(sd *c13FSender) {
		p := sd.order[sd.next]
		sd.next++
		s := sd.s
		req := &commands.PacketRequest{UserId: uint16(s.id), LastAckedSeqNo: 65535, Packet: &util.Packet{SeqNo: p.seq, Data: c13Keyed(s.keyUp, p.off, p.n)}}
		a, err := c13Raw(s.comm, req, dnsmessage.Type(s.cfg.QType), s.client.Serializer.Upstream.Encoder)
		res, _ := c13Result(a, err, c13Codec(s.cfg.Down))
		before := s.upRead
		problem := s.drainServer()
		mu.Lock()
		deliveries++
		answers[res]++
		if res == "ok" && p.ahead {
			ahead++
		}
		if res != "ok" {
			notTaken++
		}
		bytes += s.upRead - before
		mu.Unlock()
		if problem != "" {
			sd.broken = true
			sig := "stream-corrupt:" + c13Strip(problem)
			if strings.Contains(problem, "cross-talk") {
				sig = "cross-talk"
			}
			n.addViolation(sig, map[string]interface{}{"session": s.who, "slot": s.id, "address": s.addr.String(), "problem": problem,
				"after_delivery_of_packet": p.seq, "deliveries_of_this_session_so_far": sd.next, "bytes_read_intact_before": before})
		}
	}

	if sc.Workers <= 1 {
		rng := vcommon.NewRand(sc.Seed, "c13f/"+sc.Name+"/merge")
		for {
			var open []*c13FSender
			for _, sd := range senders {
				if !sd.broken && sd.next < len(sd.order) {
					open = append(open, sd)
				}
			}
			if len(open) == 0 {
				break
			}
			deliver(open[rng.Intn(len(open))])
		}
	} else {
		var wg sync.WaitGroup
		for w := 0; w < sc.Workers; w++ {
			wg.Add(1)
			go func(w int) {
				defer wg.Done()
				rng := vcommon.NewRand(sc.Seed, fmt.Sprintf("c13f/%s/worker/%d", sc.Name, w))
				var mine []*c13FSender
				for i, sd := range senders {
					if i%sc.Workers == w {
						mine = append(mine, sd)
					}
				}
				for {
					var open []*c13FSender
					for _, sd := range mine {
						if !sd.broken && sd.next < len(sd.order) {
							open = append(open, sd)
						}
					}
					if len(open) == 0 {
						return
					}
					deliver(open[rng.Intn(len(open))])
				}
			}(w)
		}
		wg.Wait()
	}

	complete := 0
	for _, sd := range senders {
		if !sd.broken && sd.s.upRead == sd.s.upSent {
			complete++
		}
	}
	path, ops, open := n.dump(sc.Name, sc)
	rec.Stat("f_histories_recorded", 1)
	rec.Stat("f_operations_recorded", int64(ops))
	rec.Stat("f_operations_never_returned", int64(open))
	rec.Stat("f_sessions", int64(len(senders)))
	rec.Stat("f_sessions_whose_whole_stream_arrived(not judged)", int64(complete))
	rec.Stat("f_packets_delivered", deliveries)
	rec.Stat("f_packets_accepted_ahead_of_a_predecessor", ahead)
	rec.Stat("f_deliveries_not_answered_ok(not judged)", notTaken)
	rec.Stat("f_bytes_verified", bytes)
	for r := range answers {
		rec.Seen("f_answers_to_packet_deliveries", r)
	}
	rec.Seen("f_shape", fmt.Sprintf("k=%d window=%d goroutines=%d", sc.K, sc.Window, sc.Workers))
	rec.Case("f/"+sc.Name, bytes > 0 && ahead > 0)
	rec.Sample(map[string]interface{}{"scenario": sc, "history": path, "deliveries": deliveries, "accepted_ahead_of_a_predecessor": ahead,
		"bytes_verified": bytes, "answers": answers, "complete_streams": complete})
	n.mu.Lock()
	for _, v := range n.viols {
		rec.Violation("reorder:"+v.sig, sc, map[string]interface{}{"observed": v.obs, "occurrences": n.vcount[v.sig], "answers": answers})
	}
	n.mu.Unlock()
}

func c13FScenarios(rec *vcommon.Rec) []*c13FScn {
	var out []*c13FScn
	add := func(k, packets, window, dup, workers int) {
		sc := &c13FScn{Part: "f", K: k, Packets: packets, Window: window, DupPct: dup, Workers: workers}
		sc.Seed = rec.Seed()*1000 + 700 + int64(len(out))
		sc.Name = fmt.Sprintf("f%02d-k%d-w%d-g%d", len(out), k, window, workers)
		out = append(out, sc)
	}
	add(2, 24, 2, 0, 1)
	add(4, 40, 4, 20, 1)
	add(8, 30, 8, 10, 4)
	add(3, 60, 40, 10, 1)
	add(16, 20, 3, 5, 16)
	if rec.Thorough() {
		rng := vcommon.NewRand(rec.Seed(), "c13f/scenarios")
		for i := 0; i < 24; i++ {
			k := 2 + rng.Intn(24)
			w := 1
			if rng.Intn(2) == 0 {
				w = 1 + rng.Intn(k)
			}
			add(k, 10+rng.Intn(120), 2+rng.Intn(100), rng.Intn(30), w)
		}
	}
	return out
}
