package dns

// C13 (DESIGN.md §4 C13), part 1: the shared in-memory DNS network with a recorder at the listener
// boundary (history of open/use/close operations for the offline porcupine check, online monitors),
// deterministic session set-up and keyed transfers.

import (
	"bufio"
	"encoding/json"
	"fmt"
	"hash/fnv"
	"net"
	"os"
	"path/filepath"
	"reflect"
	"runtime"
	"sort"
	"strconv"
	"strings"
	"sync"
	"time"
	"unsafe"

	"github.com/bokysan/socketace/v2/internal/streams/dns/commands"
	"github.com/bokysan/socketace/v2/internal/streams/dns/util"
	"github.com/bokysan/socketace/v2/internal/util/enc"
	"github.com/bokysan/socketace/v2/internal/zzverif/vcommon"
	mdns "github.com/miekg/dns"
	"github.com/pkg/errors"
	"golang.org/x/net/dns/dnsmessage"
)

const c13Domain = "t.example.org"

type c13Cfg struct {
	QType    uint16 `json:"qtype"`
	Up       string `json:"up"`
	Down     string `json:"down"`
	UpFrag   uint32 `json:"up_frag"`
	DownFrag uint32 `json:"down_frag"`
}

func (c c13Cfg) String() string {
	return fmt.Sprintf("q%d-%s-%s-%d-%d", c.QType, c.Up, c.Down, c.UpFrag, c.DownFrag)
}

func c13Codec(name string) enc.Encoder {
	for _, c := range []byte{'T', 'S', 'U', 'W', 'X', 'V', 'R'} {
		if e, err := enc.FromCode(c); err == nil && e.Name() == name {
			return e
		}
	}
	panic("codec " + name)
}

func c13AllCodecs() []enc.Encoder {
	var out []enc.Encoder
	for _, c := range []byte{'T', 'S', 'U', 'W', 'X', 'V', 'R'} {
		if e, err := enc.FromCode(c); err == nil {
			out = append(out, e)
		}
	}
	return out
}

// c13ErrName maps an error seen by a client to the tunnel error name, "silent" or "other".
func c13ErrName(err error) string {
	if err == nil {
		return "ok"
	}
	c := errors.Cause(err)
	for _, e := range commands.BadErrors {
		if c == e {
			return e.Error()
		}
	}
	if isTimeout(err) {
		return "silent"
	}
	return "other"
}

func c13IsReject(res string) bool { return res == "BADIP" || res == "BADUSER" || res == "BADCONN" }

// c13Result classifies an answer of the listener: "ok", a tunnel error name, "other" (an error that is not
// one of the tunnel errors), "silent" (nothing was sent) or "undecodable". e is the downstream codec the
// listener uses for this answer (the codec of the session living in the slot, else Base32).
func c13Result(a *mdns.Msg, err error, e enc.Encoder) (string, commands.Response) {
	if err != nil || a == nil {
		return "silent", nil
	}
	var data []byte
	if p, _, _ := vcommon.Guard(func() { data = util.UnwrapDnsResponse(a, c13Domain) }); p || len(data) == 0 {
		return "undecodable", nil
	}
	var resp commands.Response
	switch data[0] | 0x20 {
	case 'e':
		resp = &commands.ErrorResponse{}
	case 'v':
		resp = &commands.VersionResponse{}
	case 'c':
		resp = &commands.PacketResponse{}
	case 'o':
		resp = &commands.SetOptionsResponse{}
	case 'r':
		resp = &commands.TestDownstreamFragmentSizeResponse{}
	case 'z':
		resp = &commands.TestUpstreamEncoderResponse{}
	default:
		return "undecodable", nil
	}
	var derr error
	if p, _, _ := vcommon.Guard(func() { derr = resp.Decode(e, data) }); p || derr != nil {
		return "undecodable", nil
	}
	var rerr error
	switch v := resp.(type) {
	case *commands.ErrorResponse:
		rerr = v.Err
		if rerr == nil {
			return "undecodable", nil
		}
	case *commands.VersionResponse:
		rerr = v.Err
	case *commands.PacketResponse:
		rerr = v.Err
	case *commands.SetOptionsResponse:
		rerr = v.Err
	case *commands.TestDownstreamFragmentSizeResponse:
		rerr = v.Err
	case *commands.TestUpstreamEncoderResponse:
		rerr = v.Err
	}
	if rerr == nil {
		return "ok", resp
	}
	for _, k := range commands.BadErrors {
		if rerr == k {
			return k.Error(), resp
		}
	}
	return "other", resp
}

// ---- recorder at the listener boundary ---------------------------------------------------------

type c13Op struct {
	T    string `json:"t"`
	Op   string `json:"op"`
	Id   int    `json:"id"`
	Addr string `json:"addr"`
	Res  string `json:"res"`
	Call int64  `json:"call"`
	Ret  int64  `json:"ret"`
	Cmd  string `json:"cmd,omitempty"`

	liveAtCall *c13Live
	stable     bool
	belief     string
}

type c13Live struct {
	addr    string
	closers int
}

type c13Viol struct {
	sig string
	obs interface{}
}

type c13Net struct {
	rec   *vcommon.Rec
	scomm *vServerComm
	lst   *ServerDnsListener
	inner OnMessage

	mu      sync.Mutex
	stamp   int64
	ops     []*c13Op
	live    map[int]*c13Live
	retired map[int]string
	online  bool // duplicate-id / owner-rejected / foreign-served monitors
	record  bool
	viols   []c13Viol
	vcount  map[string]int

	wmu     sync.Mutex
	waiters map[string]chan *userConnection

	kmu  sync.Mutex
	keys map[uint64]string
	seqs map[int]*[2]uint16 // slot -> what its owner last published as (next upstream seq, outstanding downstream seq)
}

func newC13Net(rec *vcommon.Rec) *c13Net {
	n := &c13Net{rec: rec, scomm: &vServerComm{}, live: map[int]*c13Live{}, retired: map[int]string{}, vcount: map[string]int{},
		waiters: map[string]chan *userConnection{}, keys: map[uint64]string{}, seqs: map[int]*[2]uint16{}, record: true}
	n.lst = NewServerDnsListener(c13Domain, n.scomm)
	n.inner = n.scomm.handler()
	n.scomm.RegisterAccept(n.onMessage)
	go func() {
		for {
			c, err := n.lst.Accept()
			if err != nil {
				return
			}
			u := c.(*userConnection)
			select {
			case n.waiter(u.remoteAddress.String()) <- u:
			default:
			}
		}
	}()
	return n
}

func (n *c13Net) close() { n.scomm.Close() }

func (n *c13Net) waiter(addr string) chan *userConnection {
	n.wmu.Lock()
	defer n.wmu.Unlock()
	ch := n.waiters[addr]
	if ch == nil {
		ch = make(chan *userConnection, 256)
		n.waiters[addr] = ch
	}
	return ch
}

func (n *c13Net) waitAccept(addr string, id uint16) *userConnection {
	ch := n.waiter(addr)
	deadline := time.After(30 * time.Second)
	for {
		select {
		case u := <-ch:
			if u.UserId == id {
				return u
			}
		case <-deadline:
			return nil
		}
	}
}

func (n *c13Net) violation(sig string, obs interface{}) {
	// caller holds n.mu
	n.vcount[sig]++
	if n.vcount[sig] <= 3 {
		n.viols = append(n.viols, c13Viol{sig, obs})
	}
}

func (n *c13Net) addViolation(sig string, obs interface{}) {
	n.mu.Lock()
	n.violation(sig, obs)
	n.mu.Unlock()
}

func (n *c13Net) beliefOf(id int, addr string) (string, *c13Live) {
	cur := n.live[id]
	switch {
	case cur != nil && cur.addr == addr && cur.closers == 0:
		return "live/owner", cur
	case cur != nil && cur.addr == addr:
		return "closing/owner", cur
	case cur != nil && cur.closers == 0:
		return "live/foreign", cur
	case cur != nil:
		return "closing/foreign", cur
	case n.retired[id] == addr:
		return "retired/old-owner", nil
	case n.retired[id] != "":
		return "retired/foreign", nil
	}
	return "free/-", nil
}

func (n *c13Net) begin(m *mdns.Msg, addr net.Addr) *c13Op {
	if !n.record || len(m.Question) == 0 {
		return nil
	}
	var req []byte
	if p, _, _ := vcommon.Guard(func() { req = commands.ComposeRequest(m, c13Domain) }); p || len(req) < 6 {
		return nil
	}
	code := req[0] | 0x20
	op := &c13Op{T: "op", Id: -1, Addr: addr.String(), Res: "pending", Cmd: string(code)}
	switch code {
	case 'v':
		op.Op = "open"
	case 'c', 'o', 'r', 'z':
		u, err := strconv.ParseUint(string(req[4:6]), 36, 16)
		if err != nil {
			return nil
		}
		op.Id, op.Op = int(u), "use"
		if code == 'o' {
			var so commands.SetOptionsRequest
			var derr error
			if p, _, _ := vcommon.Guard(func() { derr = so.Decode(nil, req) }); !p && derr == nil && so.Closed != nil && *so.Closed {
				op.Op = "close"
			}
		}
	default:
		return nil
	}
	n.mu.Lock()
	n.stamp++
	op.Call = n.stamp
	if op.Op != "open" {
		op.belief, op.liveAtCall = n.beliefOf(op.Id, op.Addr)
		op.stable = op.liveAtCall != nil && op.liveAtCall.closers == 0
		if op.Op == "close" && op.liveAtCall != nil && op.liveAtCall.addr == op.Addr {
			op.liveAtCall.closers++
		}
	}
	n.ops = append(n.ops, op)
	n.mu.Unlock()
	return op
}

func (n *c13Net) end(op *c13Op, a *mdns.Msg, err error) {
	if op == nil {
		return
	}
	res, resp := c13Result(a, err, enc.Base32Encoding)
	id := op.Id
	if op.Op == "open" && res == "ok" {
		if vr, ok := resp.(*commands.VersionResponse); ok {
			id = int(vr.UserId)
		} else {
			res = "other"
		}
	}
	n.mu.Lock()
	defer n.mu.Unlock()
	n.stamp++
	op.Ret, op.Res, op.Id = n.stamp, res, id
	switch op.Op {
	case "open":
		if res != "ok" {
			n.rec.Seen("triple(slot-state/role,op,result)", "-/open/"+res)
			return
		}
		b, cur := n.beliefOf(id, op.Addr)
		if cur != nil && cur.closers == 0 && n.online {
			n.violation("duplicate-session-id", map[string]interface{}{"slot": id, "held_by": cur.addr, "handed_also_to": op.Addr,
				"note": "the holder's session was open (no close requested) when the same id was returned by another version request"})
		}
		n.live[id] = &c13Live{addr: op.Addr}
		delete(n.retired, id)
		n.rec.Seen("triple(slot-state/role,op,result)", strings.Split(b, "/")[0]+"/open/ok")
	default:
		n.rec.Seen("triple(slot-state/role,op,result)", op.belief+"/"+op.Op+":"+op.Cmd+"/"+res)
		cur := n.live[id]
		mineClose := op.Op == "close" && op.liveAtCall != nil && op.liveAtCall.addr == op.Addr
		want := 0
		if mineClose {
			want = 1
		}
		still := op.stable && cur == op.liveAtCall && cur.closers == want
		if still && n.online {
			if cur.addr == op.Addr && c13IsReject(res) {
				n.violation("owner-rejected:"+res, map[string]interface{}{"slot": id, "owner": op.Addr, "command": op.Cmd,
					"note": "the session was open before and after the exchange, no close was under way"})
			}
			if cur.addr != op.Addr && res == "ok" {
				n.violation("foreign-address-served:"+op.Cmd, map[string]interface{}{"slot": id, "owner": cur.addr, "served": op.Addr})
			}
		}
		if mineClose {
			if res == "ok" {
				if cur == op.liveAtCall {
					delete(n.live, id)
					n.retired[id] = op.Addr
				}
			} else {
				op.liveAtCall.closers--
			}
		}
	}
}

func (n *c13Net) onMessage(m *mdns.Msg, addr net.Addr) (*mdns.Msg, error) {
	op := n.begin(m, addr)
	a, err := n.inner(m, addr)
	n.end(op, a, err)
	return a, err
}

// serverClose closes a session from the server side (the application closing its net.Conn) and
// records it as an operation of the history.
func (n *c13Net) serverClose(s *c13Sess) {
	addr := s.addr.String()
	n.mu.Lock()
	n.stamp++
	op := &c13Op{T: "op", Op: "sclose", Id: s.id, Addr: addr, Res: "pending", Call: n.stamp}
	cur := n.live[s.id]
	if cur != nil && cur.addr == addr {
		cur.closers++
	} else {
		cur = nil
	}
	n.ops = append(n.ops, op)
	n.mu.Unlock()
	_ = s.user.Close()
	n.mu.Lock()
	n.stamp++
	op.Ret, op.Res = n.stamp, "ok"
	if cur != nil && n.live[s.id] == cur {
		delete(n.live, s.id)
		n.retired[s.id] = addr
	}
	n.mu.Unlock()
}

// dump writes the history for the offline checker; returns (path, operations, operations still open).
func (n *c13Net) dump(name string, desc interface{}) (string, int, int) {
	dir := os.Getenv("VERIF_TMP")
	if dir == "" {
		return "", 0, 0
	}
	base := strings.TrimSuffix(filepath.Base(os.Getenv("VERIF_OUT")), ".jsonl")
	p := filepath.Join(dir, fmt.Sprintf("c13hist-%s-%s.jsonl", base, name))
	f, err := os.Create(p)
	if err != nil {
		return "", 0, 0
	}
	defer f.Close()
	w := bufio.NewWriter(f)
	defer w.Flush()
	e := json.NewEncoder(w)
	e.Encode(map[string]interface{}{"t": "meta", "name": name, "case": desc})
	n.mu.Lock()
	defer n.mu.Unlock()
	open := 0
	for _, op := range n.ops {
		c := *op
		if c.Ret == 0 {
			open++
		}
		e.Encode(&c)
	}
	return p, len(n.ops), open
}

// ---- keyed streams ---------------------------------------------------------------------------------

func c13Keyed(key uint64, off int64, n int) []byte {
	b := make([]byte, n)
	vcommon.FillKeyed(key, off, b)
	return b
}

func (n *c13Net) addKey(k uint64, who string) {
	n.kmu.Lock()
	n.keys[k] = who
	n.kmu.Unlock()
}

// classify explains bytes that do not belong to stream own at offset off.
func (n *c13Net) classify(own uint64, off int64, got []byte) string {
	if len(got) < 8 {
		return "altered(short)"
	}
	probe := got
	if len(probe) > 16 {
		probe = probe[:16]
	}
	match := func(k uint64, o int64) bool {
		if o < 0 {
			return false
		}
		for i := range probe {
			if vcommon.KeyedByte(k, o+int64(i)) != probe[i] {
				return false
			}
		}
		return true
	}
	n.kmu.Lock()
	keys := make(map[uint64]string, len(n.keys))
	for k, w := range n.keys {
		keys[k] = w
	}
	n.kmu.Unlock()
	for k, who := range keys {
		if k == own {
			continue
		}
		for o := int64(0); o < 8192; o++ {
			if match(k, o) {
				return "cross-talk(bytes of " + who + ")"
			}
		}
	}
	for d := int64(1); d < 8192; d++ {
		if match(own, off+d) {
			return "loss"
		}
		if match(own, off-d) {
			return "duplicate"
		}
	}
	return "altered"
}

// ---- sessions --------------------------------------------------------------------------------------

type c13Sess struct {
	n      *c13Net
	idx    int
	addr   net.Addr
	comm   *vClientComm
	client *ClientDnsConnection
	user   *userConnection
	id     int
	cfg    c13Cfg
	who    string

	keyUp, keyDown                     uint64
	upSent, upRead, downSent, downRead int64
	pending                            chan error // a server-side Write in flight
	exchanges                          int64
}

// open establishes a session deterministically: version handshake (allocates the id), then the options
// through the real commands. No background poller exists.
func (n *c13Net) open(idx int, cfg c13Cfg, key uint64, who string) (*c13Sess, string) {
	return n.openOpt(idx, cfg, key, who, false)
}

// openOpt: with byAddr the server-side connection is the first one the listener delivers for this address, whatever its
// id (for scenarios in which every address opens one session only); the caller compares s.user.UserId with s.id.
func (n *c13Net) openOpt(idx int, cfg c13Cfg, key uint64, who string, byAddr bool) (*c13Sess, string) {
	addr := vAddr(idx)
	comm := newVClientComm(n.scomm, addr)
	client, err := NewClientDnsConnection(c13Domain, comm)
	if err != nil {
		return nil, "new:" + err.Error()
	}
	qt := dnsmessage.Type(cfg.QType)
	client.Serializer.Upstream.QueryType = &qt
	client.Serializer.Upstream.Encoder = enc.Base32Encoding
	client.Serializer.Downstream.Encoder = enc.Base32Encoding
	var lastAnswer []byte
	if byAddr {
		comm.OnExchange = func(q, a []byte) { lastAnswer = a }
	}
	if err := client.VersionHandshake(); err != nil {
		return nil, "version:" + c13ErrName(err)
	}
	if byAddr {
		comm.OnExchange = nil
		// On this tree ClientDnsConnection.VersionHandshake does not look at the Err field of a VersionResponse: a refusal
		// (VFUL, VNAK) comes back as success with the id field's filler "00". The answer on the wire decides here.
		a := new(mdns.Msg)
		if lastAnswer == nil || a.Unpack(lastAnswer) != nil {
			return nil, "version:unreadable-answer"
		}
		if res, _ := c13Result(a, nil, enc.Base32Encoding); res != "ok" {
			n.rec.Seen("refused_handshakes_the_real_client_reports_as_success(diagnostic, not a verdict)", fmt.Sprintf("%s -> client continues as id %d", res, client.userId))
			// ... and the real client would go on with that id from its own address: it must be turned away like any foreigner
			// (the recorder and the offline check judge the answer)
			_, _ = c13Raw(comm, &commands.PacketRequest{UserId: client.userId, LastAckedSeqNo: 65535}, qt, enc.Base32Encoding)
			return nil, "version:" + res
		}
	}
	s := &c13Sess{n: n, idx: idx, addr: addr, comm: comm, client: client, id: int(client.userId), cfg: cfg, who: who,
		keyUp: key*2 + 1, keyDown: key*2 + 2}
	n.addKey(s.keyUp, who+"/c2s")
	n.addKey(s.keyDown, who+"/s2c")
	if byAddr {
		select {
		case s.user = <-n.waiter(addr.String()):
		case <-time.After(30 * time.Second):
		}
	} else {
		s.user = n.waitAccept(addr.String(), client.userId)
	}
	if s.user == nil {
		return nil, "accept-timeout"
	}
	if cfg.Up != "Base32" {
		client.Serializer.Upstream.Encoder = c13Codec(cfg.Up)
		_ = client.SetEncodingUpstream()
		if client.Serializer.Upstream.Encoder.Name() != cfg.Up {
			return s, "option-refused:upstream-codec"
		}
	}
	if cfg.Down != "Base32" {
		client.Serializer.Downstream.Encoder = c13Codec(cfg.Down)
		_ = client.SetEncodingDownstream()
		if client.Serializer.Downstream.Encoder.Name() != cfg.Down {
			return s, "option-refused:downstream-codec"
		}
	}
	if err := client.SwitchFragmentSize(cfg.DownFrag); err != nil || client.Serializer.Downstream.FragmentSize != cfg.DownFrag {
		return s, "option-refused:fragment-size"
	}
	client.Serializer.Upstream.FragmentSize = cfg.UpFrag
	return s, ""
}

func (s *c13Sess) publish() {
	v := &[2]uint16{s.client.out.NextSeqNo, s.client.in.NextSeqNo}
	s.n.kmu.Lock()
	s.n.seqs[s.id] = v
	s.n.kmu.Unlock()
}

func (s *c13Sess) drainClient() string {
	buf := make([]byte, 4096)
	for s.client.in.HasData() {
		k, _ := s.client.in.Read(buf)
		if k == 0 {
			break
		}
		if bad := vcommon.CheckKeyed(s.keyDown, s.downRead, buf[:k]); bad >= 0 {
			return "s2c:" + s.n.classify(s.keyDown, s.downRead+int64(bad), buf[bad:k])
		}
		s.downRead += int64(k)
		if s.downRead > s.downSent {
			return "s2c:read-beyond-written"
		}
	}
	return ""
}

func (s *c13Sess) drainServer() string {
	buf := make([]byte, 4096)
	for s.user.in.HasData() {
		k, _ := s.user.in.Read(buf)
		if k == 0 {
			break
		}
		if bad := vcommon.CheckKeyed(s.keyUp, s.upRead, buf[:k]); bad >= 0 {
			return "c2s:" + s.n.classify(s.keyUp, s.upRead+int64(bad), buf[bad:k])
		}
		s.upRead += int64(k)
		if s.upRead > s.upSent {
			return "c2s:read-beyond-written"
		}
	}
	return ""
}

// startDown lets the server-side application write n keyed bytes (the Write blocks until the client
// has acknowledged everything) and waits until the first chunk is queued.
func (s *c13Sess) startDown(n int) string {
	if n <= 0 || s.pending != nil {
		return ""
	}
	buf := c13Keyed(s.keyDown, s.downSent, n)
	s.downSent += int64(n)
	done := make(chan error, 1)
	u := s.user
	frag := int(u.Serializer.Downstream.FragmentSize)
	if frag < 1 {
		frag = 1
	}
	u.out.NextChunk() // (takes the queue's lock: orders the read below after earlier writers)
	want := u.out.NextSeqNo + uint16((n+frag-1)/frag)
	go func() { _, err := u.Write(buf); done <- err }()
	s.pending = done
	// wait until the writer has queued ALL its chunks: from here on it only waits for acknowledgements, so the number of
	// polls the transfer needs does not depend on how the writer goroutine is scheduled
	t0 := time.Now()
	for {
		u.out.NextChunk()
		if u.out.NextSeqNo == want {
			return ""
		}
		select {
		case err := <-done:
			done <- err
			return ""
		default:
		}
		if time.Since(t0) > 20*time.Second {
			return "inconclusive:server-writer-not-scheduled"
		}
		time.Sleep(20 * time.Microsecond)
	}
}

func (s *c13Sess) poll() string {
	s.exchanges++
	if err := s.client.SendAndReceive(s.client.out.NextChunk()); err != nil {
		return "tunnel:" + c13ErrName(err)
	}
	return s.drainClient()
}

// clientWrite is client.Write with a logical bound: on this loss-free network every chunk is acknowledged by the
// exchange that carries it, so a Write that is still exchanging messages after 1000 + 50 per chunk exchanges will
// never be acknowledged (the client's send loop spins for ever in that case; closing the communicator ends it).
func (s *c13Sess) clientWrite(buf []byte) string {
	type wr struct {
		n   int
		err error
	}
	res := make(chan wr, 1)
	start := s.comm.Stats().Exchanges
	frag := int64(s.cfg.UpFrag)
	if frag < 1 {
		frag = 1
	}
	bound := 1000 + 50*(int64(len(buf))/frag+1)
	go func() { n, err := s.client.Write(buf); res <- wr{n, err} }()
	t0 := time.Now()
	tick := time.NewTicker(time.Millisecond)
	defer tick.Stop()
	for {
		select {
		case r := <-res:
			if r.err != nil {
				return "tunnel:" + c13ErrName(r.err)
			}
			if r.n != len(buf) {
				return "c2s:short-write"
			}
			return ""
		case <-tick.C:
		}
		if s.comm.Stats().Exchanges-start > bound {
			s.comm.Close()
			select {
			case <-res:
			case <-time.After(10 * time.Second):
			}
			return "c2s:never-acknowledged"
		}
		if time.Since(t0) > 60*time.Second {
			s.comm.Close()
			return "inconclusive:client-write-blocked-without-exchanging-messages"
		}
	}
}

// finish lets the client write nUp keyed bytes, pumps until the pending downstream write is delivered and
// acknowledged, and verifies both directions. "" = everything exact.
func (s *c13Sess) finish(nUp int) string {
	if nUp > 0 {
		buf := c13Keyed(s.keyUp, s.upSent, nUp)
		s.upSent += int64(nUp)
		if p := s.clientWrite(buf); p != "" {
			return p
		}
		if p := s.drainClient(); p != "" {
			return p
		}
	}
	if s.pending != nil {
		frag := int64(s.cfg.DownFrag)
		if frag < 1 {
			frag = 1
		}
		budget := 4*((s.downSent-s.downRead)/frag+2) + 64
		done := false
		var werr error
		for i := int64(0); i < budget && !(done && s.downRead == s.downSent); i++ {
			if p := s.poll(); p != "" {
				return p
			}
			select {
			case werr = <-s.pending:
				done = true
			default:
				runtime.Gosched()
			}
		}
		if !done {
			select {
			case werr = <-s.pending:
				done = true
			case <-time.After(10 * time.Second):
			}
		}
		if !done {
			if s.downRead == s.downSent {
				return "s2c:server-write-never-completed"
			}
			return "s2c:incomplete"
		}
		s.pending = nil
		if werr != nil {
			return "s2c:server-write-error"
		}
	} else if nUp == 0 {
		if p := s.poll(); p != "" {
			return p
		}
	}
	if p := s.drainServer(); p != "" {
		return p
	}
	if s.upRead != s.upSent {
		return "c2s:incomplete"
	}
	if s.downRead != s.downSent {
		return "s2c:incomplete"
	}
	s.publish()
	return ""
}

func (s *c13Sess) transfer(nUp, nDown int) string {
	if p := s.startDown(nDown); p != "" {
		return p
	}
	return s.finish(nUp)
}

func (s *c13Sess) bytes() int64 { return s.upRead + s.downRead }

// ---- raw (hostile) requests ------------------------------------------------------------------------

func c13Raw(comm *vClientComm, req commands.Request, qt dnsmessage.Type, up enc.Encoder) (*mdns.Msg, error) {
	ser := commands.Serializer{Domain: c13Domain}
	m, err := ser.EncodeDnsRequestWithParams(req, qt, up)
	if err != nil {
		return nil, err
	}
	m.Id = 4242
	to := time.Second
	a, _, err := comm.SendAndReceive(m, &to)
	return a, err
}

var c13Hostiles = []string{"pkt-next-data", "pkt-ack-only", "pkt-ack-all", "pkt-future", "pkt-old", "pkt-random", "close",
	"opt-upenc", "opt-downenc", "opt-frag", "opt-lazy", "opt-multi", "opt-all", "fragprobe", "upprobe"}

// c13HostileReqs builds the requests of one hostile command against slot id. nextUp: the sequence number the
// server expects next from the slot's owner; outstanding: sequence numbers of the downstream chunks the
// owner has not acknowledged yet; data: what the attacker tries to inject.
func c13HostileReqs(kind string, id uint16, nextUp uint16, outstanding []uint16, data []byte, rng interface{ Intn(int) int }, cur c13Cfg) []commands.Request {
	ack := uint16(65535)
	if len(outstanding) > 0 {
		ack = outstanding[0]
	}
	t, f := true, false
	_ = f
	other := func(name string) enc.Encoder {
		if name == "Base64" {
			return enc.Base32Encoding
		}
		return enc.Base64Encoding
	}
	frag := uint32(7)
	switch kind {
	case "pkt-next-data":
		return []commands.Request{&commands.PacketRequest{UserId: id, LastAckedSeqNo: ack, Packet: &util.Packet{SeqNo: nextUp, Data: data}}}
	case "pkt-ack-only":
		return []commands.Request{&commands.PacketRequest{UserId: id, LastAckedSeqNo: ack}}
	case "pkt-ack-all":
		var out []commands.Request
		for _, a := range outstanding {
			out = append(out, &commands.PacketRequest{UserId: id, LastAckedSeqNo: a})
		}
		if len(out) == 0 {
			out = append(out, &commands.PacketRequest{UserId: id, LastAckedSeqNo: ack})
		}
		return out
	case "pkt-future":
		var out []commands.Request
		for d := uint16(1); d <= 3; d++ {
			out = append(out, &commands.PacketRequest{UserId: id, LastAckedSeqNo: ack, Packet: &util.Packet{SeqNo: nextUp + d, Data: data}})
		}
		return out
	case "pkt-old":
		return []commands.Request{&commands.PacketRequest{UserId: id, LastAckedSeqNo: ack - 1, Packet: &util.Packet{SeqNo: nextUp - 1, Data: data}}}
	case "pkt-random":
		var out []commands.Request
		for i := 0; i < 4; i++ {
			out = append(out, &commands.PacketRequest{UserId: id, LastAckedSeqNo: uint16(rng.Intn(65536)), Packet: &util.Packet{SeqNo: uint16(rng.Intn(65536)), Data: data}})
		}
		return out
	case "close":
		return []commands.Request{&commands.SetOptionsRequest{UserId: id, Closed: &t}}
	case "opt-upenc":
		return []commands.Request{&commands.SetOptionsRequest{UserId: id, UpstreamEncoder: other(cur.Up)}}
	case "opt-downenc":
		return []commands.Request{&commands.SetOptionsRequest{UserId: id, DownstreamEncoder: other(cur.Down)}}
	case "opt-frag":
		return []commands.Request{&commands.SetOptionsRequest{UserId: id, DownstreamFragmentSize: &frag}}
	case "opt-lazy":
		return []commands.Request{&commands.SetOptionsRequest{UserId: id, LazyMode: &t}}
	case "opt-multi":
		return []commands.Request{&commands.SetOptionsRequest{UserId: id, MultiQuery: &t}}
	case "opt-all":
		return []commands.Request{&commands.SetOptionsRequest{UserId: id, LazyMode: &t, MultiQuery: &t, UpstreamEncoder: other(cur.Up),
			DownstreamEncoder: other(cur.Down), DownstreamFragmentSize: &frag}}
	case "fragprobe":
		return []commands.Request{&commands.TestDownstreamFragmentSizeRequest{UserId: id, FragmentSize: 48}}
	case "upprobe":
		return []commands.Request{&commands.TestUpstreamEncoderRequest{UserId: id, Pattern: []byte("aA-Aaahhh-Drink-mal-ein-Jagermeister")}}
	}
	panic("hostile " + kind)
}

// ---- server-side snapshot of a session ----------------------------------------------------------------

func c13Field(ptr interface{}, name string) interface{} {
	v := reflect.ValueOf(ptr).Elem().FieldByName(name)
	return reflect.NewAt(v.Type(), unsafe.Pointer(v.UnsafeAddr())).Elem().Interface()
}

func c13Hash(b []byte) string {
	h := fnv.New64a()
	h.Write(b)
	return fmt.Sprintf("%d:%x", len(b), h.Sum64())
}

func c13Packets(ps []*util.Packet) string {
	var sb strings.Builder
	for _, p := range ps {
		fmt.Fprintf(&sb, "#%d=%s ", p.SeqNo, c13Hash(p.Data))
	}
	return sb.String()
}

func c13EncName(e enc.Encoder) string {
	if e == nil {
		return "<nil>"
	}
	return e.Name()
}

func c13Snapshot(lst *ServerDnsListener, u *userConnection) map[string]string {
	m := map[string]string{}
	m["in.NextSeqNo"] = fmt.Sprint(u.in.NextSeqNo)
	m["in.buffer"] = c13Hash(c13Field(&u.in, "in").([]byte))
	m["in.future"] = c13Packets(c13Field(&u.in, "future").([]*util.Packet))
	m["in.acked"] = fmt.Sprint(c13Field(&u.in, "acked").([]uint16))
	m["out.NextSeqNo"] = fmt.Sprint(u.out.NextSeqNo)
	m["out.queue"] = c13Packets(c13Field(&u.out, "out").([]*util.Packet))
	m["out.acked"] = fmt.Sprint(c13Field(&u.out, "acked").([]uint16))
	s := u.Serializer
	qt := "<nil>"
	if s.Upstream.QueryType != nil {
		qt = fmt.Sprint(uint16(*s.Upstream.QueryType))
	}
	m["serializer.upstream"] = fmt.Sprintf("%s/%d/%s", c13EncName(s.Upstream.Encoder), s.Upstream.FragmentSize, qt)
	m["serializer.downstream"] = fmt.Sprintf("%s/%d", c13EncName(s.Downstream.Encoder), s.Downstream.FragmentSize)
	m["serializer.flags"] = fmt.Sprintf("lazy=%v multi=%v edns0=%v domain=%s", s.UseLazyMode, s.UseMultiQuery, s.UseEdns0, s.Domain)
	m["closed"] = fmt.Sprint(u.closed)
	m["remoteAddress"] = u.remoteAddress.String()
	lst.usersLock.Lock()
	m["table.live-entry"] = fmt.Sprint(lst.connections[u.UserId] == u)
	m["table.retired-entry"] = fmt.Sprint(lst.oldConnections[u.UserId] == u)
	lst.usersLock.Unlock()
	return m
}

func c13Diff(a, b map[string]string) []string {
	var out []string
	for k, v := range a {
		if b[k] != v {
			out = append(out, k)
		}
	}
	sort.Strings(out)
	return out
}

// c13Secrets lists the byte strings of a session that an outsider must never see: the downstream chunks still
// queued and the upstream bytes not yet read by the application.
func c13Secrets(u *userConnection) [][]byte {
	var out [][]byte
	for _, p := range c13Field(&u.out, "out").([]*util.Packet) {
		if len(p.Data) >= 6 {
			out = append(out, append([]byte{}, p.Data...))
		}
	}
	if in := c13Field(&u.in, "in").([]byte); len(in) >= 6 {
		k := len(in)
		if k > 12 {
			k = 12
		}
		out = append(out, append([]byte{}, in[:k]...))
	}
	return out
}

func c13Outstanding(u *userConnection) []uint16 {
	var out []uint16
	for _, p := range c13Field(&u.out, "out").([]*util.Packet) {
		out = append(out, p.SeqNo)
	}
	return out
}

// c13Leaks says whether the answer contains one of the secrets under any codec.
func c13Leaks(a *mdns.Msg, secrets [][]byte) bool {
	if a == nil || len(secrets) == 0 {
		return false
	}
	var data []byte
	if p, _, _ := vcommon.Guard(func() { data = util.UnwrapDnsResponse(a, c13Domain) }); p || len(data) < 2 {
		return false
	}
	views := [][]byte{data}
	for _, e := range c13AllCodecs() {
		e := e
		var d []byte
		if p, _, _ := vcommon.Guard(func() { d, _ = e.Decode(data[1:]) }); !p && len(d) > 0 {
			views = append(views, d)
		}
	}
	for _, v := range views {
		for _, s := range secrets {
			if strings.Contains(string(v), string(s)) {
				return true
			}
		}
	}
	return false
}
