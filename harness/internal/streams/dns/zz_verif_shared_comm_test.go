package dns

// Shared by the C07, C11, C12 and C13 monitors: an in-memory DNS "network" built on the
// repository's own ClientCommunicator / ServerCommunicator interfaces. Every exchange is packed to
// wire bytes and unpacked again in both directions, gets a fate from a script, and can be mangled
// by a path model. Timeouts are virtual: a lost exchange returns at once what the real
// communicator returns for a timeout (a wrapped net.Error with Timeout()==true).

import (
	"fmt"
	"net"
	"os"
	"sync"
	"sync/atomic"
	"time"

	"github.com/miekg/dns"
	"github.com/pkg/errors"
)

type vFate int

const (
	vDelivered  vFate = iota // query reaches the server, answer reaches the client
	vQueryLost               // query never reaches the server; client times out
	vAnswerLost              // server processes the query; the answer is lost; client times out
	vQueryDup                // server receives the query twice; client gets the first answer
	vReplayOld               // an old query (lag chosen by the script) is delivered again first, then this one normally
)

func (f vFate) String() string {
	return [...]string{"delivered", "query-lost", "answer-lost", "query-dup", "replay-old"}[f]
}

// vServerComm is the server side: the listener registers its onMessage callback here.
type vServerComm struct {
	mu        sync.Mutex
	onMessage OnMessage
	closed    int32
}

func (s *vServerComm) Close() error               { atomic.StoreInt32(&s.closed, 1); return nil }
func (s *vServerComm) Closed() bool               { return atomic.LoadInt32(&s.closed) != 0 }
func (s *vServerComm) RegisterAccept(f OnMessage) { s.mu.Lock(); s.onMessage = f; s.mu.Unlock() }
func (s *vServerComm) LocalAddr() net.Addr        { return &net.UDPAddr{IP: net.IPv4(127, 0, 0, 1), Port: 53} }
func (s *vServerComm) handler() OnMessage         { s.mu.Lock(); defer s.mu.Unlock(); return s.onMessage }

// vPath mangles packed messages in transit (C11). nil = transparent.
type vPath interface {
	// Query may rewrite the query (wire form already unpacked); return nil to drop it.
	Query(q *dns.Msg) *dns.Msg
	// Answer may rewrite / drop (nil) the answer; wire is its packed form.
	Answer(q *dns.Msg, a *dns.Msg, wire []byte) *dns.Msg
}

type vStats struct {
	Exchanges int64
	ByFate    [5]int64
	ServerErr int64 // onMessage returned an error (server sends nothing): client sees a timeout
	PackErr   int64
	MaxLag    int64
	Replayed  int64
	LastErr   string // last reason why the server sent nothing
}

// vClientComm is one client's view of the network.
type vClientComm struct {
	server *vServerComm
	addr   net.Addr
	path   vPath

	mu      sync.Mutex
	script  func(n int64, q *dns.Msg) (vFate, int) // fate of exchange n, and lag for vReplayOld
	history [][]byte                               // packed queries that reached the server (ring)
	histCap int
	n       int64
	stats   vStats
	closed  int32
	// DupConcurrent > 1: the copies of a duplicated query (fate vQueryDup) reach the server at the same time, that many of
	// them (the real server handles every datagram on a goroutine of its own); 0: one after the other
	DupConcurrent int
	// OnExchange, if set, observes every query that reaches the server and its answer (wire forms)
	OnExchange func(q, a []byte)
	// OnSilent, if set, observes every query the server did not answer
	OnSilent func(q *dns.Msg, err error) string
}

func newVClientComm(server *vServerComm, addr net.Addr) *vClientComm {
	return &vClientComm{server: server, addr: addr, histCap: 1 << 17}
}

func (c *vClientComm) SetScript(f func(n int64, q *dns.Msg) (vFate, int)) {
	c.mu.Lock()
	c.script = f
	c.mu.Unlock()
}

func (c *vClientComm) Stats() vStats {
	c.mu.Lock()
	defer c.mu.Unlock()
	return c.stats
}

type vTimeoutErr struct{}

func (vTimeoutErr) Error() string   { return "i/o timeout" }
func (vTimeoutErr) Timeout() bool   { return true }
func (vTimeoutErr) Temporary() bool { return true }

func vTimeout(m *dns.Msg) error {
	// same shape as NetConnectionClientCommunicator.SendAndReceive on a timeout
	var err error = &net.OpError{Op: "read", Net: "udp", Err: vTimeoutErr{}}
	return errors.Wrapf(err, "Could not send packet %v %q to server", dns.Type(m.Question[0].Qtype), m.Question[0].Name)
}

func (c *vClientComm) deliver(wire []byte) (*dns.Msg, []byte, error) {
	q := new(dns.Msg)
	if err := q.Unpack(wire); err != nil {
		return nil, nil, err
	}
	if c.path != nil {
		q = c.path.Query(q)
		if q == nil {
			return nil, nil, nil
		}
	}
	h := c.server.handler()
	if h == nil || c.server.Closed() {
		return nil, nil, nil
	}
	a, err := h(q, c.addr)
	if err != nil || a == nil {
		c.mu.Lock()
		c.stats.ServerErr++
		c.stats.LastErr = fmt.Sprintf("onMessage: answer=%v err=%v query=%q", a != nil, err, q.Question[0].Name)
		if c.OnSilent != nil {
			c.stats.LastErr += " " + c.OnSilent(q, err)
		}
		c.mu.Unlock()
		return nil, nil, nil // the real server logs and sends nothing
	}
	aw, err := a.Pack()
	if err != nil {
		c.mu.Lock()
		c.stats.PackErr++
		c.stats.LastErr = fmt.Sprintf("pack of the answer failed: %v (query %q)", err, q.Question[0].Name)
		c.mu.Unlock()
		return nil, nil, nil // WriteMsg fails: nothing is sent
	}
	back := new(dns.Msg)
	if err := back.Unpack(aw); err != nil {
		return nil, nil, nil
	}
	if c.path != nil {
		back = c.path.Answer(q, back, aw)
	}
	if cb := c.OnExchange; cb != nil {
		cb(wire, aw)
	}
	return back, aw, nil
}

func (c *vClientComm) SendAndReceive(m *dns.Msg, timeout *time.Duration) (*dns.Msg, time.Duration, error) {
	if c.Closed() {
		return nil, 0, errors.WithStack(os.ErrClosed)
	}
	wire, err := m.Pack()
	if err != nil {
		return nil, 0, errors.WithStack(err)
	}
	c.mu.Lock()
	n := c.n
	c.n++
	fate, lag := vDelivered, 0
	if c.script != nil {
		fate, lag = c.script(n, m)
	}
	c.stats.Exchanges++
	c.stats.ByFate[fate]++
	var old []byte
	if fate == vReplayOld {
		if lag >= 1 && lag <= len(c.history) {
			old = c.history[len(c.history)-lag]
			if int64(lag) > c.stats.MaxLag {
				c.stats.MaxLag = int64(lag)
			}
			c.stats.Replayed++
		}
	}
	if fate != vQueryLost {
		c.history = append(c.history, wire)
		if len(c.history) > c.histCap {
			c.history = append([][]byte{}, c.history[len(c.history)-c.histCap/2:]...)
		}
	}
	c.mu.Unlock()

	switch fate {
	case vQueryLost:
		return nil, 0, vTimeout(m)
	case vAnswerLost:
		c.deliver(wire)
		return nil, 0, vTimeout(m)
	case vQueryDup:
		if k := c.DupConcurrent; k > 1 {
			answers := make([]*dns.Msg, k)
			var wg sync.WaitGroup
			for i := 0; i < k; i++ {
				wg.Add(1)
				go func(i int) {
					defer wg.Done()
					answers[i], _, _ = c.deliver(wire)
				}(i)
			}
			wg.Wait()
			for _, a := range answers {
				if a != nil {
					return a, time.Millisecond, nil
				}
			}
			return nil, 0, vTimeout(m)
		}
		a, _, _ := c.deliver(wire)
		c.deliver(wire)
		if a == nil {
			return nil, 0, vTimeout(m)
		}
		return a, time.Millisecond, nil
	case vReplayOld:
		if old != nil {
			c.deliver(old)
		}
	}
	a, _, _ := c.deliver(wire)
	if a == nil {
		return nil, 0, vTimeout(m)
	}
	return a, time.Millisecond, nil
}

func (c *vClientComm) Close() error                       { atomic.StoreInt32(&c.closed, 1); return nil }
func (c *vClientComm) Closed() bool                       { return atomic.LoadInt32(&c.closed) != 0 }
func (c *vClientComm) LocalAddr() net.Addr                { return c.addr }
func (c *vClientComm) RemoteAddr() net.Addr               { return c.server.LocalAddr() }
func (c *vClientComm) SetDeadline(t time.Time) error      { return nil }
func (c *vClientComm) SetReadDeadline(t time.Time) error  { return nil }
func (c *vClientComm) SetWriteDeadline(t time.Time) error { return nil }

func vAddr(i int) net.Addr {
	return &net.UDPAddr{IP: net.IPv4(10, 0, byte(i>>8), byte(i)), Port: 30000 + i%20000}
}
