// C19: stream wrappers close their resource exactly once (DESIGN.md §4 C19).
//
// Model-based monitor over SEQUENTIAL call histories. A configuration is a tree of wrapper
// constructors of this package over counting fake resources; a history is a sequence of
// Read/Write/Close/Closed/String/TryClose/LogClose calls applied to any wrapper of the tree.
// The reference model is only what the property statement fixes:
//
//   - a fake's Close is called at most once, and exactly once as soon as any wrapper above it has
//     been closed by the history;
//   - every Close after the first on the same wrapper object returns nil (also through LogClose);
//   - W.Closed() is false until W's own Close: it is asserted false while neither W nor a wrapper
//     above W has been closed (closing an outer wrapper closes what it holds, so those states are not
//     asserted) and no wrapper whose closed flag W shares has been closed (a Named*/Simulated/Stream/
//     Buffered wrapper built directly over a Safe* wrapper of its own family keeps that wrapper as its
//     flag holder - "WILL NOT create a new instance"; which object holds the flag is observed by
//     identity, not modelled); it is true once W.Close() has been called;
//   - a reader+writer pair reports closed iff both halves are: false while one half is certainly
//     open, true when both halves are certainly closed.
//
// Carriers: a StreamWrappedConnection holds, besides the stream it owns, the connection it runs over
// (`underlying`: addresses and deadlines only). That connection may itself be a composition of this
// package's wrappers with its own handle in the history ("StreamConnection(w;over=u)"). The carrier
// is not a resource of the stream-wrapped connection: closing it through its own handle is not a
// close of the stream-wrapped connection or of anything above it (their Closed() stays false, their
// Close still has to reach the stream exactly once); closing the stream-wrapped connection is not
// required to close the carrier, but it is not forbidden either (carrier states are not asserted
// once anything above them has been closed).
//
// Construction time: a history may contain Build steps. The wrappers named in `late` are not built
// before the history starts but by their Build step (arguments first), i.e. at any point of the life
// of what they wrap: before it was used, after it was read/written, after it was closed through its
// own handle, after that close failed. Wrappers still unbuilt at the end are built by the epilogue.
// The model does not know about construction time: a wrapper that has not been closed answers false.
package streams

import (
	"encoding/json"
	"errors"
	"fmt"
	"io"
	"net"
	"strings"
	"testing"
	"time"

	"github.com/bokysan/socketace/v2/internal/zzverif/vcommon"
	"github.com/sirupsen/logrus"
)

// ---- counting fake resources -----------------------------------------------------------------

var errC19Close = errors.New("c19: underlying close failed")

type c19res struct {
	above  *c19Node // the wrapper constructed directly over this fake
	kind   int
	fail   bool
	closes int
	reads  int
	writes int
}

func (r *c19res) doClose() error {
	r.closes++
	if r.fail {
		return errC19Close
	}
	return nil
}

func (r *c19res) doRead(p []byte) (int, error) {
	if r.closes > 0 {
		return 0, io.ErrClosedPipe
	}
	for i := range p {
		p[i] = byte(r.reads + i)
	}
	r.reads += len(p)
	return len(p), nil
}

func (r *c19res) doWrite(p []byte) (int, error) {
	if r.closes > 0 {
		return 0, io.ErrClosedPipe
	}
	r.writes += len(p)
	return len(p), nil
}

type c19FakeConn struct{ r *c19res }

func (f *c19FakeConn) Read(p []byte) (int, error)         { return f.r.doRead(p) }
func (f *c19FakeConn) Write(p []byte) (int, error)        { return f.r.doWrite(p) }
func (f *c19FakeConn) Close() error                       { return f.r.doClose() }
func (f *c19FakeConn) LocalAddr() net.Addr                { return Localhost }
func (f *c19FakeConn) RemoteAddr() net.Addr               { return Localhost }
func (f *c19FakeConn) SetDeadline(t time.Time) error      { return nil }
func (f *c19FakeConn) SetReadDeadline(t time.Time) error  { return nil }
func (f *c19FakeConn) SetWriteDeadline(t time.Time) error { return nil }

type c19FakeRWC struct{ r *c19res }

func (f *c19FakeRWC) Read(p []byte) (int, error)  { return f.r.doRead(p) }
func (f *c19FakeRWC) Write(p []byte) (int, error) { return f.r.doWrite(p) }
func (f *c19FakeRWC) Close() error                { return f.r.doClose() }

type c19FakeR struct{ r *c19res }

func (f *c19FakeR) Read(p []byte) (int, error) { return f.r.doRead(p) }
func (f *c19FakeR) Close() error               { return f.r.doClose() }

type c19FakeW struct{ r *c19res }

func (f *c19FakeW) Write(p []byte) (int, error) { return f.r.doWrite(p) }
func (f *c19FakeW) Close() error                { return f.r.doClose() }

// ---- configurations --------------------------------------------------------------------------

const (
	c19Conn = iota
	c19Stream
	c19Reader
	c19Writer
)

var c19LeafNames = []string{"conn", "rwc", "r", "w"}

func c19LeafKind(name string) int {
	for i, n := range c19LeafNames {
		if n == name {
			return i
		}
	}
	return -1
}

// c19Fits: can a value of interface kind `out` be passed where kind `want` is required
func c19Fits(out, want int) bool {
	switch want {
	case c19Conn:
		return out == c19Conn
	case c19Stream:
		return out == c19Conn || out == c19Stream
	case c19Reader:
		return out == c19Conn || out == c19Stream || out == c19Reader
	default:
		return out == c19Conn || out == c19Stream || out == c19Writer
	}
}

type c19Ctor struct {
	name string
	out  int
	in   []int
	opt  []int // optional further arguments, not owned by the wrapper (the carrier of a StreamConnection)
}

var c19Ctors = []c19Ctor{
	{"SafeConnection", c19Conn, []int{c19Conn}, nil},
	{"NamedConnection", c19Conn, []int{c19Conn}, nil},
	{"BufferedInputConnection", c19Conn, []int{c19Conn}, nil},
	{"SimulatedConnection", c19Conn, []int{c19Stream}, nil},
	{"StreamConnection", c19Conn, []int{c19Stream}, []int{c19Conn}},
	{"SafeStream", c19Stream, []int{c19Stream}, nil},
	{"NamedStream", c19Stream, []int{c19Stream}, nil},
	{"ReadWriteCloser", c19Stream, []int{c19Reader, c19Writer}, nil},
	{"SafeReader", c19Reader, []int{c19Reader}, nil},
	{"NamedReader", c19Reader, []int{c19Reader}, nil},
	{"SafeWriter", c19Writer, []int{c19Writer}, nil},
	{"NamedWriter", c19Writer, []int{c19Writer}, nil},
}

func c19CtorByName(name string) *c19Ctor {
	for i := range c19Ctors {
		if c19Ctors[i].name == name {
			return &c19Ctors[i]
		}
	}
	return nil
}

// c19Spec is the replayable description of a configuration: a constructor with its arguments, or
// a leaf ("conn", "rwc", "r", "w": the counting fake of that interface kind; Fail = its Close fails).
// A StreamConnection may have a second argument: the connection it runs over (its `underlying`; a
// "conn" leaf or a composition of connection wrappers). With one argument it runs over a plain fake.
type c19Spec struct {
	C    string     `json:"c"`
	Fail bool       `json:"fail,omitempty"`
	Kids []*c19Spec `json:"kids,omitempty"`
}

func (s *c19Spec) String() string {
	if len(s.Kids) == 0 {
		if s.Fail {
			return s.C + "!"
		}
		return s.C
	}
	parts := make([]string, len(s.Kids))
	for i, k := range s.Kids {
		parts[i] = k.String()
	}
	if s.hasCarrierArg() {
		return s.C + "(" + parts[0] + ";over=" + parts[1] + ")"
	}
	return s.C + "(" + strings.Join(parts, ",") + ")"
}

// hasCarrierArg: a StreamConnection whose `underlying` is given explicitly
func (s *c19Spec) hasCarrierArg() bool {
	return s.C == "StreamConnection" && len(s.Kids) == 2
}

// owns: is argument i a resource of the wrapper (everything but the carrier of a StreamConnection)
func (s *c19Spec) owns(i int) bool {
	return !(s.C == "StreamConnection" && i == 1)
}

// hasCarrier: does the configuration contain a StreamConnection that runs over a wrapper
func (s *c19Spec) hasCarrier() bool {
	if s.hasCarrierArg() && len(s.Kids[1].Kids) > 0 {
		return true
	}
	for _, k := range s.Kids {
		if k.hasCarrier() {
			return true
		}
	}
	return false
}

func (s *c19Spec) depth() int {
	d := 0
	for _, k := range s.Kids {
		if kd := k.depth(); kd > d {
			d = kd
		}
	}
	if len(s.Kids) > 0 {
		d++
	}
	return d
}

// c19Enum lists every subtree of wrapper depth <= depth whose value fits `want`; leaves are the
// fake of exactly that kind, succeeding or failing on Close.
func c19Enum(want, depth int) []*c19Spec {
	res := []*c19Spec{{C: c19LeafNames[want]}, {C: c19LeafNames[want], Fail: true}}
	if depth == 0 {
		return res
	}
	for i := range c19Ctors {
		ct := &c19Ctors[i]
		if !c19Fits(ct.out, want) {
			continue
		}
		res = append(res, c19EnumCtor(ct, depth)...)
	}
	return res
}

// c19EnumCtor lists every configuration of wrapper depth <= depth whose outermost wrapper is ct.
func c19EnumCtor(ct *c19Ctor, depth int) []*c19Spec {
	var res []*c19Spec
	first := c19Enum(ct.in[0], depth-1)
	if len(ct.in) == 1 {
		for _, a := range first {
			res = append(res, &c19Spec{C: ct.name, Kids: []*c19Spec{a}})
		}
		return res
	}
	second := c19Enum(ct.in[1], depth-1)
	for _, a := range first {
		for _, b := range second {
			res = append(res, &c19Spec{C: ct.name, Kids: []*c19Spec{a, b}})
		}
	}
	return res
}

// ---- instantiated tree + reference model -----------------------------------------------------

type c19Node struct {
	idx      int
	spec     *c19Spec
	ctor     *c19Ctor
	parent   *c19Node
	kidNodes []*c19Node // per argument; nil where the argument is a leaf
	kidLeaf  []*c19res  // per argument; nil where the argument is a wrapper
	chain    []*c19Node // ancestors, self and descendants
	anc      []*c19Node // ancestors only (for a wrapper of a carrier: also the StreamConnection running over it and its ancestors)
	sub      []*c19Node // self and descendants (owned arguments only: not the carrier of a StreamConnection)
	below    []*c19res  // all fakes below this wrapper (owned arguments only)
	inSide   bool       // the wrapper is part of the carrier of some StreamConnection
	sideAll  []*c19Node // StreamConnection with a wrapper as carrier: all wrappers of that carrier
	carriers []*c19Node // the StreamConnections among `sub` that run over a wrapper
	name     string     // name given to Named* wrappers
	shape    string     // signature shape: constructor > argument constructors (> .. when deeper)

	// per instantiation
	obj        interface{}
	built      bool
	builtLate  bool     // built by a Build step of the history (or by the epilogue)
	overClosed bool     // built when a wrapper below it had already been closed by the history
	overFailed bool     // ... and the first Close of a wrapper below it had reported an error
	closeErr   bool     // the first Close of this wrapper object returned an error (kept on canon)
	shares     *c19Node // the argument wrapper whose object holds this wrapper's closed flag (nil: its own)
	canon      *c19Node // the node owning the wrapper object (differs when NewSafeX returned its argument)
	halfReused [2]bool  // pair only: the half held by the pair IS the argument wrapper
	closeCalls int      // model: Close() calls made by the history on this wrapper object (kept on canon)
}

type c19Tree struct {
	spec    *c19Spec
	nodes   []*c19Node // pre-order
	leaves  []*c19res
	leafObj map[*c19res]interface{}
	side    *c19res // `underlying` of StreamConnection wrappers: not a resource of the chain, only observed
	late    []bool  // per node: built by a Build step of the history instead of before it (nil: none)
}

func c19NewTree(spec *c19Spec) (*c19Tree, error) {
	t := &c19Tree{spec: spec, leafObj: map[*c19res]interface{}{}, side: &c19res{kind: c19Conn}}
	if _, err := t.add(spec, nil); err != nil {
		return nil, err
	}
	for _, n := range t.nodes {
		for p := n.parent; p != nil; p = p.parent {
			n.anc = append(n.anc, p)
		}
		var walk func(x *c19Node)
		walk = func(x *c19Node) {
			n.sub = append(n.sub, x)
			for i, k := range x.kidNodes {
				if !x.spec.owns(i) {
					if k != nil {
						n.carriers = append(n.carriers, x)
					}
					continue
				}
				if k != nil {
					walk(k)
				} else {
					n.below = append(n.below, x.kidLeaf[i])
				}
			}
		}
		walk(n)
		n.chain = append(append([]*c19Node{}, n.anc...), n.sub...)
		if n.spec.hasCarrierArg() && n.kidNodes[1] != nil {
			var all func(x *c19Node)
			all = func(x *c19Node) {
				x.inSide = true
				n.sideAll = append(n.sideAll, x)
				for _, k := range x.kidNodes {
					if k != nil {
						all(k)
					}
				}
			}
			all(n.kidNodes[1])
		}
		// signature shape: constructor > constructor of its argument. A pair only distinguishes what
		// its behaviour can depend on: a bare resource, a SafeReader/SafeWriter (which NewReadWriteCloser
		// keeps as its half) or any other wrapper (which it wraps again)
		if len(n.spec.Kids) == 1 {
			n.shape = n.spec.C + ">" + n.spec.Kids[0].C
		} else if n.spec.hasCarrierArg() {
			n.shape = n.spec.C + ">" + n.spec.Kids[0].C + "~" + n.spec.Kids[1].C
		} else {
			var parts []string
			for _, k := range n.spec.Kids {
				switch {
				case len(k.Kids) == 0 || k.C == "SafeReader" || k.C == "SafeWriter":
					parts = append(parts, k.C)
				default:
					parts = append(parts, "wrapper")
				}
			}
			n.shape = n.spec.C + ">[" + strings.Join(parts, "|") + "]"
		}
	}
	return t, nil
}

func (t *c19Tree) add(s *c19Spec, parent *c19Node) (*c19Node, error) {
	ct := c19CtorByName(s.C)
	if ct == nil {
		return nil, fmt.Errorf("unknown constructor %q", s.C)
	}
	if len(s.Kids) < len(ct.in) || len(s.Kids) > len(ct.in)+len(ct.opt) {
		return nil, fmt.Errorf("%s takes %d arguments", s.C, len(ct.in))
	}
	argKind := func(i int) int {
		if i < len(ct.in) {
			return ct.in[i]
		}
		return ct.opt[i-len(ct.in)]
	}
	n := &c19Node{idx: len(t.nodes), spec: s, ctor: ct, parent: parent, name: fmt.Sprintf("n%d", len(t.nodes))}
	t.nodes = append(t.nodes, n)
	for i, k := range s.Kids {
		if len(k.Kids) == 0 {
			kind := c19LeafKind(k.C)
			if kind < 0 || !c19Fits(kind, argKind(i)) {
				return nil, fmt.Errorf("leaf %q does not fit argument %d of %s", k.C, i, s.C)
			}
			r := &c19res{kind: kind, fail: k.Fail, above: n}
			switch kind {
			case c19Conn:
				t.leafObj[r] = &c19FakeConn{r}
			case c19Stream:
				t.leafObj[r] = &c19FakeRWC{r}
			case c19Reader:
				t.leafObj[r] = &c19FakeR{r}
			default:
				t.leafObj[r] = &c19FakeW{r}
			}
			t.leaves = append(t.leaves, r)
			n.kidNodes = append(n.kidNodes, nil)
			n.kidLeaf = append(n.kidLeaf, r)
			continue
		}
		kn, err := t.add(k, n)
		if err != nil {
			return nil, err
		}
		if !c19Fits(kn.ctor.out, argKind(i)) {
			return nil, fmt.Errorf("%s does not fit argument %d of %s", k.C, i, s.C)
		}
		n.kidNodes = append(n.kidNodes, kn)
		n.kidLeaf = append(n.kidLeaf, nil)
	}
	return n, nil
}

// instantiate builds fresh wrappers (real constructors) over the reset fakes.
func (t *c19Tree) instantiate() {
	for _, r := range t.leaves {
		r.closes, r.reads, r.writes = 0, 0, 0
	}
	t.side.closes, t.side.reads, t.side.writes = 0, 0, 0
	for _, n := range t.nodes {
		n.closeCalls = 0
		n.canon = n
		n.halfReused = [2]bool{}
		n.built, n.builtLate, n.overClosed, n.overFailed, n.closeErr, n.shares = false, false, false, false, false, nil
	}
	for i := len(t.nodes) - 1; i >= 0; i-- { // reverse pre-order: arguments before their wrapper
		if t.late == nil || !t.late[i] {
			t.construct(t.nodes[i])
		}
	}
}

// buildable: n is unbuilt and all its arguments exist
func (t *c19Tree) buildable(n *c19Node) bool {
	if n.built {
		return false
	}
	for _, k := range n.kidNodes {
		if k != nil && !k.built {
			return false
		}
	}
	return true
}

// construct builds wrapper n with the real constructor over its (built) arguments and observes which
// object holds its closed flag.
func (t *c19Tree) construct(n *c19Node) {
	{
		args := make([]interface{}, len(n.kidNodes))
		for j, k := range n.kidNodes {
			if k != nil {
				args[j] = k.obj
			} else {
				args[j] = t.leafObj[n.kidLeaf[j]]
			}
		}
		name := n.name
		switch n.spec.C {
		case "SafeConnection":
			n.obj = NewSafeConnection(args[0].(net.Conn))
		case "NamedConnection":
			n.obj = NewNamedConnection(args[0].(net.Conn), name)
		case "BufferedInputConnection":
			n.obj = NewBufferedInputConnection(args[0].(net.Conn))
		case "SimulatedConnection":
			n.obj = NewSimulatedConnection(args[0].(io.ReadWriteCloser), Localhost, Localhost)
		case "StreamConnection":
			if len(args) == 2 {
				n.obj = NewStreamConnection(args[0].(io.ReadWriteCloser), args[1].(net.Conn))
			} else {
				n.obj = NewStreamConnection(args[0].(io.ReadWriteCloser), &c19FakeConn{t.side})
			}
		case "SafeStream":
			n.obj = NewSafeStream(args[0].(io.ReadWriteCloser))
		case "NamedStream":
			n.obj = NewNamedStream(args[0].(io.ReadWriteCloser), name)
		case "ReadWriteCloser":
			rw := NewReadWriteCloser(args[0].(io.ReadCloser), args[1].(io.WriteCloser))
			n.obj = rw
			n.halfReused[0] = n.kidNodes[0] != nil && interface{}(rw.ReadCloserClosed) == args[0]
			n.halfReused[1] = n.kidNodes[1] != nil && interface{}(rw.WriteCloserClosed) == args[1]
		case "SafeReader":
			n.obj = NewSafeReader(args[0].(io.ReadCloser))
		case "NamedReader":
			n.obj = NewNamedReader(args[0].(io.ReadCloser), name)
		case "SafeWriter":
			n.obj = NewSafeWriter(args[0].(io.WriteCloser))
		case "NamedWriter":
			n.obj = NewNamedWriter(args[0].(io.WriteCloser), name)
		}
		if len(n.kidNodes) == 1 && n.kidNodes[0] != nil && n.obj == n.kidNodes[0].obj {
			n.canon = n.kidNodes[0].canon // the constructor returned its argument: same wrapper
		}
	}
	n.built = true
	if k := n.kidNodes[0]; k != nil && n.spec.C != "ReadWriteCloser" {
		var holder interface{}
		switch o := n.obj.(type) {
		case *NamedConnection:
			holder = o.Connection
		case *BufferedInputConnection:
			holder = o.Connection
		case *NamedStream:
			holder = o.ReadWriteCloserClosed
		case *SimulatedConnection:
			holder = o.ReadWriteCloserClosed
		case *StreamWrappedConnection:
			holder = o.ReadWriteCloserClosed
		case *NamedReader:
			holder = o.ReadCloserClosed
		case *NamedWriter:
			holder = o.WriteCloserClosed
		}
		if holder != nil && holder == k.obj {
			n.shares = k
		}
	}
	for _, x := range n.sub[1:] {
		if x.canon != n.canon && x.canon.closeCalls > 0 {
			n.overClosed = true
			if x.canon.closeErr {
				n.overFailed = true
			}
		}
	}
}

// flagHolderClosed: a wrapper whose object holds n's closed flag has been closed by the history
func (t *c19Tree) flagHolderClosed(n *c19Node) bool {
	for s := n.canon.shares; s != nil; s = s.canon.shares {
		if s.canon.closeCalls > 0 {
			return true
		}
	}
	return false
}

const (
	c19False = iota
	c19True
	c19Unfixed
)

func c19AnyClosed(ns []*c19Node) bool {
	for _, x := range ns {
		if x.canon.closeCalls > 0 {
			return true
		}
	}
	return false
}

// expect is the reference model of W.Closed(): what the statement fixes, and the clause that is
// violated when the observation differs.
func (t *c19Tree) expect(n *c19Node) (int, string) {
	if n.canon.closeCalls > 0 {
		return c19True, "closed-false-after-close"
	}
	if !c19AnyClosed(n.chain) {
		return c19False, "closed-true-before-any-close"
	}
	if n.spec.C == "ReadWriteCloser" {
		hr, hw := t.half(n, 0), t.half(n, 1)
		if hr == c19False || hw == c19False {
			return c19False, "pair-closed-true-with-open-half"
		}
		if hr == c19True && hw == c19True {
			return c19True, "pair-closed-false-with-both-halves-closed"
		}
		return c19Unfixed, ""
	}
	// only wrappers below W have been closed: W itself has not, and nothing has closed it from above
	if !c19AnyClosed(n.anc) && !t.flagHolderClosed(n) {
		return c19False, "closed-true-before-own-close"
	}
	return c19Unfixed, ""
}

// half: is the reader (0) / writer (1) half of pair n certainly closed / certainly open
func (t *c19Tree) half(n *c19Node, side int) int {
	k := n.kidNodes[side]
	if k != nil && n.halfReused[side] {
		v, _ := t.expect(k)
		return v
	}
	// the half is a wrapper private to the pair, closed by the pair only: it is certainly open while
	// nothing above it (the pair, its ancestors) has been closed
	if c19AnyClosed(n.anc) || n.canon.closeCalls > 0 {
		return c19Unfixed
	}
	return c19False
}

// ---- histories -------------------------------------------------------------------------------

const (
	c19OpRead = iota
	c19OpWrite
	c19OpClose
	c19OpClosed
	c19OpString
	c19OpTryClose
	c19OpLogClose
	c19NumOps
	c19OpBuild = c19NumOps // construct a `late` wrapper now; never part of an alphabet of calls
)

var c19OpNames = []string{"Read", "Write", "Close", "Closed", "String", "TryClose", "LogClose", "Build"}

type c19Op struct {
	N  int    `json:"n"`  // wrapper number, pre-order in the configuration (0 = outermost)
	Op string `json:"op"` // Read | Write | Close | Closed | String | TryClose | LogClose | Build
}

type c19Step struct {
	n  *c19Node
	op int
}

type c19Case struct {
	Config string   `json:"config"`
	Spec   *c19Spec `json:"spec"`
	Late   []int    `json:"late,omitempty"` // wrappers built by a Build step (or by the epilogue) instead of before the history
	Ops    []c19Op  `json:"ops"`
	Text   string   `json:"history"`
}

func (t *c19Tree) desc(steps []c19Step) c19Case {
	d := c19Case{Config: t.spec.String(), Spec: t.spec, Ops: []c19Op{}}
	var txt []string
	for i, l := range t.late {
		if l {
			d.Late = append(d.Late, i)
		}
	}
	if len(d.Late) > 0 {
		txt = append(txt, fmt.Sprintf("late=%v", d.Late))
	}
	for _, s := range steps {
		d.Ops = append(d.Ops, c19Op{s.n.idx, c19OpNames[s.op]})
		txt = append(txt, fmt.Sprintf("%s#%d.%s", s.n.spec.C, s.n.idx, c19OpNames[s.op]))
	}
	d.Text = strings.Join(txt, " ; ")
	return d
}

func (t *c19Tree) has(n *c19Node, op int) bool {
	switch op {
	case c19OpRead:
		_, ok := n.obj.(io.Reader)
		return ok
	case c19OpWrite:
		_, ok := n.obj.(io.Writer)
		return ok
	}
	return true
}

type c19Runner struct {
	rec *vcommon.Rec
	buf [8]byte
	// local counters, flushed into rec.Stat at the end (Stat takes a mutex)
	c      [c19NumCounters]int64
	calls  [c19NumOps + 1]int64
	depths [8]int64
}

const (
	c19CLeafCountComparisons = iota
	c19CLeafClosedOnceComparisons
	c19CClosedAssertedFalse
	c19CPairPartialStateAssertions
	c19CClosedAssertedTrue
	c19CClosedNotFixedByStatement
	c19CRepeatCloseResultsChecked
	c19CFirstCloseErrorsSeen
	c19CFirstCloseNilOverFailingResource
	c19CEpilogueClosedQueries
	c19CHistories
	c19CCallsInHistories
	c19CStreamconnectionUnderlyingClosed
	c19CExhaustiveHistories7callsLen0to4
	c19CExhaustiveHistories5callsLen4
	c19CExhaustiveHistories7callsLen0to3
	c19CExhaustiveConfigurations
	c19CRandomConfigurations
	c19CRandomWrappersReusedByConstructor
	c19CRandomHistories
	c19CExhaustiveConfigurationsWithLen4
	c19CCarrierConfigurations
	c19CCarrierHistories7callsLen0to3
	c19CCarrierHistories5callsLen4
	c19CCarrierHistories7callsLen0to4
	c19CCarrierRandomConfigurations
	c19CCarrierRandomHistories
	c19CCarrierWrappersClosedByHistory
	c19CFirstCloseOverClosedCarrier
	c19CClosedAssertedFalseOverClosedCarrier
	c19CLateItems
	c19CLateExhaustiveHistories
	c19CLateRandomConfigurations
	c19CLateRandomHistories
	c19CWrappersBuiltDuringHistory
	c19CWrappersBuiltByEpilogue
	c19CWrappersBuiltOverClosedInner
	c19CWrappersBuiltOverFailedInnerClose
	c19CWrappersBuiltOverUsedInner
	c19CClosedAssertedFalseBeforeOwnClose
	c19CClosedAssertedFalseBuiltOverClosedInner
	c19CFirstCloseBuiltOverClosedInner
	c19NumCounters
)

var c19CounterNames = []string{
	"leaf_count_comparisons",
	"leaf_closed_once_comparisons",
	"closed_asserted_false",
	"pair_partial_state_assertions",
	"closed_asserted_true",
	"closed_not_fixed_by_statement",
	"repeat_close_results_checked",
	"first_close_errors_seen",
	"first_close_nil_over_failing_resource",
	"epilogue_closed_queries",
	"histories",
	"calls_in_histories",
	"streamconnection_underlying_closed(observation)",
	"exhaustive_histories_7calls_len0to4",
	"exhaustive_histories_5calls_len4",
	"exhaustive_histories_7calls_len0to3",
	"exhaustive_configurations",
	"random_configurations",
	"random_wrappers_reused_by_constructor",
	"random_histories",
	"exhaustive_configurations_with_len4",
	"carrier_exhaustive_configurations",
	"carrier_exhaustive_histories_7calls_len0to3",
	"carrier_exhaustive_histories_5calls_len4",
	"carrier_exhaustive_histories_7calls_len0to4",
	"carrier_random_configurations",
	"carrier_random_histories",
	"carrier_wrapper_close_calls_by_history",
	"first_close_at_or_above_streamconnection_over_closed_carrier",
	"closed_asserted_false_over_closed_carrier",
	"late_exhaustive_items(configuration x late set)",
	"late_exhaustive_histories",
	"late_random_configurations",
	"late_random_histories",
	"wrappers_built_by_a_build_step",
	"wrappers_built_by_the_epilogue",
	"wrappers_built_over_closed_inner_wrapper",
	"wrappers_built_over_inner_wrapper_whose_close_failed",
	"wrappers_built_over_read_or_written_inner",
	"closed_asserted_false_with_only_inner_wrappers_closed",
	"closed_asserted_false_on_wrapper_built_over_closed_inner",
	"first_close_of_wrapper_built_over_closed_inner",
}

func (r *c19Runner) flush() {
	for i, v := range r.c {
		if v != 0 {
			r.rec.Stat(c19CounterNames[i], v)
		}
		r.c[i] = 0
	}
	for i, v := range r.calls {
		if v != 0 {
			r.rec.Stat("calls:"+c19OpNames[i], v)
		}
		r.calls[i] = 0
	}
	for i, v := range r.depths {
		if v != 0 {
			r.rec.Stat(fmt.Sprintf("random_configurations_depth%d", i), v)
		}
		r.depths[i] = 0
	}
}

type c19Viol struct {
	node   *c19Node // the wrapper the signature names
	leaf   *c19res  // the resource concerned (nil: all resources below node)
	clause string
	obs    map[string]interface{}
}

func (t *c19Tree) failing(n *c19Node) bool {
	for _, l := range n.below {
		if l.fail {
			return true
		}
	}
	return false
}

// carrierClosed: n is, or stands above, a StreamConnection whose carrier (a wrapper with its own
// handle) has been closed by the history
func (t *c19Tree) carrierClosed(n *c19Node) bool {
	for _, sc := range n.carriers {
		if c19AnyClosed(sc.sideAll) {
			return true
		}
	}
	return false
}

// noteClose keeps the evidence counters of the carrier situations; called before the model counts a
// Close() call on n
func (t *c19Tree) noteClose(r *c19Runner, n *c19Node) {
	if n.inSide {
		r.c[c19CCarrierWrappersClosedByHistory]++
	}
	if n.canon.closeCalls == 0 && len(n.carriers) > 0 && t.carrierClosed(n) {
		r.c[c19CFirstCloseOverClosedCarrier]++
	}
	if n.canon.closeCalls == 0 && n.overClosed {
		r.c[c19CFirstCloseBuiltOverClosedInner]++
	}
}

// build executes a Build step (or the epilogue's construction of a wrapper still unbuilt)
func (t *c19Tree) build(r *c19Runner, n *c19Node, epilogue bool) {
	t.construct(n)
	n.builtLate = true
	if epilogue {
		r.c[c19CWrappersBuiltByEpilogue]++
	} else {
		r.c[c19CWrappersBuiltDuringHistory]++
	}
	if n.overClosed {
		r.c[c19CWrappersBuiltOverClosedInner]++
	}
	if n.overFailed {
		r.c[c19CWrappersBuiltOverFailedInnerClose]++
	}
	for _, l := range n.below {
		if l.reads+l.writes > 0 {
			r.c[c19CWrappersBuiltOverUsedInner]++
			break
		}
	}
}

// checkLeaves: no fake closed twice; every fake below a closed wrapper closed exactly once.
// A double close is signed by the wrapper directly above the resource, a missing close by the
// closed wrapper whose Close did not reach the resource.
func (t *c19Tree) checkLeaves(r *c19Runner) *c19Viol {
	for i, l := range t.leaves {
		r.c[c19CLeafCountComparisons]++
		if l.closes > 1 {
			return &c19Viol{l.above, l, "close-count>1", map[string]interface{}{"leaf": i, "close_calls_on_resource": l.closes}}
		}
	}
	for _, n := range t.nodes {
		if n.canon.closeCalls == 0 {
			continue
		}
		for _, l := range n.below {
			r.c[c19CLeafClosedOnceComparisons]++
			if l.closes != 1 {
				return &c19Viol{n, l, "resource-not-closed", map[string]interface{}{"closed_wrapper": fmt.Sprintf("%s#%d", n.spec.C, n.idx), "resource_below": c19LeafNames[l.kind], "close_calls_on_resource": l.closes}}
			}
		}
	}
	return nil
}

func (t *c19Tree) checkClosed(r *c19Runner, n *c19Node, got bool) *c19Viol {
	want, clause := t.expect(n)
	switch want {
	case c19False:
		r.c[c19CClosedAssertedFalse]++
		if clause == "closed-true-before-own-close" {
			r.c[c19CClosedAssertedFalseBeforeOwnClose]++
		}
		if n.overClosed {
			r.c[c19CClosedAssertedFalseBuiltOverClosedInner]++
		}
		if len(n.carriers) > 0 && t.carrierClosed(n) {
			r.c[c19CClosedAssertedFalseOverClosedCarrier]++
		}
		if clause == "pair-closed-true-with-open-half" {
			r.c[c19CPairPartialStateAssertions]++
		}
		if got {
			return &c19Viol{n, nil, clause, map[string]interface{}{"Closed()": got}}
		}
	case c19True:
		r.c[c19CClosedAssertedTrue]++
		if clause == "pair-closed-false-with-both-halves-closed" {
			r.c[c19CPairPartialStateAssertions]++
		}
		if !got {
			return &c19Viol{n, nil, clause, map[string]interface{}{"Closed()": got}}
		}
	default:
		r.c[c19CClosedNotFixedByStatement]++
	}
	return nil
}

// step executes one call of the history on the real wrapper and compares with the model.
func (t *c19Tree) step(r *c19Runner, s c19Step) *c19Viol {
	n := s.n
	var v *c19Viol
	r.calls[s.op]++
	panicked, site, val := vcommon.Guard(func() {
		switch s.op {
		case c19OpBuild:
			t.build(r, n, false)
		case c19OpRead:
			if rd, ok := n.obj.(io.Reader); ok {
				rd.Read(r.buf[:])
			}
		case c19OpWrite:
			if wr, ok := n.obj.(io.Writer); ok {
				wr.Write(r.buf[:])
			}
		case c19OpString:
			_ = fmt.Sprintf("%v", n.obj)
		case c19OpClosed:
			v = t.checkClosed(r, n, n.obj.(Closed).Closed())
		case c19OpClose:
			prior := n.canon.closeCalls
			err := n.obj.(io.Closer).Close()
			t.noteClose(r, n)
			n.canon.closeCalls++
			if prior > 0 {
				r.c[c19CRepeatCloseResultsChecked]++
				if err != nil {
					v = &c19Viol{n, nil, "repeat-close-error", map[string]interface{}{"close_number_on_this_wrapper": prior + 1, "err": err.Error()}}
				}
			} else if err != nil {
				r.c[c19CFirstCloseErrorsSeen]++
				n.canon.closeErr = true
			} else if t.failing(n) {
				r.c[c19CFirstCloseNilOverFailingResource]++
			}
		case c19OpTryClose, c19OpLogClose:
			// both helpers ask Closed() and call Close() only when it answers false; the history is
			// sequential, so asking first tells the model whether a Close() call follows
			pre := n.obj.(Closed).Closed()
			if v = t.checkClosed(r, n, pre); v != nil {
				return
			}
			prior := n.canon.closeCalls
			var err error
			if s.op == c19OpTryClose {
				TryClose(n.obj.(io.Closer))
			} else {
				err = LogClose(n.obj.(io.Closer))
			}
			if !pre {
				t.noteClose(r, n)
				n.canon.closeCalls++
			}
			if prior == 0 && !pre && err != nil {
				n.canon.closeErr = true
			}
			if prior > 0 && s.op == c19OpLogClose {
				r.c[c19CRepeatCloseResultsChecked]++
				if err != nil {
					v = &c19Viol{n, nil, "repeat-logclose-error", map[string]interface{}{"err": err.Error()}}
				}
			}
		}
	})
	if panicked {
		return &c19Viol{n, nil, "panic@" + site + ":" + c19OpNames[s.op], map[string]interface{}{"panic": val}}
	}
	if s.op >= c19OpClose {
		// a resource closed twice / not at all is the more basic observation: report it first
		if lv := t.checkLeaves(r); lv != nil {
			return lv
		}
	}
	return v
}

// run executes one history on a fresh instantiation; the epilogue asks every wrapper Closed().
// It stops at the first violation, so the recorded case is the shortest violating prefix.
func (t *c19Tree) run(r *c19Runner, steps []c19Step, key bool) bool {
	var v *c19Viol
	upto := len(steps)
	panicked, site, val := vcommon.Guard(t.instantiate)
	if panicked {
		v = &c19Viol{t.nodes[0], nil, "panic@" + site + ":construct", map[string]interface{}{"panic": val}}
		upto = 0
	}
	for i := 0; v == nil && i < len(steps); i++ {
		if v = t.step(r, steps[i]); v != nil {
			upto = i + 1
		}
	}
	for i := len(t.nodes) - 1; v == nil && i >= 0; i-- { // wrappers the history left unbuilt: arguments first
		n := t.nodes[i]
		if n.built {
			continue
		}
		if panicked, site, val := vcommon.Guard(func() { t.build(r, n, true) }); panicked {
			v = &c19Viol{n, nil, "panic@" + site + ":Build", map[string]interface{}{"panic": val, "built_by": "epilogue"}}
		}
	}
	if v == nil {
		for _, n := range t.nodes {
			if v = t.step(r, c19Step{n, c19OpClosed}); v != nil {
				break
			}
			r.calls[c19OpClosed]--
			r.c[c19CEpilogueClosedQueries]++
		}
		if v == nil {
			v = t.checkLeaves(r)
		}
	}
	r.c[c19CHistories]++
	r.c[c19CCallsInHistories] += int64(len(steps))
	if t.side.closes > 0 {
		r.c[c19CStreamconnectionUnderlyingClosed]++
	}
	if key {
		r.rec.Case(t.spec.String()+"/"+t.desc(steps).Text, true)
	} else {
		r.rec.Case("", false)
	}
	if v == nil {
		return true
	}
	sig := v.node.shape + ":" + v.clause
	if (v.leaf != nil && v.leaf.fail) || (v.leaf == nil && t.failing(v.node)) {
		sig += ":underlying-close-fails"
	}
	if t.carrierClosed(v.node) {
		// the signing wrapper is, or stands above, a StreamConnection whose carrier was closed first
		sig += ":over-closed-carrier"
	}
	if v.node.builtLate && v.node.overClosed {
		// the signing wrapper was constructed when a wrapper below it had already been closed
		sig += ":built-over-closed-inner"
	}
	obs := v.obs
	obs["signed_by_wrapper"] = fmt.Sprintf("%s#%d", v.node.spec.C, v.node.idx)
	cl := make([]int, len(t.leaves))
	for i, l := range t.leaves {
		cl[i] = l.closes
	}
	obs["close_calls_per_resource"] = cl
	r.rec.Violation(sig, t.desc(steps[:upto]), obs)
	return false
}

// alphabet: every (wrapper, call) pair available in the configuration
func (t *c19Tree) alphabet(nops int) []c19Step {
	t.instantiate()
	var a []c19Step
	for _, n := range t.nodes {
		for op := 0; op < nops; op++ {
			if t.has(n, op) {
				a = append(a, c19Step{n, op})
			}
		}
	}
	return a
}

// exhaust runs every history of length minLen..maxLen over the alphabet. With first >= 0 only the
// histories that start with letter `first` are run (work split of the long lengths; minLen >= 1).
func (t *c19Tree) exhaust(r *c19Runner, alpha []c19Step, minLen, maxLen int, keyLen int, first int) int64 {
	var total int64
	stop := -1
	if first >= 0 {
		stop = 0
	}
	for l := minLen; l <= maxLen; l++ {
		idx := make([]int, l)
		if first >= 0 {
			idx[0] = first
		}
		steps := make([]c19Step, l)
		for {
			for i, x := range idx {
				steps[i] = alpha[x]
			}
			t.run(r, steps, l <= keyLen)
			total++
			p := l - 1
			for p > stop {
				idx[p]++
				if idx[p] < len(alpha) {
					break
				}
				idx[p] = 0
				p--
			}
			if p <= stop {
				break
			}
		}
	}
	return total
}

// lateSets lists the sets of wrappers that can be built during a history: closed upwards (a wrapper
// needs its arguments, the carrier included), not empty, and not all wrappers (with everything late
// the first step could only be a Build, which is the same as a smaller set).
func (t *c19Tree) lateSets() [][]bool {
	var res [][]bool
	n := len(t.nodes)
	for m := 1; m < (1<<uint(n))-1; m++ {
		ok := true
		for i, x := range t.nodes {
			if m&(1<<uint(i)) != 0 && x.parent != nil && m&(1<<uint(x.parent.idx)) == 0 {
				ok = false
			}
		}
		if !ok {
			continue
		}
		late := make([]bool, n)
		for i := range late {
			late[i] = m&(1<<uint(i)) != 0
		}
		res = append(res, late)
	}
	return res
}

// exhaustLate runs every history with at least one and at most maxOps calls (from alpha, on built
// wrappers only) into which Build steps of the late wrappers are inserted at every possible place
// after the first call (never last: the epilogue builds what is left, so "built after everything" is
// the history without the Build step).
func (t *c19Tree) exhaustLate(r *c19Runner, alpha []c19Step, late []bool, maxOps int, keyLen int) int64 {
	t.late = late
	defer func() { t.late = nil }()
	built := make([]bool, len(t.nodes))
	for i := range built {
		built[i] = !late[i]
	}
	var total int64
	var steps []c19Step
	var dfs func(ops int)
	dfs = func(ops int) {
		if len(steps) > 0 && steps[len(steps)-1].op != c19OpBuild {
			t.run(r, steps, len(steps) <= keyLen)
			total++
		}
		if ops < maxOps {
			for _, a := range alpha {
				if built[a.n.idx] {
					steps = append(steps, a)
					dfs(ops + 1)
					steps = steps[:len(steps)-1]
				}
			}
		}
		if len(steps) == 0 {
			return
		}
		for _, n := range t.nodes {
			if built[n.idx] {
				continue
			}
			ready := true
			for _, k := range n.kidNodes {
				if k != nil && !built[k.idx] {
					ready = false
				}
			}
			if !ready {
				continue
			}
			built[n.idx] = true
			steps = append(steps, c19Step{n, c19OpBuild})
			dfs(ops)
			steps = steps[:len(steps)-1]
			built[n.idx] = false
		}
	}
	dfs(0)
	return total
}

// randLate draws a late set (closed upwards, not empty; may be all wrappers) and a history of l steps
// in which Build steps are interleaved with calls on the wrappers built so far.
func (t *c19Tree) randLate(rng c19Rand) []bool {
	late := make([]bool, len(t.nodes))
	mark := func(n *c19Node) {
		for ; n != nil; n = n.parent {
			late[n.idx] = true
		}
	}
	any := false
	for _, n := range t.nodes {
		if rng.Intn(3) == 0 {
			mark(n)
			any = true
		}
	}
	if !any {
		mark(t.nodes[rng.Intn(len(t.nodes))])
	}
	return late
}

func (t *c19Tree) randLateHistory(rng c19Rand, late []bool, l int) []c19Step {
	built := make([]bool, len(t.nodes))
	nbuilt := 0
	for i := range built {
		built[i] = !late[i]
		if built[i] {
			nbuilt++
		}
	}
	steps := make([]c19Step, 0, l)
	for len(steps) < l {
		var ready []*c19Node
		for _, n := range t.nodes {
			if built[n.idx] {
				continue
			}
			ok := true
			for _, k := range n.kidNodes {
				if k != nil && !built[k.idx] {
					ok = false
				}
			}
			if ok {
				ready = append(ready, n)
			}
		}
		if len(ready) > 0 && (nbuilt == 0 || rng.Intn(4) == 0) {
			n := ready[rng.Intn(len(ready))]
			built[n.idx] = true
			nbuilt++
			steps = append(steps, c19Step{n, c19OpBuild})
			continue
		}
		n := t.nodes[rng.Intn(len(t.nodes))]
		op := c19RandOp(rng)
		if !built[n.idx] || !t.has(n, op) {
			continue
		}
		steps = append(steps, c19Step{n, op})
	}
	return steps
}

// ---- random configurations -------------------------------------------------------------------

type c19Rand interface {
	Intn(n int) int
	Float64() float64
}

// c19RandSpec draws a configuration whose value fits `want` (root: any outermost constructor).
// carrier: a StreamConnection gets, two times out of three, an explicit connection to run over
// (with carrier == false the draws are exactly those of the plain random family).
func c19RandSpec(rng c19Rand, want, depth int, root bool, carrier bool) *c19Spec {
	if !root && (depth == 0 || rng.Intn(6) == 0) {
		var fit []int
		for k := range c19LeafNames {
			if c19Fits(k, want) {
				fit = append(fit, k)
			}
		}
		k := want
		if rng.Intn(4) == 0 { // a wider fake than required (e.g. a net.Conn used as io.ReadCloser)
			k = fit[rng.Intn(len(fit))]
		}
		return &c19Spec{C: c19LeafNames[k], Fail: rng.Intn(3) == 0}
	}
	var fit []*c19Ctor
	for i := range c19Ctors {
		if root || c19Fits(c19Ctors[i].out, want) {
			fit = append(fit, &c19Ctors[i])
		}
	}
	ct := fit[rng.Intn(len(fit))]
	s := &c19Spec{C: ct.name}
	for _, in := range ct.in {
		s.Kids = append(s.Kids, c19RandSpec(rng, in, depth-1, false, carrier))
	}
	if carrier && len(ct.opt) > 0 && rng.Intn(3) != 0 {
		s.Kids = append(s.Kids, c19RandCarrier(rng, depth-1))
	}
	return s
}

// c19RandCarrier draws the connection a StreamConnection runs over: a composition of connection
// wrappers of depth 1..min(2,depth) (one time out of eight, and at the nesting bound, a bare fake,
// which has no handle of its own)
func c19RandCarrier(rng c19Rand, depth int) *c19Spec {
	if rng.Intn(8) == 0 {
		return &c19Spec{C: "conn", Fail: rng.Intn(3) == 0}
	}
	if depth < 1 {
		return &c19Spec{C: "conn", Fail: rng.Intn(3) == 0} // nesting bound reached
	}
	if depth > 2 {
		depth = 1 + rng.Intn(2)
	}
	var fit []*c19Ctor
	for i := range c19Ctors {
		if c19Ctors[i].out == c19Conn {
			fit = append(fit, &c19Ctors[i])
		}
	}
	ct := fit[rng.Intn(len(fit))]
	s := &c19Spec{C: ct.name}
	for _, in := range ct.in {
		s.Kids = append(s.Kids, c19RandSpec(rng, in, depth-1, false, true))
	}
	if len(ct.opt) > 0 && depth > 1 && rng.Intn(2) == 0 {
		s.Kids = append(s.Kids, c19RandCarrier(rng, depth-1))
	}
	return s
}

// c19CarrierConfigs lists the exhaustive carrier family: StreamConnection(w;over=u) with w a stream
// fake (Close succeeds / fails) and u every connection wrapper composition of depth 1..udepth over
// fakes that succeed or fail, bare and (outer) as the argument of every constructor that takes a
// connection (the pair: as its reader half over a writer fake, and as its writer half over a reader fake).
func c19CarrierConfigs(udepth int, outer bool) []*c19Spec {
	var carriers []*c19Spec
	for i := range c19Ctors {
		if c19Ctors[i].out == c19Conn {
			carriers = append(carriers, c19EnumCtor(&c19Ctors[i], udepth)...)
		}
	}
	var res []*c19Spec
	for _, w := range c19Enum(c19Stream, 0) {
		for _, u := range carriers {
			sc := func() *c19Spec { return &c19Spec{C: "StreamConnection", Kids: []*c19Spec{w, u}} }
			if !outer {
				res = append(res, sc())
				continue
			}
			for i := range c19Ctors {
				ct := &c19Ctors[i]
				if len(ct.in) == 1 {
					if c19Fits(c19Conn, ct.in[0]) {
						res = append(res, &c19Spec{C: ct.name, Kids: []*c19Spec{sc()}})
					}
					continue
				}
				res = append(res, &c19Spec{C: ct.name, Kids: []*c19Spec{sc(), {C: "w"}}})
				res = append(res, &c19Spec{C: ct.name, Kids: []*c19Spec{{C: "r"}, sc()}})
			}
		}
	}
	return res
}

var c19OpWeights = []int{12, 12, 30, 20, 8, 9, 9} // Read Write Close Closed String TryClose LogClose

func c19RandOp(rng c19Rand) int {
	x := rng.Intn(100)
	for op, w := range c19OpWeights {
		if x < w {
			return op
		}
		x -= w
	}
	return c19OpClose
}

// ---- test ------------------------------------------------------------------------------------

func TestVerifC19(t *testing.T) {
	logrus.SetLevel(logrus.PanicLevel)
	logrus.SetOutput(io.Discard)

	rec := vcommon.Open()
	defer rec.Close()
	r := &c19Runner{rec: rec}
	defer r.flush()

	if rec.Replay != nil {
		var d c19Case
		if err := json.Unmarshal(rec.Replay, &d); err != nil {
			t.Fatal(err)
		}
		tr, err := c19NewTree(d.Spec)
		if err != nil {
			t.Fatal(err)
		}
		if len(d.Late) > 0 {
			tr.late = make([]bool, len(tr.nodes))
			for _, i := range d.Late {
				if i < 0 || i >= len(tr.nodes) {
					t.Fatalf("bad late wrapper %d", i)
				}
				tr.late[i] = true
			}
		}
		var steps []c19Step
		for _, o := range d.Ops {
			op := -1
			for i, nm := range c19OpNames {
				if nm == o.Op {
					op = i
				}
			}
			if op < 0 || o.N < 0 || o.N >= len(tr.nodes) {
				t.Fatalf("bad op %+v", o)
			}
			steps = append(steps, c19Step{tr.nodes[o.N], op})
		}
		// a call needs a built wrapper, a Build step an unbuilt one whose arguments exist
		tr.instantiate()
		for _, st := range steps {
			if st.op == c19OpBuild {
				if !tr.buildable(st.n) {
					t.Fatalf("wrapper %d cannot be built at this point", st.n.idx)
				}
				tr.construct(st.n)
			} else if !st.n.built {
				t.Fatalf("call on wrapper %d before it is built", st.n.idx)
			}
		}
		tr.run(r, steps, true)
		return
	}

	// work items: first every configuration of depth <= 2 (exhaustive histories), then batches of
	// random configurations; an item's content is a pure function of (seed, tier, item number)
	var exh []*c19Spec
	for i := range c19Ctors {
		exh = append(exh, c19EnumCtor(&c19Ctors[i], 2)...)
	}
	// thorough: all seven calls (incl. the TryClose/LogClose helpers), length <= 4;
	// quick: all seven calls for length <= 3, plus length 4 over the five calls of the statement
	// work items are dealt to the shards through a fixed scrambling of their number (the
	// configuration list is very regular, plain modulo would give some shards all the expensive ones);
	// the length-4 histories of a configuration are one item per first call
	item := 0
	mine := func() bool {
		i := item
		item++
		return rec.Mine(int((uint32(i) * 2654435761) >> 9))
	}
	for ci, spec := range exh {
		tr, err := c19NewTree(spec)
		if err != nil {
			t.Fatalf("%s: %v", spec, err)
		}
		full := tr.alphabet(c19NumOps)
		if mine() {
			rec.Mark(map[string]string{"config": spec.String(), "family": "exhaustive len<=3"})
			n := tr.exhaust(r, full, 0, 3, 2, -1)
			if rec.Thorough() {
				r.c[c19CExhaustiveHistories7callsLen0to4] += n
			} else {
				r.c[c19CExhaustiveHistories7callsLen0to3] += n
			}
			r.c[c19CExhaustiveConfigurations]++
			rec.Seen("exhaustive_outermost", spec.C)
			rec.StatMax("wrappers_in_exhaustive_configuration", int64(len(tr.nodes)))
			if ci%97 == 1 {
				rec.Sample(tr.desc([]c19Step{full[len(full)/2], full[len(full)-1], full[2%len(full)]}))
			}
		}
		if rec.Thorough() {
			for f := range full {
				if mine() {
					rec.Mark(map[string]interface{}{"config": spec.String(), "family": "exhaustive len=4", "first": f})
					r.c[c19CExhaustiveHistories7callsLen0to4] += tr.exhaust(r, full, 4, 4, 0, f)
				}
			}
		} else {
			// length 4 (the five calls of the statement; shorter ones are covered above): everything
			// except the mixed succeed/fail patterns below a depth-2 pair, which cost a stack trace
			// per failing Close and are left to the thorough tier
			nfail := 0
			for _, l := range tr.leaves {
				if l.fail {
					nfail++
				}
			}
			if spec.C != "ReadWriteCloser" || len(tr.nodes) == 1 || nfail == 0 || nfail == len(tr.leaves) {
				five := tr.alphabet(c19OpString + 1)
				for f := range five {
					if mine() {
						rec.Mark(map[string]interface{}{"config": spec.String(), "family": "exhaustive len=4", "first": f})
						r.c[c19CExhaustiveHistories5callsLen4] += tr.exhaust(r, five, 4, 4, 0, f)
						if f == 0 {
							r.c[c19CExhaustiveConfigurationsWithLen4]++
						}
					}
				}
			}
		}
		r.flush()
	}

	batches := rec.Pick(320, 2400)
	perConfig := rec.Pick(40, 100)
	configsPerBatch := rec.Pick(25, 50)
	keyed := rec.Pick(40, 8) // histories per configuration whose key enters the distinct set (memory bound)
	for b := 0; b < batches; b++ {
		if !mine() {
			continue
		}
		rng := vcommon.NewRand(rec.Seed(), fmt.Sprintf("c19/random/%d", b))
		rec.Mark(map[string]interface{}{"family": "random", "batch": b})
		for c := 0; c < configsPerBatch; c++ {
			depth := 3 + rng.Intn(2)
			if rng.Intn(8) == 0 {
				depth = 1 + rng.Intn(2)
			}
			spec := c19RandSpec(rng, 0, depth, true, false)
			tr, err := c19NewTree(spec)
			if err != nil {
				t.Fatalf("%s: %v", spec, err)
			}
			tr.instantiate()
			rec.Seen("random_outermost_shape", tr.nodes[0].shape)
			rec.StatMax("random_depth", int64(spec.depth()))
			rec.StatMax("random_wrappers_in_configuration", int64(len(tr.nodes)))
			r.c[c19CRandomConfigurations]++
			r.depths[spec.depth()]++
			for _, n := range tr.nodes {
				for _, k := range n.spec.Kids {
					rec.Seen("constructor_over_argument", n.spec.C+">"+k.C)
				}
				if n.canon != n {
					r.c[c19CRandomWrappersReusedByConstructor]++
				}
			}
			for h := 0; h < perConfig; h++ {
				l := 1 + rng.Intn(12)
				if rng.Intn(3) == 0 {
					l = 5 + rng.Intn(8)
				}
				steps := make([]c19Step, 0, l)
				for len(steps) < l {
					n := tr.nodes[rng.Intn(len(tr.nodes))]
					op := c19RandOp(rng)
					if !tr.has(n, op) {
						continue
					}
					steps = append(steps, c19Step{n, op})
				}
				ok := tr.run(r, steps, h < keyed)
				r.c[c19CRandomHistories]++
				rec.StatMax("random_history_length", int64(l))
				if ok && b < 3 && c == 0 && h == 0 {
					rec.Sample(tr.desc(steps))
				}
			}
		}
		r.flush()
	}

	// ---- carriers: StreamConnections that run over a wrapper with its own handle ----------------
	// exhaustive: quick = carrier depth 1, bare (lengths 0-3 over all seven calls + length 4 over the
	// five calls of the statement) and below every outer constructor (lengths 0-3); thorough = the same
	// with length 4 over all seven calls, plus carrier depth 2 bare (lengths 0-3)
	type carrierFam struct {
		specs  []*c19Spec
		len4   int // 0: none, 5: the five calls of the statement, 7: all calls
		family string
	}
	fams := []carrierFam{
		{c19CarrierConfigs(1, false), rec.Pick(5, 7), "carrier depth 1"},
		{c19CarrierConfigs(1, true), rec.Pick(0, 7), "carrier depth 1 below an outer wrapper"},
	}
	if rec.Thorough() {
		var deep []*c19Spec
		for _, sp := range c19CarrierConfigs(2, false) {
			if sp.Kids[1].depth() == 2 {
				deep = append(deep, sp)
			}
		}
		fams = append(fams, carrierFam{deep, 0, "carrier depth 2"})
	}
	for _, fam := range fams {
		for ci, spec := range fam.specs {
			tr, err := c19NewTree(spec)
			if err != nil {
				t.Fatalf("%s: %v", spec, err)
			}
			full := tr.alphabet(c19NumOps)
			if mine() {
				rec.Mark(map[string]string{"config": spec.String(), "family": fam.family + " len<=3"})
				n := tr.exhaust(r, full, 0, 3, 2, -1)
				if fam.len4 == 7 {
					r.c[c19CCarrierHistories7callsLen0to4] += n
				} else {
					r.c[c19CCarrierHistories7callsLen0to3] += n
				}
				r.c[c19CCarrierConfigurations]++
				rec.Seen("carrier_outermost_shape", tr.nodes[0].shape)
				for _, x := range tr.nodes {
					if len(x.sideAll) > 0 {
						rec.Seen("streamconnection_over_carrier", x.shape)
					}
				}
				if ci%41 == 1 {
					rec.Sample(tr.desc([]c19Step{full[len(full)-1], full[2%len(full)]}))
				}
			}
			if fam.len4 == 0 {
				continue
			}
			alpha := full
			if fam.len4 == 5 {
				alpha = tr.alphabet(c19OpString + 1)
			}
			for f := range alpha {
				if mine() {
					rec.Mark(map[string]interface{}{"config": spec.String(), "family": fam.family + " len=4", "first": f})
					n := tr.exhaust(r, alpha, 4, 4, 0, f)
					if fam.len4 == 7 {
						r.c[c19CCarrierHistories7callsLen0to4] += n
					} else {
						r.c[c19CCarrierHistories5callsLen4] += n
					}
				}
			}
		}
		r.flush()
	}

	// random: configurations of depth <= 4 in which at least one StreamConnection runs over a wrapper
	cbatches := rec.Pick(96, 800)
	for b := 0; b < cbatches; b++ {
		if !mine() {
			continue
		}
		rng := vcommon.NewRand(rec.Seed(), fmt.Sprintf("c19/random-carrier/%d", b))
		rec.Mark(map[string]interface{}{"family": "random carrier", "batch": b})
		for c := 0; c < configsPerBatch; c++ {
			var spec *c19Spec
			for try := 0; try < 40 && (spec == nil || !spec.hasCarrier()); try++ {
				spec = c19RandSpec(rng, 0, 3+rng.Intn(2), true, true)
			}
			if !spec.hasCarrier() {
				// directed: a StreamConnection over a drawn carrier, bare or below one outer wrapper
				w := c19RandSpec(rng, c19Stream, 2, false, true)
				var u *c19Spec
				for u == nil || len(u.Kids) == 0 {
					u = c19RandCarrier(rng, 2)
				}
				spec = &c19Spec{C: "StreamConnection", Kids: []*c19Spec{w, u}}
				if rng.Intn(2) == 0 {
					spec = &c19Spec{C: []string{"SafeConnection", "NamedConnection", "SafeStream", "NamedStream", "SimulatedConnection"}[rng.Intn(5)], Kids: []*c19Spec{spec}}
				}
			}
			tr, err := c19NewTree(spec)
			if err != nil {
				t.Fatalf("%s: %v", spec, err)
			}
			tr.instantiate()
			rec.StatMax("carrier_random_depth", int64(spec.depth()))
			rec.StatMax("carrier_random_wrappers_in_configuration", int64(len(tr.nodes)))
			r.c[c19CCarrierRandomConfigurations]++
			for _, n := range tr.nodes {
				if len(n.sideAll) > 0 {
					rec.Seen("streamconnection_over_carrier", n.shape)
					if n.parent != nil {
						rec.Seen("constructor_over_streamconnection_with_carrier", n.parent.spec.C)
					}
				}
			}
			for h := 0; h < perConfig; h++ {
				l := 1 + rng.Intn(12)
				if rng.Intn(3) == 0 {
					l = 5 + rng.Intn(8)
				}
				steps := make([]c19Step, 0, l)
				for len(steps) < l {
					n := tr.nodes[rng.Intn(len(tr.nodes))]
					op := c19RandOp(rng)
					if !tr.has(n, op) {
						continue
					}
					steps = append(steps, c19Step{n, op})
				}
				ok := tr.run(r, steps, h < keyed)
				r.c[c19CCarrierRandomHistories]++
				if ok && b < 2 && c == 0 && h == 0 {
					rec.Sample(tr.desc(steps))
				}
			}
		}
		r.flush()
	}

	// ---- construction time: wrappers built at every point of the life of what they wrap ----------
	// exhaustive: every configuration of the two exhaustive families above with at least two wrappers
	// x every late set x every history of 1..N calls over all seven calls with the Build steps at every
	// possible place; N = 3 (thorough 4) for two wrappers, 2 (thorough 3) for three wrappers
	lateSpecs := append([]*c19Spec{}, exh...)
	lateSpecs = append(lateSpecs, c19CarrierConfigs(1, false)...)
	lateSpecs = append(lateSpecs, c19CarrierConfigs(1, true)...)
	for ci, spec := range lateSpecs {
		tr, err := c19NewTree(spec)
		if err != nil {
			t.Fatalf("%s: %v", spec, err)
		}
		if len(tr.nodes) < 2 {
			continue
		}
		var full []c19Step
		for li, late := range tr.lateSets() {
			if !mine() {
				continue
			}
			if full == nil {
				full = tr.alphabet(c19NumOps)
			}
			tr.late = late
			rec.Mark(map[string]interface{}{"config": spec.String(), "family": "construction time", "late": tr.desc(nil).Late})
			maxOps := rec.Pick(2, 3)
			if len(tr.nodes) == 2 {
				maxOps = rec.Pick(3, 4)
			}
			r.c[c19CLateExhaustiveHistories] += tr.exhaustLate(r, full, late, maxOps, 2)
			r.c[c19CLateItems]++
			for i, l := range late {
				if l {
					rec.Seen("late_built_wrapper_shape", tr.nodes[i].shape)
				}
			}
			if ci%53 == 1 && li == 0 {
				tr.late = late
				var first *c19Node
				for i := len(tr.nodes) - 1; i >= 0; i-- {
					if late[i] {
						first = tr.nodes[i]
						break
					}
				}
				rec.Sample(tr.desc([]c19Step{{tr.nodes[len(tr.nodes)-1], c19OpClose}, {first, c19OpBuild}, {first, c19OpClosed}}))
				tr.late = nil
			}
		}
		r.flush()
	}

	// random: configurations of depth <= 4 (every second one with carriers), a fresh late set and a
	// history with interleaved Build steps per run
	lbatches := rec.Pick(128, 1000)
	for b := 0; b < lbatches; b++ {
		if !mine() {
			continue
		}
		rng := vcommon.NewRand(rec.Seed(), fmt.Sprintf("c19/random-late/%d", b))
		rec.Mark(map[string]interface{}{"family": "random construction time", "batch": b})
		for c := 0; c < configsPerBatch; c++ {
			depth := 2 + rng.Intn(3)
			spec := c19RandSpec(rng, 0, depth, true, c%2 == 1)
			tr, err := c19NewTree(spec)
			if err != nil {
				t.Fatalf("%s: %v", spec, err)
			}
			tr.instantiate()
			r.c[c19CLateRandomConfigurations]++
			rec.StatMax("late_random_depth", int64(spec.depth()))
			rec.StatMax("late_random_wrappers_in_configuration", int64(len(tr.nodes)))
			for h := 0; h < perConfig; h++ {
				l := 2 + rng.Intn(12)
				if rng.Intn(3) == 0 {
					l = 6 + rng.Intn(10)
				}
				late := tr.randLate(rng)
				steps := tr.randLateHistory(rng, late, l)
				tr.late = late
				ok := tr.run(r, steps, h < keyed)
				r.c[c19CLateRandomHistories]++
				if ok && b < 2 && c == 0 && h == 0 {
					rec.Sample(tr.desc(steps))
				}
				tr.late = nil
			}
		}
		r.flush()
	}
}
