// C01: end-to-end byte-stream fidelity over every transport (DESIGN.md §4 C01).
package c01

import (
	"bytes"
	"encoding/binary"
	"encoding/json"
	"fmt"
	"io"
	"math/rand"
	"net"
	"os"
	"strings"
	"sync"
	"sync/atomic"
	"testing"
	"time"

	"github.com/bokysan/socketace/v2/internal/zzverif/e2e"
	"github.com/bokysan/socketace/v2/internal/zzverif/vcommon"
)

type c01Case struct {
	Carrier  string `json:"carrier"`
	Listener string `json:"listener"`
	LenC2T   int64  `json:"len_c2t"`
	LenT2C   int64  `json:"len_t2c"`
	SegC2T   int    `json:"write_size_c2t"` // 0 = whole payload, -1 = random partition
	SegT2C   int    `json:"write_size_t2c"`
	Content  int    `json:"content"`           // 0 keyed, 1 zeros, 2 ones
	Chan     string `json:"channel,omitempty"` // "echo" (default) or "echo2": two channels whose names share a prefix
	Seed     int64  `json:"seed"`
	Dump     bool   `json:"pipe_debug,omitempty"` // SOCKETACE_PIPE_DEBUG=1: PipeData copies through its traffic-dump path
}

var boundaryLens = []int64{1, 2, 4095, 4096, 4097, 32639, 32640, 32641, 32767, 32768, 32769, 65535, 65536, 65537, 1<<20 + 1, 3<<20 + 7}
var writeSizes = []int{1, 7, 4095, 4096, 4097, 32640, 32768, 32769, 65536, 100003, 0, -1}

func lenClass(n int64) string {
	switch {
	case n <= 2:
		return "tiny"
	case n < 4095:
		return "<4095"
	case n <= 4097:
		return "~4096"
	case n < 32639:
		return "<32639"
	case n <= 32641:
		return "~32640"
	case n <= 32769:
		return "~32768"
	case n < 65535:
		return "<65535"
	case n <= 65537:
		return "~65536"
	case n <= 1<<20+1:
		return "<=1MiB+1"
	}
	return ">1MiB"
}

func segClass(s int) string {
	switch {
	case s == 0:
		return "whole"
	case s < 0:
		return "random"
	}
	return fmt.Sprint(s)
}

func seg(size int, rng *rand.Rand, total int64) func() int {
	switch {
	case size == 0:
		return nil
	case size < 0:
		return func() int {
			switch rng.Intn(4) {
			case 0:
				return 1 + rng.Intn(16)
			case 1:
				return 1 + rng.Intn(5000)
			case 2:
				return 32000 + rng.Intn(2000)
			}
			return 1 + rng.Intn(140000)
		}
	case size == 1 && total > 20000:
		// one-byte writes for the first 3000 bytes, then larger ones (a MiB of 1-byte writes only costs time)
		n := 0
		return func() int {
			n++
			if n <= 3000 {
				return 1
			}
			return 8192
		}
	}
	return func() int { return size }
}

func maxLen(carrier string, thorough bool) int64 {
	switch {
	case strings.HasPrefix(carrier, "dns"):
		if thorough {
			return 512 << 10
		}
		return 70000
	case strings.HasPrefix(carrier, "udp"):
		if thorough {
			return 3<<20 + 7
		}
		return 128 << 10
	}
	return 3<<20 + 7
}

func runCase(rec *vcommon.Rec, p *e2e.Pair, c *c01Case) (openFailed bool) {
	c.Dump = os.Getenv("SOCKETACE_PIPE_DEBUG") == "1"
	rec.Mark(c)
	key := fmt.Sprintf("%s/%s/%d/%d/%d/%d/%d", c.Carrier, c.Listener, c.LenC2T, c.LenT2C, c.SegC2T, c.SegT2C, c.Content)
	sigBase := c.Carrier + ":" + c.Listener
	if c.Dump {
		key += "/dump"
		sigBase = c.Carrier + "(traffic-dump):" + c.Listener
	}
	chn := c.Chan
	if chn == "" || p.Targets[chn] == nil {
		chn = "echo"
	}
	app, tgt, o, err := p.Open(chn)
	if err != nil {
		rec.Violation(sigBase+":open-failed", c, err.Error())
		return true
	}
	defer func() {
		if app != nil && c.Listener != "stdio" {
			app.Close()
		}
		if tgt != nil {
			tgt.Close()
		}
	}()
	if o == e2e.Inconclusive {
		rec.Inconclusive("busy while waiting for the target to be connected", c)
		return false
	}
	if o == e2e.Stalled {
		for name, t := range p.Targets {
			if name != chn {
				if stray := t.TryNext(); stray != nil {
					stray.Close()
					rec.Violation(sigBase+":open:connected-to-the-target-of-another-channel", c, map[string]string{"asked_for": chn, "reached": name})
					return true
				}
			}
		}
		rec.Violation(sigBase+":open:target-never-connected", c, map[string]interface{}{"goroutines": e2e.Clip(e2e.Stacks(), 60000)})
		return true
	}
	rng := vcommon.NewRand(c.Seed, "c01seg/"+key)
	ab := &e2e.Stream{Key: uint64(c.Seed)*4 + 1, Len: c.LenC2T, Content: c.Content, Seg: seg(c.SegC2T, rng, c.LenC2T)}
	ba := &e2e.Stream{Key: uint64(c.Seed)*4 + 2, Len: c.LenT2C, Content: c.Content, Seg: seg(c.SegT2C, rng, c.LenT2C)}
	f := e2e.Duplex(app, tgt, ab, ba, "c2t", "t2c", []uint64{ab.Key, ba.Key})
	if f == nil {
		// conservation at the end of the stream: the application closes; the target must see
		// end-of-stream and not one byte more than was written
		if c.Listener != "stdio" {
			app.Close()
			f = e2e.ExpectEOF(tgt, "c2t")
		}
	}
	nontrivial := f == nil || !f.Inconclusive
	rec.Case(key, nontrivial)
	rec.Seen("tuple(carrier,len-class,write-size,direction)", c.Carrier+"|"+lenClass(c.LenC2T)+"|"+segClass(c.SegC2T)+"|c2t")
	rec.Seen("tuple(carrier,len-class,write-size,direction)", c.Carrier+"|"+lenClass(c.LenT2C)+"|"+segClass(c.SegT2C)+"|t2c")
	rec.Seen("carrier", c.Carrier+"/"+c.Listener)
	if f == nil {
		rec.Stat("connections:"+c.Carrier, 1)
		rec.Stat("bytes_verified_c2t:"+c.Carrier, c.LenC2T)
		rec.Stat("bytes_verified_t2c:"+c.Carrier, c.LenT2C)
		return false
	}
	if f.Inconclusive {
		rec.Inconclusive(f.Kind, c)
		return false
	}
	sig := sigBase + ":" + f.Kind
	if strings.Contains(f.Kind, "stalled") || strings.Contains(f.Kind, "mismatch") || strings.Contains(f.Kind, "short") || strings.Contains(f.Kind, "error") {
		sig += ":len" + lenClass(maxI(c.LenC2T, c.LenT2C))
	}
	rec.Violation(sig, c, f.Info)
	return false
}

func maxI(a, b int64) int64 {
	if a > b {
		return a
	}
	return b
}

// cases builds the seed-determined case list for one carrier.
func cases(rec *vcommon.Rec, carrier, lst string) []*c01Case {
	rng := vcommon.NewRand(rec.Seed(), "c01/"+carrier+"/"+lst)
	ml := maxLen(carrier, rec.Thorough())
	var lens []int64
	for _, l := range boundaryLens {
		if l <= ml {
			lens = append(lens, l)
		}
	}
	for i := 0; i < 4; i++ {
		lens = append(lens, 1+rng.Int63n(ml))
	}
	var out []*c01Case
	add := func(a, b int64, sa, sb, content int) {
		ch := "echo"
		if len(out)%3 == 1 {
			ch = "echo2" // every third connection goes to the second channel (its name extends the first one's)
		}
		out = append(out, &c01Case{Carrier: carrier, Listener: lst, LenC2T: a, LenT2C: b, SegC2T: sa, SegT2C: sb, Content: content, Chan: ch,
			Seed: rec.Seed()*100000 + int64(len(out))})
	}
	if rec.Thorough() && !strings.HasPrefix(carrier, "dns") && !strings.HasPrefix(carrier, "udp") {
		// full cross product length x write size, both directions at once with independent choices
		for _, l := range lens {
			for _, ws := range writeSizes {
				if ws == 1 && l > 1<<20 {
					continue
				}
				add(l, lens[rng.Intn(len(lens))], ws, writeSizes[rng.Intn(len(writeSizes))], 0)
			}
		}
		for _, content := range []int{1, 2} {
			for _, l := range []int64{4097, 32769, 65537, 1<<20 + 1} {
				add(l, l, -1, 0, content)
			}
		}
		return out
	}
	// Latin-square style sample: every boundary length and every write size at least once per direction
	n := len(lens)
	if len(writeSizes) > n {
		n = len(writeSizes)
	}
	offA, offB := rng.Intn(97), rng.Intn(89)
	for i := 0; i < n; i++ {
		a := lens[i%len(lens)]
		b := lens[(i+offA)%len(lens)]
		sa := writeSizes[(i+offB)%len(writeSizes)]
		sb := writeSizes[(i+offA+offB+1)%len(writeSizes)]
		if sa == 1 && a > 1<<20 {
			sa = 4097
		}
		if sb == 1 && b > 1<<20 {
			sb = 4097
		}
		add(a, b, sa, sb, 0)
	}
	add(65537, 4097, -1, 0, 1)
	add(4097, 65537, 0, -1, 2)
	if rec.Thorough() {
		for i := 0; i < 12; i++ {
			add(lens[rng.Intn(len(lens))], lens[rng.Intn(len(lens))], writeSizes[rng.Intn(len(writeSizes))], writeSizes[rng.Intn(len(writeSizes))], 0)
		}
	}
	return out
}

// runSlow: fidelity must not depend on how long a transfer takes: a one-way stream that trickles for longer
// than every keep-alive interval involved (35 s quick / 65 s thorough), first application -> target with
// nothing flowing back, then target -> application, is verified like any other payload.
func runSlow(rec *vcommon.Rec, carrier string, d time.Duration) {
	c := map[string]interface{}{"scenario": "slow-one-way", "carrier": carrier, "seconds_each_way": d.Seconds()}
	rec.Mark(c)
	p, err := e2e.Start(e2e.Options{Carrier: carrier, Tag: "w"})
	if err != nil {
		rec.Violation(carrier+":unix:setup-failed", c, err.Error())
		return
	}
	defer p.Close()
	app, tgt, o, err := p.Open("echo")
	if err != nil || o != e2e.Done {
		rec.Inconclusive("slow: open failed", c)
		return
	}
	defer app.Close()
	defer tgt.Close()
	oneWay := func(w, r net.Conn, key uint64, dir string) string {
		steps := int(d / (100 * time.Millisecond))
		total := int64(steps) * 700
		var rerr string
		rd := e2e.Go(func() {
			buf := make([]byte, 8192)
			got := int64(0)
			for got < total {
				n, err := r.Read(buf)
				if n > 0 {
					if bad := vcommon.CheckKeyed(key, got, buf[:n]); bad >= 0 {
						rerr = fmt.Sprintf("mismatch at offset %d", got+int64(bad))
						return
					}
					got += int64(n)
					e2e.Bump(n)
				}
				if err != nil {
					rerr = fmt.Sprintf("stream ended after %d of %d bytes: %v", got, total, err)
					return
				}
			}
		})
		chunk := make([]byte, 700)
		sent := int64(0)
		for i := 0; i < steps; i++ {
			vcommon.FillKeyed(key, sent, chunk)
			if _, err := w.Write(chunk); err != nil {
				return fmt.Sprintf("write failed after %d bytes (%.0f s): %v", sent, float64(i)/10, err)
			}
			sent += 700
			time.Sleep(100 * time.Millisecond)
		}
		if e2e.Wait(rd) == e2e.Stalled && rerr == "" {
			rerr = "receiver stalled"
		}
		if rerr == "" {
			rec.Stat("bytes_verified_"+dir+":"+carrier, total)
		}
		return rerr
	}
	k := uint64(rec.Seed())*131 + 3
	for _, dir := range []string{"c2t", "t2c"} {
		var e string
		if dir == "c2t" {
			e = oneWay(app, tgt, k, dir)
		} else {
			e = oneWay(tgt, app, k+1, dir)
		}
		rec.Case("slow/"+carrier+"/"+dir, true)
		rec.Seen("tuple(carrier,len-class,write-size,direction)", carrier+"|slow-trickle|700|"+dir)
		if e != "" {
			rec.Violation(carrier+":unix:"+dir+":slow-one-way-transfer-cut", c, e)
			return
		}
	}
	rec.Stat("slow_transfers_completed:"+carrier, 1)
}

// runLongLived: a carrier that lives longer than every periodic timer of the stack (keep-alives, pings: 10-30 s) while it is
// saturated ("busy": both directions written as fast as they go) or back-pressured ("paused": the target stops reading
// for the whole period while the application keeps writing, the other direction keeps flowing). Every byte read is
// compared online; at the end both readers must have received exactly what was written.
func runLongLived(rec *vcommon.Rec, carrier, mode string, d time.Duration) {
	c := map[string]interface{}{"scenario": "long-lived:" + mode, "carrier": carrier, "seconds": d.Seconds()}
	rec.Mark(c)
	p, err := e2e.Start(e2e.Options{Carrier: carrier, Tag: "v"})
	if err != nil {
		rec.Violation(carrier+":unix:setup-failed", c, err.Error())
		return
	}
	defer p.Close()
	app, tgt, o, err := p.Open("echo")
	if err != nil || o != e2e.Done {
		rec.Inconclusive("long-lived: open failed", c)
		return
	}
	defer app.Close()
	defer tgt.Close()
	start := time.Now()
	type side struct {
		dir      string
		w, r     net.Conn
		key      uint64
		sent     int64 // atomic
		got      int64 // atomic
		wdone    int32 // atomic
		werr     string
		rerr     string
		pauseFor time.Duration
	}
	k := uint64(rec.Seed())*977 + 11
	sides := []*side{{dir: "c2t", w: app, r: tgt, key: k}, {dir: "t2c", w: tgt, r: app, key: k + 1}}
	if mode == "paused" {
		sides[0].pauseFor = d // the target does not read what the application sends
	}
	var wg sync.WaitGroup
	for _, sd := range sides {
		sd := sd
		wg.Add(1)
		go func() { // writer: as fast as the tunnel takes it, until the period is over
			defer wg.Done()
			defer atomic.StoreInt32(&sd.wdone, 1)
			buf := make([]byte, 32768)
			for time.Since(start) < d+2*time.Second {
				off := atomic.LoadInt64(&sd.sent)
				vcommon.FillKeyed(sd.key, off, buf)
				n, err := sd.w.Write(buf)
				atomic.AddInt64(&sd.sent, int64(n))
				if err != nil {
					sd.werr = fmt.Sprintf("write failed after %d bytes (%.0f s): %v", off+int64(n), time.Since(start).Seconds(), err)
					return
				}
			}
		}()
		go func() { // reader: online comparison
			buf := make([]byte, 65536)
			if sd.pauseFor > 0 {
				// read a little, then stand still for the period
				for atomic.LoadInt64(&sd.got) < 1<<20 {
					n, err := sd.r.Read(buf)
					if n > 0 {
						if bad := vcommon.CheckKeyed(sd.key, atomic.LoadInt64(&sd.got), buf[:n]); bad >= 0 {
							sd.rerr = fmt.Sprintf("mismatch at offset %d", atomic.LoadInt64(&sd.got)+int64(bad))
							return
						}
						atomic.AddInt64(&sd.got, int64(n))
						e2e.Bump(n)
					}
					if err != nil {
						sd.rerr = fmt.Sprintf("stream ended after %d bytes: %v", atomic.LoadInt64(&sd.got), err)
						return
					}
				}
				time.Sleep(sd.pauseFor)
			}
			for {
				n, err := sd.r.Read(buf)
				if n > 0 {
					if bad := vcommon.CheckKeyed(sd.key, atomic.LoadInt64(&sd.got), buf[:n]); bad >= 0 {
						sd.rerr = fmt.Sprintf("mismatch at offset %d", atomic.LoadInt64(&sd.got)+int64(bad))
						return
					}
					atomic.AddInt64(&sd.got, int64(n))
					e2e.Bump(n)
				}
				if err != nil {
					return // the harness closes the sockets once everything has arrived; a premature end shows in the counters
				}
			}
		}()
	}
	// wait for the writers (they stop by themselves), then for the readers to catch up, under the stall rule
	wdone := e2e.Go(func() { wg.Wait() })
	caught := e2e.Go(func() {
		<-wdone
		for {
			all := true
			for _, sd := range sides {
				if sd.rerr != "" || sd.werr != "" {
					return
				}
				if atomic.LoadInt64(&sd.got) < atomic.LoadInt64(&sd.sent) {
					all = false
				}
			}
			if all {
				return
			}
			time.Sleep(20 * time.Millisecond)
		}
	})
	// while a reader stands still on purpose the writer towards it is blocked: the other direction's progress keeps the rule quiet
	out := e2e.WaitW(caught, e2e.StallWindow()+d)
	if out == e2e.Inconclusive {
		rec.Inconclusive("busy at watchdog", c)
		return
	}
	for _, sd := range sides {
		rec.Case("long-lived/"+carrier+"/"+mode+"/"+sd.dir, true)
		rec.Seen("tuple(carrier,len-class,write-size,direction)", carrier+"|long-lived-"+mode+"|32768|"+sd.dir)
		e := sd.werr
		if e == "" {
			e = sd.rerr
		}
		if e == "" && atomic.LoadInt64(&sd.got) != atomic.LoadInt64(&sd.sent) {
			e = fmt.Sprintf("received %d of %d bytes written, then nothing more (%.0f s)", atomic.LoadInt64(&sd.got), atomic.LoadInt64(&sd.sent), time.Since(start).Seconds())
			if out == e2e.Stalled {
				e += "; goroutines: " + e2e.Clip(e2e.Stacks(), 30000)
			}
		}
		if e != "" {
			rec.Violation(carrier+":unix:"+sd.dir+":long-lived-"+mode+"-carrier:transfer-cut-or-damaged", c, e)
			return
		}
		rec.Stat("bytes_verified_"+sd.dir+":"+carrier, atomic.LoadInt64(&sd.got))
	}
	rec.Stat("long_lived_transfers_completed:"+carrier+":"+mode, 1)
}

// runAged: the sequence numbers of the DNS carrier belong to the session, not to a logical connection. One connection
// uploads enough to take the session's packet counter past 65535 (about 12.6 MB at 193 bytes a query; 14 MiB are written),
// then a second connection of the same session moves 64 KiB each way. Compared online, complete at the end.
func runAged(rec *vcommon.Rec, carrier string, total int64) {
	c := map[string]interface{}{"scenario": "aged-session", "carrier": carrier, "bytes": total}
	rec.Mark(c)
	p, err := e2e.Start(e2e.Options{Carrier: carrier, Tag: "y"})
	if err != nil {
		rec.Violation(carrier+":unix:setup-failed", c, err.Error())
		return
	}
	defer p.Close()
	win := e2e.StallWindow()
	if win < 50*time.Second {
		win = 50 * time.Second // longer than the multiplexer's keep-alive time-out: a session that died silently ends the streams itself
	}
	one := func(what string, up, down int64, k uint64) *e2e.Failure {
		app, tgt, o, err := p.Open("echo")
		if err != nil || o != e2e.Done {
			if o == e2e.Inconclusive {
				return &e2e.Failure{Kind: "busy at open", Inconclusive: true}
			}
			return &e2e.Failure{Kind: what + ":open-failed", Info: map[string]interface{}{"err": fmt.Sprint(err)}}
		}
		defer app.Close()
		defer tgt.Close()
		ab := &e2e.Stream{Key: k, Len: up, Seg: func() int { return 32768 }}
		ba := &e2e.Stream{Key: k + 1, Len: down, Seg: func() int { return 32768 }}
		var f *e2e.Failure
		var done <-chan struct{}
		if down == 0 {
			// one direction, then the writer closes: the reader must get all of it and the end of the stream
			var wf, rf *e2e.Failure
			wd := e2e.Go(func() {
				if _, err := e2e.WriteStream(app, ab); err != nil {
					wf = &e2e.Failure{Kind: "c2t:write-error", Info: map[string]interface{}{"err": err.Error()}}
					return
				}
				app.Close()
			})
			rd := e2e.Go(func() {
				if _, rf = e2e.ReadStream(tgt, ab, []uint64{ab.Key}); rf != nil {
					rf.Kind = "c2t:" + rf.Kind
					return
				}
				rf = e2e.ExpectEOF(tgt, "c2t")
			})
			done = e2e.Go(func() {
				<-wd
				<-rd
				if f = wf; f == nil {
					f = rf
				}
			})
		} else {
			done = e2e.Go(func() { f = e2e.Duplex(app, tgt, ab, ba, "c2t", "t2c", nil) })
		}
		switch e2e.WaitW(done, win) {
		case e2e.Stalled:
			return &e2e.Failure{Kind: what + ":stalled", Info: map[string]interface{}{"goroutines": e2e.Clip(e2e.Stacks(), 40000)}}
		case e2e.Inconclusive:
			return &e2e.Failure{Kind: "busy at watchdog", Inconclusive: true}
		}
		if f != nil {
			f.Kind = what + ":" + f.Kind
			return f
		}
		rec.Stat("bytes_verified_c2t:"+carrier, up)
		rec.Stat("bytes_verified_t2c:"+carrier, down)
		return nil
	}
	k := uint64(rec.Seed())*7919 + 5
	f := one("long-upload", total, 0, k)
	if f == nil {
		f = one("after-the-wrap", 65537, 65537, k+2)
	}
	if f != nil && f.Inconclusive {
		rec.Inconclusive(f.Kind, c)
		return
	}
	rec.Case(fmt.Sprintf("aged/%s/%d", carrier, total), true)
	rec.Seen("tuple(carrier,len-class,write-size,direction)", carrier+"|aged-session|32768|c2t")
	if f != nil {
		rec.Violation(carrier+":unix:aged-session:"+f.Kind, c, f.Info)
		return
	}
	rec.Stat("aged_sessions_completed:"+carrier, 1)
}

// runResidues: one logical connection; writes of 1, 2, 3, ... maxN bytes, each delivered before the next is written (so
// that every write travels as a frame of its own): every message length the carrier's framing, fragmentation or name
// encoding can see occurs once per direction.
func runResidues(rec *vcommon.Rec, carrier string, maxN int) {
	c := map[string]interface{}{"scenario": "every-write-size", "carrier": carrier, "max": maxN}
	rec.Mark(c)
	p, err := e2e.Start(e2e.Options{Carrier: carrier, Tag: "r"})
	if err != nil {
		rec.Violation(carrier+":unix:setup-failed", c, err.Error())
		return
	}
	defer p.Close()
	app, tgt, o, err := p.Open("echo")
	if err != nil || o != e2e.Done {
		rec.Inconclusive("residues: open failed", c)
		return
	}
	defer app.Close()
	defer tgt.Close()
	k := uint64(rec.Seed())*977 + 11
	for di, dir := range []string{"c2t", "t2c"} {
		w, r := app, tgt
		if dir == "t2c" {
			w, r = tgt, app
		}
		key := k + uint64(di)
		off := int64(0)
		for n := 1; n <= maxN; n++ {
			chunk := make([]byte, n)
			vcommon.FillKeyed(key, off, chunk)
			var problem string
			got := e2e.Go(func() {
				buf := make([]byte, n)
				if _, err := io.ReadFull(r, buf); err != nil {
					problem = fmt.Sprintf("read of the %d-byte write failed: %v", n, err)
					return
				}
				if bad := vcommon.CheckKeyed(key, off, buf); bad >= 0 {
					problem = fmt.Sprintf("the %d-byte write arrived different at its byte %d", n, bad)
				}
			})
			if _, err := w.Write(chunk); err != nil {
				problem = fmt.Sprintf("write of %d bytes failed: %v", n, err)
			}
			switch e2e.Wait(got) {
			case e2e.Stalled:
				if problem == "" {
					problem = fmt.Sprintf("the %d-byte write never arrived", n)
				}
			case e2e.Inconclusive:
				rec.Inconclusive("residues: busy", c)
				return
			}
			if problem != "" {
				rec.Case("sizes/"+carrier+"/"+dir, true)
				rec.Violation(carrier+":unix:"+dir+":single-write-of-some-size-lost-or-damaged", c, map[string]interface{}{"size": n, "problem": problem, "written_before": off})
				return
			}
			off += int64(n)
			e2e.Bump(n)
		}
		rec.Case("sizes/"+carrier+"/"+dir, true)
		rec.Seen("tuple(carrier,len-class,write-size,direction)", carrier+"|every-size-1.."+fmt.Sprint(maxN)+"|own-frame|"+dir)
		rec.Stat("bytes_verified_"+dir+":"+carrier, off)
		rec.Stat("single_writes_verified:"+carrier, int64(maxN))
	}
}

// runManyShort: thousands of short logical connections on one session, 8 at a time; on each the target (or the
// application) writes 700 keyed bytes and closes at once, and the other end must read exactly those bytes. The last data
// and the end-of-stream mark travel back to back: the place where the tail of a stream can get lost.
func runManyShort(rec *vcommon.Rec, carrier, writer string, total int) {
	c := map[string]interface{}{"scenario": "many-short-connections", "carrier": carrier, "writer": writer, "connections": total}
	rec.Mark(c)
	p, err := e2e.Start(e2e.Options{Carrier: carrier, Tag: "n", Channels: []e2e.ChanSpec{{Name: "echo", Tagged: true}}})
	if err != nil {
		rec.Violation(carrier+":unix:setup-failed", c, err.Error())
		return
	}
	defer p.Close()
	var mu sync.Mutex
	var first string
	var ok int64
	sem := make(chan struct{}, 8)
	var wg sync.WaitGroup
	for i := 0; i < total; i++ {
		mu.Lock()
		stop := first != ""
		mu.Unlock()
		if stop {
			break
		}
		sem <- struct{}{}
		wg.Add(1)
		go func(i int) {
			defer wg.Done()
			defer func() { <-sem }()
			fail := func(s string) {
				mu.Lock()
				if first == "" {
					first = fmt.Sprintf("connection %d: %s", i, s)
				}
				mu.Unlock()
			}
			tag := uint64(rec.Seed())<<24 + uint64(i)
			app, err := p.Dial("echo")
			if err != nil {
				fail("harness: dial " + err.Error())
				return
			}
			defer app.Close()
			var hdr [8]byte
			binary.BigEndian.PutUint64(hdr[:], tag)
			if _, err := app.Write(hdr[:]); err != nil {
				fail("write of the first bytes failed: " + err.Error())
				return
			}
			tgt, o := p.Targets["echo"].NextTagged(tag)
			if o != e2e.Done {
				if o == e2e.Stalled {
					fail("target never connected")
				} else {
					fail("inconclusive: busy")
				}
				return
			}
			defer tgt.Close()
			w, r := tgt, app
			if writer == "app" {
				w, r = app, tgt
			}
			payload := make([]byte, 700)
			vcommon.FillKeyed(tag, 0, payload)
			go func() {
				w.Write(payload)
				w.Close()
			}()
			var got []byte
			var rerr error
			done := e2e.Go(func() { got, rerr = io.ReadAll(r) })
			switch e2e.Wait(done) {
			case e2e.Stalled:
				fail("reader never saw the end of the stream")
				return
			case e2e.Inconclusive:
				fail("inconclusive: busy")
				return
			}
			if !bytes.Equal(got, payload) {
				fail(fmt.Sprintf("read %d of 700 bytes before the end of the stream (err=%v)", len(got), rerr))
				return
			}
			atomic.AddInt64(&ok, 1)
			e2e.Bump(700)
		}(i)
	}
	wg.Wait()
	dir := map[string]string{"target": "t2c", "app": "c2t"}[writer]
	rec.Case(fmt.Sprintf("many-short/%s/%s/%d", carrier, writer, total), true)
	rec.Seen("tuple(carrier,len-class,write-size,direction)", carrier+"|700-then-close x"+fmt.Sprint(total)+"|whole|"+dir)
	rec.Stat("bytes_verified_"+dir+":"+carrier, ok*700)
	rec.Stat("short_connections_verified:"+carrier, ok)
	if first != "" {
		if strings.Contains(first, "inconclusive:") || strings.Contains(first, "harness:") {
			rec.Inconclusive("many short connections: "+first, c)
			return
		}
		rec.Violation(carrier+":unix:"+dir+":tail-of-a-short-connection-lost", c, map[string]interface{}{"first_failure": first, "verified_before": ok})
	}
}

func TestVerifC01(t *testing.T) {
	e2e.Quiet()
	rec := vcommon.Open()
	defer rec.Close()
	carriers := e2e.Carriers
	if v := os.Getenv("VERIF_CARRIERS"); v != "" {
		carriers = strings.Split(v, ",")
	}
	if rec.Replay != nil {
		var sc struct {
			Scenario    string  `json:"scenario"`
			Carrier     string  `json:"carrier"`
			Seconds     float64 `json:"seconds"`
			SecondsEach float64 `json:"seconds_each_way"`
			Writer      string  `json:"writer"`
			Connections int     `json:"connections"`
		}
		if json.Unmarshal(rec.Replay, &sc) == nil && sc.Scenario != "" {
			switch {
			case strings.HasPrefix(sc.Scenario, "long-lived:"):
				runLongLived(rec, sc.Carrier, sc.Scenario[len("long-lived:"):], time.Duration(sc.Seconds*float64(time.Second)))
				return
			case sc.Scenario == "aged-session":
				runAged(rec, sc.Carrier, 14<<20)
				return
			case sc.Scenario == "slow-one-way":
				runSlow(rec, sc.Carrier, time.Duration(sc.SecondsEach*float64(time.Second)))
				return
			case sc.Scenario == "many-short-connections":
				runManyShort(rec, sc.Carrier, sc.Writer, sc.Connections)
				return
			}
		}
		var c c01Case
		if err := json.Unmarshal(rec.Replay, &c); err != nil {
			t.Fatal(err)
		}
		if c.Dump {
			os.Setenv("SOCKETACE_PIPE_DEBUG", "1")
		}
		p, err := e2e.Start(e2e.Options{Carrier: c.Carrier, Listener: c.Listener})
		if err != nil {
			rec.Violation(c.Carrier+":"+c.Listener+":setup-failed", c, err.Error())
			return
		}
		defer p.Close()
		runCase(rec, p, &c)
		return
	}
	// work items: (carrier, listener kind); sharded
	type item struct{ Carrier, Lst string }
	var items []item
	for _, c := range carriers {
		items = append(items, item{c, "unix"})
		if !strings.HasPrefix(c, "dns") {
			items = append(items, item{c, "tcp"})
		}
	}
	extras := os.Getenv("VERIF_CARRIERS") == "" // a run restricted to some carriers has the plain per-carrier items only
	if v := os.Getenv("SOCKETACE_PIPE_DEBUG"); v != "" {
		rec.Seen("SOCKETACE_PIPE_DEBUG", v)
	}
	for _, c := range []string{"tcp", "ws", "tcp+starttls"} {
		if extras {
			items = append(items, item{c, "stdio"})
		}
	}
	for _, c := range []string{"tcp", "wss", "udp"} {
		if extras {
			items = append(items, item{c, "socks"})
		} // the channel is the server's built-in SOCKS5 proxy
	}
	for _, c := range []string{"tcp", "ws", "udp", "dns"} {
		if extras {
			items = append(items, item{c, "slow"})
		}
	}
	for _, c := range []string{"dns", "dns+starttls", "udp", "ws"} {
		if extras {
			items = append(items, item{c, "sizes"})
		}
	}
	if extras {
		items = append(items, item{"dns", "aged"})
	}
	for _, x := range []item{{"ws", "long:busy"}, {"ws", "long:paused"}, {"tcp", "long:paused"}, {"udp", "long:busy"}, {"wss", "long:paused"}} {
		if extras {
			items = append(items, x)
		}
	}
	for _, c := range []string{"tcp", "ws"} {
		if extras {
			items = append(items, item{c, "many-short:target"}, item{c, "many-short:app"})
		}
	}
	for idx, it := range items {
		if !rec.Mine(idx) {
			continue
		}
		if strings.HasPrefix(it.Lst, "many-short:") {
			runManyShort(rec, it.Carrier, it.Lst[len("many-short:"):], rec.Pick(6000, 40000))
			continue
		}
		if it.Lst == "aged" {
			runAged(rec, it.Carrier, 14<<20)
			continue
		}
		if strings.HasPrefix(it.Lst, "long:") {
			runLongLived(rec, it.Carrier, it.Lst[len("long:"):], time.Duration(rec.Pick(35, 70))*time.Second)
			continue
		}
		if it.Lst == "sizes" {
			runResidues(rec, it.Carrier, rec.Pick(420, 1300))
			continue
		}
		if it.Lst == "slow" {
			runSlow(rec, it.Carrier, time.Duration(rec.Pick(35, 65))*time.Second)
			continue
		}
		cs := cases(rec, it.Carrier, it.Lst)
		if it.Lst == "stdio" {
			// a standard-stream listener serves exactly one logical connection per client process
			for _, c := range cs[:rec.Pick(3, 8)] {
				p, err := e2e.Start(e2e.Options{Carrier: it.Carrier, Listener: it.Lst, Tag: "x"})
				if err != nil {
					rec.Violation(it.Carrier+":"+it.Lst+":setup-failed", c, err.Error())
					break
				}
				runCase(rec, p, c)
				p.Close()
			}
			continue
		}
		if it.Lst == "socks" {
			runSocks(rec, it.Carrier, cs)
			continue
		}
		// tcp listeners go with tcp targets, unix listeners with unix targets: both channel address kinds are covered
		p, err := e2e.Start(e2e.Options{Carrier: it.Carrier, Listener: it.Lst, Channels: []e2e.ChanSpec{{Name: "echo", TargetNet: it.Lst}, {Name: "echo2", TargetNet: it.Lst}}})
		if err != nil {
			rec.Violation(it.Carrier+":"+it.Lst+":setup-failed", map[string]string{"carrier": it.Carrier, "listener": it.Lst}, err.Error())
			continue
		}
		openFailures := 0
		for _, c := range cs {
			if runCase(rec, p, c) {
				openFailures++
				if openFailures >= 2 {
					rec.Note("carrier abandoned after two failed opens", it)
					break
				}
			}
		}
		p.Close()
	}
}

// runSocks: the same transfers over a socks:// channel (SOCKS5 CONNECT to a TCP recording target).
func runSocks(rec *vcommon.Rec, carrier string, cs []*c01Case) {
	p, err := e2e.Start(e2e.Options{Carrier: carrier, Channels: []e2e.ChanSpec{{Name: "echo", Socks: true}}})
	if err != nil {
		rec.Violation(carrier+":socks:setup-failed", map[string]string{"carrier": carrier}, err.Error())
		return
	}
	defer p.Close()
	tgt, err := e2e.NewTarget("socks-target", "tcp", "", false)
	if err != nil {
		rec.Inconclusive("target: "+err.Error(), carrier)
		return
	}
	defer tgt.Close()
	fails := 0
	for _, c := range cs {
		if c.LenC2T > 1<<20+1 || c.LenT2C > 1<<20+1 {
			continue
		}
		rec.Mark(c)
		key := fmt.Sprintf("%s/socks/%d/%d/%d/%d/%d", c.Carrier, c.LenC2T, c.LenT2C, c.SegC2T, c.SegT2C, c.Content)
		app, t, o, err := p.OpenSocks("echo", tgt)
		if err != nil || o != e2e.Done {
			if o == e2e.Inconclusive {
				rec.Inconclusive("busy at socks open", c)
				continue
			}
			rec.Case(key, true)
			rec.Violation(carrier+":socks:open-failed", c, fmt.Sprint(err, " ", o))
			if app != nil {
				app.Close()
			}
			if fails++; fails >= 2 {
				return
			}
			continue
		}
		rng := vcommon.NewRand(c.Seed, "c01seg/"+key)
		ab := &e2e.Stream{Key: uint64(c.Seed)*4 + 1, Len: c.LenC2T, Content: c.Content, Seg: seg(c.SegC2T, rng, c.LenC2T)}
		ba := &e2e.Stream{Key: uint64(c.Seed)*4 + 2, Len: c.LenT2C, Content: c.Content, Seg: seg(c.SegT2C, rng, c.LenT2C)}
		f := e2e.Duplex(app, t, ab, ba, "c2t", "t2c", []uint64{ab.Key, ba.Key})
		if f == nil {
			app.Close()
			f = e2e.ExpectEOF(t, "c2t")
		}
		app.Close()
		t.Close()
		rec.Case(key, f == nil || !f.Inconclusive)
		rec.Seen("carrier", c.Carrier+"/socks")
		if f == nil {
			rec.Stat("connections:"+c.Carrier+"/socks", 1)
			rec.Stat("bytes_verified_c2t:"+c.Carrier, c.LenC2T)
			rec.Stat("bytes_verified_t2c:"+c.Carrier, c.LenT2C)
		} else if f.Inconclusive {
			rec.Inconclusive(f.Kind, c)
		} else {
			rec.Violation(carrier+":socks:"+f.Kind+":len"+lenClass(maxI(c.LenC2T, c.LenT2C)), c, f.Info)
		}
	}
}
