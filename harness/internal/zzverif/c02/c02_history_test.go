// C02, long lives of ONE physical session: many logical connections come and go (every kind of ending), or are open
// at the same time in large numbers, and the session must go on serving the connections it holds and new ones.
package c02

import (
	"encoding/binary"
	"fmt"
	"net"
	"os"
	"sort"
	"strings"
	"sync"
	"sync/atomic"

	"github.com/bokysan/socketace/v2/internal/verifhook"
	"github.com/bokysan/socketace/v2/internal/zzverif/e2e"
	"github.com/bokysan/socketace/v2/internal/zzverif/vcommon"
)

// ---- history: hundreds or thousands of logical connections that have come and gone ---------------

// how the life of a logical connection ends
var endKinds = []string{"clean-by-app", "clean-by-target", "target-down", "channel-refused", "reset-by-target", "abort-by-app", "closed-unused"}

type histCase struct {
	Scenario string `json:"scenario"` // "history"
	Carrier  string `json:"carrier"`
	Length   int    `json:"connections_that_come_and_go"`
	Every    int    `json:"checkpoint_every"`
	Workers  int    `json:"workers"`            // lives that run at the same time
	Weights  []int  `json:"weights_of_endings"` // aligned with endKinds
	Seed     int64  `json:"seed"`
}

func (c *histCase) endings() string {
	var l []string
	for i, w := range c.Weights {
		if w > 0 && i < len(endKinds) {
			l = append(l, endKinds[i])
		}
	}
	sort.Strings(l)
	return strings.Join(l, "+")
}

const histChannels = 2

func startLong(carrier, tag string) (*e2e.Pair, error) {
	var chans []e2e.ChanSpec
	for i := 0; i < histChannels; i++ {
		chans = append(chans, e2e.ChanSpec{Name: chanName(i), Tagged: true})
	}
	chans = append(chans, e2e.ChanSpec{Name: "chx"}, e2e.ChanSpec{Name: "chd", Dead: true})
	return e2e.Start(e2e.Options{Carrier: carrier, Channels: chans, Tag: tag, ListenerNames: map[string]string{"chx": "not-offered-by-the-server"}})
}

// openTagged opens a logical connection and returns both of its ends.
func openTagged(p *e2e.Pair, ch string) (app, tgt net.Conn, f *e2e.Failure) {
	app, err := p.Dial(ch)
	if err != nil {
		return nil, nil, &e2e.Failure{Kind: "open:dial-failed", Info: map[string]interface{}{"err": err.Error()}}
	}
	tag := atomic.AddUint64(&tagSeq, 1) | 1<<61
	var hdr [8]byte
	binary.BigEndian.PutUint64(hdr[:], tag)
	if _, err := app.Write(hdr[:]); err != nil {
		app.Close()
		return nil, nil, &e2e.Failure{Kind: "open:tag-write-failed", Info: map[string]interface{}{"err": err.Error()}}
	}
	e2e.Bump(8)
	tgt, o := p.Targets[ch].NextTagged(tag)
	switch o {
	case e2e.Stalled:
		app.Close()
		return nil, nil, &e2e.Failure{Kind: "open:target-never-connected", Info: map[string]interface{}{"channel": ch, "goroutines": e2e.Clip(e2e.Stacks(), 50000)}}
	case e2e.Inconclusive:
		app.Close()
		return nil, nil, &e2e.Failure{Kind: "open:busy", Inconclusive: true}
	}
	return app, tgt, nil
}

// untilEnd reads c until it ends (end-of-stream or an error: both terminate the connection).
func untilEnd(c net.Conn, what string) *e2e.Failure {
	done := e2e.Go(func() {
		b := make([]byte, 4096)
		for {
			n, err := c.Read(b)
			e2e.Bump(n)
			if err != nil {
				return
			}
		}
	})
	switch e2e.Wait(done) {
	case e2e.Stalled:
		return &e2e.Failure{Kind: what, Info: map[string]interface{}{"goroutines": e2e.Clip(e2e.Stacks(), 50000)}}
	case e2e.Inconclusive:
		return &e2e.Failure{Kind: what + ":busy", Inconclusive: true}
	}
	return nil
}

// oneLife runs the whole life of one logical connection. observed=false: the end of a connection that cannot be served
// (target down, channel refused) did not reach the application; that alone is not this property's subject.
func oneLife(p *e2e.Pair, kind string, rng interface{ Intn(int) int }, key uint64, all []uint64) (f *e2e.Failure, observed bool) {
	ch := chanName(rng.Intn(histChannels))
	switch kind {
	case "target-down", "channel-refused":
		lst := "chd"
		if kind == "channel-refused" {
			lst = "chx"
		}
		bad, err := p.Dial(lst)
		if err != nil {
			return &e2e.Failure{Kind: "open:dial-failed", Info: map[string]interface{}{"err": err.Error()}}, true
		}
		defer bad.Close()
		bad.Write([]byte("hello?"))
		if f := untilEnd(bad, "x"); f != nil {
			return nil, false
		}
		return nil, true
	case "closed-unused":
		c, err := p.Dial(ch)
		if err != nil {
			return &e2e.Failure{Kind: "open:dial-failed", Info: map[string]interface{}{"err": err.Error()}}, true
		}
		c.Close()
		e2e.Bump(1)
		return nil, true
	}
	app, tgt, f := openTagged(p, ch)
	if f != nil {
		return f, true
	}
	defer app.Close()
	defer tgt.Close()
	n := int64(1 + rng.Intn(3000))
	switch kind {
	case "clean-by-app", "clean-by-target":
		if f = e2e.Duplex(app, tgt, &e2e.Stream{Key: key, Len: n}, &e2e.Stream{Key: key + 1, Len: n}, "c2t", "t2c", all); f != nil {
			return f, true
		}
		if kind == "clean-by-app" {
			app.Close()
			return e2e.ExpectEOF(tgt, "c2t"), true
		}
		tgt.Close()
		return e2e.ExpectEOF(app, "t2c"), true
	case "reset-by-target":
		// the target goes away while data of the application is (most likely) still unread in its socket
		if f = e2e.Duplex(app, tgt, &e2e.Stream{Key: key, Len: 1000}, nil, "c2t", "t2c", all); f != nil {
			return f, true
		}
		app.Write(make([]byte, 3000))
		tgt.Close()
		return untilEnd(app, "t2c:no-end-after-the-target-went-away"), true
	case "abort-by-app":
		if f = e2e.Duplex(app, tgt, nil, &e2e.Stream{Key: key + 1, Len: 1000}, "c2t", "t2c", all); f != nil {
			return f, true
		}
		tgt.Write(make([]byte, 3000))
		app.Close()
		return untilEnd(tgt, "c2t:no-end-after-the-application-went-away"), true
	}
	return nil, true
}

// usable: the session must serve the connections it has held all along, and a new one on every channel.
func usable(p *e2e.Pair, held [][2]net.Conn, key uint64) (what string, f *e2e.Failure) {
	for i, h := range held {
		k := key + uint64(i)*4
		if f := e2e.Duplex(h[0], h[1], &e2e.Stream{Key: k, Len: 300}, &e2e.Stream{Key: k + 1, Len: 300}, "c2t", "t2c", nil); f != nil {
			return "held-connection", f
		}
	}
	for i := 0; i < histChannels; i++ {
		app, tgt, f := openTagged(p, chanName(i))
		if f != nil {
			return "new-connection", f
		}
		k := key + 100 + uint64(i)*4
		f = e2e.Duplex(app, tgt, &e2e.Stream{Key: k, Len: 1000}, &e2e.Stream{Key: k + 1, Len: 1000}, "c2t", "t2c", nil)
		if f == nil {
			app.Close()
			f = e2e.ExpectEOF(tgt, "c2t")
		}
		app.Close()
		tgt.Close()
		if f != nil {
			return "new-connection", f
		}
	}
	return "", nil
}

func runHistory(rec *vcommon.Rec, c *histCase) {
	rec.Mark(c)
	if c.Every < 1 {
		c.Every = 64
	}
	if c.Workers < 1 {
		c.Workers = 1
	}
	for len(c.Weights) < len(endKinds) {
		c.Weights = append(c.Weights, 0)
	}
	sig := "history:" + c.Carrier
	after := ":after-endings=" + c.endings()
	key := fmt.Sprintf("history/%s/%d/%d/%v", c.Carrier, c.Length, c.Workers, c.Weights)
	p, err := startLong(c.Carrier, "h")
	if err != nil {
		rec.Violation(sig+":setup-failed", c, err.Error())
		return
	}
	defer p.Close()
	sessions := verifhook.Count("server.session")
	// the order of endings: a fixed function of the seed
	total := 0
	for _, w := range c.Weights {
		total += w
	}
	if total == 0 {
		rec.Inconclusive("history without endings", c)
		return
	}
	kr := vcommon.NewRand(c.Seed, "hist-kinds")
	kinds := make([]int, c.Length)
	for i := range kinds {
		x := kr.Intn(total)
		for k, w := range c.Weights {
			if x < w {
				kinds[i] = k
				break
			}
			x -= w
		}
	}
	base := uint64(c.Seed) * 1000000
	report := func(step string, f *e2e.Failure) {
		rec.Case(key, !f.Inconclusive)
		if f.Inconclusive {
			rec.Inconclusive("history: "+step+":"+f.Kind, c)
			return
		}
		rec.Violation(sig+":"+step+":"+f.Kind+after, c, f.Info)
	}
	// connections that stay open, idle, for the whole history
	var held [][2]net.Conn
	defer func() {
		for _, h := range held {
			h[0].Close()
			h[1].Close()
		}
	}()
	for i := 0; i < histChannels; i++ {
		app, tgt, f := openTagged(p, chanName(i))
		if f != nil {
			report("first-connections", f)
			return
		}
		held = append(held, [2]net.Conn{app, tgt})
	}
	var ended [16]int64
	unobserved := 0
	done := 0
	for done < c.Length {
		end := done + c.Every
		if end > c.Length {
			end = c.Length
		}
		var mu sync.Mutex
		var first *e2e.Failure
		var firstKind string
		var blind int32
		next := int64(done)
		var wg sync.WaitGroup
		for w := 0; w < c.Workers; w++ {
			wg.Add(1)
			go func() {
				defer wg.Done()
				for {
					i := int(atomic.AddInt64(&next, 1)) - 1
					if i >= end || atomic.LoadInt32(&blind) != 0 {
						return
					}
					mu.Lock()
					stop := first != nil
					mu.Unlock()
					if stop {
						return
					}
					kind := endKinds[kinds[i]]
					f, observed := oneLife(p, kind, vcommon.NewRand(c.Seed, fmt.Sprintf("life/%d", i)), base+uint64(i)*2+1, nil)
					if f != nil {
						mu.Lock()
						if first == nil {
							first, firstKind = f, kind
						}
						mu.Unlock()
						return
					}
					if !observed {
						atomic.StoreInt32(&blind, 1)
						return
					}
					atomic.AddInt64(&ended[kinds[i]], 1)
				}
			}()
		}
		wg.Wait()
		if first != nil {
			if strings.HasPrefix(first.Kind, "open:") {
				// the connection was not even opened: how it was going to end does not matter
				report("next-connection", first)
			} else {
				report("a-connection-that-ends-"+firstKind, first)
			}
			return
		}
		done = end
		what, f := usable(p, held, base+900000+uint64(done)*16)
		if f != nil {
			rec.Stat("history_connections_ended_before_the_refuting_checkpoint", int64(done))
			report("checkpoint:"+what, f)
			return
		}
		rec.Stat("history_checkpoints_passed", 1)
		if blind != 0 {
			// the application of a connection that could not be served never saw it end; the session serves everything
			// else (checked just now), so the history goes on -- twice at most, each costs a stall window
			unobserved++
			rec.Stat("history_endings_not_seen_by_the_application", 1)
			rec.Note("the end of a connection that could not be served did not reach its application", c)
			if unobserved >= 2 {
				break
			}
		}
	}
	rec.Case(key, true)
	for k, n := range ended {
		if n > 0 {
			rec.Stat("history_connections_ended:"+endKinds[k], n)
		}
	}
	var lives int64
	for _, n := range ended {
		lives += n
	}
	rec.StatMax("longest_history_on_one_session(connections)", lives)
	rec.StatMax("physical_sessions_during_one_history(max)", verifhook.Count("server.session")-sessions)
	rec.Seen("history(carrier | endings | workers)", fmt.Sprintf("%s | %s | %d", c.Carrier, c.endings(), c.Workers))
	rec.Stat("histories_completed", 1)
}

func histCases(rec *vcommon.Rec, carrier string) []*histCase {
	rng := vcommon.NewRand(rec.Seed(), "c02hist/"+carrier)
	n := rec.Pick(1000, 5000)
	if os.Getenv("VERIF_C02_NOQUIET") != "" { // the perturbed passes (2 threads, race detector) are several times slower
		n = 300
	}
	if strings.HasPrefix(carrier, "dns") { // about four connections per second
		n = 300
	}
	var out []*histCase
	add := func(w []int, workers int) {
		out = append(out, &histCase{Scenario: "history", Carrier: carrier, Length: n, Every: 50 + rng.Intn(60), Workers: workers, Weights: w,
			Seed: rec.Seed()*100 + int64(len(out))})
	}
	// every kind of ending as the only one
	for k := range endKinds {
		w := make([]int, len(endKinds))
		w[k] = 1
		add(w, 1+2*((k+int(rec.Seed()))%2))
	}
	// everything; only the endings that are failures for the server; random weights
	add([]int{1, 1, 1, 1, 1, 1, 1}, 3)
	add([]int{0, 0, 1, 1, 1, 1, 1}, 1)
	w := make([]int, len(endKinds))
	for k := range w {
		w[k] = rng.Intn(4)
	}
	w[rng.Intn(len(w))]++
	add(w, 1+rng.Intn(4))
	return out
}

// ---- crowd: hundreds of logical connections open at the same time ---------------------------------

type crowdCase struct {
	Scenario string `json:"scenario"` // "crowd"
	Carrier  string `json:"carrier"`
	Size     int    `json:"open_at_the_same_time"`
	Seed     int64  `json:"seed"`
}

func runCrowd(rec *vcommon.Rec, c *crowdCase) {
	rec.Mark(c)
	sig := "crowd:" + c.Carrier
	key := fmt.Sprintf("crowd/%s/%d", c.Carrier, c.Size)
	p, err := startLong(c.Carrier, "w")
	if err != nil {
		rec.Violation(sig+":setup-failed", c, err.Error())
		return
	}
	defer p.Close()
	sessions := verifhook.Count("server.session")
	base := uint64(c.Seed) * 1000000
	members := make([][2]net.Conn, c.Size)
	defer func() {
		for _, m := range members {
			if m[0] != nil {
				m[0].Close()
				m[1].Close()
			}
		}
	}()
	// parallel(n, f): f(i) for i<n on a few goroutines; the first failure stops the rest
	parallel := func(n, workers int, f func(i int) *e2e.Failure) *e2e.Failure {
		var mu sync.Mutex
		var first *e2e.Failure
		next := int64(0)
		var wg sync.WaitGroup
		for w := 0; w < workers; w++ {
			wg.Add(1)
			go func() {
				defer wg.Done()
				for {
					i := int(atomic.AddInt64(&next, 1)) - 1
					mu.Lock()
					stop := first != nil
					mu.Unlock()
					if i >= n || stop {
						return
					}
					if fl := f(i); fl != nil {
						mu.Lock()
						if first == nil {
							first = fl
						}
						mu.Unlock()
						return
					}
				}
			}()
		}
		wg.Wait()
		return first
	}
	report := func(step string, f *e2e.Failure) {
		rec.Case(key, !f.Inconclusive)
		if f.Inconclusive {
			rec.Inconclusive("crowd: "+step+":"+f.Kind, c)
			return
		}
		rec.Violation(sig+":"+step+":"+f.Kind, c, f.Info)
	}
	echo := func(m [2]net.Conn, k uint64, n int64) *e2e.Failure {
		return e2e.Duplex(m[0], m[1], &e2e.Stream{Key: k, Len: n}, &e2e.Stream{Key: k + 1, Len: n}, "c2t", "t2c", nil)
	}
	var opened int64
	f := parallel(c.Size, 4, func(i int) *e2e.Failure {
		app, tgt, f := openTagged(p, chanName(i%histChannels))
		if f != nil {
			return f
		}
		members[i] = [2]net.Conn{app, tgt}
		atomic.AddInt64(&opened, 1)
		if i%3 == 0 { // a third of them have been used before they go idle
			return echo(members[i], base+uint64(i)*4, 200)
		}
		return nil
	})
	rec.StatMax("crowd:most_connections_open_at_once_on_one_session", opened)
	if f != nil {
		report("open-while-the-others-are-open-and-idle", f)
		return
	}
	// a sample of the members, and one more connection, while everybody is open
	rng := vcommon.NewRand(c.Seed, "crowd")
	sample := []int{0, c.Size - 1}
	for len(sample) < 24 && len(sample) < c.Size {
		sample = append(sample, rng.Intn(c.Size))
	}
	for _, i := range sample {
		if f := echo(members[i], base+uint64(i)*4+2, 300); f != nil {
			report("use-of-an-idle-member", f)
			return
		}
	}
	if what, f := usable(p, nil, base+800000); f != nil {
		report(what+"-while-all-are-open", f)
		return
	}
	// everybody leaves, from either side
	f = parallel(c.Size, 8, func(i int) *e2e.Failure {
		m := members[i]
		var f *e2e.Failure
		if i%2 == 0 {
			m[0].Close()
			f = e2e.ExpectEOF(m[1], "c2t")
		} else {
			m[1].Close()
			f = e2e.ExpectEOF(m[0], "t2c")
		}
		m[0].Close()
		m[1].Close()
		return f
	})
	if f != nil {
		report("close-of-a-member", f)
		return
	}
	if what, f := usable(p, nil, base+810000); f != nil {
		report(what+"-after-all-have-left", f)
		return
	}
	rec.Case(key, true)
	rec.Stat("crowds_completed", 1)
	rec.StatMax("physical_sessions_during_one_crowd(max)", verifhook.Count("server.session")-sessions)
	rec.Seen("crowd(carrier, size)", fmt.Sprintf("%s/%d", c.Carrier, c.Size))
}

func crowdFor(rec *vcommon.Rec, carrier string) *crowdCase {
	rng := vcommon.NewRand(rec.Seed(), "c02crowd/"+carrier)
	n := rec.Pick(400, 1500) + rng.Intn(rec.Pick(400, 1000))
	if os.Getenv("VERIF_C02_NOQUIET") != "" {
		n = 300 + rng.Intn(100)
	}
	if strings.HasPrefix(carrier, "dns") {
		n = 300
	}
	return &crowdCase{Scenario: "crowd", Carrier: carrier, Size: n, Seed: rec.Seed()*100 + 77}
}
