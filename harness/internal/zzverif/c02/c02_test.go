// C02: multiplexed logical connections are isolated and independent (DESIGN.md §4 C02).
package c02

import (
	"encoding/binary"
	"encoding/json"
	"fmt"
	"net"
	"os"
	"sort"
	"strings"
	"sync"
	"sync/atomic"
	"testing"
	"time"

	"github.com/bokysan/socketace/v2/internal/util/buffers"
	"github.com/bokysan/socketace/v2/internal/util/cert"
	"github.com/bokysan/socketace/v2/internal/verifhook"
	"github.com/bokysan/socketace/v2/internal/zzverif/e2e"
	"github.com/bokysan/socketace/v2/internal/zzverif/vcommon"
	ms "github.com/multiformats/go-multistream"
	"github.com/xtaci/smux"
)

// ---- scripted independence -----------------------------------------------------------------

// states in which the coordinator holds the OTHER connections, for as long as needed
var otherStates = []string{"idle", "unread-c2t", "unread-t2c", "unread-both", "app-closed-target-open", "target-closed-app-open", "busy"}

// operations issued on the connection under observation
var ops = []string{"open+echo", "echo64k", "close-by-app", "close-by-target", "big-transfer", "refused-open", "dead-target-open"}

type scriptCase struct {
	Carrier  string   `json:"carrier"`
	Channels int      `json:"channels"`
	Others   []string `json:"others"`       // state of each other connection
	Unread   []int    `json:"unread_bytes"` // per other connection, for the unread states
	Op       string   `json:"op"`
	Seed     int64    `json:"seed"`
	SameChan bool     `json:"same_channel"` // the observed connection uses the same channel as other #0
	// Slow (cases with others in the state "connecting"): how the target of those connections is kept from accepting,
	// "gate" (e2e.Gate) or "backlog" (e2e.Blackhole: a TCP listener with a full accept queue)
	Slow string `json:"slow_target,omitempty"`
	// ObsSlow: the observed connection goes to the gated channel itself (its target accepts this one at once)
	ObsSlow bool `json:"observed_on_the_slow_channel,omitempty"`
}

// names of the two channels whose targets can be kept from accepting
const gateChan, holeChan = "chs", "chb"

// the slow-target fixture of a running pair (only pairs started for a case with Slow != "")
var (
	kitMu sync.Mutex
	kits  = map[*e2e.Pair]*e2e.SlowKit{}
)

func kitOf(p *e2e.Pair) *e2e.SlowKit {
	kitMu.Lock()
	defer kitMu.Unlock()
	return kits[p]
}

func closePair(p *e2e.Pair) {
	k := kitOf(p)
	if k != nil {
		k.Gate.Release()
	}
	p.Close()
	if k != nil {
		k.Close()
		kitMu.Lock()
		delete(kits, p)
		kitMu.Unlock()
	}
}

// waitUntil waits, under the stall rule, for a state of the fixture to be reached.
func waitUntil(cond func() bool) e2e.Outcome {
	var stop int32
	done := e2e.Go(func() {
		for atomic.LoadInt32(&stop) == 0 {
			if cond() {
				e2e.Bump(1)
				return
			}
			time.Sleep(5 * time.Millisecond)
		}
	})
	o := e2e.Wait(done)
	atomic.StoreInt32(&stop, 1)
	return o
}

type held struct {
	app, tgt net.Conn // tgt is nil while the target has not accepted ("connecting")
	stop     chan struct{}
	key      uint64
	tag      uint64 // "connecting" behind the gate: what the application has written so far
}

// holdConnecting opens a local connection for a channel whose target does not accept for the time being and waits
// until the server is connecting to that target: from then on this logical connection is "being opened", for as long
// as the coordinator likes. The application has already written its first bytes.
func holdConnecting(p *e2e.Pair, c *scriptCase, i int, rec *vcommon.Rec) (*held, *e2e.Failure) {
	kit := kitOf(p)
	h := &held{stop: make(chan struct{}), key: uint64(c.Seed)*64 + uint64(i) + 1}
	h.tag = h.key | 1<<62
	var hdr [8]byte
	binary.BigEndian.PutUint64(hdr[:], h.tag)
	lst := gateChan
	var reached func() bool
	if c.Slow == "backlog" {
		lst = holeChan
		before := kit.Hole.Pending()
		reached = func() bool {
			for port := range kit.Hole.Pending() {
				if !before[port] {
					return true
				}
			}
			return false
		}
	} else {
		n := kit.Gate.Arrived()
		kit.Gate.Arm(1)
		reached = func() bool { return kit.Gate.Arrived() > n }
	}
	app, err := p.Dial(lst)
	if err != nil {
		return nil, &e2e.Failure{Kind: "other-open-failed", Info: map[string]interface{}{"err": err.Error()}}
	}
	h.app = app
	app.Write(hdr[:])
	if o := waitUntil(reached); o != e2e.Done {
		app.Close()
		return nil, &e2e.Failure{Kind: "other-open-" + o.String() + ":the-server-never-started-connecting-to-its-target", Inconclusive: o == e2e.Inconclusive,
			Info: map[string]interface{}{"goroutines": e2e.Clip(e2e.Stacks(), 50000)}}
	}
	rec.Stat("other_connections_held:connecting/"+c.Slow, 1)
	return h, nil
}

// releaseConnecting: the targets behind the gate accept at last. Every connection that was held in "connecting" must
// now be served like any other: what its application wrote while it waited arrives first (the tag), then an echo.
func releaseConnecting(p *e2e.Pair, c *scriptCase, hs []*held) *e2e.Failure {
	kit := kitOf(p)
	kit.Gate.Release()
	for i, h := range hs {
		if c.Others[i] != "connecting" {
			continue
		}
		tgt, o := kit.GateTarget.NextTagged(h.tag)
		if o != e2e.Done {
			return &e2e.Failure{Kind: "target-never-connected", Inconclusive: o == e2e.Inconclusive, Info: map[string]interface{}{"goroutines": e2e.Clip(e2e.Stacks(), 50000)}}
		}
		h.tgt = tgt
		if f := e2e.Duplex(h.app, tgt, &e2e.Stream{Key: h.key + 7, Len: 300}, &e2e.Stream{Key: h.key + 1007, Len: 300}, "c2t", "t2c", nil); f != nil {
			return f
		}
	}
	return nil
}

func chanName(i int) string { return fmt.Sprintf("ch%d", i) }

func stateSet(others []string) string {
	m := map[string]bool{}
	for _, s := range others {
		m[s] = true
	}
	var l []string
	for s := range m {
		l = append(l, s)
	}
	sort.Strings(l)
	return strings.Join(l, "+")
}

// hold puts one other connection into its state. Returns a failure if even that cannot be done.
func hold(p *e2e.Pair, c *scriptCase, i int, rec *vcommon.Rec) (*held, *e2e.Failure) {
	if c.Others[i] == "connecting" {
		return holdConnecting(p, c, i, rec)
	}
	ch := chanName(i % c.Channels)
	app, tgt, o, err := p.Open(ch)
	if err != nil {
		return nil, &e2e.Failure{Kind: "other-open-failed", Info: map[string]interface{}{"err": err.Error()}}
	}
	if o != e2e.Done {
		return nil, &e2e.Failure{Kind: "other-open-" + o.String(), Inconclusive: o == e2e.Inconclusive, Info: map[string]interface{}{"goroutines": e2e.Clip(e2e.Stacks(), 50000)}}
	}
	h := &held{app: app, tgt: tgt, stop: make(chan struct{}), key: uint64(c.Seed)*64 + uint64(i) + 1}
	n := c.Unread[i]
	bg := func(w net.Conn, k uint64) {
		// a write that may block for ever (the receiver never reads): that is the state we want
		go e2e.WriteStream(w, &e2e.Stream{Key: k, Len: int64(n), Seg: func() int { return 32768 }})
	}
	switch c.Others[i] {
	case "idle":
	case "unread-c2t":
		bg(app, h.key)
	case "unread-t2c":
		bg(tgt, h.key+1000)
	case "unread-both":
		bg(app, h.key)
		bg(tgt, h.key+1000)
	case "app-closed-target-open":
		app.Close() // the target never reads its end-of-stream and never closes
	case "target-closed-app-open":
		tgt.Close()
	case "busy":
		go func() {
			// continuous echo traffic for as long as the case lasts
			for {
				select {
				case <-h.stop:
					return
				default:
				}
				s := &e2e.Stream{Key: h.key, Len: 8192}
				if f := e2e.Duplex(app, tgt, s, &e2e.Stream{Key: h.key + 1000, Len: 8192}, "c2t", "t2c", nil); f != nil {
					return
				}
			}
		}()
	}
	rec.Stat("other_connections_held:"+c.Others[i], 1)
	return h, nil
}

func runScript(rec *vcommon.Rec, p *e2e.Pair, c *scriptCase) (stalled bool) {
	rec.Mark(c)
	key := fmt.Sprintf("%s/%d/%v/%v/%s/%v", c.Carrier, c.Channels, c.Others, c.Unread, c.Op, c.SameChan)
	if c.Slow != "" {
		key += fmt.Sprintf("/slow=%s/%v", c.Slow, c.ObsSlow)
		if kit := kitOf(p); kit == nil {
			rec.Inconclusive("no slow-target fixture for this pair", c)
			return false
		} else if c.Slow == "backlog" && kit.Hole == nil {
			// this kernel gives no listener that lets a connect wait: the gate stands in for it
			rec.Note("no black-hole listener here, case run with the gate instead", map[string]interface{}{"why": fmt.Sprint(kit.HoleErr)})
			rec.Stat("backlog_cases_run_with_the_gate_instead", 1)
			cc := *c
			cc.Slow = "gate"
			c = &cc
		}
		rec.Seen("slow target kind", c.Slow)
	}
	sigBase := "scripted:" + c.Carrier
	var hs []*held
	defer func() {
		if kit := kitOf(p); kit != nil {
			kit.Gate.Release()
		}
		for _, h := range hs {
			close(h.stop)
			h.app.Close()
			if h.tgt != nil {
				h.tgt.Close()
			}
		}
	}()
	for i := range c.Others {
		h, f := hold(p, c, i, rec)
		if f != nil {
			if f.Inconclusive {
				rec.Inconclusive(f.Kind, c)
				return false
			}
			// opening the i-th connection while the first i-1 are held IS an instance of the property
			rec.Case(key, true)
			rec.Violation(fmt.Sprintf("%s:%s:while-others=%s", sigBase, f.Kind, stateSet(c.Others[:i])), c, f.Info)
			return true
		}
		hs = append(hs, h)
	}
	// the observed connection
	ch := chanName(0)
	if !c.SameChan {
		ch = chanName(c.Channels - 1)
	}
	obsKey := uint64(c.Seed)*64 + 63
	var others []uint64
	for _, h := range hs {
		others = append(others, h.key, h.key+1000)
	}
	var f *e2e.Failure
	if c.Op == "refused-open" || c.Op == "dead-target-open" {
		// a local connection for a channel the server refuses (that refusal is C03's subject), or for a channel
		// whose target is down, must not disturb the others: every idle held connection, and a new one, must still
		// work afterwards
		lst := "chx"
		if c.Op == "dead-target-open" {
			lst = "chd"
		}
		if bad, derr := p.Dial(lst); derr == nil {
			bad.Write([]byte("hello?"))
			gone := e2e.Go(func() {
				b := make([]byte, 64)
				for {
					if _, e := bad.Read(b); e != nil {
						return
					}
				}
			})
			if e2e.Wait(gone) == e2e.Done {
				rec.Stat(c.Op+"s_performed", 1)
			}
			bad.Close()
		}
		for i, h := range hs {
			if c.Others[i] != "idle" {
				continue
			}
			if f = e2e.Duplex(h.app, h.tgt, &e2e.Stream{Key: h.key + 7, Len: 300}, &e2e.Stream{Key: h.key + 1007, Len: 300}, "c2t", "t2c", nil); f != nil {
				f.Kind = "held-idle-connection-broken-after-a-" + c.Op + ":" + f.Kind
				break
			}
			rec.Stat("held_connections_verified_after_"+c.Op, 1)
		}
		if f != nil {
			rec.Case(key, !f.Inconclusive)
			if f.Inconclusive {
				rec.Inconclusive(f.Kind, c)
				return false
			}
			rec.Violation(fmt.Sprintf("%s:%s:%s", sigBase, c.Op, f.Kind), c, f.Info)
			return strings.Contains(f.Kind, "stalled")
		}
	}
	var app, tgt net.Conn
	var o e2e.Outcome
	var err error
	if c.ObsSlow && c.Slow == "gate" {
		// the gated channel itself: its target accepts this connection at once (the gate is armed for the others only)
		ch = gateChan
		if app, err = p.Dial(ch); err == nil {
			var hdr [8]byte
			binary.BigEndian.PutUint64(hdr[:], obsKey|1<<62)
			app.Write(hdr[:])
			tgt, o = kitOf(p).GateTarget.NextTagged(obsKey | 1<<62)
		}
	} else {
		app, tgt, o, err = p.Open(ch)
	}
	switch {
	case err != nil:
		f = &e2e.Failure{Kind: "open-failed", Info: map[string]interface{}{"err": err.Error()}}
	case o == e2e.Inconclusive:
		f = &e2e.Failure{Kind: "busy", Inconclusive: true}
	case o == e2e.Stalled:
		f = &e2e.Failure{Kind: "open:target-never-connected", Info: map[string]interface{}{"goroutines": e2e.Clip(e2e.Stacks(), 50000)}}
	}
	if f == nil {
		defer app.Close()
		defer tgt.Close()
		echo := func(n int64) *e2e.Failure {
			return e2e.Duplex(app, tgt, &e2e.Stream{Key: obsKey, Len: n}, &e2e.Stream{Key: obsKey + 1000, Len: n}, "c2t", "t2c", others)
		}
		switch c.Op {
		case "open+echo", "refused-open", "dead-target-open":
			f = echo(100)
		case "echo64k":
			f = echo(65536)
		case "big-transfer":
			f = echo(600000)
		case "close-by-app":
			if f = echo(1000); f == nil {
				app.Close()
				f = e2e.ExpectEOF(tgt, "c2t")
			}
		case "close-by-target":
			if f = echo(1000); f == nil {
				tgt.Close()
				f = e2e.ExpectEOF(app, "t2c")
			}
		}
	}
	rec.Case(key, f == nil || !f.Inconclusive)
	rec.Seen("(state-set of the others, op)", stateSet(c.Others)+" | "+c.Op)
	rec.Seen("carrier", c.Carrier)
	if f == nil && c.Slow == "gate" {
		if rf := releaseConnecting(p, c, hs); rf != nil {
			if rf.Inconclusive {
				rec.Inconclusive("connecting-connection-after-its-target-accepted:"+rf.Kind, c)
				return false
			}
			rec.Violation(fmt.Sprintf("%s:%s:connecting-connection-after-its-target-accepted:%s:while-others=%s", sigBase, c.Op, rf.Kind, stateSet(c.Others)), c, rf.Info)
			return strings.Contains(rf.Kind, "stalled") || strings.Contains(rf.Kind, "never") || strings.Contains(rf.Kind, "no-end")
		}
		rec.Stat("connecting_connections_served_after_their_target_accepted", 1)
	}
	if f == nil {
		rec.Stat("scripted_steps_completed", 1)
		return false
	}
	if f.Inconclusive {
		rec.Inconclusive(f.Kind, c)
		return false
	}
	rec.Violation(fmt.Sprintf("%s:%s:%s:while-others=%s", sigBase, c.Op, f.Kind, stateSet(c.Others)), c, f.Info)
	return strings.Contains(f.Kind, "stalled") || strings.Contains(f.Kind, "never") || strings.Contains(f.Kind, "no-end")
}

func scriptCases(rec *vcommon.Rec, carrier string) []*scriptCase {
	rng := vcommon.NewRand(rec.Seed(), "c02s/"+carrier)
	var out []*scriptCase
	n := rec.Pick(26, 160)
	if strings.HasPrefix(carrier, "dns") {
		n = rec.Pick(6, 24)
	}
	for i := 0; i < n; i++ {
		k := 2 + rng.Intn(rec.Pick(4, 7)) // total connections incl. the observed one
		c := &scriptCase{Carrier: carrier, Channels: 1 + rng.Intn(3), Op: ops[i%len(ops)], Seed: rec.Seed()*10000 + int64(i), SameChan: rng.Intn(2) == 0}
		budget := 3 << 20 // keep the unread total well under the multiplexer's shared 4 MiB
		if strings.HasPrefix(carrier, "dns") {
			budget = 200 << 10
		}
		for j := 0; j < k-1; j++ {
			st := otherStates[(i+j*3+rng.Intn(2))%len(otherStates)]
			// every state appears as the ONLY kind of other at least once (first len(otherStates) cases)
			if i < len(otherStates) {
				st = otherStates[i]
			}
			u := 0
			if strings.HasPrefix(st, "unread") {
				u = []int{1, 4096, 70000, 300000, 1 << 20}[rng.Intn(5)]
				if st == "unread-both" {
					u /= 2
				}
				if u > budget/(k-1) {
					u = budget / (k - 1)
				}
				if u < 1 {
					u = 1
				}
			}
			c.Others = append(c.Others, st)
			c.Unread = append(c.Unread, u)
		}
		if c.Op == "refused-open" || c.Op == "dead-target-open" {
			c.Others[0], c.Unread[0] = "idle", 0
		}
		out = append(out, c)
	}
	return out
}

// slowCases: at least one other connection is still being opened -- the server is connecting to its target, which does not
// accept for as long as the case lasts (a loaded service, a full accept queue, a filtered host) -- while the operation
// is issued on the observed connection. Further others are in any of the states, "connecting" included.
func slowCases(rec *vcommon.Rec, carrier string) []*scriptCase {
	rng := vcommon.NewRand(rec.Seed(), "c02slow/"+carrier)
	var out []*scriptCase
	n := rec.Pick(14, 63)
	dns := strings.HasPrefix(carrier, "dns")
	if dns {
		n = rec.Pick(4, 9)
	}
	states := append(append([]string{}, otherStates...), "connecting")
	for i := 0; i < n; i++ {
		c := &scriptCase{Carrier: carrier, Channels: 1 + rng.Intn(3), Op: ops[i%len(ops)], Seed: rec.Seed()*10000 + 5000 + int64(i), SameChan: rng.Intn(2) == 0, Slow: "gate"}
		if i%3 == 1 {
			c.Slow = "backlog"
		}
		obsSlow := rng.Intn(3) == 0
		c.ObsSlow = obsSlow && c.Slow == "gate"
		c.Others, c.Unread = []string{"connecting"}, []int{0}
		if c.Op == "refused-open" || c.Op == "dead-target-open" {
			c.Others, c.Unread = append(c.Others, "idle"), append(c.Unread, 0)
		}
		extra := 0
		if i >= len(ops) { // the first round of operations has the connecting connection as the only other
			extra = 1 + rng.Intn(rec.Pick(3, 5))
		}
		budget := 3 << 20
		if dns {
			budget = 200 << 10
		}
		for j := 0; j < extra; j++ {
			st := states[rng.Intn(len(states))]
			u := 0
			if strings.HasPrefix(st, "unread") {
				u = []int{1, 4096, 70000, 300000, 1 << 20}[rng.Intn(5)]
				if st == "unread-both" {
					u /= 2
				}
				if u > budget/extra {
					u = budget / extra
				}
				if u < 1 {
					u = 1
				}
			}
			c.Others, c.Unread = append(c.Others, st), append(c.Unread, u)
		}
		out = append(out, c)
	}
	return out
}

// ---- free-running stress ---------------------------------------------------------------------

type stressCase struct {
	Carrier  string `json:"carrier"`
	K        int    `json:"goroutines"`
	Conns    int    `json:"connections_per_goroutine"`
	Channels int    `json:"channels"`
	HookWait bool   `json:"delay_in_server_accept_hook"`
	Seed     int64  `json:"seed"`
}

var tagSeq uint64

func runStress(rec *vcommon.Rec, c *stressCase) {
	rec.Mark(c)
	var chans []e2e.ChanSpec
	for i := 0; i < c.Channels; i++ {
		chans = append(chans, e2e.ChanSpec{Name: chanName(i), Tagged: true})
	}
	p, err := e2e.Start(e2e.Options{Carrier: c.Carrier, Channels: chans, Tag: "s"})
	if err != nil {
		rec.Violation("stress:"+c.Carrier+":setup-failed", c, err.Error())
		return
	}
	defer p.Close()
	if c.HookWait {
		hr := vcommon.NewRand(c.Seed, "hook")
		var mu sync.Mutex
		verifhook.Set("server.stream.accepted", func() {
			mu.Lock()
			d := time.Duration(hr.Intn(3000)) * time.Microsecond
			mu.Unlock()
			time.Sleep(d)
		})
		defer verifhook.Set("server.stream.accepted", nil)
	}
	var mu sync.Mutex
	var first *e2e.Failure
	var firstInfo interface{}
	var bytesOK, connsOK, opsDone int64
	var allKeys []uint64
	for g := 0; g < c.K; g++ {
		for n := 0; n < c.Conns; n++ {
			allKeys = append(allKeys, uint64(c.Seed)*100000+uint64(g*1000+n)*2+1, uint64(c.Seed)*100000+uint64(g*1000+n)*2+2)
		}
	}
	var wg sync.WaitGroup
	var stop int32
	for g := 0; g < c.K; g++ {
		wg.Add(1)
		go func(g int) {
			defer wg.Done()
			rng := vcommon.NewRand(c.Seed, fmt.Sprintf("stress/%d", g))
			for n := 0; n < c.Conns && atomic.LoadInt32(&stop) == 0; n++ {
				ch := chanName(rng.Intn(c.Channels))
				tag := atomic.AddUint64(&tagSeq, 1) | uint64(c.Seed)<<32
				kA := uint64(c.Seed)*100000 + uint64(g*1000+n)*2 + 1
				kB := kA + 1
				fail := func(f *e2e.Failure, what string) {
					f.Kind = what + ":" + f.Kind
					mu.Lock()
					if first == nil {
						first, firstInfo = f, map[string]interface{}{"goroutine": g, "conn": n, "channel": ch, "info": f.Info}
					}
					mu.Unlock()
					atomic.StoreInt32(&stop, 1)
				}
				app, err := p.Dial(ch)
				if err != nil {
					fail(&e2e.Failure{Kind: "dial-failed", Info: map[string]interface{}{"err": err.Error()}}, "open")
					return
				}
				var hdr [8]byte
				binary.BigEndian.PutUint64(hdr[:], tag)
				if _, err := app.Write(hdr[:]); err != nil {
					fail(&e2e.Failure{Kind: "tag-write-failed", Info: map[string]interface{}{"err": err.Error()}}, "open")
					app.Close()
					return
				}
				e2e.Bump(8)
				tgt, o := p.Targets[ch].NextTagged(tag)
				if o != e2e.Done {
					if o == e2e.Stalled && atomic.LoadInt32(&stop) == 0 {
						fail(&e2e.Failure{Kind: "target-never-connected", Info: map[string]interface{}{"goroutines": e2e.Clip(e2e.Stacks(), 50000)}}, "open")
					} else if o == e2e.Inconclusive {
						fail(&e2e.Failure{Kind: "busy", Inconclusive: true}, "open")
					}
					app.Close()
					return
				}
				// random op script on this connection; both ends are ours
				var offA, offB int64
				steps := 1 + rng.Intn(6)
				for s := 0; s < steps && atomic.LoadInt32(&stop) == 0; s++ {
					var f *e2e.Failure
					switch rng.Intn(5) {
					case 0: // echo both ways at once
						la, lb := int64(1+rng.Intn(70000)), int64(1+rng.Intn(70000))
						f = duplexAt(app, tgt, kA, kB, offA, offB, la, lb, allKeys)
						offA, offB = offA+la, offB+lb
					case 1: // one way only
						la := int64(1 + rng.Intn(200000))
						f = duplexAt(app, tgt, kA, kB, offA, offB, la, 0, allKeys)
						offA += la
					case 2:
						lb := int64(1 + rng.Intn(200000))
						f = duplexAt(app, tgt, kA, kB, offA, offB, 0, lb, allKeys)
						offB += lb
					case 3: // pause (idle while the others work)
						time.Sleep(time.Duration(rng.Intn(3000)) * time.Microsecond)
					case 4: // tiny
						f = duplexAt(app, tgt, kA, kB, offA, offB, 1, 1, allKeys)
						offA, offB = offA+1, offB+1
					}
					if f != nil {
						fail(f, "transfer")
						app.Close()
						tgt.Close()
						return
					}
					atomic.AddInt64(&opsDone, 1)
				}
				// close from a random side; the other must see end-of-stream
				var f *e2e.Failure
				if rng.Intn(2) == 0 {
					app.Close()
					f = e2e.ExpectEOF(tgt, "c2t")
					tgt.Close()
				} else {
					tgt.Close()
					f = e2e.ExpectEOF(app, "t2c")
					app.Close()
				}
				if f != nil && atomic.LoadInt32(&stop) == 0 {
					fail(f, "close")
					return
				}
				atomic.AddInt64(&bytesOK, offA+offB)
				atomic.AddInt64(&connsOK, 1)
			}
		}(g)
	}
	wg.Wait()
	key := fmt.Sprintf("stress/%s/%d/%d/%d/%v", c.Carrier, c.K, c.Conns, c.Channels, c.HookWait)
	rec.Case(key, connsOK > 0)
	rec.Stat("stress_connections_completed", connsOK)
	rec.Stat("stress_ops_completed", opsDone)
	rec.Stat("stress_bytes_verified", bytesOK)
	rec.Seen("stress(carrier,k)", fmt.Sprintf("%s/k=%d", c.Carrier, c.K))
	if first != nil {
		if first.Inconclusive {
			rec.Inconclusive(first.Kind, c)
		} else {
			rec.Violation("stress:"+c.Carrier+":"+first.Kind, c, firstInfo)
		}
	}
}

// duplexAt continues the keyed streams of a connection at the given offsets.
func duplexAt(app, tgt net.Conn, kA, kB uint64, offA, offB, la, lb int64, all []uint64) *e2e.Failure {
	// a stream that starts at an offset is the same keyed stream shifted: use a derived key per segment
	// would lose cross-offset detection, so verify with explicit offsets
	var wg sync.WaitGroup
	var mu sync.Mutex
	var first *e2e.Failure
	set := func(f *e2e.Failure) {
		mu.Lock()
		if first == nil {
			first = f
		}
		mu.Unlock()
	}
	xfer := func(w, r net.Conn, key uint64, off, n int64, dir string) {
		if n == 0 {
			return
		}
		wg.Add(2)
		go func() {
			defer wg.Done()
			buf := make([]byte, n)
			vcommon.FillKeyed(key, off, buf)
			for len(buf) > 0 {
				m, err := w.Write(buf)
				e2e.Bump(m)
				if err != nil {
					set(&e2e.Failure{Kind: dir + ":write-error", Info: map[string]interface{}{"err": err.Error()}})
					return
				}
				buf = buf[m:]
			}
		}()
		go func() {
			defer wg.Done()
			buf := make([]byte, 65536)
			var got int64
			for got < n {
				want := int64(len(buf))
				if n-got < want {
					want = n - got
				}
				m, err := r.Read(buf[:want])
				if m > 0 {
					e2e.Bump(m)
					if bad := vcommon.CheckKeyed(key, off+got, buf[:m]); bad >= 0 {
						kind := vcommon.Classify(key, off+got+int64(bad), buf[bad:m], all)
						cls := kind
						if i := strings.IndexByte(kind, '('); i > 0 {
							cls = kind[:i]
						}
						set(&e2e.Failure{Kind: dir + ":mismatch:" + cls, Info: map[string]interface{}{"offset": off + got + int64(bad), "detail": kind}})
						return
					}
					got += int64(m)
				}
				if err != nil && got < n {
					set(&e2e.Failure{Kind: dir + ":ended-short", Info: map[string]interface{}{"got": got, "want": n, "err": err.Error()}})
					return
				}
			}
		}()
	}
	xfer(app, tgt, kA, offA, la, "c2t")
	xfer(tgt, app, kB, offB, lb, "t2c")
	switch e2e.Wait(e2e.Go(wg.Wait)) {
	case e2e.Stalled:
		mu.Lock()
		defer mu.Unlock()
		if first != nil {
			return first
		}
		return &e2e.Failure{Kind: "stalled", Info: map[string]interface{}{"goroutines": e2e.Clip(e2e.Stacks(), 50000)}}
	case e2e.Inconclusive:
		return &e2e.Failure{Kind: "busy", Inconclusive: true}
	}
	return first
}

// runQuiet: a logical connection that stays open and completely quiet (no byte on the whole physical
// session) for longer than any keep-alive interval involved (the multiplexer pings every 10 s and gives up
// after 30 s of silence), and a one-way transfer that lasts that long, must keep working: "an open connection
// that is idle never delays the others" includes not being cut because it is idle.
func runQuiet(rec *vcommon.Rec, carrier string, quiet time.Duration) {
	c := map[string]interface{}{"scenario": "quiet", "carrier": carrier, "quiet_seconds": quiet.Seconds()}
	rec.Mark(c)
	p, err := e2e.Start(e2e.Options{Carrier: carrier, Tag: "q"})
	if err != nil {
		rec.Violation("quiet:"+carrier+":setup-failed", c, err.Error())
		return
	}
	defer p.Close()
	app, tgt, o, err := p.Open("echo")
	if err != nil || o != e2e.Done {
		rec.Inconclusive("quiet: open failed", c)
		return
	}
	defer app.Close()
	defer tgt.Close()
	k := uint64(rec.Seed())*977 + 5
	if f := e2e.Duplex(app, tgt, &e2e.Stream{Key: k, Len: 64}, &e2e.Stream{Key: k + 1, Len: 64}, "c2t", "t2c", nil); f != nil {
		rec.Inconclusive("quiet: first echo failed: "+f.Kind, c)
		return
	}
	// phase 1: total silence
	time.Sleep(quiet)
	f := e2e.Duplex(app, tgt, &e2e.Stream{Key: k + 2, Len: 64}, &e2e.Stream{Key: k + 3, Len: 64}, "c2t", "t2c", nil)
	rec.Case("quiet/"+carrier, true)
	rec.Seen("quiet(carrier)", carrier)
	if f != nil && !f.Inconclusive {
		rec.Violation("quiet:"+carrier+":idle-connection-cut:"+f.Kind, c, f.Info)
		return
	}
	// phase 2: one-way trickle from the application for the same duration (nothing flows back)
	var werr error
	sent := int64(0)
	chunk := make([]byte, 512)
	rd := e2e.Go(func() {
		buf := make([]byte, 4096)
		got := int64(0)
		for got < int64(quiet/(100*time.Millisecond))*512 {
			n, err := tgt.Read(buf)
			if n > 0 {
				if bad := vcommon.CheckKeyed(k+9, got, buf[:n]); bad >= 0 {
					werr = fmt.Errorf("mismatch at %d", got+int64(bad))
					return
				}
				got += int64(n)
				e2e.Bump(n)
			}
			if err != nil {
				werr = fmt.Errorf("target read ended after %d bytes: %v", got, err)
				return
			}
		}
	})
	for i := 0; i < int(quiet/(100*time.Millisecond)); i++ {
		vcommon.FillKeyed(k+9, sent, chunk)
		if _, err := app.Write(chunk); err != nil {
			werr = fmt.Errorf("write failed after %d bytes: %v", sent, err)
			break
		}
		sent += int64(len(chunk))
		time.Sleep(100 * time.Millisecond)
	}
	if e2e.Wait(rd) == e2e.Stalled && werr == nil {
		werr = fmt.Errorf("target stopped receiving")
	}
	rec.Case("quiet-oneway/"+carrier, true)
	if werr != nil {
		rec.Violation("quiet:"+carrier+":one-way-transfer-cut", c, werr.Error())
		return
	}
	rec.Stat("quiet_connections_survived", 1)
	rec.Stat("one_way_trickle_bytes_verified", sent)
}

// runSilentStream: a peer that drives the multiplexer by hand opens a logical connection and says nothing on it (the
// stock client names the channel right after opening; another implementation, or a slow one, need not). That connection
// is open and idle: the next one opened on the session must be served at once, and the silent one, too, once it speaks.
func runSilentStream(rec *vcommon.Rec, carrier string) {
	c := map[string]interface{}{"scenario": "opened-but-silent-connection", "carrier": carrier}
	rec.Mark(c)
	p, err := e2e.Start(e2e.Options{Carrier: carrier, Tag: "z", NoClient: true})
	if err != nil {
		rec.Violation("silent-stream:"+carrier+":setup-failed", c, err.Error())
		return
	}
	defer p.Close()
	up := p.NewUpstream()
	if up == nil {
		rec.Inconclusive("silent-stream: no upstream for "+carrier, c)
		return
	}
	var cerr error
	switch e2e.Wait(e2e.Go(func() { cerr = up.Connect(&cert.ClientConfig{InsecureSkipVerify: true}, false) })) {
	case e2e.Stalled:
		rec.Violation("silent-stream:"+carrier+":handshake-stalled", c, nil)
		return
	case e2e.Inconclusive:
		rec.Inconclusive("silent-stream: busy", c)
		return
	}
	if cerr != nil {
		rec.Violation("silent-stream:"+carrier+":handshake-failed", c, cerr.Error())
		return
	}
	cfg := smux.DefaultConfig()
	cfg.MaxFrameSize = buffers.BufferSize - 128
	sess, err := smux.Client(up, cfg)
	if err != nil {
		rec.Inconclusive("silent-stream: smux client: "+err.Error(), c)
		return
	}
	defer sess.Close()
	key := uint64(rec.Seed())*7919 + 100
	// serve(stream): name the channel, wait for the target's connection, echo keyed data both ways
	serve := func(st net.Conn, k uint64) *e2e.Failure {
		var f *e2e.Failure
		done := e2e.Go(func() {
			if err := ms.SelectProtoOrFail("/echo", st); err != nil {
				f = &e2e.Failure{Kind: "channel-selection-failed", Info: map[string]interface{}{"err": err.Error()}}
				return
			}
			tgt, o := p.Targets["echo"].Next()
			if o != e2e.Done {
				f = &e2e.Failure{Kind: "target-never-connected", Inconclusive: o == e2e.Inconclusive}
				return
			}
			defer tgt.Close()
			f = e2e.Duplex(st, tgt, &e2e.Stream{Key: k, Len: 20000}, &e2e.Stream{Key: k + 1, Len: 20000}, "c2t", "t2c", nil)
		})
		switch e2e.Wait(done) {
		case e2e.Stalled:
			return &e2e.Failure{Kind: "stalled", Info: map[string]interface{}{"goroutines": e2e.Clip(e2e.Stacks(), 40000)}}
		case e2e.Inconclusive:
			return &e2e.Failure{Kind: "busy", Inconclusive: true}
		}
		return f
	}
	judge := func(step string, f *e2e.Failure) bool {
		rec.Case("silent/"+carrier+"/"+step, f == nil || !f.Inconclusive)
		if f == nil {
			rec.Stat("silent_stream_steps_verified:"+step, 1)
			return true
		}
		if f.Inconclusive {
			rec.Inconclusive("silent-stream: "+f.Kind, c)
		} else {
			rec.Violation("silent-stream:"+carrier+":"+step+":"+f.Kind, c, f.Info)
		}
		return false
	}
	silent, err := sess.OpenStream()
	if err != nil {
		rec.Violation("silent-stream:"+carrier+":open-failed", c, err.Error())
		return
	}
	defer silent.Close()
	time.Sleep(100 * time.Millisecond) // the open frame is on its way; nothing else is said on this connection
	second, err := sess.OpenStream()
	if err != nil {
		rec.Violation("silent-stream:"+carrier+":second-open-failed", c, err.Error())
		return
	}
	if !judge("another-connection-while-one-is-silent", serve(second, key)) {
		return
	}
	second.Close()
	// a silent connection that goes away without ever having spoken
	gone, err := sess.OpenStream()
	if err == nil {
		time.Sleep(50 * time.Millisecond)
		gone.Close()
	}
	third, err := sess.OpenStream()
	if err != nil {
		rec.Violation("silent-stream:"+carrier+":third-open-failed", c, err.Error())
		return
	}
	if !judge("another-connection-after-a-silent-one-was-closed", serve(third, key+10)) {
		return
	}
	third.Close()
	// the silent one speaks at last
	judge("the-silent-connection-speaks-later", serve(silent, key+20))
}

func TestVerifC02(t *testing.T) {
	e2e.Quiet()
	rec := vcommon.Open()
	defer rec.Close()
	if rec.Replay != nil {
		var probe map[string]interface{}
		json.Unmarshal(rec.Replay, &probe)
		switch probe["scenario"] {
		case "history":
			var c histCase
			json.Unmarshal(rec.Replay, &c)
			runHistory(rec, &c)
			return
		case "crowd":
			var c crowdCase
			json.Unmarshal(rec.Replay, &c)
			runCrowd(rec, &c)
			return
		}
		if _, isStress := probe["goroutines"]; isStress {
			var c stressCase
			json.Unmarshal(rec.Replay, &c)
			runStress(rec, &c)
			return
		}
		var c scriptCase
		json.Unmarshal(rec.Replay, &c)
		p, err := startFor(&c)
		if err != nil {
			rec.Violation("scripted:"+c.Carrier+":setup-failed", c, err.Error())
			return
		}
		defer closePair(p)
		runScript(rec, p, &c)
		return
	}
	carriers := []string{"tcp", "ws", "udp"}
	if rec.Thorough() {
		carriers = []string{"tcp", "unix", "tcp+tls", "tcp+starttls", "ws", "wss", "ws+starttls", "udp", "udp+secret", "udp+starttls", "unix+tls", "dns"}
	}
	if v := os.Getenv("VERIF_CARRIERS"); v != "" {
		carriers = strings.Split(v, ",")
	}
	// work items
	type item struct {
		Kind    string
		Carrier string
		Part    int
	}
	var items []item
	parts := rec.Pick(2, 4)
	for _, c := range carriers {
		for pt := 0; pt < parts; pt++ {
			items = append(items, item{"script", c, pt})
		}
		items = append(items, item{"stress", c, 0})
		if rec.Thorough() && !strings.HasPrefix(c, "dns") {
			items = append(items, item{"stress", c, 1})
		}
	}
	if os.Getenv("VERIF_C02_NOQUIET") == "" { // the quiet scenarios only run in the plain pass (they are all waiting)
		for _, c := range []string{"tcp", "ws", "udp", "tcp+starttls"} {
			items = append(items, item{"quiet", c, 0})
		}
	}
	for _, c := range []string{"tcp", "ws", "udp", "tcp+starttls"} {
		items = append(items, item{"silent", c, 0})
	}
	for _, c := range carriers {
		items = append(items, item{"slow", c, 0})
	}
	// long lives of one session: histories of connections that have come and gone, crowds of open connections
	hparts := rec.Pick(2, 4)
	for _, c := range carriers {
		for pt := 0; pt < hparts; pt++ {
			items = append(items, item{"history", c, pt})
		}
	}
	for idx, it := range items {
		if !rec.Mine(idx) {
			continue
		}
		if it.Kind == "history" {
			for i, c := range histCases(rec, it.Carrier) {
				if i%hparts == it.Part {
					runHistory(rec, c)
				}
			}
			if it.Part == 0 {
				runCrowd(rec, crowdFor(rec, it.Carrier))
			}
			continue
		}
		if it.Kind == "silent" {
			runSilentStream(rec, it.Carrier)
			continue
		}
		if it.Kind == "quiet" {
			runQuiet(rec, it.Carrier, time.Duration(rec.Pick(35, 65))*time.Second)
			continue
		}
		if it.Kind == "stress" {
			rng := vcommon.NewRand(rec.Seed(), "c02stress/"+it.Carrier+fmt.Sprint(it.Part))
			for _, k := range []int{2, 4, 8, 16} {
				c := &stressCase{Carrier: it.Carrier, K: k, Conns: rec.Pick(3, 30), Channels: 1 + rng.Intn(3), HookWait: (k/2+it.Part)%2 == 0,
					Seed: rec.Seed()*1000 + int64(k) + int64(it.Part)*100}
				if strings.HasPrefix(it.Carrier, "dns") {
					if k > 4 {
						continue
					}
					c.Conns = 2
				}
				runStress(rec, c)
			}
			continue
		}
		cs := scriptCases(rec, it.Carrier)
		if it.Kind == "slow" {
			cs = slowCases(rec, it.Carrier)
		}
		var p *e2e.Pair
		stalls := 0
		for i, c := range cs {
			if it.Kind != "slow" && i%parts != it.Part {
				continue
			}
			if p == nil {
				var err error
				if p, err = startFor(c); err != nil {
					rec.Violation("scripted:"+c.Carrier+":setup-failed", c, err.Error())
					break
				}
			}
			if runScript(rec, p, c) {
				// after a stall the session may be wedged: start afresh, give up after two
				stalls++
				closePair(p)
				p = nil
				if stalls >= 2 {
					rec.Note("carrier abandoned after two stalls", it)
					break
				}
			}
		}
		if p != nil {
			closePair(p)
		}
	}
}

func startFor(c *scriptCase) (*e2e.Pair, error) {
	var chans []e2e.ChanSpec
	for i := 0; i < 3; i++ {
		chans = append(chans, e2e.ChanSpec{Name: chanName(i)})
	}
	// a fourth listener asks the server for a channel name it does not offer: such a connection is refused
	chans = append(chans, e2e.ChanSpec{Name: "chx"})
	// a fifth channel is offered by the server, but its target is down
	chans = append(chans, e2e.ChanSpec{Name: "chd", Dead: true})
	var kit *e2e.SlowKit
	if c.Slow != "" {
		// two more channels, whose targets can be kept from accepting a connection
		var err error
		if kit, err = e2e.NewSlowKit(gateChan, holeChan, "c"); err != nil {
			return nil, err
		}
		chans = append(chans, kit.Channels()...)
	}
	p, err := e2e.Start(e2e.Options{Carrier: c.Carrier, Channels: chans, Tag: "c", ListenerNames: map[string]string{"chx": "not-offered-by-the-server"}})
	if kit != nil {
		if err != nil {
			kit.Close()
		} else {
			kitMu.Lock()
			kits[p] = kit
			kitMu.Unlock()
		}
	}
	return p, err
}
