// C03: channel routing and exposure control (DESIGN.md §4 C03).
//
// Reference model (the whole oracle): expected(endpoint, name) = target(name) if name is configured
// and (the endpoint's allow-list is empty or contains name), else REFUSED.
// Observed at the system's boundary only: what the requesting application receives (banner of a
// recording target / end-of-stream without payload) and which recording targets accepted a
// connection. Quiescence is a logical barrier, not a sleep: after the requester has its outcome the
// harness dials every target itself ("sentinel") and drains the target's accept queue up to the
// sentinel (its socket is bound to a name the target sees); accept queues are FIFO, so every connection the server made before is in the drained set.
package c03

import (
	"bytes"
	"encoding/binary"
	"encoding/json"
	"fmt"
	"io"
	"net"
	"os"
	"runtime"
	"sort"
	"strings"
	"sync"
	"sync/atomic"
	"testing"
	"time"
	"unicode"

	"github.com/bokysan/socketace/v2/internal/client/listener"
	"github.com/bokysan/socketace/v2/internal/client/upstream"
	clientCmd "github.com/bokysan/socketace/v2/internal/commands/client"
	serverCmd "github.com/bokysan/socketace/v2/internal/commands/server"
	"github.com/bokysan/socketace/v2/internal/server"
	"github.com/bokysan/socketace/v2/internal/util/addr"
	"github.com/bokysan/socketace/v2/internal/util/buffers"
	"github.com/bokysan/socketace/v2/internal/util/cert"
	"github.com/bokysan/socketace/v2/internal/verifhook"
	"github.com/bokysan/socketace/v2/internal/zzverif/e2e"
	"github.com/bokysan/socketace/v2/internal/zzverif/vcommon"
	ms "github.com/multiformats/go-multistream"
	"github.com/xtaci/smux"
)

var pool = []string{"a", "ab", "abc", "A", "a_b", "a/b", "echo", "echo2"}

const bannerLen = 11

func banner(i int) []byte { return []byte(fmt.Sprintf("<<TGT-%02d>>\n", i)) }

func bannerIdx(b []byte) int {
	var i int
	if len(b) == bannerLen && bytes.HasPrefix(b, []byte("<<TGT-")) && bytes.HasSuffix(b, []byte(">>\n")) {
		if _, err := fmt.Sscanf(string(b[6:8]), "%02d", &i); err == nil {
			return i
		}
	}
	return -1
}

// ---- descriptors ---------------------------------------------------------------------------

// cfgSpec is one server configuration: a channel table and one endpoint per allow-list. Kind "ws":
// the endpoints are websocket paths /ws/p<i> of ONE http server; all other kinds: one server each
// (all inside one server command, sharing the channel table).
type cfgSpec struct {
	Kind   string     `json:"kind"`
	Table  []string   `json:"table"`
	Allows [][]string `json:"allows"`
	Bad    bool       `json:"bad_allow_list,omitempty"` // some allow-list names a channel that is not configured
	Space  string     `json:"space,omitempty"`          // "exhaustive" / "sampled" / "bad-allow-list" / "concurrent"
	Rounds int        `json:"rounds,omitempty"`         // concurrent family: bursts per endpoint and path (0 = sequential family)
	Par    int        `json:"par,omitempty"`            // concurrent family: simultaneous requests per burst
}

// reqCase is one replayable request.
type reqCase struct {
	Cfg    cfgSpec  `json:"cfg"`
	Ep     int      `json:"endpoint"`
	Via    string   `json:"via"`              // "client" (listener -> Upstreams.Connect), "raw" (own multistream client), "path" (client on a variant of the websocket path)
	Name   string   `json:"name,omitempty"`   // via client/path
	Script []string `json:"script,omitempty"` // via raw: the tokens sent on ONE stream
	Pos    int      `json:"pos,omitempty"`    // via raw: which token the verdict is about
	Path   string   `json:"path,omitempty"`   // via path
	Burst  []string `json:"burst,omitempty"`  // via burst-client / burst-raw: the names requested simultaneously on ONE session
	Slot   int      `json:"slot,omitempty"`   // which request of the burst the verdict is about
}

// ---- reference model -----------------------------------------------------------------------

func indexOf(l []string, s string) int {
	for i, x := range l {
		if x == s {
			return i
		}
	}
	return -1
}

// expected returns the index (in the table) of the target the request must reach, or -1 = REFUSED.
func expected(table, allow []string, name string) int {
	i := indexOf(table, name)
	if i < 0 {
		return -1
	}
	if len(allow) == 0 || indexOf(allow, name) >= 0 {
		return i
	}
	return -1
}

func classify(table, allow []string, name string) string {
	if indexOf(table, name) >= 0 {
		if len(allow) == 0 || indexOf(allow, name) >= 0 {
			return "configured"
		}
		return "unlisted"
	}
	if name == "" {
		return "empty"
	}
	if strings.ContainsAny(name, "/\n ") {
		return "special"
	}
	for _, c := range table {
		if strings.EqualFold(c, name) {
			return "case-variant"
		}
	}
	for _, c := range table {
		if strings.HasPrefix(c, name) {
			return "prefix"
		}
	}
	for _, c := range table {
		if strings.HasPrefix(name, c) {
			return "extension"
		}
	}
	return "unknown"
}

// allowShape labels (for the signature only) allow-lists with entries that are blank or only white space,
// and lists that name a channel more than once.
func allowShape(allow []string) string {
	blank, other := 0, 0
	for _, a := range allow {
		if strings.TrimSpace(a) == "" {
			blank++
		} else {
			other++
		}
	}
	switch {
	case blank == 0:
		seen := map[string]bool{}
		for _, a := range allow {
			if seen[a] {
				return "(allow-list-with-a-repeated-name)"
			}
			seen[a] = true
		}
		return ""
	case other == 0:
		return "(allow-list-of-blank-names-only)"
	}
	return "(allow-list-with-a-blank-name)"
}

// nameShape labels (for the signature only) requests for a CONFIGURED channel whose name begins with '/'.
func nameShape(table []string, name string) string {
	if strings.HasPrefix(name, "/") && indexOf(table, name) >= 0 {
		return "(channel-name-with-leading-slash)"
	}
	return ""
}

func relation(wrong, requested string) string {
	switch {
	case wrong == requested:
		return "same-name"
	case strings.TrimLeft(wrong, "/") == strings.TrimLeft(requested, "/"):
		return "differs-only-by-leading-slashes"
	case strings.EqualFold(wrong, requested):
		return "case-variant-of-requested"
	case strings.HasPrefix(requested, wrong):
		return "prefix-of-requested"
	case strings.HasPrefix(wrong, requested):
		return "extension-of-requested"
	}
	return "unrelated"
}

func swapCase(s string) string {
	r := []rune(s)
	for i, c := range r {
		if unicode.IsUpper(c) {
			r[i] = unicode.ToLower(c)
		} else {
			r[i] = unicode.ToUpper(c)
		}
	}
	return string(r)
}

// requestNames: configured ∪ rest of the pool (unlisted / unknown / prefixes / extensions / case
// variants by construction of the pool) ∪ derived variants of every configured name ∪ empty ∪ special.
func requestNames(table []string) []string {
	var out []string
	seen := map[string]bool{}
	add := func(s string) {
		if !seen[s] {
			seen[s] = true
			out = append(out, s)
		}
	}
	for _, c := range table {
		add(c)
	}
	for _, c := range pool {
		add(c)
	}
	for _, c := range table {
		if len(c) > 1 {
			add(c[:len(c)-1])
		}
		add(c + "x")
		add(swapCase(c))
		add("/" + c)
		add(c + "/")
		if strings.HasPrefix(c, "/") {
			add(c[1:])
			add(strings.TrimLeft(c, "/"))
		}
	}
	add("")
	add("zz")
	add("a\nb")
	add(table[0] + "\n")
	add(" " + table[0])
	add("ls")
	add("multistream/1.0.0")
	return out
}

// ---- fixture -------------------------------------------------------------------------------

var seq int64

func sock(prefix string) string { return fmt.Sprintf("%s%d.sock", prefix, atomic.AddInt64(&seq, 1)) }

type stdioEnd struct {
	in  io.ReadCloser
	out io.WriteCloser
}

type endpoint struct {
	idx     int
	allow   []string
	mkUp    func(role int) upstream.Upstream // a fresh upstream object for this endpoint (role: 0 client, 1 raw, 2 retry)
	client  *clientCmd.Command
	lsn     map[string]string
	rawUp   upstream.Upstream
	rawSess *smux.Session
	refused int  // refusals seen on the real client's session so far
	spare   bool // stdio: the spare server (role 2) has been used up
}

type rig struct {
	rec     *vcommon.Rec
	cfg     cfgSpec
	names   []string
	targets []*e2e.Target
	server  *serverCmd.Command
	eps     []*endpoint
	closers []io.Closer
	intr    chan os.Signal
	stalls  int
	wsBase  string
}

var usedPorts sync.Map

// freePort never hands out the same port twice in one process (e2e.FreePort closes its probe socket,
// so two consecutive calls may return the same number).
func freePort(udp bool) int {
	for try := 0; ; try++ {
		p := 0
		if udp {
			if pc, err := net.ListenPacket("udp", "127.0.0.1:0"); err == nil {
				p = pc.LocalAddr().(*net.UDPAddr).Port
				pc.Close()
			}
		} else {
			if l, err := net.Listen("tcp", "127.0.0.1:0"); err == nil {
				p = l.Addr().(*net.TCPAddr).Port
				l.Close()
			}
		}
		if p == 0 {
			if try > 200 {
				panic("no free port")
			}
			continue
		}
		if _, dup := usedPorts.LoadOrStore(fmt.Sprint(udp, p), true); !dup {
			return p
		}
	}
}

func isBindErr(err error) bool {
	return err != nil && (strings.Contains(err.Error(), "address already in use") || strings.Contains(err.Error(), "bind:"))
}

func guardedShutdown(cmd *serverCmd.Command) {
	for _, s := range cmd.Servers {
		s := s
		done := e2e.Go(func() { vcommon.Guard(func() { s.Shutdown() }) })
		e2e.WaitW(done, e2e.StallWindow()/2)
	}
}

const stdioRoles = 3

// startRig starts targets and the real server command. startErr != nil: the server command refused
// to start (err is its error); fatal != nil: the fixture itself failed.
func startRig(rec *vcommon.Rec, cfg cfgSpec) (r *rig, startErr error, fatal error) {
	r = &rig{rec: rec, cfg: cfg, intr: make(chan os.Signal, 1)}
	var channels server.Channels
	for i, n := range cfg.Table {
		// unix-socket targets in the child's private directory: no foreign process can ever connect to them
		t, err := e2e.NewTarget(n, "unix", sock("t"), false)
		if err != nil {
			r.close()
			return nil, nil, err
		}
		t.Banner = banner(i)
		r.targets = append(r.targets, t)
		channels = append(channels, &server.NetworkChannel{AbstractChannel: server.AbstractChannel{
			ProtoName: addr.ProtoName{Name: n}, Address: addr.MustParseAddress(t.URL())}})
	}
	var lastErr error
	for attempt := 0; attempt < 8; attempt++ {
		var servers server.Servers
		r.eps = nil
		var pipes []io.Closer
		switch cfg.Kind {
		case "ws":
			s := server.NewHttpServer()
			base := fmt.Sprintf("http://127.0.0.1:%d", freePort(false))
			r.wsBase = base
			s.Address = addr.MustParseAddress(base)
			for i, al := range cfg.Allows {
				path := fmt.Sprintf("/ws/p%d", i)
				s.Endpoints = append(s.Endpoints, server.HttpEndpoint{Endpoint: path, Channels: al})
				url := base + path
				r.eps = append(r.eps, &endpoint{idx: i, allow: al, mkUp: func(int) upstream.Upstream {
					return &upstream.Http{Address: addr.MustParseAddress(url)}
				}})
			}
			servers = append(servers, s)
		default:
			for i, al := range cfg.Allows {
				ep := &endpoint{idx: i, allow: al}
				switch cfg.Kind {
				case "tcp", "unix":
					s := server.NewSocketServer()
					url := fmt.Sprintf("tcp://127.0.0.1:%d", freePort(false))
					if cfg.Kind == "unix" {
						url = "unix://" + sock("s")
					}
					s.Address, s.Channels = addr.MustParseAddress(url), al
					servers = append(servers, s)
					ep.mkUp = func(int) upstream.Upstream { return &upstream.Socket{Address: addr.MustParseAddress(url)} }
				case "udp":
					s := server.NewPacketServer()
					url := fmt.Sprintf("udp://127.0.0.1:%d", freePort(true))
					s.Address, s.Channels = addr.MustParseAddress(url), al
					servers = append(servers, s)
					ep.mkUp = func(int) upstream.Upstream { return &upstream.Packet{Address: addr.MustParseAddress(url)} }
				case "dns":
					s := server.NewDnsServer()
					hp := fmt.Sprintf("127.0.0.1:%d", freePort(true))
					s.Address, s.Channels, s.Domain = addr.MustParseAddress("dns://"+hp), al, "t.example.org"
					servers = append(servers, s)
					ep.mkUp = func(int) upstream.Upstream {
						return &upstream.Dns{Address: addr.MustParseAddress("dns://t.example.org?direct=false&dns=" + hp)}
					}
				case "stdio":
					// a standard-stream server serves exactly one physical connection: one server per role
					ends := make([]stdioEnd, stdioRoles)
					for role := 0; role < stdioRoles; role++ {
						s := server.NewIoServer()
						r1, w1 := io.Pipe() // client -> server
						r2, w2 := io.Pipe() // server -> client
						s.Input, s.Output = r1, w2
						s.Address, s.Channels = addr.MustParseAddress("stdio://"), al
						ends[role] = stdioEnd{in: r2, out: w1}
						pipes = append(pipes, r1, w1, r2, w2)
						servers = append(servers, s)
					}
					ep.mkUp = func(role int) upstream.Upstream {
						if role >= stdioRoles {
							return nil
						}
						return &upstream.InputOutput{Address: addr.MustParseAddress("stdin://"), Input: ends[role].in, Output: ends[role].out}
					}
				default:
					r.close()
					return nil, nil, fmt.Errorf("unknown kind %q", cfg.Kind)
				}
				r.eps = append(r.eps, ep)
			}
		}
		cmd := &serverCmd.Command{Channels: channels, Servers: servers}
		lastErr = cmd.Startup(r.intr)
		if lastErr == nil {
			r.server = cmd
			r.closers = append(r.closers, pipes...)
			break
		}
		guardedShutdown(cmd)
		for _, p := range pipes {
			p.Close()
		}
		if !isBindErr(lastErr) {
			break
		}
	}
	if lastErr != nil {
		r.eps = nil
		if isBindErr(lastErr) {
			r.close()
			return nil, nil, lastErr
		}
		return r, lastErr, nil
	}
	return r, nil, nil
}

func clientCfg() cert.ClientConfig { return cert.ClientConfig{InsecureSkipVerify: true} }

// newClient starts the REAL client command against upstream up with one unix-socket listener per name.
func newClient(up upstream.Upstream, names []string) (*clientCmd.Command, map[string]string, error) {
	var ll listener.Listeners
	lsn := map[string]string{}
	for _, n := range names {
		a := sock("l")
		lsn[n] = a
		ll = append(ll, &listener.SocketListener{AbstractListener: listener.AbstractListener{
			ProtoName: addr.ProtoName{Name: n}, Address: addr.MustParseAddress("unix://" + a)}})
	}
	c := &clientCmd.Command{ClientConfig: clientCfg(), ListenList: ll, Upstream: upstream.Upstreams{Data: []upstream.Upstream{up}}}
	if err := c.Startup(make(chan os.Signal, 1)); err != nil {
		c.Shutdown()
		return nil, nil, err
	}
	return c, lsn, nil
}

func (r *rig) startClients(names []string) error {
	r.names = names
	for _, ep := range r.eps {
		c, lsn, err := newClient(ep.mkUp(0), names)
		if err != nil {
			return err
		}
		ep.client, ep.lsn = c, lsn
	}
	return nil
}

// rawSession opens the raw client's own physical connection (real handshake code) and multiplexer.
func (r *rig) rawSession(ep *endpoint) error {
	if ep.rawSess != nil && !ep.rawSess.IsClosed() {
		return nil
	}
	up := ep.mkUp(1)
	var err error
	cc := clientCfg()
	done := e2e.Go(func() { err = up.Connect(&cc, false) })
	if o := e2e.Wait(done); o != e2e.Done {
		return fmt.Errorf("raw connect: %v", o)
	}
	if err != nil {
		return err
	}
	config := smux.DefaultConfig()
	config.MaxFrameSize = buffers.BufferSize - 128
	s, err := smux.Client(up, config)
	if err != nil {
		return err
	}
	ep.rawUp, ep.rawSess = up, s
	return nil
}

func (r *rig) close() {
	for _, ep := range r.eps {
		if ep.client != nil {
			ep.client.Shutdown()
		}
		if ep.rawSess != nil {
			ep.rawSess.Close()
		}
		if ep.rawUp != nil {
			vcommon.Guard(func() { ep.rawUp.Close() })
		}
	}
	if r.server != nil {
		guardedShutdown(r.server)
	}
	for _, c := range r.closers {
		c.Close()
	}
	for _, t := range r.targets {
		t.Close()
		for c := t.TryNext(); c != nil; c = t.TryNext() {
			c.Close()
		}
	}
}

// ---- observation ---------------------------------------------------------------------------

type obs struct {
	Outcome string `json:"outcome"` // connected / refused / payload / stalled / busy
	Banner  int    `json:"banner_of_target"`
	Got     string `json:"got,omitempty"`
	Err     string `json:"err,omitempty"`
	Hits    []int  `json:"server_connections_per_target"`
	Data    string `json:"app_to_target,omitempty"`
	Note    string `json:"note,omitempty"`
	hitConn [][]net.Conn
}

// collect is the logical barrier: one sentinel connection per target, then drain that target's accept
// queue up to the sentinel. Returns the connections made by the server since the last collect.
func (r *rig) collect(ob *obs) e2e.Outcome {
	ob.Hits = make([]int, len(r.targets))
	ob.hitConn = make([][]net.Conn, len(r.targets))
	for i, t := range r.targets {
		// the sentinel's own socket is bound to a name, so the target can tell it from the server's connections
		// (an abstract name, unique on the machine: no file to create and unlink for every barrier)
		local := fmt.Sprintf("@c03-sentinel-%d-%d", os.Getpid(), atomic.AddInt64(&seq, 1))
		s, err := net.DialUnix("unix", &net.UnixAddr{Name: local, Net: "unix"}, &net.UnixAddr{Name: t.Addr, Net: "unix"})
		if err != nil {
			ob.Note = "sentinel dial failed: " + err.Error()
			return e2e.Inconclusive
		}
		for {
			c, o := t.Next()
			if o != e2e.Done {
				s.Close()
				return o
			}
			if ra := c.RemoteAddr(); ra != nil && ra.String() == local {
				s.Close()
				c.Close()
				break
			}
			ob.hitConn[i] = append(ob.hitConn[i], c)
			ob.Hits[i]++
		}
	}
	return e2e.Done
}

func (ob *obs) closeHits() {
	for _, l := range ob.hitConn {
		for _, c := range l {
			c.Close()
		}
	}
}

// readOutcome reads what the requester gets: a whole banner, nothing (end-of-stream / error), or something else.
func readOutcome(rd io.Reader, ob *obs) {
	buf := make([]byte, bannerLen)
	var n int
	var err error
	done := e2e.Go(func() { n, err = io.ReadFull(rd, buf) })
	switch e2e.Wait(done) {
	case e2e.Stalled:
		ob.Outcome = "stalled"
		return
	case e2e.Inconclusive:
		ob.Outcome = "busy"
		return
	}
	e2e.Bump(n + 1)
	if err != nil {
		ob.Err = err.Error()
	}
	switch {
	case n == 0:
		ob.Outcome = "refused"
	case n == bannerLen && bannerIdx(buf) >= 0:
		ob.Outcome = "connected"
		ob.Banner = bannerIdx(buf)
	default:
		ob.Outcome = "payload"
		ob.Got = fmt.Sprintf("%q", buf[:n])
	}
}

var nonceSeq uint64

// checkData: the application's bytes must arrive at (exactly) the connection the target accepted.
func checkData(w io.Writer, ob *obs, exp int) {
	if exp < 0 || ob.Outcome != "connected" || ob.Banner != exp || len(ob.hitConn[exp]) != 1 {
		return
	}
	var nonce [8]byte
	binary.BigEndian.PutUint64(nonce[:], 0xC03C03C03C030000+atomic.AddUint64(&nonceSeq, 1))
	if _, err := w.Write(nonce[:]); err != nil {
		ob.Data = "write failed: " + err.Error()
		return
	}
	var got [8]byte
	var n int
	done := e2e.Go(func() { n, _ = io.ReadFull(ob.hitConn[exp][0], got[:]) })
	switch e2e.Wait(done) {
	case e2e.Stalled:
		ob.Data = "stalled"
	case e2e.Inconclusive:
		ob.Data = "busy"
	default:
		e2e.Bump(n)
		if n == 8 && got == nonce {
			ob.Data = "ok"
		} else {
			ob.Data = fmt.Sprintf("mismatch: sent %x got %x", nonce, got[:n])
		}
	}
}

// judge compares the observation with the model and records the case. Returns true on a stall.
func (r *rig) judge(rc *reqCase, kindLabel, class, name string, exp int, ob *obs, keyExtra string) bool {
	rec := r.rec
	table := r.cfg.Table
	key := fmt.Sprintf("%s|%q|%q|%d|%s|%q|%s", r.cfg.Kind, table, r.cfg.Allows, rc.Ep, rc.Via, name, keyExtra)
	if ob.Outcome == "busy" || ob.Data == "busy" {
		rec.Case(key, false)
		rec.Inconclusive("busy at the stall watchdog", rc)
		return false
	}
	sig := kindLabel + ":" + class + nameShape(table, name) + allowShape(r.allowOf(rc)) + ":"
	suffix := ""
	if rc.Via != "client" {
		suffix = ":" + rc.Via
	}
	viol := func(what string) {
		rec.Violation(sig+what+suffix, rc, map[string]interface{}{"expected_target": exp, "observed": ob, "table": table, "allow": r.allowOf(rc)})
	}
	total := 0
	for _, h := range ob.Hits {
		total += h
	}
	rec.Case(key, true)
	expS := "refused"
	if exp >= 0 {
		expS = "target"
	}
	rec.Seen("tuple(kind,via,name-class,expected)", kindLabel+"|"+rc.Via+"|"+class+"|"+expS)
	rec.Seen("kind", kindLabel)
	rec.Stat("requests:"+kindLabel+":"+rc.Via, 1)
	if ob.Outcome == "stalled" {
		viol("no-outcome-stalled")
		return true
	}
	if exp < 0 {
		switch {
		case ob.Outcome == "connected":
			viol("connected-although-refused")
		case ob.Outcome == "payload":
			viol("payload-on-refusal")
		case total > 0:
			viol("outbound-connection-on-refusal")
		default:
			rec.Stat("refusals_verified(no payload, no target accepted anything)", 1)
		}
		return false
	}
	switch {
	case ob.Outcome == "refused":
		viol("refused-although-allowed")
	case ob.Outcome == "payload":
		viol("garbage-instead-of-target")
	case ob.Banner != exp:
		w := "?"
		if ob.Banner < len(table) {
			w = relation(table[ob.Banner], name)
		}
		viol("wrong-target:" + w)
	case ob.Hits[exp] != 1 || total != 1:
		viol("extra-outbound-connection")
	case ob.Data == "stalled" || strings.HasPrefix(ob.Data, "mismatch") || strings.HasPrefix(ob.Data, "write failed"):
		viol("app-data-not-at-target")
	default:
		rec.Stat("routings_verified(banner, accept set, app->target bytes)", 1)
	}
	return false
}

func (r *rig) allowOf(rc *reqCase) []string {
	if rc.Ep < len(r.cfg.Allows) {
		return r.cfg.Allows[rc.Ep]
	}
	return nil
}

// requestVia performs one request through a listener socket of a real client command.
func (r *rig) requestVia(lsn string, exp int) *obs {
	ob := &obs{Banner: -1}
	app, err := net.Dial("unix", lsn)
	if err != nil {
		ob.Outcome, ob.Note = "busy", "dial of the listener failed: "+err.Error()
		return ob
	}
	defer app.Close()
	readOutcome(app, ob)
	if ob.Outcome == "stalled" || ob.Outcome == "busy" {
		return ob
	}
	switch r.collect(ob) {
	case e2e.Stalled, e2e.Inconclusive:
		ob.Outcome = "busy"
		if ob.Note == "" {
			ob.Note = "sentinel never accepted"
		}
		return ob
	}
	checkData(app, ob, exp)
	ob.closeHits()
	return ob
}

// clientRequest: listener(name) -> Upstreams.Connect(cfg, name) on the endpoint's client.
func (r *rig) clientRequest(ep *endpoint, name string) bool {
	rc := &reqCase{Cfg: r.cfg, Ep: ep.idx, Via: "client", Name: name}
	r.rec.Mark(rc)
	exp := expected(r.cfg.Table, ep.allow, name)
	class := classify(r.cfg.Table, ep.allow, name)
	ob := r.requestVia(ep.lsn[name], exp)
	if exp >= 0 && ob.Outcome == "refused" && ep.refused > 0 {
		// the statement says nothing about requests that follow a refusal on the same session: decide on a fresh one
		if up := ep.mkUp(2); up != nil && !(r.cfg.Kind == "stdio" && ep.spare) {
			ep.spare = true
			if c, lsn, err := newClient(up, []string{name}); err == nil {
				ob2 := r.requestVia(lsn[name], exp)
				c.Shutdown()
				if ob2.Outcome == "connected" {
					r.rec.Stat("allowed_request_failed_only_after_a_refusal_on_the_same_session(recorded)", 1)
					r.rec.Note("allowed request refused after an earlier refusal on the same session, fine on a fresh session", rc)
				}
				ob2.Note = "second attempt on a fresh session; first attempt on the used session was refused"
				ob = ob2
			}
		}
	}
	if ob.Outcome == "refused" {
		ep.refused++
	}
	if exp >= 0 && ob.Outcome == "connected" && ob.Banner == exp && ep.refused > 0 {
		r.rec.Stat("allowed_requests_served_after_a_refusal_on_the_same_session", 1)
	}
	return r.judge(rc, r.cfg.Kind, class, name, exp, ob, "")
}

// ---- raw multistream client ------------------------------------------------------------------

func writeTok(w io.Writer, tok string) error {
	var vb [10]byte
	n := binary.PutUvarint(vb[:], uint64(len(tok)+1))
	buf := append(append(append([]byte{}, vb[:n]...), tok...), '\n')
	_, err := w.Write(buf)
	return err
}

func readTokStall(rd io.Reader) (string, error, e2e.Outcome) {
	var tok string
	var err error
	done := e2e.Go(func() { tok, err = ms.ReadNextToken(rd) })
	o := e2e.Wait(done)
	if o == e2e.Done {
		e2e.Bump(len(tok) + 1)
	}
	return tok, err, o
}

// tokenName: the channel name a protocol token asks for ("/name"); other tokens ask for no channel.
func tokenName(tok string) (string, bool) {
	if strings.HasPrefix(tok, "/") {
		return tok[1:], true
	}
	return "", false
}

// rawScript sends the tokens of script on ONE stream of the raw client's session.
func (r *rig) rawScript(ep *endpoint, script []string, scriptID string) bool {
	rec := r.rec
	base := reqCase{Cfg: r.cfg, Ep: ep.idx, Via: "raw", Script: script}
	rec.Mark(base)
	if err := r.rawSession(ep); err != nil {
		rec.Inconclusive("raw client could not establish its session: "+err.Error(), base)
		return false
	}
	st, err := ep.rawSess.OpenStream()
	if err != nil {
		rec.Inconclusive("raw client could not open a stream: "+err.Error(), base)
		return false
	}
	defer st.Close()
	if err := writeTok(st, ms.ProtocolID); err != nil {
		rec.Inconclusive("raw client could not write: "+err.Error(), base)
		return false
	}
	hdr, err, o := readTokStall(st)
	if o != e2e.Done || err != nil || hdr != ms.ProtocolID {
		if o == e2e.Stalled {
			rec.Violation(r.cfg.Kind+":header:no-outcome-stalled:raw", base, "no multistream header from the server")
			return true
		}
		rec.Inconclusive(fmt.Sprintf("raw client: header exchange failed (%v, %v, %q)", o, err, hdr), base)
		return false
	}
	for pos, tok := range script {
		rc := base
		rc.Pos = pos
		if err := writeTok(st, tok); err != nil {
			rec.Inconclusive("raw client could not write: "+err.Error(), rc)
			return false
		}
		resp, err, o := readTokStall(st)
		if tok == "ls" {
			if o != e2e.Done || err != nil {
				rec.Inconclusive(fmt.Sprintf("raw client: no answer to ls (%v, %v)", o, err), rc)
				return o == e2e.Stalled
			}
			r.checkLs(ep, &rc, resp)
			continue
		}
		name, has := tokenName(tok)
		exp, class := -1, "no-slash-token"
		if has {
			exp, class = expected(r.cfg.Table, ep.allow, name), classify(r.cfg.Table, ep.allow, name)
		}
		ob := &obs{Banner: -1}
		switch {
		case o == e2e.Stalled:
			ob.Outcome = "stalled"
		case o == e2e.Inconclusive:
			ob.Outcome = "busy"
		case err != nil:
			ob.Outcome, ob.Err = "refused", err.Error()
		case resp == "na":
			ob.Outcome = "refused"
		case resp == tok:
			readOutcome(st, ob)
			if ob.Outcome == "refused" {
				// selected, but the stream ended without a byte from any target
				ob.Note = "protocol was echoed (selected), then end-of-stream"
				if exp < 0 {
					ob.Outcome = "connected"
				}
			}
		default:
			ob.Outcome, ob.Got = "payload", fmt.Sprintf("unexpected answer %q", resp)
		}
		if ob.Outcome != "stalled" && ob.Outcome != "busy" {
			if co := r.collect(ob); co != e2e.Done {
				ob.Outcome = "busy"
			} else {
				checkData(st, ob, exp)
				ob.closeHits()
			}
		}
		stalled := r.judge(&rc, r.cfg.Kind, class, name, exp, ob, fmt.Sprintf("%s#%d:%q", scriptID, pos, tok))
		if pos > 0 && ob.Outcome == "connected" && ob.Banner == exp && exp >= 0 {
			rec.Stat("raw:valid_name_selected_after_refused_ones_on_one_stream", 1)
		}
		if stalled {
			return true
		}
		if resp == tok || err != nil || o != e2e.Done {
			return false // the stream now belongs to the channel (or is gone)
		}
	}
	return false
}

// checkLs: the list the server reveals. The statement only speaks about requests, so a list that
// shows more than the endpoint may serve is recorded, not judged.
func (r *rig) checkLs(ep *endpoint, rc *reqCase, resp string) {
	rd := bytes.NewReader([]byte(resp))
	var listed []string
	for {
		t, err := ms.ReadNextToken(rd)
		if err != nil {
			break
		}
		listed = append(listed, t)
	}
	var want []string
	for _, n := range r.cfg.Table {
		if len(ep.allow) == 0 || indexOf(ep.allow, n) >= 0 {
			want = append(want, "/"+n)
		}
	}
	sort.Strings(listed)
	sort.Strings(want)
	r.rec.Stat("raw:ls_answers", 1)
	if strings.Join(listed, "\x00") == strings.Join(want, "\x00") {
		r.rec.Stat("raw:ls_lists_exactly_the_allowed_channels", 1)
	} else {
		r.rec.Stat("raw:ls_differs_from_allowed_set(recorded)", 1)
		r.rec.Note("ls differs from the allowed set", map[string]interface{}{"case": rc, "listed": listed, "allowed": want})
	}
}

func (r *rig) scripts(ep *endpoint, rng interface{ Intn(int) int }) [][]string {
	var allowed, refused []string
	for _, n := range r.names {
		if expected(r.cfg.Table, ep.allow, n) >= 0 {
			allowed = append(allowed, n)
		} else {
			refused = append(refused, n)
		}
	}
	var out [][]string
	// several refused names on one stream, ls, then a valid one
	for k := 0; k < 2; k++ {
		var s []string
		for i := 0; i < 6 && len(refused) > 0; i++ {
			s = append(s, "/"+refused[rng.Intn(len(refused))])
		}
		s = append(s, "ls")
		if len(allowed) > 0 {
			s = append(s, "/"+allowed[rng.Intn(len(allowed))])
		}
		out = append(out, s)
	}
	// names without the leading slash, then every allowed name once (each on its own stream)
	for _, a := range allowed {
		out = append(out, []string{a, "ls", "/" + a})
	}
	// unlisted names directly after ls, and first on the stream
	for _, n := range r.cfg.Table {
		if expected(r.cfg.Table, ep.allow, n) < 0 {
			out = append(out, []string{"/" + n})
			out = append(out, []string{"ls", "/" + n, "/" + swapCase(n), "/" + n})
		}
	}
	return out
}

// ---- running one configuration ----------------------------------------------------------------

func shuffled(rng interface{ Intn(int) int }, l []string) []string {
	out := append([]string{}, l...)
	for i := len(out) - 1; i > 0; i-- {
		j := rng.Intn(i + 1)
		out[i], out[j] = out[j], out[i]
	}
	return out
}

func runConfig(rec *vcommon.Rec, cfg cfgSpec, idx int) {
	if cfg.Rounds > 0 {
		runConcurrent(rec, cfg, idx, nil, "")
		return
	}
	rec.Mark(map[string]interface{}{"cfg": cfg, "phase": "startup"})
	rng := vcommon.NewRand(rec.Seed(), fmt.Sprintf("c03/cfg/%d/%s/%q/%q", idx, cfg.Kind, cfg.Table, cfg.Allows))
	r, startErr, fatal := startRig(rec, cfg)
	if fatal != nil {
		rec.Inconclusive("fixture could not start: "+fatal.Error(), cfg)
		return
	}
	defer r.close()
	rec.Stat("configurations:"+cfg.Kind, 1)
	rec.Seen("space", cfg.Space+"/"+cfg.Kind)
	if cfg.Bad {
		if startErr != nil {
			rec.Stat("bad_allow_list:start-up_error(accepted):"+cfg.Kind, 1)
			rec.Case(fmt.Sprintf("bad|%s|%q|%q", cfg.Kind, cfg.Table, cfg.Allows), true)
			return
		}
		rec.Stat("bad_allow_list:started_without_error(recorded, judged by the model):"+cfg.Kind, 1)
		rec.Note("an allow-list naming an unknown channel did not fail start-up", cfg)
		if cfg.Kind == "stdio" {
			// the standard-stream server swallows the error and then serves nothing at all: a connection
			// attempt can only stall, which costs a whole stall window (thorough tier tries it once)
			if !rec.Thorough() || !r.probeServes() {
				return
			}
		}
	} else if startErr != nil {
		rec.Violation(cfg.Kind+":setup:server-did-not-start", reqCase{Cfg: cfg}, startErr.Error())
		return
	}
	names := requestNames(cfg.Table)
	if cfg.Kind == "dns" {
		// slow carrier: configured, unlisted, and one of each other class
		names = dnsNames(cfg)
	}
	if err := r.startClients(names); err != nil {
		rec.Inconclusive("client command could not start: "+err.Error(), cfg)
		return
	}
	for _, ep := range r.eps {
		order := shuffled(rng, names)
		// the last request of every session is an allowed one (every refusal is followed by a served request)
		var allowed []string
		for _, n := range cfg.Table {
			if expected(cfg.Table, ep.allow, n) >= 0 {
				allowed = append(allowed, n)
			}
		}
		for _, n := range order {
			if r.clientRequest(ep, n) {
				r.stalls++
			}
			if r.stalls >= 2 {
				rec.Note("configuration abandoned after two stalls", cfg)
				return
			}
		}
		if len(allowed) > 0 {
			r.clientRequest(ep, allowed[rng.Intn(len(allowed))])
		}
		for i, s := range r.scripts(ep, rng) {
			if cfg.Kind == "dns" && i >= 3 {
				break
			}
			if cfg.Kind == "ws" && cfg.Space == "exhaustive" && ep.idx == 1 && i >= 1 {
				break // the full script set of this list runs on path 0 of the mirrored pair
			}
			if r.rawScript(ep, s, fmt.Sprint(i)) {
				r.stalls++
			}
			if r.stalls >= 2 {
				rec.Note("configuration abandoned after two stalls", cfg)
				return
			}
		}
	}
	if cfg.Kind == "ws" {
		r.pathVariants(idx)
	}
	// end of configuration: nothing may have arrived at a target behind our back
	ob := &obs{Banner: -1}
	if r.collect(ob) == e2e.Done {
		total := 0
		for _, h := range ob.Hits {
			total += h
		}
		ob.closeHits()
		if total > 0 {
			rec.Violation(cfg.Kind+":late:outbound-connection-on-refusal", reqCase{Cfg: cfg, Via: "end-of-configuration"},
				map[string]interface{}{"connections_nobody_asked_for": ob.Hits})
		} else {
			rec.Stat("end_of_configuration_barriers_clean", 1)
		}
	}
}

// ---- concurrent family -------------------------------------------------------------------------
//
// Several logical connections for DIFFERENT names are requested at the same moment on ONE session.
// The oracle is the same model, applied per request; while a burst is in flight nothing global is
// counted: a request is identified by the banner it receives and by eight bytes it pushes, which
// must come out of a socket accepted by the target configured for ITS name. The accept-queue barrier
// runs after every request of the burst has its outcome.

type burstReq struct {
	name  string
	exp   int
	class string
	ob    obs
	nonce [8]byte
	conn  io.ReadWriteCloser
	at    int // target whose accepted socket delivered the nonce (-1 none, -2 more than one)
}

func (r *rig) burstOne(ep *endpoint, via string, q *burstReq) {
	q.ob.Banner, q.at = -1, -1
	binary.BigEndian.PutUint64(q.nonce[:], 0xC03B000000000000+atomic.AddUint64(&nonceSeq, 1))
	switch via {
	case "burst-client":
		app, err := net.Dial("unix", ep.lsn[q.name])
		if err != nil {
			q.ob.Outcome, q.ob.Note = "busy", "dial of the listener failed: "+err.Error()
			return
		}
		q.conn = app
		readOutcome(app, &q.ob)
	case "burst-raw":
		st, err := ep.rawSess.OpenStream()
		if err != nil {
			q.ob.Outcome, q.ob.Note = "busy", "raw client could not open a stream: "+err.Error()
			return
		}
		q.conn = st
		tok := "/" + q.name
		if err := writeTok(st, ms.ProtocolID); err == nil {
			err = writeTok(st, tok)
		}
		hdr, err, o := readTokStall(st)
		var resp string
		if o == e2e.Done && err == nil && hdr == ms.ProtocolID {
			resp, err, o = readTokStall(st)
		} else if o == e2e.Done && err == nil {
			q.ob.Outcome, q.ob.Got = "payload", fmt.Sprintf("unexpected header %q", hdr)
			return
		}
		switch {
		case o == e2e.Stalled:
			q.ob.Outcome = "stalled"
		case o == e2e.Inconclusive:
			q.ob.Outcome = "busy"
		case err != nil:
			q.ob.Outcome, q.ob.Err = "refused", err.Error()
		case resp == "na":
			q.ob.Outcome = "refused"
		case resp == tok:
			readOutcome(st, &q.ob)
			if q.ob.Outcome == "refused" {
				q.ob.Note = "protocol was echoed (selected), then end-of-stream"
				if q.exp < 0 {
					q.ob.Outcome = "connected"
				}
			}
		default:
			q.ob.Outcome, q.ob.Got = "payload", fmt.Sprintf("unexpected answer %q", resp)
		}
	}
	if q.ob.Outcome == "connected" && q.ob.Banner >= 0 {
		if _, err := q.conn.Write(q.nonce[:]); err != nil {
			q.ob.Data = "write failed: " + err.Error()
		}
	}
}

// burst runs one burst and judges every request of it. Returns (stalled, violations).
func (r *rig) burst(ep *endpoint, via string, names []string, round int) (bool, int) {
	rec := r.rec
	desc := reqCase{Cfg: r.cfg, Ep: ep.idx, Via: via, Burst: names}
	rec.Mark(desc)
	reqs := make([]*burstReq, len(names))
	start := make(chan struct{})
	var wg sync.WaitGroup
	for i, n := range names {
		q := &burstReq{name: n, exp: expected(r.cfg.Table, ep.allow, n), class: classify(r.cfg.Table, ep.allow, n)}
		reqs[i] = q
		wg.Add(1)
		go func() {
			defer wg.Done()
			<-start
			r.burstOne(ep, via, q)
		}()
	}
	close(start)
	wg.Wait() // every request waits under the stall rule, so this returns
	defer func() {
		for _, q := range reqs {
			if q.conn != nil {
				q.conn.Close()
			}
		}
	}()
	// the burst is over: now the global barrier, then who got which bytes
	all := &obs{Banner: -1}
	if o := r.collect(all); o != e2e.Done {
		rec.Inconclusive("barrier after a burst did not complete: "+all.Note, desc)
		return o == e2e.Stalled, 0
	}
	defer all.closeHits()
	type got struct {
		target int
		n      int
		b      [8]byte
	}
	nHits := 0
	res := make(chan got, 64)
	for ti, l := range all.hitConn {
		for _, c := range l {
			nHits++
			ti, c := ti, c
			go func() {
				g := got{target: ti}
				g.n, _ = io.ReadFull(c, g.b[:])
				e2e.Bump(g.n + 1)
				res <- g
			}()
		}
	}
	want := map[[8]byte]*burstReq{}
	for _, q := range reqs {
		if q.ob.Outcome == "connected" && q.ob.Banner >= 0 && q.ob.Data == "" {
			want[q.nonce] = q
		}
	}
	pendingNonces, received, orphans := len(want), 0, 0
	take := func(g got) {
		received++
		if q := want[g.b]; g.n == 8 && q != nil {
			if q.at == -1 {
				q.at = g.target
				pendingNonces--
			} else {
				q.at = -2
			}
		} else {
			orphans++
		}
	}
	dataStalled := false
	for pendingNonces > 0 && received < nHits {
		var g got
		done := e2e.Go(func() { g = <-res })
		if o := e2e.Wait(done); o != e2e.Done {
			dataStalled = true
			break
		}
		take(g)
	}
	// release everything that is still waiting for bytes that will never come: the requesters go away
	for _, q := range reqs {
		if q.conn != nil {
			q.conn.Close()
		}
	}
	for received < nHits && !dataStalled {
		var g got
		done := e2e.Go(func() { g = <-res })
		if o := e2e.Wait(done); o != e2e.Done {
			dataStalled = true
			break
		}
		take(g)
	}
	viols := 0
	stalled := false
	kind := r.cfg.Kind
	suffix := ":concurrent-requests"
	if via == "burst-raw" {
		suffix += ":raw"
	}
	for slot, q := range reqs {
		rc := desc
		rc.Slot, rc.Name = slot, q.name
		key := fmt.Sprintf("%s|%q|%q|%d|%s|%d|%d|%q", kind, r.cfg.Table, r.cfg.Allows, ep.idx, via, round, slot, names)
		if q.ob.Outcome == "busy" {
			rec.Case(key, false)
			rec.Inconclusive("busy at the stall watchdog / fixture trouble: "+q.ob.Note, rc)
			continue
		}
		rec.Case(key, true)
		rec.Stat("concurrent:requests:"+kind+":"+via, 1)
		expS := "refused"
		if q.exp >= 0 {
			expS = "target"
		}
		rec.Seen("tuple(kind,via,name-class,expected)", kind+"|"+via+"|"+q.class+"|"+expS)
		viol := func(what string) {
			viols++
			rec.Violation(kind+":"+q.class+nameShape(r.cfg.Table, q.name)+":"+what+suffix, rc, map[string]interface{}{"expected_target": q.exp, "observed": q.ob,
				"pushed_bytes_came_out_at_target": q.at, "table": r.cfg.Table, "allow": ep.allow, "burst": names})
		}
		switch {
		case q.ob.Outcome == "stalled":
			viol("no-outcome-stalled")
			stalled = true
		case q.exp < 0 && q.ob.Outcome == "connected":
			viol("connected-although-refused")
		case q.exp < 0 && q.ob.Outcome == "payload":
			viol("payload-on-refusal")
		case q.exp < 0:
			rec.Stat("concurrent:refusals_verified(no payload)", 1)
		case q.ob.Outcome == "refused":
			viol("refused-although-allowed")
		case q.ob.Outcome == "payload":
			viol("garbage-instead-of-target")
		case q.ob.Banner != q.exp:
			viol("wrong-target")
		case q.at >= 0 && q.at != q.exp || q.at == -2:
			viol("wrong-target")
		case q.at == -1:
			viol("app-data-not-at-target")
		default:
			rec.Stat("concurrent:routings_verified(banner and pushed bytes at the target of the request's own name)", 1)
		}
	}
	if orphans > 0 && !dataStalled {
		// a connection to a target that carries no requester's bytes: nobody asked for it
		viols++
		rec.Violation(kind+":burst:outbound-connection-nobody-asked-for"+suffix, desc,
			map[string]interface{}{"connections_per_target": all.Hits, "without_a_requester": orphans, "burst": names})
	} else if !dataStalled {
		rec.Stat("concurrent:bursts_with_clean_barrier(every accepted socket belongs to a request)", 1)
	}
	return stalled, viols
}

// burstNames: simultaneous requests for DIFFERENT allowed names (every allowed name at least once when
// there is room), some bursts mixed with refused names.
func burstNames(rng interface{ Intn(int) int }, allowed, refused []string, par int, mixed bool) []string {
	out := make([]string, 0, par)
	al := shuffled(rng, allowed)
	for i := 0; len(out) < par; i++ {
		out = append(out, al[i%len(al)])
	}
	if mixed && len(refused) > 0 {
		for k := 0; k < 1+par/4; k++ {
			out[rng.Intn(len(out))] = refused[rng.Intn(len(refused))]
		}
	}
	return shuffled(rng, out)
}

// runConcurrent runs the concurrent family on one configuration. only/onlyVia: replay of one burst.
func runConcurrent(rec *vcommon.Rec, cfg cfgSpec, idx int, only []string, onlyVia string) {
	rec.Mark(map[string]interface{}{"cfg": cfg, "phase": "startup"})
	rng := vcommon.NewRand(rec.Seed(), fmt.Sprintf("c03/burst/%d/%s/%q/%q", idx, cfg.Kind, cfg.Table, cfg.Allows))
	r, startErr, fatal := startRig(rec, cfg)
	if fatal != nil {
		rec.Inconclusive("fixture could not start: "+fatal.Error(), cfg)
		return
	}
	defer r.close()
	if startErr != nil {
		rec.Violation(cfg.Kind+":setup:server-did-not-start", reqCase{Cfg: cfg}, startErr.Error())
		return
	}
	// Line the streams of a burst up: the server's accept loop holds the first stream that arrives after
	// a pause for a (seeded) fraction of a millisecond, the others queue up behind it and are then handed
	// to their goroutines back to back. Delay only; a no-op for the outcome on correct code.
	defer runtime.GOMAXPROCS(runtime.GOMAXPROCS(8))
	var lastAccept int64
	var hookMu sync.Mutex
	hrng := vcommon.NewRand(rec.Seed(), fmt.Sprintf("c03/hook/%d", idx))
	verifhook.Set("server.stream.accepted", func() {
		now := time.Now().UnixNano()
		if prev := atomic.SwapInt64(&lastAccept, now); now-prev > int64(300*time.Microsecond) {
			hookMu.Lock()
			d := time.Duration(200+hrng.Intn(600)) * time.Microsecond
			hookMu.Unlock()
			time.Sleep(d)
			atomic.StoreInt64(&lastAccept, time.Now().UnixNano())
		}
	})
	defer verifhook.Set("server.stream.accepted", nil)
	rec.Stat("configurations:concurrent:"+cfg.Kind, 1)
	rec.Seen("space", cfg.Space+"/"+cfg.Kind)
	names := requestNames(cfg.Table)
	if err := r.startClients(names); err != nil {
		rec.Inconclusive("client command could not start: "+err.Error(), cfg)
		return
	}
	for _, ep := range r.eps {
		var allowed, refused []string
		for _, n := range names {
			if expected(cfg.Table, ep.allow, n) >= 0 {
				allowed = append(allowed, n)
			} else {
				refused = append(refused, n)
			}
		}
		if len(allowed) < 2 {
			continue
		}
		for _, via := range []string{"burst-client", "burst-raw"} {
			if onlyVia != "" && via != onlyVia {
				continue
			}
			// the session exists before the first burst (one sequential request each)
			if via == "burst-client" {
				if r.clientRequest(ep, allowed[0]) {
					return
				}
			} else if err := r.rawSession(ep); err != nil {
				rec.Inconclusive("raw client could not establish its session: "+err.Error(), cfg)
				continue
			}
			viols := 0
			for round := 0; round < cfg.Rounds; round++ {
				bn := only
				if bn == nil {
					bn = burstNames(rng, allowed, refused, cfg.Par, round%3 == 2)
				}
				stalled, v := r.burst(ep, via, bn, round)
				viols += v
				rec.Stat("concurrent:bursts:"+cfg.Kind+":"+via, 1)
				if stalled {
					rec.Note("concurrent family abandoned on this configuration after a stall", cfg)
					return
				}
				if viols >= 12 {
					break // enough witnesses from this session
				}
			}
		}
	}
	ob := &obs{Banner: -1}
	if r.collect(ob) == e2e.Done {
		total := 0
		for _, h := range ob.Hits {
			total += h
		}
		ob.closeHits()
		if total > 0 {
			rec.Violation(cfg.Kind+":late:outbound-connection-on-refusal", reqCase{Cfg: cfg, Via: "end-of-configuration"},
				map[string]interface{}{"connections_nobody_asked_for": ob.Hits})
		} else {
			rec.Stat("end_of_configuration_barriers_clean", 1)
		}
	}
}

// probeServes: does a server that started with a bad allow-list serve anything at all?
func (r *rig) probeServes() bool {
	up := r.eps[0].mkUp(2)
	r.eps[0].spare = true
	n := r.cfg.Table[0]
	c, lsn, err := newClient(up, []string{n})
	if err != nil {
		return false
	}
	defer c.Shutdown()
	app, err := net.Dial("unix", lsn[n])
	if err != nil {
		return false
	}
	defer app.Close()
	ob := &obs{Banner: -1}
	readOutcome(app, ob)
	if ob.Outcome == "stalled" || ob.Outcome == "busy" {
		r.rec.Stat("bad_allow_list:started_without_error_but_serves_nothing(recorded):"+r.cfg.Kind, 1)
		r.rec.Note("server started with a bad allow-list and does not serve at all (handshake never answered)", r.cfg)
		return false
	}
	if r.collect(ob) == e2e.Done {
		ob.closeHits()
	}
	return true
}

func dnsNames(cfg cfgSpec) []string {
	out := append([]string{}, cfg.Table...)
	seen := map[string]bool{}
	for _, n := range out {
		seen[n] = true
	}
	classes := map[string]bool{}
	for _, n := range requestNames(cfg.Table) {
		if seen[n] {
			continue
		}
		c := classify(cfg.Table, nil, n)
		if !classes[c] {
			classes[c] = true
			out = append(out, n)
		}
	}
	return out
}

// pathVariants: a client on a variant of a websocket path. Such a path is not an endpoint at all; the
// weakest reading is used: whatever it serves must be served by the model of one of the real paths.
func (r *rig) pathVariants(idx int) {
	variants := []string{"/ws/P0", "/ws/p", "/ws/p0x", "/ws/p0/", "/ws", "/ws/p0/../p1", "/WS/p0", "/ws/p9"}
	path := variants[idx%len(variants)]
	names := r.cfg.Table
	c, lsn, err := newClient(&upstream.Http{Address: addr.MustParseAddress(r.wsBase + path)}, names)
	if err != nil {
		return
	}
	defer c.Shutdown()
	for _, n := range names {
		rc := &reqCase{Cfg: r.cfg, Ep: 0, Via: "path", Name: n, Path: path}
		r.rec.Mark(rc)
		exp := -1
		for _, al := range r.cfg.Allows {
			if e := expected(r.cfg.Table, al, n); e >= 0 {
				exp = e
			}
		}
		ob := r.requestVia(lsn[n], exp)
		if ob.Outcome == "refused" {
			// not an endpoint: refusing everything is right whatever the lists say
			exp = -1
		}
		r.judge(rc, "ws", "path-variant", n, exp, ob, path)
	}
}

// ---- workload ------------------------------------------------------------------------------

func sequences(n int) [][]string {
	var out [][]string
	var rec func(cur []string)
	rec = func(cur []string) {
		if len(cur) == n {
			out = append(out, append([]string{}, cur...))
			return
		}
		for _, p := range pool {
			if indexOf(cur, p) < 0 {
				rec(append(cur, p))
			}
		}
	}
	rec(nil)
	return out
}

// allowLists: every subset of the table (empty = all) in table order, plus the reversed order for
// subsets of two or more names (the filtered list keeps the allow-list's order).
func allowLists(table []string) [][]string {
	var out [][]string
	for m := 0; m < 1<<uint(len(table)); m++ {
		var s []string
		for i, n := range table {
			if m&(1<<uint(i)) != 0 {
				s = append(s, n)
			}
		}
		out = append(out, s)
		if len(s) >= 2 {
			rv := make([]string, len(s))
			for i := range s {
				rv[len(s)-1-i] = s[i]
			}
			out = append(out, rv)
		}
	}
	return out
}

// subsets: every subset of the table in table order (empty = all).
func subsets(table []string) [][]string {
	var out [][]string
	for m := 0; m < 1<<uint(len(table)); m++ {
		var s []string
		for i, n := range table {
			if m&(1<<uint(i)) != 0 {
				s = append(s, n)
			}
		}
		out = append(out, s)
	}
	return out
}

func workload(rec *vcommon.Rec) []cfgSpec {
	var items []cfgSpec
	rng := vcommon.NewRand(rec.Seed(), "c03/workload")
	maxLen := rec.Pick(2, 3)
	for l := 1; l <= maxLen; l++ {
		for _, tb := range sequences(l) {
			als := allowLists(tb)
			items = append(items, cfgSpec{Kind: "tcp", Table: tb, Allows: als, Space: "exhaustive"})
			if l <= 2 {
				// every ordered pair of subsets (in table order) on the two paths
				sub := subsets(tb)
				for _, a := range sub {
					for _, b := range sub {
						items = append(items, cfgSpec{Kind: "ws", Table: tb, Allows: [][]string{a, b}, Space: "exhaustive"})
					}
				}
				if l == 2 {
					rv := []string{tb[1], tb[0]}
					items = append(items, cfgSpec{Kind: "ws", Table: tb, Allows: [][]string{rv, nil}, Space: "sampled"},
						cfgSpec{Kind: "ws", Table: tb, Allows: [][]string{sub[1+rng.Intn(2)], rv}, Space: "sampled"})
				}
			} else {
				// three channels: seeded pairs of lists
				for k := 0; k < 4; k++ {
					items = append(items, cfgSpec{Kind: "ws", Table: tb, Allows: [][]string{als[rng.Intn(len(als))], als[rng.Intn(len(als))]}, Space: "sampled"})
				}
			}
		}
	}
	randTable := func() []string {
		n := 1 + rng.Intn(4)
		if rng.Intn(3) > 0 {
			n = 3 + rng.Intn(2)
		}
		return shuffled(rng, pool)[:n]
	}
	pick := func(als [][]string, n int) [][]string {
		out := [][]string{als[0]}
		for len(out) < n && len(out) < len(als) {
			out = append(out, als[1+rng.Intn(len(als)-1)])
		}
		return out
	}
	for i := 0; i < rec.Pick(12, 60); i++ {
		tb := randTable()
		items = append(items, cfgSpec{Kind: "unix", Table: tb, Allows: allowLists(tb), Space: "sampled"})
	}
	for i := 0; i < rec.Pick(8, 40); i++ {
		tb := randTable()
		items = append(items, cfgSpec{Kind: "tcp", Table: tb, Allows: allowLists(tb), Space: "sampled"})
		als := allowLists(tb)
		items = append(items, cfgSpec{Kind: "ws", Table: tb, Allows: [][]string{als[rng.Intn(len(als))], als[rng.Intn(len(als))]}, Space: "sampled"})
	}
	for i := 0; i < rec.Pick(6, 32); i++ {
		tb := randTable()
		items = append(items, cfgSpec{Kind: "udp", Table: tb, Allows: pick(allowLists(tb), 3), Space: "sampled"})
	}
	for i := 0; i < rec.Pick(8, 40); i++ {
		tb := randTable()
		items = append(items, cfgSpec{Kind: "stdio", Table: tb, Allows: pick(allowLists(tb), 3), Space: "sampled"})
	}
	for i := 0; i < rec.Pick(2, 8); i++ {
		tb := shuffled(rng, pool)[:2+rng.Intn(2)]
		als := allowLists(tb)
		// a proper, non-empty subset: configured, unlisted and unknown names all occur
		al := als[1+rng.Intn(len(als)-1)]
		for len(al) >= len(tb) {
			al = als[1+rng.Intn(len(als)-1)]
		}
		if i%4 == 3 {
			al = nil
		}
		items = append(items, cfgSpec{Kind: "dns", Table: tb, Allows: [][]string{al}, Space: "sampled"})
	}
	// concurrent family: two or more exposed channels, bursts of simultaneous requests on one session
	conc := func(kind string, n, rounds, par int) {
		for i := 0; i < n; i++ {
			tb := shuffled(rng, pool)[:2+rng.Intn(3)]
			var al []string // all
			if len(tb) > 2 && i%2 == 1 {
				al = shuffled(rng, tb)[:2+rng.Intn(len(tb)-2)]
			}
			c := cfgSpec{Kind: kind, Table: tb, Allows: [][]string{al}, Space: "concurrent", Rounds: rounds, Par: par}
			if kind == "ws" {
				c.Allows = [][]string{al, nil}
			}
			items = append(items, c)
		}
	}
	conc("tcp", rec.Pick(5, 16), rec.Pick(60, 150), 8)
	conc("ws", rec.Pick(3, 8), rec.Pick(50, 120), 8)
	conc("unix", rec.Pick(5, 16), rec.Pick(60, 150), 8)
	conc("udp", rec.Pick(1, 4), rec.Pick(12, 40), 6)
	conc("stdio", rec.Pick(2, 6), rec.Pick(25, 80), 8)
	conc("dns", 1, rec.Pick(3, 10), 3)
	// allow-lists naming channels that are not configured
	for _, k := range []string{"tcp", "unix", "udp", "stdio", "dns"} {
		items = append(items,
			cfgSpec{Kind: k, Table: []string{"a", "ab"}, Allows: [][]string{{"a", "zz"}}, Bad: true, Space: "bad-allow-list"},
			cfgSpec{Kind: k, Table: []string{"a", "echo"}, Allows: [][]string{{"A"}}, Bad: true, Space: "bad-allow-list"},
			cfgSpec{Kind: k, Table: []string{"ab", "echo2"}, Allows: [][]string{{"a", "echo"}}, Bad: true, Space: "bad-allow-list"})
	}
	items = append(items, blankNameWorkload(rec, rng)...)
	items = append(items, repeatedNameWorkload(rec, rng)...)
	items = append(items, slashNameWorkload(rec, rng)...)
	items = append(items,
		cfgSpec{Kind: "ws", Table: []string{"a", "ab"}, Allows: [][]string{{"a"}, {"zz"}}, Bad: true, Space: "bad-allow-list"},
		cfgSpec{Kind: "ws", Table: []string{"a", "ab"}, Allows: [][]string{{"ab", "A"}, nil}, Bad: true, Space: "bad-allow-list"},
		cfgSpec{Kind: "ws", Table: []string{"abc", "echo"}, Allows: [][]string{nil, {"ab"}}, Bad: true, Space: "bad-allow-list"})
	return items
}

// blankNameWorkload: degenerate names on the configuration side.
//
//	(A) "empty-named-channel": the channel table contains a channel whose name is the empty string
//	    (protocol id "/"); allow-lists are every subset of the table in both orders, so [""] = "only the
//	    empty-named channel" occurs next to nil/[] = "all", and next to lists that leave "" out.
//	(B) "blank-allow-entry": tables WITHOUT such a channel and allow-lists with blank / white-space
//	    entries (alone, repeated, mixed with real names at either end). Such an entry names a channel
//	    that is not configured: start-up must fail, or else the endpoint is judged by the model (a
//	    non-empty list exposes exactly the configured names it contains).
func blankNameWorkload(rec *vcommon.Rec, rng interface{ Intn(int) int }) []cfgSpec {
	var items []cfgSpec
	const spA, spB = "empty-named-channel", "blank-allow-entry"
	// (A) tcp: every ordered table {"", p} / {p, ""} with all allow-lists; websocket: seeded pairs, one of
	// which always has [""] on a path
	for _, p := range pool {
		for _, tb := range [][]string{{"", p}, {p, ""}} {
			als := allowLists(tb)
			items = append(items, cfgSpec{Kind: "tcp", Table: tb, Allows: als, Space: spA})
			items = append(items, cfgSpec{Kind: "ws", Table: tb, Allows: [][]string{{""}, als[rng.Intn(len(als))]}, Space: spA})
			if rec.Thorough() {
				items = append(items, cfgSpec{Kind: "ws", Table: tb, Allows: [][]string{als[rng.Intn(len(als))], {""}}, Space: spA},
					cfgSpec{Kind: "ws", Table: tb, Allows: [][]string{als[rng.Intn(len(als))], als[rng.Intn(len(als))]}, Space: spA})
			}
		}
	}
	// tables of three or four channels with "" at a seeded position
	withEmpty := func() []string {
		tb := shuffled(rng, pool)[:2+rng.Intn(2)]
		at := rng.Intn(len(tb) + 1)
		out := append([]string{}, tb[:at]...)
		out = append(out, "")
		return append(out, tb[at:]...)
	}
	// the lists that decide: only "", everything but "", all, and seeded ones
	lists := func(tb []string, n int) [][]string {
		var rest []string
		for _, c := range tb {
			if c != "" {
				rest = append(rest, c)
			}
		}
		als := allowLists(tb)
		out := [][]string{{""}, rest, nil}
		for len(out) < n {
			out = append(out, als[1+rng.Intn(len(als)-1)])
		}
		return out[:n]
	}
	for _, k := range []struct {
		kind string
		n, l int
	}{{"tcp", rec.Pick(2, 10), 6}, {"unix", rec.Pick(3, 12), 6}, {"udp", rec.Pick(1, 6), 3}, {"stdio", rec.Pick(2, 8), 3}} {
		for i := 0; i < k.n; i++ {
			tb := withEmpty()
			items = append(items, cfgSpec{Kind: k.kind, Table: tb, Allows: lists(tb, k.l), Space: spA})
		}
	}
	for i := 0; i < rec.Pick(1, 3); i++ {
		tb := withEmpty()
		items = append(items, cfgSpec{Kind: "dns", Table: tb, Allows: lists(tb, 1+i%2)[i%2 : 1+i%2], Space: spA})
	}
	// (B) one degenerate list per configuration (a start-up error concerns the whole server command)
	blanks := []string{"", "", "", " ", "\t", "  "}
	degenerate := func(tb []string, form int) []string {
		b := blanks[rng.Intn(len(blanks))]
		switch form % 6 {
		case 0:
			return []string{""}
		case 1:
			return []string{"", ""}
		case 2:
			return []string{b, blanks[rng.Intn(len(blanks))], b}
		case 3:
			return []string{b}
		case 4:
			return []string{tb[rng.Intn(len(tb))], ""}
		}
		return []string{b, tb[rng.Intn(len(tb))]}
	}
	form := 0
	for _, k := range []string{"tcp", "unix", "ws", "udp", "stdio", "dns"} {
		n := rec.Pick(6, 12)
		if k == "dns" || k == "stdio" {
			n = rec.Pick(2, 6)
		}
		for i := 0; i < n; i++ {
			tb := shuffled(rng, pool)[:2+rng.Intn(3)]
			f := form
			if k == "dns" || k == "stdio" {
				f = i // the lists of blank names only come first
			}
			form++
			c := cfgSpec{Kind: k, Table: tb, Allows: [][]string{degenerate(tb, f)}, Bad: true, Space: spB}
			if k == "ws" {
				// the other path: all, or a proper list
				other := [][]string{nil, {tb[0]}, {tb[len(tb)-1], tb[0]}}[i%3]
				if i%2 == 0 {
					c.Allows = [][]string{c.Allows[0], other}
				} else {
					c.Allows = [][]string{other, c.Allows[0]}
				}
			}
			items = append(items, c)
		}
	}
	return items
}

// repeatedList: an allow-list of length n over `distinct` different names of the table (1 <= distinct < n,
// distinct <= len(table)): every chosen name occurs, at least one of them more than once, seeded order.
func repeatedList(rng interface{ Intn(int) int }, table []string, n, distinct int) []string {
	chosen := shuffled(rng, table)[:distinct]
	out := append([]string{}, chosen...)
	for len(out) < n {
		out = append(out, chosen[rng.Intn(len(chosen))])
	}
	return shuffled(rng, out)
}

// repeatedLists: allow-lists with repeated names of every length relative to the table (shorter when the
// table has three or more channels, equal, longer), a repeated name alone and next to others. For every
// length the list of ONE name repeated and (when possible) lists that leave at least one channel out and
// one that names every channel occur.
func repeatedLists(rng interface{ Intn(int) int }, table []string, perLen int) [][]string {
	var out [][]string
	for n := 2; n <= len(table)+2; n++ {
		out = append(out, repeatedList(rng, table, n, 1))
		maxD := n - 1
		if maxD > len(table) {
			maxD = len(table)
		}
		for k := 1; k < perLen && maxD >= 2; k++ {
			d := 2 + rng.Intn(maxD-1)
			if k == 1 && maxD > 2 && maxD == len(table) {
				d = 2 + rng.Intn(maxD-2) // at least one channel stays unnamed
			}
			out = append(out, repeatedList(rng, table, n, d))
		}
	}
	return out
}

// repeatedNameWorkload: allow-lists are sequences, not sets - the same configured name more than once
// (lists put together from several sources). Every name of such a list is configured, so start-up must
// succeed and the endpoint exposes exactly the names that occur in the list, however often they occur
// and however long the list is compared with the table.
func repeatedNameWorkload(rec *vcommon.Rec, rng interface{ Intn(int) int }) []cfgSpec {
	var items []cfgSpec
	const sp = "repeated-allow-entry"
	// tcp, two channels: [p,p] [q,q] (length of the table), every list of length three, two of length four
	tables2 := sequences(2)
	if !rec.Thorough() {
		tables2 = nil
		all := sequences(2)
		for i := 0; i < 20; i++ {
			tables2 = append(tables2, all[rng.Intn(len(all))])
		}
	}
	for _, tb := range tables2 {
		p, q := tb[0], tb[1]
		als := [][]string{{p, p}, {q, q}, {p, p, p}, {q, q, q}, {p, p, q}, {p, q, p}, {q, p, p}, {p, q, q}, {q, p, q}, {q, q, p},
			repeatedList(rng, tb, 4, 1), repeatedList(rng, tb, 4, 2)}
		items = append(items, cfgSpec{Kind: "tcp", Table: tb, Allows: als, Space: sp})
		// websocket: a repeated list of the table's length on one path, all / a proper list / another repeated list on the other
		one := [][]string{{p, p}, {q, q}}[rng.Intn(2)]
		other := [][]string{nil, {q}, {p}, {q, q, p}, {p, p}, {q, q}}[rng.Intn(6)]
		if rng.Intn(2) == 0 {
			items = append(items, cfgSpec{Kind: "ws", Table: tb, Allows: [][]string{one, other}, Space: sp})
		} else {
			items = append(items, cfgSpec{Kind: "ws", Table: tb, Allows: [][]string{other, one}, Space: sp})
		}
	}
	// one channel: the list can only be longer than the table
	for i := 0; i < rec.Pick(2, 8); i++ {
		tb := []string{pool[rng.Intn(len(pool))]}
		items = append(items, cfgSpec{Kind: "tcp", Table: tb, Allows: [][]string{{tb[0], tb[0]}, {tb[0], tb[0], tb[0]}}, Space: sp})
	}
	// three to five channels, every kind: lists shorter than, as long as and longer than the table
	for _, k := range []struct {
		kind      string
		n, perLen int
		max       int
	}{{"tcp", rec.Pick(4, 24), 3, 0}, {"unix", rec.Pick(4, 24), 3, 0}, {"ws", rec.Pick(4, 20), 2, 2}, {"udp", rec.Pick(2, 8), 2, 3}, {"stdio", rec.Pick(2, 10), 2, 3}, {"dns", rec.Pick(1, 4), 2, 1}} {
		for i := 0; i < k.n; i++ {
			tb := shuffled(rng, pool)[:2+rng.Intn(4)]
			if k.kind == "dns" {
				tb = tb[:2+rng.Intn(2)]
			}
			als := repeatedLists(rng, tb, k.perLen)
			if k.max > 0 {
				// always a list of the table's length that leaves a channel out; the others seeded
				d := 1
				if len(tb) > 2 {
					d = 1 + rng.Intn(len(tb)-1)
				}
				sel := [][]string{repeatedList(rng, tb, len(tb), d)}
				for len(sel) < k.max {
					sel = append(sel, als[rng.Intn(len(als))])
				}
				if k.kind == "ws" && i%3 == 0 {
					sel[1] = nil
				}
				if k.kind == "ws" && i%2 == 1 {
					sel[0], sel[1] = sel[1], sel[0]
				}
				als = sel
			}
			items = append(items, cfgSpec{Kind: k.kind, Table: tb, Allows: als, Space: sp})
		}
	}
	return items
}

// slashNameWorkload: channel names that themselves begin with one or more '/' (the server's command line
// syntax writes every channel name with a leading slash), and channels of ONE table whose names differ only
// in the number of leading slashes (b, /b, //b; wire ids /b, //b, ///b). With all allow-lists: both
// exposed, only the plain one, only the slash-led one, either order. The model is unchanged: a name is a
// string, "/b" and "b" are different channels.
func slashNameWorkload(rec *vcommon.Rec, rng interface{ Intn(int) int }) []cfgSpec {
	var items []cfgSpec
	const sp = "slash-led-names"
	bases := []string{"a", "ab", "echo", "a/b", "A", ""}
	forms := func(b string) []string {
		f := []string{b, "/" + b, "//" + b}
		if rec.Thorough() {
			f = append(f, "///"+b)
		}
		return f
	}
	for _, b := range bases {
		f := forms(b)
		// tcp: every ordered pair of two forms of one base, every allow-list in both orders
		for i := range f {
			for j := range f {
				if i == j {
					continue
				}
				tb := []string{f[i], f[j]}
				items = append(items, cfgSpec{Kind: "tcp", Table: tb, Allows: allowLists(tb), Space: sp})
			}
		}
		// all forms of the base in one table, seeded order
		tb := shuffled(rng, f)
		items = append(items, cfgSpec{Kind: "tcp", Table: tb, Allows: allowLists(tb), Space: sp})
		// a slash-led name whose plain form is not configured at all, next to an unrelated channel
		other := pool[rng.Intn(len(pool))]
		for other == b {
			other = pool[rng.Intn(len(pool))]
		}
		lone := [][]string{{f[1], other}, {other, f[2]}}[rng.Intn(2)]
		items = append(items, cfgSpec{Kind: "tcp", Table: lone, Allows: allowLists(lone), Space: sp})
		// websocket: the two paths expose different forms / one all / both orders
		pair := shuffled(rng, f)[:2]
		if !strings.HasPrefix(pair[0], "/") && !strings.HasPrefix(pair[1], "/") {
			pair[1] = f[1]
		}
		sub := subsets(pair)
		items = append(items,
			cfgSpec{Kind: "ws", Table: pair, Allows: [][]string{{pair[0]}, {pair[1]}}, Space: sp},
			cfgSpec{Kind: "ws", Table: pair, Allows: [][]string{{pair[1], pair[0]}, sub[rng.Intn(len(sub))]}, Space: sp},
			cfgSpec{Kind: "ws", Table: shuffled(rng, f), Allows: [][]string{nil, {f[1+rng.Intn(len(f)-1)]}}, Space: sp})
		if rec.Thorough() {
			for k := 0; k < 4; k++ {
				t3 := shuffled(rng, f)[:3]
				als := allowLists(t3)
				items = append(items, cfgSpec{Kind: "ws", Table: t3, Allows: [][]string{als[rng.Intn(len(als))], als[rng.Intn(len(als))]}, Space: sp})
			}
		}
	}
	// every other kind: two or three forms of a seeded base, sometimes next to unrelated channels, seeded order;
	// the lists that decide (only a slash-led one, only the form with the fewest slashes, all) and seeded ones
	mixed := func() (tb []string, decisive [][]string) {
		f := forms(bases[rng.Intn(len(bases))])
		fs := shuffled(rng, f)[:2+rng.Intn(2)]
		sort.Slice(fs, func(i, j int) bool { return len(fs[i]) < len(fs[j]) })
		tb = append(tb, fs...)
		for k := rng.Intn(3); k > 0; k-- {
			if o := pool[rng.Intn(len(pool))]; indexOf(tb, o) < 0 {
				tb = append(tb, o)
			}
		}
		return shuffled(rng, tb), [][]string{{fs[len(fs)-1]}, {fs[0]}, nil, {fs[1], fs[0]}}
	}
	for _, k := range []struct {
		kind string
		n, l int
	}{{"unix", rec.Pick(6, 24), 7}, {"tcp", rec.Pick(2, 12), 7}, {"udp", rec.Pick(2, 8), 3}, {"stdio", rec.Pick(3, 10), 3}, {"dns", rec.Pick(2, 4), 1}} {
		for i := 0; i < k.n; i++ {
			tb, als := mixed()
			all := allowLists(tb)
			for len(als) < k.l {
				als = append(als, all[1+rng.Intn(len(all)-1)])
			}
			if k.kind == "dns" {
				// one server per process at a time: one list per configuration, the deciding ones in turn
				als = als[i%3 : i%3+1]
			} else {
				als = als[:k.l]
			}
			items = append(items, cfgSpec{Kind: k.kind, Table: tb, Allows: als, Space: sp})
		}
	}
	// simultaneous requests for names that differ only by leading slashes on one session
	for _, kind := range []string{"tcp", "unix", "ws", "stdio"} {
		tb := shuffled(rng, forms(bases[rng.Intn(len(bases))]))
		c := cfgSpec{Kind: kind, Table: tb, Allows: [][]string{nil}, Space: sp, Rounds: rec.Pick(15, 60), Par: 8}
		if kind == "ws" {
			c.Allows = [][]string{nil, {tb[0], tb[1]}}
		}
		items = append(items, c)
	}
	return items
}

// ---- test ----------------------------------------------------------------------------------

func replay(rec *vcommon.Rec, raw json.RawMessage, t *testing.T) {
	var rc reqCase
	if err := json.Unmarshal(raw, &rc); err != nil {
		t.Fatal(err)
	}
	if len(rc.Cfg.Table) == 0 {
		t.Fatal("replay descriptor without a configuration")
	}
	if strings.HasPrefix(rc.Via, "burst-") {
		// a race: the same burst is repeated; a run that does not hit the window proves nothing
		c := rc.Cfg
		if c.Rounds < 300 {
			c.Rounds = 300
		}
		runConcurrent(rec, c, 0, rc.Burst, rc.Via)
		return
	}
	r, startErr, fatal := startRig(rec, rc.Cfg)
	if fatal != nil {
		rec.Inconclusive("fixture could not start: "+fatal.Error(), rc)
		return
	}
	defer r.close()
	if startErr != nil {
		if rc.Cfg.Bad {
			rec.Case("bad-replay", true)
			return
		}
		rec.Violation(rc.Cfg.Kind+":setup:server-did-not-start", rc, startErr.Error())
		return
	}
	switch rc.Via {
	case "client":
		if err := r.startClients([]string{rc.Name}); err != nil {
			rec.Inconclusive("client command could not start: "+err.Error(), rc)
			return
		}
		r.clientRequest(r.eps[rc.Ep], rc.Name)
	case "raw":
		r.names = requestNames(rc.Cfg.Table)
		r.rawScript(r.eps[rc.Ep], rc.Script, "replay")
	case "path":
		for i := 0; i < 8; i++ {
			r.pathVariants(i)
		}
	default:
		// end-of-configuration findings: run the whole configuration
		r.close()
		runConfig(rec, rc.Cfg, 0)
	}
}

func TestVerifC03(t *testing.T) {
	// 16 shards run side by side and every case is a chain of tiny hand-overs between goroutines: more
	// than a few Ps per shard only buys scheduler spinning (measured: 8x the system time)
	runtime.GOMAXPROCS(4)
	e2e.Quiet()
	rec := vcommon.Open()
	defer rec.Close()
	if rec.Replay != nil {
		replay(rec, rec.Replay, t)
		return
	}
	items := workload(rec)
	only := os.Getenv("VERIF_C03_KINDS")
	// interleave so that every shard gets its share of every kind; DNS configurations run one after
	// the other inside a shard by construction (runConfig is sequential)
	n := 0
	for idx, it := range items {
		if only != "" && indexOf(strings.Split(only, ","), it.Kind) < 0 {
			continue
		}
		if !rec.Mine(n) {
			n++
			continue
		}
		n++
		runConfig(rec, it, idx)
	}
	rec.Stat("configurations_in_workload", 0)
}
