// C04: required or negotiated security never degrades to plaintext (DESIGN.md §4 C04).
//
// Monitor A (this file): real client <-> recording relay <-> real server over the matrix
// carrier x server certificate x client --secure x client --insecure, with a wire observer.
// Monitor B (scripted_test.go): scripted misbehaving servers against the real client.
// Monitor C (tlsend_test.go): TLS endpoints (with and without a key pair) against plaintext peers.
// Monitor D (reconnect_test.go): the security level of an upstream survives the loss of its session.
// Monitor E (listeners_test.go): compositions of the client's listener list (stdio and socket listeners
// in every order, applications connecting while the client is still starting).
// Monitor F (failedtls_test.go): a scripted peer makes the server's TLS handshake fail (TLS endpoints and
// StartTLS upgrades) and goes on in clear, one step at a time.
// Monitor G (secondattempt_test.go): a scripted peer spoils, resets or redirects the first attempt of a
// TLS-scheme upstream and offers a plaintext endpoint to the next one.
package c04

import (
	"encoding/json"
	"fmt"
	"io"
	"net"
	"os"
	"strings"
	"sync"
	"sync/atomic"
	"testing"
	"time"

	"github.com/bokysan/socketace/v2/internal/client/upstream"
	"github.com/bokysan/socketace/v2/internal/socketace"
	"github.com/bokysan/socketace/v2/internal/streams"
	"github.com/bokysan/socketace/v2/internal/verifhook"
	"github.com/bokysan/socketace/v2/internal/zzverif/e2e"
	"github.com/bokysan/socketace/v2/internal/zzverif/vcommon"
)

// caseDesc is the replayable descriptor of every case of the three monitors.
type caseDesc struct {
	Monitor string `json:"monitor"` // "A", "B", "C", "D", "E", "F", "G"
	Seed    int64  `json:"seed"`
	// A and C
	Carrier string `json:"carrier,omitempty"`
	Cert    string `json:"server_cert,omitempty"` // none, good, untrusted, wronghost, expired
	NoCA    bool   `json:"client_without_ca,omitempty"`
	UpSch   string `json:"upstream_url_scheme,omitempty"` // websocket carriers: the URL is written ws:// / wss:// instead of http:// / https://
	// all
	Require  bool `json:"client_requires_security"`
	Insecure bool `json:"client_insecure_flag"`
	// B
	Transport string  `json:"transport,omitempty"` // tcp, ws
	Script    *script `json:"script,omitempty"`
	// C
	Peer string `json:"peer,omitempty"` // scripted-plaintext-client, real-client-plain-scheme
	// E: the client's listener list in configuration order (stdio, unix, tcp, tcp-localhost), whether the
	// applications of the unix listeners try to connect from before the client is started, and how many
	// fresh client starts the case makes (the outcome may depend on the interleaving of the start-up)
	Listeners []string `json:"client_listeners,omitempty"`
	Eager     bool     `json:"applications_connect_during_startup,omitempty"`
	Rounds    int      `json:"client_starts,omitempty"`
	// F: where the server performs the TLS handshake that the scripted peer makes fail (tls-endpoint,
	// starttls-upgrade; or the control without a failing step) and the form of the failing step
	Where string `json:"tls_handshake_at,omitempty"`
	Form  string `json:"failing_step,omitempty"`
	// G: what the scripted peer does to the first FirstN physical connections of the TLS-scheme upstream
	// (afterwards it is a willing plaintext endpoint) and the status of its redirect
	First  string `json:"first_attempt,omitempty"`
	FirstN int    `json:"first_attempts_spoiled,omitempty"`
	Status int    `json:"redirect_status,omitempty"`
}

func (c *caseDesc) key() string {
	s := ""
	if c.Script != nil {
		s = c.Script.name()
	}
	k := fmt.Sprintf("%s/%s/%s/%v/%v/%v/%s/%s/%s/%s", c.Monitor, c.Carrier, c.Cert, c.NoCA, c.Require, c.Insecure, c.Transport, s, c.Peer, c.UpSch)
	if len(c.Listeners) > 0 {
		k += fmt.Sprintf("/%s/%v/%d", strings.Join(c.Listeners, ","), c.Eager, c.Rounds)
	}
	if c.Where != "" {
		k += "/" + c.Where + "/" + c.Form
	}
	if c.First != "" {
		k += fmt.Sprintf("/%s/%d/%d", c.First, c.FirstN, c.Status)
	}
	return k
}

func certOf(name string) *e2e.CertPair {
	pk := e2e.GetPKI()
	switch name {
	case "good":
		return &pk.Good
	case "untrusted":
		return &pk.Untrusted
	case "wronghost":
		return &pk.WrongHost
	case "expired":
		return &pk.Expired
	}
	return nil
}

func yn(b bool, y, n string) string {
	if b {
		return y
	}
	return n
}

// clientCC unwraps the upstream's connection chain down to the client side of the socketace
// handshake (nil: no session is held by the upstream).
func clientCC(up upstream.Upstream) *socketace.ClientConnection {
	var c net.Conn
	switch u := up.(type) {
	case *upstream.Socket:
		if u.Connection != nil {
			c = u.Connection
		}
	case *upstream.Http:
		if u.Connection != nil {
			c = u.Connection
		}
	case *upstream.Packet:
		if u.Connection != nil {
			c = u.Connection
		}
	case *upstream.Dns:
		if u.Connection != nil {
			c = u.Connection
		}
	case *upstream.InputOutput:
		if u.Connection != nil {
			c = u.Connection
		}
	}
	for i := 0; i < 32 && c != nil; i++ {
		if cc, ok := c.(*socketace.ClientConnection); ok {
			return cc
		}
		u, ok := c.(streams.UnwrappedConnection)
		if !ok {
			return nil
		}
		c = u.Unwrap()
	}
	return nil
}

type srvSession struct {
	Secure bool
	Tech   string
}

// serverSessions drains the hook log and returns the server's view of every session it accepted.
func serverSessions() []srvSession {
	var out []srvSession
	for _, e := range verifhook.Events() {
		if e.Kind != "server.session" || len(e.KV) < 2 {
			continue
		}
		s := srvSession{}
		s.Secure, _ = e.KV[0].(bool)
		s.Tech, _ = e.KV[1].(string)
		out = append(out, s)
	}
	return out
}

// appOutcome is what the application saw on its local connection.
type appOutcome struct {
	mu      sync.Mutex
	got     []byte
	ended   int32
	readErr string
}

func (a *appOutcome) isEnded() bool { return atomic.LoadInt32(&a.ended) == 1 }

// readApp collects everything the application receives until its connection ends.
func readApp(app net.Conn, a *appOutcome) {
	buf := make([]byte, 32768)
	for {
		n, err := app.Read(buf)
		if n > 0 {
			e2e.Bump(n)
			a.mu.Lock()
			a.got = append(a.got, buf[:n]...)
			a.mu.Unlock()
		}
		if err != nil {
			a.mu.Lock()
			a.readErr = err.Error()
			a.mu.Unlock()
			atomic.StoreInt32(&a.ended, 1)
			return
		}
	}
}

func (a *appOutcome) len() int {
	a.mu.Lock()
	defer a.mu.Unlock()
	return len(a.got)
}

func writeAll(w io.Writer, b []byte) {
	for len(b) > 0 {
		n := 4096
		if n > len(b) {
			n = len(b)
		}
		k, err := w.Write(b[:n])
		e2e.Bump(k)
		if err != nil {
			return
		}
		b = b[k:]
	}
}

// ---- monitor A ----------------------------------------------------------------------------------

func alreadyEncrypted(carrier string) bool {
	return carrier == "tcp+tls" || carrier == "wss" || carrier == "unix+tls" || carrier == "stdio+tls"
}

func streamCarrier(carrier string) bool {
	switch carrier {
	case "tcp", "unix", "ws", "tcp+tls", "unix+tls", "wss":
		return true
	}
	return false
}

func reps(carrier string, thorough bool) int {
	if strings.HasPrefix(carrier, "dns") {
		if thorough {
			return 300
		}
		return 80
	}
	if thorough {
		return 4000
	}
	return 400
}

// wireView is the de-framed capture of one direction.
type wireView struct {
	raw      [][]byte // what is searched for the marker (stream, or datagrams, or decodings)
	rawBytes int
	stream   []byte // stream carriers: the carrier's byte stream (websocket payload for ws)
	parsed   bool
	note     string
}

func (w *wireView) has(m *marker) bool {
	for _, b := range w.raw {
		if m.in(b) {
			return true
		}
	}
	return false
}

func captureA(p *e2e.Pair, carrier string) (c2s, s2c *wireView, ok bool) {
	c2s, s2c = &wireView{}, &wireView{}
	switch {
	case p.Relay != nil:
		links := p.Relay.Links()
		if len(links) == 0 {
			return c2s, s2c, true // nothing ever reached the relay
		}
		var a, b []byte
		for _, l := range links {
			x, y := l.Captured()
			a = append(a, x...)
			b = append(b, y...)
		}
		c2s.rawBytes, s2c.rawBytes = len(a), len(b)
		c2s.raw, s2c.raw = [][]byte{a}, [][]byte{b}
		c2s.stream, s2c.stream, c2s.parsed, s2c.parsed = a, b, true, true
		if carrier == "ws" {
			// one physical connection per case (asserted by the caller through len(links))
			x, _ := links[0].Captured()
			_, y := links[0].Captured()
			pa, fa, oka := wsDeframe(x)
			pb, fb, okb := wsDeframe(y)
			c2s.stream, s2c.stream, c2s.parsed, s2c.parsed = pa, pb, oka, okb
			c2s.raw, s2c.raw = [][]byte{a, pa}, [][]byte{b, pb}
			c2s.note, s2c.note = fmt.Sprintf("%d ws frames", fa), fmt.Sprintf("%d ws frames", fb)
		}
		return c2s, s2c, true
	case p.UDPRelay != nil:
		a, b := p.UDPRelay.Captured()
		for _, d := range a {
			c2s.rawBytes += len(d)
		}
		for _, d := range b {
			s2c.rawBytes += len(d)
		}
		if strings.HasPrefix(carrier, "dns") {
			da, ma, qa := dnsDeframe(a, p.Opt.Domain, false)
			db, mb, qb := dnsDeframe(b, p.Opt.Domain, true)
			c2s.raw, s2c.raw = append(da, a...), append(db, b...)
			c2s.parsed, s2c.parsed = ma > 0, mb > 0
			c2s.note, s2c.note = fmt.Sprintf("%d dns messages, %d data", ma, qa), fmt.Sprintf("%d dns messages, %d data", mb, qb)
		} else {
			c2s.raw, s2c.raw = a, b
			c2s.parsed, s2c.parsed = true, true
		}
		return c2s, s2c, true
	}
	return c2s, s2c, false
}

// tlsAfterHandshake checks that what follows the socketace handshake on a stream carrier is a
// sequence of TLS records (encrypted carriers: the whole stream).
func tlsAfterHandshake(w *wireView, wholeStream bool) (tlsParse, bool) {
	b := w.stream
	if !wholeStream {
		rest, ok := afterHeaders(b, 2)
		if !ok {
			return tlsParse{Bad: "the two handshake messages are not on the wire"}, false
		}
		b = rest
	}
	r := parseTLS(b)
	return r, r.Bad == "" && r.Records > 0 && r.FirstType == 22
}

func runA(rec *vcommon.Rec, c *caseDesc) {
	rec.Mark(c)
	key := c.key()
	sig := "A:" + c.Carrier
	pk := e2e.GetPKI()
	rng := vcommon.NewRand(c.Seed, "c04marker/"+key)
	mb := make([]byte, 2*markerLen)
	rng.Read(mb)
	mC, mT := newMarker(mb[:markerLen]), newMarker(mb[markerLen:])
	n := reps(c.Carrier, rec.Thorough())
	payC, payT := mC.payload(n), mT.payload(n)

	opt := e2e.Options{Carrier: c.Carrier, UpScheme: c.UpSch, WithRelay: !strings.HasPrefix(c.Carrier, "stdio"), ClientSecure: c.Require, ClientInsecure: c.Insecure,
		StrictVerify: true, Tag: "a"}
	if c.Cert == "none" {
		opt.NoServerCert = true
	} else {
		opt.ServerCert = certOf(c.Cert)
	}
	if c.NoCA {
		opt.NoClientCA = true
	} else {
		opt.ClientCA = pk.CA1
	}
	offered := c.Cert != "none" && !alreadyEncrypted(c.Carrier)
	cell := fmt.Sprintf("%s|cert=%s|require=%v|insecure=%v%s", c.Carrier, c.Cert, c.Require, c.Insecure, yn(c.NoCA, "|client-without-ca", "")+yn(c.UpSch != "", "|url="+c.UpSch+"://", ""))

	verifhook.Events()
	verifhook.Record(true)
	defer verifhook.Record(false)
	p, err := e2e.Start(opt)
	if err != nil {
		if alreadyEncrypted(c.Carrier) && c.Cert == "none" {
			// an endpoint configured for TLS that has no certificate refuses to start: no session of any kind
			rec.Case(key, true)
			rec.Seen("A:cell", cell)
			rec.Seen("A:outcome", cell+" -> tls-endpoint-without-certificate-refuses-to-start")
			return
		}
		rec.Inconclusive("A: fixture could not be started: "+e2e.Clip(err.Error(), 200), c)
		return
	}
	defer p.Close()

	app, err := p.Dial("echo")
	if err != nil {
		rec.Inconclusive("A: cannot dial the client's listener: "+err.Error(), c)
		return
	}
	defer app.Close()
	ao := &appOutcome{}
	go readApp(app, ao)
	go writeAll(app, payC)

	// wait until the logical connection is served (the target accepts) or refused (the application's
	// connection ends); nothing else can happen, and neither is decided by a clock
	var tgt net.Conn
	var stop int32
	done := e2e.Go(func() {
		for atomic.LoadInt32(&stop) == 0 {
			if t := p.Targets["echo"].TryNext(); t != nil {
				tgt = t
				return
			}
			if ao.isEnded() {
				// the refusal may race with a late accept: look once more
				tgt = p.Targets["echo"].TryNext()
				return
			}
			time.Sleep(2 * time.Millisecond)
		}
	})
	o := e2e.Wait(done)
	atomic.StoreInt32(&stop, 1)
	if o != e2e.Done {
		<-done
	}
	established := tgt != nil
	transferOK := false
	if established {
		defer tgt.Close()
		// move the payload both ways
		var gotC []byte
		rd := e2e.Go(func() {
			buf := make([]byte, 32768)
			for len(gotC) < len(payC) {
				k, err := tgt.Read(buf)
				e2e.Bump(k)
				gotC = append(gotC, buf[:k]...)
				if err != nil {
					return
				}
			}
		})
		wr := e2e.Go(func() { writeAll(tgt, payT) })
		all := e2e.Go(func() {
			<-rd
			<-wr
			for ao.len() < len(payT) && !ao.isEnded() {
				time.Sleep(2 * time.Millisecond)
			}
		})
		switch e2e.Wait(all) {
		case e2e.Done:
			transferOK = len(gotC) >= len(payC) && ao.len() >= len(payT)
		}
		if !transferOK {
			rec.Stat("A:transfer-incomplete(not judged here; C01)", 1)
		}
	}

	// what both ends report
	cc := clientCC(p.Up)
	sess := serverSessions()
	cliSecure, cliTech := false, "no-session"
	if cc != nil {
		cliSecure, cliTech = cc.Secure(), cc.SecurityTech()
	}
	var srv *srvSession
	if len(sess) > 0 {
		srv = &sess[len(sess)-1]
	}

	// the wire
	c2s, s2c, haveWire := captureA(p, c.Carrier)
	clearC2S := haveWire && (c2s.has(mC) || c2s.has(mT))
	clearS2C := haveWire && (s2c.has(mC) || s2c.has(mT))
	clear := clearC2S || clearS2C
	if haveWire {
		rec.Stat("A:wire_bytes_searched:"+c.Carrier, int64(c2s.rawBytes+s2c.rawBytes))
		rec.Stat("A:wire_bytes_searched", int64(c2s.rawBytes+s2c.rawBytes))
	}
	obs := map[string]interface{}{
		"established": established, "transfer_complete": transferOK, "client_secure": cliSecure, "client_tech": cliTech,
		"server_sessions": sess, "starttls_offered_by_configuration": offered, "marker_in_clear_c2s": clearC2S, "marker_in_clear_s2c": clearS2C,
		"wire_c2s_bytes": c2s.rawBytes, "wire_s2c_bytes": s2c.rawBytes, "wire_note": c2s.note + " / " + s2c.note, "app_read_error": ao.readErr,
		"app_received": ao.len(),
	}
	if haveWire && streamCarrier(c.Carrier) && !alreadyEncrypted(c.Carrier) && s2c.parsed {
		// what the server really advertised, as seen on the wire
		hs := s2c.stream
		if len(hs) > 600 {
			hs = hs[:600]
		}
		adv := strings.Contains(strings.ToLower(string(hs)), "capabilities: starttls")
		obs["starttls_advertised_on_wire"] = adv
		rec.Seen("A:advertised-on-wire(carrier,cert)", fmt.Sprintf("%s|cert=%s|%v", c.Carrier, c.Cert, adv))
	}
	rec.Seen("A:cell", cell)
	rec.Seen("A:carrier", c.Carrier)

	if o != e2e.Done {
		// neither served nor refused: a liveness matter (C16), but the wire is still judged below
		rec.Inconclusive("A: logical connection neither served nor refused ("+o.String()+")", c)
	}

	outcome := "no-session(refused)"
	if o != e2e.Done {
		outcome = "no-session(" + o.String() + ")"
	}
	if established {
		if srv == nil {
			rec.Inconclusive("A: session established but the server.session hook recorded nothing", c)
			return
		}
		if cc == nil {
			rec.Inconclusive("A: session established but the client's connection object is not reachable", c)
			return
		}
		outcome = fmt.Sprintf("session(client=%v/%s,server=%v/%s)", cliSecure, cliTech, srv.Secure, srv.Tech)
		rec.Seen("A:sessions(client secure/tech, server secure/tech)", fmt.Sprintf("%v/%s|%v/%s", cliSecure, cliTech, srv.Secure, srv.Tech))
		rec.Stat(fmt.Sprintf("A:sessions:client=%v/%s,server=%v/%s", cliSecure, cliTech, srv.Secure, srv.Tech), 1)
	}
	rec.Seen("A:outcome", cell+" -> "+outcome)
	rec.Case(key, haveWire && (c2s.rawBytes > 0 || !established) || strings.HasPrefix(c.Carrier, "stdio"))
	rec.Sample(map[string]interface{}{"monitor": "A", "cell": cell, "outcome": outcome, "wire_bytes": c2s.rawBytes + s2c.rawBytes, "marker_in_clear": clear})

	// ---- oracle -------------------------------------------------------------------------------
	if established {
		// (1) both ends agree
		if cliSecure != srv.Secure {
			rec.Violation(sig+":ends-disagree-on-secure", c, obs)
		}
		anySecure := cliSecure || srv.Secure
		bothSecure := cliSecure && srv.Secure
		var tlsOK = true
		var tlsWhy string
		if haveWire && streamCarrier(c.Carrier) && (anySecure || c.Require || offered) {
			if !c2s.parsed || !s2c.parsed {
				rec.Inconclusive("A: capture of "+c.Carrier+" could not be de-framed", c)
			} else {
				ra, oka := tlsAfterHandshake(c2s, alreadyEncrypted(c.Carrier))
				rb, okb := tlsAfterHandshake(s2c, alreadyEncrypted(c.Carrier))
				tlsOK = oka && okb
				tlsWhy = fmt.Sprintf("c2s: %+v; s2c: %+v", ra, rb)
				obs["tls_record_parse"] = tlsWhy
				if tlsOK {
					rec.Stat("A:tls_records_parsed", int64(ra.Records+rb.Records))
				}
			}
		}
		// (2)+(3) the client requires security: established => TLS-protected, at both ends and on the wire;
		// otherwise: a session that either end reports secure never shows the payload in clear
		if c.Require {
			if !bothSecure {
				rec.Violation(sig+":secure-required:session-established-without-tls", c, obs)
			}
			if clear {
				rec.Violation(sig+":secure-required:marker-in-clear-on-wire", c, obs)
			} else if !tlsOK {
				rec.Violation(sig+":secure-required:wire-not-tls-records", c, obs)
			}
		} else if anySecure {
			if clear {
				rec.Violation(sig+":reported-secure:marker-in-clear-on-wire", c, obs)
			} else if !tlsOK {
				rec.Violation(sig+":reported-secure:wire-not-tls-records", c, obs)
			}
		}
		// (4) the server offered StartTLS on a carrier that is not encrypted: upgraded & both secure, or no session
		if offered && !c.Require && !bothSecure {
			rec.Violation(sig+":starttls-offered:session-plaintext-but-established", c, obs)
		}
		// positive control of the observer: on a session nobody calls secure the marker must be visible
		if !anySecure && haveWire && transferOK && c.Carrier != "udp+secret" {
			if clear {
				rec.Stat("A:observer_positive_control_ok:"+c.Carrier, 1)
			} else {
				rec.Inconclusive("A: observer is blind on "+c.Carrier+": a plaintext session moved the payload and the marker was not found in the capture", c)
			}
		}
		if anySecure && !clear && transferOK {
			rec.Stat("A:secure_sessions_with_payload_and_no_marker_on_wire:"+c.Carrier, 1)
		}
	} else {
		// no session: not one marker byte may have left the client, whatever the reason
		if clearC2S {
			rec.Violation(sig+":"+yn(c.Require, "secure-required", "no-session")+":marker-left-client-though-connect-failed", c, obs)
		}
		if c.Require {
			rec.Stat("A:required_and_refused:"+c.Carrier, 1)
		}
	}
}

func aCases(rec *vcommon.Rec) []*caseDesc {
	carriers := []string{"tcp", "unix", "ws", "udp", "dns", "tcp+tls", "unix+tls", "wss", "stdio", "stdio+tls", "udp+secret"}
	if v := os.Getenv("VERIF_CARRIERS"); v != "" {
		carriers = strings.Split(v, ",")
	}
	var out []*caseDesc
	add := func(carrier, cert string, noCA, req, ins bool) {
		out = append(out, &caseDesc{Monitor: "A", Seed: rec.Seed(), Carrier: carrier, Cert: cert, NoCA: noCA, Require: req, Insecure: ins})
	}
	for _, ca := range carriers {
		certs := []string{"none", "good"}
		if ca == "wss" {
			certs = []string{"good"} // an https endpoint without a certificate never accepts anything (see monitor C, thorough)
		}
		for _, ce := range certs {
			for _, req := range []bool{false, true} {
				for _, ins := range []bool{false, true} {
					add(ca, ce, false, req, ins)
				}
			}
		}
		// certificates the client cannot verify: with --insecure the upgrade happens, without it no session
		bad := []string{"untrusted", "wronghost", "expired"}
		if !rec.Thorough() {
			rng := vcommon.NewRand(rec.Seed(), "c04/badcert/"+ca)
			bad = []string{bad[rng.Intn(3)]}
		}
		if strings.HasPrefix(ca, "stdio") || ca == "udp+secret" {
			continue
		}
		for _, ce := range bad {
			for _, ins := range []bool{false, true} {
				add(ca, ce, false, ins, ins) // (require=false, insecure=false), (true, true)
				if rec.Thorough() {
					add(ca, ce, false, !ins, ins)
				}
			}
		}
		if rec.Thorough() || ca == "tcp" || ca == "ws" {
			add(ca, "good", true, false, false) // the client has no CA at all
			add(ca, "good", true, true, false)
		}
		// the same websocket endpoints with the upstream URL written ws:// / wss://
		if ca == "ws" || ca == "wss" {
			for _, ce := range certs {
				for _, req := range []bool{false, true} {
					out = append(out, &caseDesc{Monitor: "A", Seed: rec.Seed(), Carrier: ca, Cert: ce, Require: req, UpSch: ca})
				}
			}
		}
	}
	return out
}

// ---- sharding -----------------------------------------------------------------------------------

// mine distributes work items: DNS cases get shards of their own (one DNS server per process at a
// time, and they are the slow ones); everything else is spread over the remaining shards.
func mine(rec *vcommon.Rec, dns bool, i int) bool {
	n := rec.Shards()
	if n < 4 {
		return rec.Mine(i)
	}
	d := n / 4
	if dns {
		return i%d == rec.Shard()
	}
	return rec.Shard() >= d && i%(n-d) == rec.Shard()-d
}

func TestVerifC04(t *testing.T) {
	e2e.Quiet()
	rec := vcommon.Open()
	defer rec.Close()
	e2e.GetPKI()

	if rec.Replay != nil {
		var c caseDesc
		if err := json.Unmarshal(rec.Replay, &c); err != nil {
			t.Fatal(err)
		}
		switch c.Monitor {
		case "A":
			runA(rec, &c)
		case "B":
			runB(rec, &c)
		case "C":
			runC(rec, &c)
		case "D":
			runD(rec, &c)
		case "E":
			runE(rec, &c)
		case "F":
			runF(rec, []*caseDesc{&c})
		case "G":
			runG(rec, &c)
		}
		return
	}
	only := os.Getenv("VERIF_MONITORS") // e.g. "A", "BC"
	want := func(m string) bool { return only == "" || strings.Contains(only, m) }

	idx, dnsIdx := 0, 0
	if want("A") {
		for _, c := range aCases(rec) {
			isDNS := strings.HasPrefix(c.Carrier, "dns")
			if isDNS {
				if mine(rec, true, dnsIdx) {
					runA(rec, c)
				}
				dnsIdx++
				continue
			}
			if mine(rec, false, idx) {
				runA(rec, c)
			}
			idx++
		}
	}
	if want("C") {
		for _, c := range cCases(rec) {
			if slowC(c) {
				// on the unchanged tree these cost one stall window each: they go to the shards of the DNS
				// cases, which run one case at a time anyway
				if mine(rec, true, dnsIdx) {
					runC(rec, c)
				}
				dnsIdx++
				continue
			}
			if mine(rec, false, idx) {
				runC(rec, c)
			}
			idx++
		}
	}
	if want("F") {
		for _, g := range fGroups(rec) {
			if slowF(g) {
				// one stall window on the unchanged tree (see slowC)
				if mine(rec, true, dnsIdx) {
					runF(rec, g)
				}
				dnsIdx++
				continue
			}
			if mine(rec, false, idx) {
				runF(rec, g)
			}
			idx++
		}
	}
	if want("G") {
		for _, c := range gCases(rec) {
			if mine(rec, false, idx) {
				runG(rec, c)
			}
			idx++
		}
	}
	if want("D") {
		for _, c := range dCases(rec) {
			if mine(rec, false, idx) {
				runD(rec, c)
			}
			idx++
		}
	}
	if want("B") {
		for _, c := range bCases(rec) {
			if mine(rec, false, idx) {
				runB(rec, c)
			}
			idx++
		}
	}
	if want("E") {
		for _, c := range eCases(rec) {
			if mine(rec, false, idx) {
				runE(rec, c)
			}
			idx++
		}
	}
}
