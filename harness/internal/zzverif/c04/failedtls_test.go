package c04

// Monitor F: a TLS handshake that FAILS is never followed by a session.
//
// Monitors A-E only ever see TLS handshakes that succeed or peers that never start one: the plaintext peers
// of monitor C send everything they have in one go and never look at what comes back. Here a scripted peer
// walks through the steps one at a time, as the real client does, and makes the server's TLS handshake fail
// on the way, in every place where a server performs one:
//
//   - tls-endpoint: the endpoints configured for TLS (tcp+tls, unix+tls, https, stdio+tls). The peer connects,
//     performs the failing step, and then goes on with the ordinary socketace handshake in clear (announcement,
//     wait for the answer, upgrade request, wait for the answer), opens the multiplexer and a logical connection
//     to the channel, and writes the marker payload.
//   - starttls-upgrade: the unencrypted carriers (tcp, unix, stdio) of a server with a certificate. The peer
//     performs the socketace handshake, asks for StartTLS, waits for the 101, performs the failing step instead of
//     a TLS handshake, and then goes on in clear with the multiplexer, a logical connection and the marker payload.
//
// The failing steps (fForms): a line of text, the plaintext announcement itself (a peer that repeats itself),
// binary junk, a TLS handshake record with a ClientHello that cannot be parsed, a fatal TLS alert record, a
// genuine ClientHello followed (after the server's flight) by text, a genuine TLS client that rejects the
// server's certificate, and a genuine TLS client without the client certificate the endpoint demands.
//
// Oracle (nothing but the property): the peer never completes a TLS handshake, so nothing it obtains is
// TLS-protected. A TLS endpoint must not answer the plaintext handshake (200/101); neither kind may establish
// a session (server.session hook) or serve a logical connection (the recording target accepts / receives the
// marker). Closing the connection, answering with an error or a TLS alert, or never answering are all fine.
//
// A control per carrier runs the same peer script WITHOUT the failing step against a plain endpoint without a
// certificate: it must get its logical connection served, otherwise the script is blind and the group is
// inconclusive.
//
// The cases of one endpoint run side by side (a stdio+tls endpoint that has given up on its peer says nothing
// and closes nothing: the peer is left waiting, which only the stall rule can establish; side by side this costs
// one stall window for all forms together). The server.session events of a group cannot be told apart; if a
// group shows an event and no case of it has reported anything, the cases are run again one at a time.

import (
	"bytes"
	"crypto/tls"
	"crypto/x509"
	"fmt"
	"io"
	"net"
	"strings"
	"sync"
	"time"

	"github.com/bokysan/socketace/v2/internal/client/upstream"
	"github.com/bokysan/socketace/v2/internal/util/addr"
	"github.com/bokysan/socketace/v2/internal/util/buffers"
	"github.com/bokysan/socketace/v2/internal/verifhook"
	"github.com/bokysan/socketace/v2/internal/version"
	"github.com/bokysan/socketace/v2/internal/zzverif/e2e"
	"github.com/bokysan/socketace/v2/internal/zzverif/vcommon"
	multistream "github.com/multiformats/go-multistream"
	"github.com/xtaci/smux"
)

var fForms = []string{
	"text-line",
	"plaintext-announcement-sent-twice",
	"binary-junk",
	"handshake-record-with-unparsable-client-hello",
	"fatal-alert-record",
	"client-hello-then-text",
	"tls-client-rejecting-the-certificate",
	"tls-client-without-the-required-certificate",
}

const (
	fEndpoint = "tls-endpoint"
	fStartTLS = "starttls-upgrade"
	fControl  = "control-without-failing-step"
)

// fGroups returns the work items of monitor F: one group per endpoint kind, run side by side.
func fGroups(rec *vcommon.Rec) [][]*caseDesc {
	var out [][]*caseDesc
	for _, ep := range []string{"stdio+tls", "tcp+tls", "unix+tls", "wss"} {
		var g []*caseDesc
		for _, f := range fForms {
			g = append(g, &caseDesc{Monitor: "F", Seed: rec.Seed(), Carrier: ep, Cert: "good", Where: fEndpoint, Form: f})
		}
		out = append(out, g)
	}
	for _, ca := range []string{"stdio", "tcp", "unix"} {
		g := []*caseDesc{{Monitor: "F", Seed: rec.Seed(), Carrier: ca, Cert: "none", Where: fControl}}
		for _, f := range fForms {
			g = append(g, &caseDesc{Monitor: "F", Seed: rec.Seed(), Carrier: ca, Cert: "good", Where: fStartTLS, Form: f})
		}
		out = append(out, g)
	}
	return out
}

// slowF: on the unchanged tree a stdio+tls endpoint leaves its peer waiting after a failed handshake (one stall window).
func slowF(g []*caseDesc) bool { return len(g) > 0 && g[0].Carrier == "stdio+tls" }

// ---- the peer's connection ----------------------------------------------------------------------

// peerConn keeps reading from the carrier (so that a server writing into a synchronous pipe is never blocked
// by the script), records everything that arrived, and hands it to whoever reads (the script, crypto/tls, smux).
type peerConn struct {
	raw   net.Conn
	mu    sync.Mutex
	cond  *sync.Cond
	all   []byte
	off   int
	ended bool
	why   string
}

func newPeerConn(raw net.Conn) *peerConn {
	p := &peerConn{raw: raw}
	p.cond = sync.NewCond(&p.mu)
	go func() {
		buf := make([]byte, 8192)
		for {
			n, err := raw.Read(buf)
			e2e.Bump(n)
			p.mu.Lock()
			p.all = append(p.all, buf[:n]...)
			if err != nil || len(p.all) > 8<<20 {
				p.ended = true
				if err != nil {
					p.why = err.Error()
				}
			}
			done := p.ended
			p.cond.Broadcast()
			p.mu.Unlock()
			if done {
				return
			}
		}
	}()
	return p
}

func (p *peerConn) Read(b []byte) (int, error) {
	p.mu.Lock()
	defer p.mu.Unlock()
	for p.off >= len(p.all) && !p.ended {
		p.cond.Wait()
	}
	if p.off < len(p.all) {
		n := copy(b, p.all[p.off:])
		p.off += n
		return n, nil
	}
	return 0, io.EOF
}

func (p *peerConn) Write(b []byte) (int, error) {
	n, err := p.raw.Write(b)
	e2e.Bump(n)
	return n, err
}
func (p *peerConn) Close() error                     { return p.raw.Close() }
func (p *peerConn) LocalAddr() net.Addr              { return &addr.StandardIOAddress{Address: "peer"} }
func (p *peerConn) RemoteAddr() net.Addr             { return &addr.StandardIOAddress{Address: "endpoint"} }
func (p *peerConn) SetDeadline(time.Time) error      { return nil }
func (p *peerConn) SetReadDeadline(time.Time) error  { return nil }
func (p *peerConn) SetWriteDeadline(time.Time) error { return nil }

func (p *peerConn) received() int {
	p.mu.Lock()
	defer p.mu.Unlock()
	return len(p.all)
}

func (p *peerConn) snapshot() ([]byte, bool, string) {
	p.mu.Lock()
	defer p.mu.Unlock()
	return append([]byte{}, p.all...), p.ended, p.why
}

// waitGrow blocks until more than from bytes have arrived or the carrier has ended.
func (p *peerConn) waitGrow(from int) bool {
	p.mu.Lock()
	defer p.mu.Unlock()
	for len(p.all) <= from && !p.ended {
		p.cond.Wait()
	}
	return len(p.all) > from
}

// waitEnd blocks until the carrier has ended.
func (p *peerConn) waitEnd() {
	p.mu.Lock()
	defer p.mu.Unlock()
	for !p.ended {
		p.cond.Wait()
	}
}

// waitBlocks blocks until n header blocks (terminated by an empty line) have arrived after position from, or
// the carrier has ended; what arrived after from is returned, and the next reader continues after the n-th block.
func (p *peerConn) waitBlocks(from, n int) ([]byte, bool) {
	p.mu.Lock()
	defer p.mu.Unlock()
	sep := []byte("\r\n\r\n")
	for {
		b := p.all[from:]
		pos, k := 0, 0
		for k < n {
			i := bytes.Index(b[pos:], sep)
			if i < 0 {
				break
			}
			pos += i + len(sep)
			k++
		}
		if k == n {
			if from+pos > p.off {
				p.off = from + pos
			}
			return append([]byte{}, b...), true
		}
		if p.ended {
			return append([]byte{}, b...), false
		}
		p.cond.Wait()
	}
}

// rwcConn is the peer's end of a standard input/output carrier.
type rwcConn struct {
	r io.ReadCloser
	w io.WriteCloser
}

func (c *rwcConn) Read(b []byte) (int, error)       { return c.r.Read(b) }
func (c *rwcConn) Write(b []byte) (int, error)      { return c.w.Write(b) }
func (c *rwcConn) Close() error                     { c.w.Close(); c.r.Close(); return nil }
func (c *rwcConn) LocalAddr() net.Addr              { return &addr.StandardIOAddress{Address: "peer"} }
func (c *rwcConn) RemoteAddr() net.Addr             { return &addr.StandardIOAddress{Address: "endpoint"} }
func (c *rwcConn) SetDeadline(time.Time) error      { return nil }
func (c *rwcConn) SetReadDeadline(time.Time) error  { return nil }
func (c *rwcConn) SetWriteDeadline(time.Time) error { return nil }

// helloCapture is the carrier a TLS client is run on in order to obtain a genuine ClientHello record.
type helloCapture struct {
	rwcConn
	buf bytes.Buffer
}

func (h *helloCapture) Read(b []byte) (int, error)  { return 0, io.EOF }
func (h *helloCapture) Write(b []byte) (int, error) { return h.buf.Write(b) }
func (h *helloCapture) Close() error                { return nil }

func genuineClientHello() []byte {
	h := &helloCapture{}
	tls.Client(h, &tls.Config{InsecureSkipVerify: true, ServerName: "localhost"}).Handshake()
	return h.buf.Bytes()
}

// ---- one case ------------------------------------------------------------------------------------

type fRun struct {
	c    *caseDesc
	key  string
	p    *e2e.Pair
	pc   *peerConn
	m    *marker
	pay  []byte
	rng  interface{ Intn(int) int }
	done <-chan struct{}

	mu            sync.Mutex
	steps         []string
	failDelivered bool // the failing step was written completely
	tlsCompleted  bool // a genuine TLS client reported a completed handshake (only the form without client certificate may)
	afterFail     int  // bytes received when the failing step was over
	offered       bool // starttls-upgrade: the 200 advertised StartTLS
	upgraded      bool // starttls-upgrade and control: the 101 arrived (before the failing step)
	got200        bool // tls-endpoint: the plaintext announcement written after the failing step was answered with 200
	got101        bool // tls-endpoint: an upgrade request written in clear after the failing step was answered with 101
	selected      bool // the multiplexer and the channel selection went through
	tgt           net.Conn
	served        bool
	tgtBytes      int
	markerAtTgt   bool
}

func (r *fRun) step(f string, a ...interface{}) {
	r.mu.Lock()
	r.steps = append(r.steps, fmt.Sprintf(f, a...))
	r.mu.Unlock()
	e2e.Bump(1)
}

func (r *fRun) write(what string, b []byte) bool {
	for len(b) > 0 {
		n := 4096
		if n > len(b) {
			n = len(b)
		}
		k, err := r.pc.Write(b[:n])
		if err != nil {
			r.step("%s: write failed after %d bytes: %s", what, k, e2e.Clip(err.Error(), 80))
			return false
		}
		b = b[k:]
	}
	r.step("%s: written", what)
	return true
}

func fAnnounce() []byte {
	return []byte("X-SOCKETACE / HTTP/1.1\r\nAccepts-Protocol-Version: " + version.ProtocolVersion + "\r\nUser-Agent: socketace/scripted\r\n\r\n")
}

func fUpgrade(startTLS bool) []byte {
	return []byte("GET / HTTP/1.1\r\nUser-Agent: socketace/scripted\r\nUpgrade: socketace/" + version.ProtocolVersion + "\r\nConnection: upgrade\r\n" +
		yn(startTLS, "Security: StartTLS\r\n", "") + "\r\n")
}

func (r *fRun) textLine() []byte {
	n := 12 + r.rng.Intn(48)
	b := make([]byte, n)
	for i := range b {
		b[i] = byte('A' + r.rng.Intn(26))
	}
	return append(b, '\r', '\n')
}

// failStep makes the server's TLS handshake fail (or, for a form that is not a TLS client, never begin).
func (r *fRun) failStep() {
	ok := false
	switch r.c.Form {
	case "text-line":
		ok = r.write("text line", r.textLine())
	case "plaintext-announcement-sent-twice":
		ok = r.write("announcement (first time)", fAnnounce())
	case "binary-junk":
		b := make([]byte, 5+r.rng.Intn(60))
		for i := range b {
			b[i] = byte(r.rng.Intn(256))
		}
		b[0] = byte(0x20 + r.rng.Intn(0x5f)) // neither a handshake nor an alert record
		ok = r.write("binary junk", b)
	case "handshake-record-with-unparsable-client-hello":
		body := []byte{0x03, 0x03}
		for i := 0; i < 32; i++ {
			body = append(body, byte(r.rng.Intn(256)))
		}
		body = append(body, 0xff) // a session id longer than the message
		for i := 0; i < 8+r.rng.Intn(40); i++ {
			body = append(body, byte(r.rng.Intn(256)))
		}
		msg := append([]byte{0x01, 0, byte(len(body) >> 8), byte(len(body))}, body...)
		recd := append([]byte{0x16, 0x03, 0x01, byte(len(msg) >> 8), byte(len(msg))}, msg...)
		ok = r.write("handshake record, unparsable ClientHello", recd)
	case "fatal-alert-record":
		ok = r.write("fatal alert record (handshake_failure)", []byte{0x15, 0x03, 0x03, 0x00, 0x02, 0x02, 0x28})
	case "client-hello-then-text":
		from := r.pc.received()
		if !r.write("genuine ClientHello", genuineClientHello()) {
			break
		}
		if r.pc.waitGrow(from) {
			r.step("the endpoint reacted to the ClientHello (%d bytes so far)", r.pc.received()-from)
		} else {
			r.step("the carrier ended after the ClientHello")
		}
		ok = r.write("text line in place of the rest of the handshake", r.textLine())
	case "tls-client-rejecting-the-certificate":
		err := tls.Client(r.pc, &tls.Config{RootCAs: x509.NewCertPool(), ServerName: "nobody.invalid"}).Handshake()
		if err == nil {
			r.mu.Lock()
			r.tlsCompleted = true
			r.mu.Unlock()
			r.step("TLS client: handshake completed although no certificate can be acceptable")
			break
		}
		r.step("TLS client gave up: %s", e2e.Clip(err.Error(), 100))
		ok = true
	case "tls-client-without-the-required-certificate":
		// TLS 1.3: the client has finished before the server looks at the (empty) certificate message
		err := tls.Client(r.pc, &tls.Config{InsecureSkipVerify: true}).Handshake()
		if err == nil {
			r.step("TLS client without a certificate: its own part of the handshake is over (the endpoint demands a certificate)")
		} else {
			r.step("TLS client without a certificate was refused: %s", e2e.Clip(err.Error(), 100))
		}
		ok = true
	}
	r.mu.Lock()
	r.failDelivered = ok
	r.afterFail = r.pc.received()
	r.mu.Unlock()
}

func (r *fRun) set(f func()) {
	r.mu.Lock()
	f()
	r.mu.Unlock()
}

// peer is the whole script.
func (r *fRun) peer() {
	c := r.c
	if c.Carrier == "wss" {
		r.peerWS()
		return
	}
	from := 0
	if c.Where == fEndpoint {
		r.failStep()
		if !r.failDelivered || r.tlsCompleted {
			return
		}
		from = r.afterFail
	}
	// the socketace handshake in clear, one step at a time
	if !r.write("announcement", fAnnounce()) {
		return
	}
	resp, ok := r.pc.waitBlocks(from, 1)
	is200 := ok && bytes.Contains(resp, []byte("HTTP/1.1 200"))
	r.step("announcement: answered=%v 200=%v", ok, is200)
	if !is200 {
		return
	}
	low := strings.ToLower(string(resp))
	r.set(func() {
		r.got200 = c.Where == fEndpoint
		r.offered = strings.Contains(low, "capabilities:") && strings.Contains(low, "starttls")
	})
	if c.Where == fStartTLS && !r.offered {
		return
	}
	if !r.write("upgrade request", fUpgrade(c.Where == fStartTLS)) {
		return
	}
	resp, ok = r.pc.waitBlocks(from, 2)
	is101 := ok && bytes.Contains(resp, []byte(" 101 "))
	r.step("upgrade request: answered=%v 101=%v", ok, is101)
	if !is101 {
		return
	}
	r.set(func() {
		r.got101 = c.Where == fEndpoint
		r.upgraded = c.Where != fEndpoint
	})
	if c.Where == fStartTLS {
		r.failStep()
		if !r.failDelivered || r.tlsCompleted {
			return
		}
	}
	r.multiplex(r.pc)
}

// multiplex opens the multiplexer, a logical connection to the channel, writes the marker payload and waits
// for the recording target to see it (or for the session to die).
func (r *fRun) multiplex(conn net.Conn) {
	cfg := smux.DefaultConfig()
	cfg.MaxFrameSize = buffers.BufferSize - 128
	sess, err := smux.Client(conn, cfg)
	if err != nil {
		r.step("multiplexer: %s", e2e.Clip(err.Error(), 80))
		return
	}
	defer sess.Close()
	st, err := sess.OpenStream()
	if err != nil {
		r.step("multiplexer, open: %s", e2e.Clip(err.Error(), 80))
		return
	}
	if err := multistream.SelectProtoOrFail("/echo", st); err != nil {
		r.step("channel selection: %s", e2e.Clip(err.Error(), 80))
		return
	}
	r.set(func() { r.selected = true })
	r.step("channel selected in clear")
	go writeAll(st, r.pay)
	gone := e2e.Go(func() {
		buf := make([]byte, 4096)
		for {
			n, err := st.Read(buf)
			e2e.Bump(n)
			if err != nil {
				return
			}
		}
	})
	tgt := r.p.Targets["echo"]
	var t net.Conn
	for t == nil {
		if t = tgt.TryNext(); t != nil {
			break
		}
		select {
		case <-gone:
			t = tgt.TryNext()
			if t == nil {
				r.step("the logical connection ended before the target saw it")
				return
			}
		default:
			time.Sleep(2 * time.Millisecond)
		}
	}
	r.set(func() { r.tgt, r.served = t, true })
	r.step("the target accepted a logical connection")
	var got []byte
	buf := make([]byte, 4096)
	for len(got) < len(r.pay) {
		n, err := t.Read(buf)
		e2e.Bump(n)
		got = append(got, buf[:n]...)
		if err != nil {
			break
		}
	}
	r.set(func() { r.tgtBytes, r.markerAtTgt = len(got), r.m.in(got) })
	r.step("the target received %d bytes", len(got))
}

// peerWS: an https endpoint. After the failing step the peer asks for the websocket upgrade in clear and, should
// that be answered, sends the socketace handshake and the payload in zero-masked binary frames.
func (r *fRun) peerWS() {
	r.failStep()
	if !r.failDelivered || r.tlsCompleted {
		return
	}
	host := hostOf(r.p.ServerURL)
	if !r.write("websocket upgrade request", []byte("GET /ws/all HTTP/1.1\r\nHost: "+host+"\r\nUpgrade: websocket\r\nConnection: Upgrade\r\n"+
		"Sec-WebSocket-Key: dGhlIHNhbXBsZSBub25jZQ==\r\nSec-WebSocket-Version: 13\r\n\r\n")) {
		return
	}
	resp, ok := r.pc.waitBlocks(r.afterFail, 1)
	is101 := ok && bytes.Contains(resp, []byte(" 101 "))
	r.step("websocket upgrade request: answered=%v 101=%v", ok, is101)
	if !is101 {
		return
	}
	r.set(func() { r.got101 = true })
	frame := func(b []byte) []byte {
		var out []byte
		for len(b) > 0 {
			n := len(b)
			if n > 16000 {
				n = 16000
			}
			out = append(out, 0x82, 0x80|126, byte(n>>8), byte(n), 0, 0, 0, 0)
			out = append(out, b[:n]...)
			b = b[n:]
		}
		return out
	}
	var msg []byte
	msg = append(msg, frame(fAnnounce())...)
	msg = append(msg, frame(fUpgrade(false))...)
	msg = append(msg, frame(r.pay)...)
	if !r.write("handshake and payload in websocket frames", msg) {
		return
	}
	r.pc.waitEnd()
}

// fStart starts the endpoint of a case and its peer.
func fStart(rec *vcommon.Rec, c *caseDesc) *fRun {
	rec.Mark(c)
	r := &fRun{c: c, key: c.key()}
	rng := vcommon.NewRand(c.Seed, "c04marker/"+r.key)
	mb := make([]byte, markerLen)
	rng.Read(mb)
	r.m = newMarker(mb)
	r.pay = r.m.payload(100)
	r.rng = rng

	opt := e2e.Options{Carrier: c.Carrier, NoClient: true, Tag: "f", RequireClient: c.Form == "tls-client-without-the-required-certificate"}
	if c.Cert == "none" {
		opt.NoServerCert = true
	} else {
		opt.ServerCert = certOf(c.Cert)
	}
	p, err := e2e.Start(opt)
	if err != nil {
		rec.Inconclusive("F: endpoint could not be started: "+e2e.Clip(err.Error(), 200), c)
		return nil
	}
	r.p = p
	host := hostOf(p.ServerURL)
	var raw net.Conn
	switch strings.Split(c.Carrier, "+")[0] {
	case "tcp", "wss":
		raw, err = net.Dial("tcp", host)
	case "unix":
		raw, err = net.Dial("unix", host)
	case "stdio":
		sio := p.Up.(*upstream.InputOutput)
		raw = &rwcConn{r: sio.Input, w: sio.Output}
	}
	if err != nil || raw == nil {
		p.Close()
		rec.Inconclusive(fmt.Sprintf("F: cannot dial the endpoint: %v", err), c)
		return nil
	}
	r.pc = newPeerConn(raw)
	r.done = e2e.Go(r.peer)
	return r
}

func fSig(c *caseDesc) string {
	if c.Where == fStartTLS {
		return "F:" + c.Carrier + "+starttls:after-failed-tls-handshake"
	}
	return "F:" + c.Carrier + ":after-failed-tls-handshake"
}

// fFinish judges one case. sess is the server's view of the sessions of this case (nil and attributable=false
// when the case ran side by side with others).
func fFinish(rec *vcommon.Rec, r *fRun, left string, sess []srvSession, attributable bool) int {
	c := r.c
	if t := r.p.Targets["echo"].TryNext(); t != nil {
		// a logical connection the script did not wait for (websocket endpoint)
		r.served = true
		t.Close()
	}
	all, ended, why := r.pc.snapshot()
	r.mu.Lock()
	defer r.mu.Unlock()
	after := all
	if r.afterFail <= len(all) {
		after = all[r.afterFail:]
	}
	obs := map[string]interface{}{
		"endpoint": r.p.ServerURL, "peer_steps": r.steps, "peer": left, "carrier_ended": ended, "carrier_end": why,
		"received_bytes": len(all), "received_after_the_failing_step": e2e.Clip(fmt.Sprintf("%q", after), 500),
		"answered_200_in_clear": r.got200, "answered_101_in_clear": r.got101, "channel_selected_in_clear": r.selected,
		"logical_connection_served": r.served, "target_received_bytes": r.tgtBytes, "marker_at_target": r.markerAtTgt,
	}
	if attributable {
		obs["server_sessions"] = sess
	} else {
		obs["server_sessions"] = "not attributable (the cases of this endpoint ran side by side)"
	}
	rec.Note("F: observed", obs)
	rec.Stat("F:cases", 1)
	rec.Stat("F:bytes_received_from_endpoints_inspected", int64(len(all)))
	cell := fmt.Sprintf("%s|cert=%s|%s|%s", c.Carrier, c.Cert, c.Where, c.Form)
	rec.Seen("F:cell(carrier,cert,where,failing step)", cell)

	if c.Where == fControl {
		// the script without the failing step must get through to the target, else it cannot see anything
		good := r.served && r.markerAtTgt
		rec.Case(r.key, good)
		rec.Seen("F:outcome", cell+" -> "+yn(good, "served, marker at the target (the script can see)", "NOT served"))
		if good {
			rec.Stat("F:control_ok:"+c.Carrier, 1)
		} else {
			rec.Inconclusive("F: the peer script without a failing step was not served by a plain "+c.Carrier+" endpoint: the script is blind ("+left+")", c)
		}
		return 0
	}
	if r.tlsCompleted {
		rec.Case(r.key, false)
		rec.Inconclusive("F: the failing step did not fail: a TLS client that trusts nobody completed its handshake", c)
		return 0
	}
	if c.Where == fStartTLS && !r.upgraded {
		rec.Case(r.key, false)
		rec.Inconclusive(fmt.Sprintf("F: the %s endpoint with a certificate did not offer/perform the StartTLS upgrade (offered=%v): the failing step was never reached", c.Carrier, r.offered), c)
		return 0
	}
	outcome := left
	if left == "script-finished" {
		outcome = yn(ended, "carrier-closed-by-the-endpoint", "answered-without-session")
	}
	if r.got200 || r.got101 || r.served {
		outcome = fmt.Sprintf("200=%v 101=%v served=%v", r.got200, r.got101, r.served)
	}
	rec.Case(r.key, r.failDelivered)
	rec.Seen("F:outcome", fmt.Sprintf("%s|%s|%s -> %s", c.Carrier, c.Where, c.Form, outcome))
	rec.Sample(map[string]interface{}{"monitor": "F", "cell": cell, "outcome": outcome})

	// ---- oracle: nothing this peer obtains is TLS-protected ----
	sig := fSig(c)
	v := 0
	if c.Where == fEndpoint && (r.got200 || r.got101) {
		rec.Violation(sig+":handshake-answered-in-plaintext", c, obs)
		v++
	}
	if attributable && len(sess) > 0 {
		rec.Violation(sig+":session-established-without-tls", c, obs)
		v++
	}
	if r.served || r.markerAtTgt {
		rec.Violation(sig+":logical-connection-served-in-plaintext", c, obs)
		v++
	}
	return v
}

// fRunGroup runs the cases side by side and returns the number of violations and of server.session events.
func fRunGroup(rec *vcommon.Rec, cases []*caseDesc) (viol, sessions int) {
	verifhook.Events()
	var runs []*fRun
	for _, c := range cases {
		if r := fStart(rec, c); r != nil {
			runs = append(runs, r)
		}
	}
	all := e2e.Go(func() {
		for _, r := range runs {
			<-r.done
		}
	})
	o := e2e.Wait(all)
	lefts := make([]string, len(runs))
	for i, r := range runs {
		select {
		case <-r.done:
			lefts[i] = "script-finished"
		default:
			lefts[i] = "left-waiting(" + o.String() + ")"
		}
	}
	sess := serverSessions()
	// release whatever still waits
	for _, r := range runs {
		r.pc.Close()
		r.mu.Lock()
		t := r.tgt
		r.mu.Unlock()
		if t != nil {
			t.Close()
		}
	}
	for _, r := range runs {
		r.p.Close()
	}
	for _, r := range runs {
		<-r.done
	}
	for i, r := range runs {
		viol += fFinish(rec, r, lefts[i], sess, len(runs) == 1)
	}
	return viol, len(sess)
}

// runF runs one work item: the controls one at a time, the others side by side.
func runF(rec *vcommon.Rec, g []*caseDesc) {
	verifhook.Events()
	verifhook.Record(true)
	defer verifhook.Record(false)
	var rest []*caseDesc
	for _, c := range g {
		if c.Where == fControl {
			fRunGroup(rec, []*caseDesc{c})
		} else {
			rest = append(rest, c)
		}
	}
	if len(rest) == 0 {
		return
	}
	viol, sessions := fRunGroup(rec, rest)
	if len(rest) > 1 {
		rec.Stat("F:server.session_events_in_groups", int64(sessions))
	}
	if len(rest) > 1 && sessions > 0 && viol == 0 {
		// some case of the group got a session and none of them noticed anything else: find out which
		rec.Note("F: a group produced server.session events that no case accounts for; its cases are run again one at a time", rest[0])
		for _, c := range rest {
			fRunGroup(rec, []*caseDesc{c})
		}
	}
}
