package c04

// Monitor E: the security requirement and the negotiated security level hold for every composition of
// the client's listener list. Monitors A-D always start the client with exactly one unix-socket
// listener, whose first logical connection arrives long after the client has finished starting. Here
// the real client command is started with 1..8 listeners of mixed kinds in every order: a standard
// input/output listener (which opens the upstream session by itself while the client is still starting)
// first, in the middle, last or alone, TCP listeners (numeric and by name) and unix-socket listeners,
// with applications that connect after the start-up or hammer the unix sockets from before it. Every
// listener carries a logical connection with the marker payload; all of them share the one physical
// session that goes through the recording relay. The oracle is monitor A's, unchanged.

import (
	"fmt"
	"io"
	"net"
	"os"
	"strings"
	"sync"
	"sync/atomic"
	"time"

	"github.com/bokysan/socketace/v2/internal/client/listener"
	"github.com/bokysan/socketace/v2/internal/client/upstream"
	clientCmd "github.com/bokysan/socketace/v2/internal/commands/client"
	"github.com/bokysan/socketace/v2/internal/streams"
	"github.com/bokysan/socketace/v2/internal/util/addr"
	"github.com/bokysan/socketace/v2/internal/util/cert"
	"github.com/bokysan/socketace/v2/internal/verifhook"
	"github.com/bokysan/socketace/v2/internal/zzverif/e2e"
	"github.com/bokysan/socketace/v2/internal/zzverif/vcommon"
)

// ioConn is the application's end of a standard input/output listener.
type ioConn struct {
	r *io.PipeReader
	w *io.PipeWriter
}

func (p *ioConn) Read(b []byte) (int, error)       { return p.r.Read(b) }
func (p *ioConn) Write(b []byte) (int, error)      { return p.w.Write(b) }
func (p *ioConn) Close() error                     { p.w.Close(); p.r.Close(); return nil }
func (p *ioConn) LocalAddr() net.Addr              { return &addr.StandardIOAddress{Address: "app"} }
func (p *ioConn) RemoteAddr() net.Addr             { return &addr.StandardIOAddress{Address: "app-peer"} }
func (p *ioConn) SetDeadline(time.Time) error      { return nil }
func (p *ioConn) SetReadDeadline(time.Time) error  { return nil }
func (p *ioConn) SetWriteDeadline(time.Time) error { return nil }

// lconn is one listener of the list with the logical connection the harness drives through it.
type lconn struct {
	kind, channel string
	network, at   string // socket listeners: where the application dials
	mu            sync.Mutex
	app           net.Conn
	ao            *appOutcome
	dialErr       string
	dialed        chan struct{}
	tgt           net.Conn
	gotC          int
}

func (l *lconn) start(app net.Conn, payC []byte) {
	l.mu.Lock()
	l.app = app
	l.mu.Unlock()
	go readApp(app, l.ao)
	go writeAll(app, payC)
}

func (l *lconn) appConn() net.Conn {
	l.mu.Lock()
	defer l.mu.Unlock()
	return l.app
}

var eSeq int64

// listenerShape names the class of a listener list for signatures and evidence.
func listenerShape(ls []string) string {
	pos, n := -1, 0
	for i, k := range ls {
		if k == "stdio" {
			pos = i
			n++
		}
	}
	switch {
	case n == 0:
		return "socket-listeners-only"
	case len(ls) == 1:
		return "stdio-listener-alone"
	case pos == len(ls)-1 && n == 1:
		return "stdio-listener-last"
	case pos == 0:
		return "stdio-listener-first"
	}
	return "stdio-listener-in-the-middle"
}

func eCases(rec *vcommon.Rec) []*caseDesc {
	carriers := []string{"tcp", "ws"}
	if rec.Thorough() {
		carriers = append(carriers, "unix")
	}
	rounds := rec.Pick(3, 8)
	var out []*caseDesc
	for _, ca := range carriers {
		for _, ce := range []string{"none", "good"} {
			for _, req := range []bool{true, false} {
				rng := vcommon.NewRand(rec.Seed(), fmt.Sprintf("c04/listeners/%s/%s/%v", ca, ce, req))
				sockets := func(n int, needUnix bool) []string {
					kinds := []string{"tcp", "unix", "tcp-localhost"}
					var l []string
					for i := 0; i < n; i++ {
						l = append(l, kinds[rng.Intn(len(kinds))])
					}
					if needUnix && n > 0 {
						l[rng.Intn(n)] = "unix"
					}
					return l
				}
				with := func(before, after int) []string {
					l := append(sockets(before, false), "stdio")
					return append(l, sockets(after, false)...)
				}
				lists := [][]string{
					{"stdio"},
					with(2, 0),
					with(0, 1), with(0, 3), with(0, 7),
					with(2, 2),
				}
				if rec.Thorough() {
					lists = append(lists, with(0, 2), with(0, 5), with(1, 1), with(1, 4), with(3, 3), with(5, 0), with(4, 1))
				}
				for _, l := range lists {
					out = append(out, &caseDesc{Monitor: "E", Seed: rec.Seed(), Carrier: ca, Cert: ce, Require: req, Insecure: rng.Intn(2) == 0,
						Listeners: l, Eager: len(l) > 1 && rng.Intn(3) == 0, Rounds: rounds})
				}
				// socket listeners only: once with applications that wait for the start-up, once with
				// applications that connect to the unix sockets the moment they exist
				out = append(out, &caseDesc{Monitor: "E", Seed: rec.Seed(), Carrier: ca, Cert: ce, Require: req, Insecure: rng.Intn(2) == 0,
					Listeners: sockets(3, false), Rounds: rounds})
				out = append(out, &caseDesc{Monitor: "E", Seed: rec.Seed(), Carrier: ca, Cert: ce, Require: req, Insecure: rng.Intn(2) == 0,
					Listeners: sockets(rec.Pick(6, 8), true), Eager: true, Rounds: rounds})
			}
		}
	}
	return out
}

func runE(rec *vcommon.Rec, c *caseDesc) {
	rec.Mark(c)
	rounds := c.Rounds
	if rounds <= 0 {
		rounds = 1
	}
	nontrivial, ran := false, 0
	for r := 0; r < rounds; r++ {
		var ok, nt, fired bool
		for attempt := 0; attempt < 8; attempt++ {
			var retry bool
			ok, nt, fired, retry = roundE(rec, c, r)
			if !retry {
				break
			}
		}
		if !ok {
			break
		}
		ran++
		nontrivial = nontrivial || nt
		if fired {
			break
		}
	}
	if ran == 0 {
		return
	}
	rec.Case(c.key(), nontrivial)
	rec.Stat("E:cases", 1)
	rec.Stat("E:client_starts", int64(ran))
}

// roundE is one fresh start of server, relay and client. ok=false: the round could not be run (reported
// as inconclusive); retry: a listener address was taken by somebody else, run the round again.
func roundE(rec *vcommon.Rec, c *caseDesc, round int) (ok, nontrivial, fired, retry bool) {
	key := c.key()
	shape := listenerShape(c.Listeners)
	sig := "E:" + c.Carrier + ":" + shape + yn(c.Eager, ":applications-connect-during-startup", "")
	pk := e2e.GetPKI()
	rng := vcommon.NewRand(c.Seed, fmt.Sprintf("c04marker/%s/%d", key, round))
	mb := make([]byte, 2*markerLen)
	rng.Read(mb)
	mC, mT := newMarker(mb[:markerLen]), newMarker(mb[markerLen:])
	n := rec.Pick(200, 1000)
	payC, payT := mC.payload(n), mT.payload(n)

	var chs []e2e.ChanSpec
	for i := range c.Listeners {
		chs = append(chs, e2e.ChanSpec{Name: fmt.Sprintf("l%d", i)})
	}
	opt := e2e.Options{Carrier: c.Carrier, WithRelay: true, NoClient: true, Channels: chs, StrictVerify: true, Tag: "e"}
	if c.Cert == "none" {
		opt.NoServerCert = true
	} else {
		opt.ServerCert = certOf(c.Cert)
	}
	offered := c.Cert != "none" && !alreadyEncrypted(c.Carrier)
	cell := fmt.Sprintf("%s|cert=%s|require=%v|insecure=%v|listeners=%s%s", c.Carrier, c.Cert, c.Require, c.Insecure, strings.Join(c.Listeners, ","),
		yn(c.Eager, "|applications-connect-during-startup", ""))

	verifhook.Events()
	verifhook.Record(true)
	defer verifhook.Record(false)
	p, err := e2e.Start(opt)
	if err != nil {
		rec.Inconclusive("E: fixture could not be started: "+e2e.Clip(err.Error(), 200), c)
		return
	}
	defer p.Close()

	// the listener list
	var ll listener.Listeners
	var lcs []*lconn
	var files []string
	var stop int32
	defer func() {
		atomic.StoreInt32(&stop, 1)
		for _, l := range lcs {
			if a := l.appConn(); a != nil {
				a.Close()
			}
			if l.tgt != nil {
				l.tgt.Close()
			}
		}
		for _, f := range files {
			os.Remove(f)
		}
	}()
	for i, kind := range c.Listeners {
		lc := &lconn{kind: kind, channel: chs[i].Name, ao: &appOutcome{}, dialed: make(chan struct{})}
		al := listener.AbstractListener{ProtoName: addr.ProtoName{Name: lc.channel}}
		switch kind {
		case "stdio":
			ar, aw := io.Pipe() // application -> listener
			lr, lw := io.Pipe() // listener -> application
			al.Address = addr.MustParseAddress("stdin://")
			sc := streams.NewSimulatedConnection(streams.NewReadWriteCloser(ar, lw),
				&addr.StandardIOAddress{Address: "client-input"}, &addr.StandardIOAddress{Address: "client-output"})
			ll = append(ll, &listener.InputOutputListener{AbstractListener: al, InputOutput: streams.NewNamedConnection(sc, "stdio")})
			// the application is there from the very beginning, as a process writing into a pipe is
			lc.start(&ioConn{r: lr, w: aw}, payC)
			close(lc.dialed)
		case "tcp", "tcp-localhost":
			host := "127.0.0.1"
			if kind == "tcp-localhost" {
				host = "localhost"
			}
			lc.network, lc.at = "tcp", fmt.Sprintf("%s:%d", host, e2e.FreePort(false))
			al.Address = addr.MustParseAddress("tcp://" + lc.at)
			ll = append(ll, &listener.SocketListener{AbstractListener: al})
		case "unix":
			lc.network, lc.at = "unix", fmt.Sprintf("e%d.sock", atomic.AddInt64(&eSeq, 1))
			os.Remove(lc.at)
			files = append(files, lc.at)
			al.Address = addr.MustParseAddress("unix://" + lc.at)
			ll = append(ll, &listener.SocketListener{AbstractListener: al})
		default:
			rec.Inconclusive("E: unknown listener kind "+kind, c)
			return
		}
		lcs = append(lcs, lc)
	}
	// applications that connect the moment the socket exists (unix sockets only: they live in this
	// process's private directory, a TCP port that is not bound yet could be somebody else's)
	if c.Eager {
		for _, lc := range lcs {
			if lc.kind != "unix" {
				continue
			}
			go func(lc *lconn) {
				defer close(lc.dialed)
				for atomic.LoadInt32(&stop) == 0 {
					conn, err := net.Dial(lc.network, lc.at)
					if err == nil {
						e2e.Bump(1)
						lc.start(conn, payC)
						return
					}
					time.Sleep(100 * time.Microsecond)
				}
			}(lc)
		}
	}

	cmd := &clientCmd.Command{
		ClientConfig: cert.ClientConfig{Config: cert.Config{CaCertificate: pk.CA1}, InsecureSkipVerify: c.Insecure},
		ListenList:   ll, Upstream: upstream.Upstreams{Data: []upstream.Upstream{p.Up}}, Secure: c.Require,
	}
	err = cmd.Startup(make(chan os.Signal, 1))
	defer cmd.Shutdown()
	if err != nil {
		if strings.Contains(err.Error(), "address already in use") || strings.Contains(err.Error(), "bind:") {
			retry = true
			return
		}
		rec.Inconclusive("E: client command did not start: "+e2e.Clip(err.Error(), 200), c)
		return
	}
	// the other applications connect now, in list order
	for _, lc := range lcs {
		if lc.kind == "stdio" || (c.Eager && lc.kind == "unix") {
			continue
		}
		conn, err := net.Dial(lc.network, lc.at)
		if err != nil {
			lc.dialErr = err.Error()
		} else {
			e2e.Bump(1)
			lc.start(conn, payC)
		}
		close(lc.dialed)
	}
	for _, lc := range lcs {
		if e2e.Wait(lc.dialed) != e2e.Done || lc.dialErr != "" || lc.appConn() == nil {
			rec.Inconclusive("E: cannot dial the client's "+lc.kind+" listener: "+lc.dialErr, c)
			return
		}
	}

	// every logical connection is either served (its target accepts) or refused (the application's
	// connection ends); nothing else can happen, and neither is decided by a clock
	var halt int32
	done := e2e.Go(func() {
		for atomic.LoadInt32(&halt) == 0 {
			open := 0
			for _, lc := range lcs {
				if lc.tgt != nil {
					continue
				}
				ended := lc.ao.isEnded()
				if t := p.Targets[lc.channel].TryNext(); t != nil {
					lc.tgt = t
				} else if !ended {
					open++
				}
			}
			if open == 0 {
				return
			}
			time.Sleep(2 * time.Millisecond)
		}
	})
	o := e2e.Wait(done)
	atomic.StoreInt32(&halt, 1)
	<-done
	served := 0
	var wg sync.WaitGroup
	for _, lc := range lcs {
		if lc.tgt == nil {
			continue
		}
		served++
		wg.Add(1)
		go func(lc *lconn) {
			defer wg.Done()
			wr := e2e.Go(func() { writeAll(lc.tgt, payT) })
			buf := make([]byte, 32768)
			for lc.gotC < len(payC) {
				k, err := lc.tgt.Read(buf)
				e2e.Bump(k)
				lc.gotC += k
				if err != nil {
					break
				}
			}
			<-wr
			for lc.ao.len() < len(payT) && !lc.ao.isEnded() {
				time.Sleep(2 * time.Millisecond)
			}
		}(lc)
	}
	transferOK := false
	if served > 0 {
		if e2e.Wait(e2e.Go(wg.Wait)) == e2e.Done {
			transferOK = true
			for _, lc := range lcs {
				if lc.tgt != nil && (lc.gotC < len(payC) || lc.ao.len() < len(payT)) {
					transferOK = false
				}
			}
		}
		if !transferOK {
			rec.Stat("E:transfer-incomplete(not judged here; C01)", 1)
		}
	}
	established := served > 0

	// what both ends report
	cc := clientCC(p.Up)
	sess := serverSessions()
	cliSecure, cliTech := false, "no-session"
	if cc != nil {
		cliSecure, cliTech = cc.Secure(), cc.SecurityTech()
	}
	var srv *srvSession
	if len(sess) > 0 {
		srv = &sess[len(sess)-1]
	}

	// the wire: every physical connection the relay has seen
	c2s, s2c, links := captureE(p, c.Carrier)
	clearC2S := c2s.has(mC) || c2s.has(mT)
	clearS2C := s2c.has(mC) || s2c.has(mT)
	clear := clearC2S || clearS2C
	rec.Stat("E:wire_bytes_searched:"+c.Carrier, int64(c2s.rawBytes+s2c.rawBytes))
	var perListener []string
	for _, lc := range lcs {
		perListener = append(perListener, fmt.Sprintf("%s/%s:%s", lc.channel, lc.kind, yn(lc.tgt != nil, "served", yn(lc.ao.isEnded(), "refused", "pending"))))
	}
	obs := map[string]interface{}{
		"client_start": round, "logical_connections": perListener, "served": served, "transfer_complete": transferOK,
		"client_secure": cliSecure, "client_tech": cliTech, "server_sessions": sess, "physical_connections_at_relay": links,
		"starttls_offered_by_configuration": offered, "marker_in_clear_c2s": clearC2S, "marker_in_clear_s2c": clearS2C,
		"wire_c2s_bytes": c2s.rawBytes, "wire_s2c_bytes": s2c.rawBytes, "wire_note": c2s.note + " / " + s2c.note,
	}
	rec.Seen("E:cell", cell)
	rec.Seen("E:listener-list-shape", shape+yn(c.Eager, "+applications-connect-during-startup", ""))
	rec.Seen("E:listener-list-length", fmt.Sprint(len(c.Listeners)))
	ok = true
	nontrivial = c2s.rawBytes > 0 || !established
	if o != e2e.Done {
		rec.Inconclusive("E: a logical connection was neither served nor refused ("+o.String()+")", c)
	}
	outcome := "no-session(refused)"
	if o != e2e.Done {
		outcome = "no-session(" + o.String() + ")"
	}
	if established {
		if srv == nil {
			rec.Inconclusive("E: session established but the server.session hook recorded nothing", c)
			return
		}
		if cc == nil {
			rec.Inconclusive("E: session established but the client's connection object is not reachable", c)
			return
		}
		outcome = fmt.Sprintf("session(client=%v/%s,server=%v/%s),served=%d/%d", cliSecure, cliTech, srv.Secure, srv.Tech, served, len(lcs))
		rec.Seen("E:sessions(client secure/tech, server secure/tech)", fmt.Sprintf("%v/%s|%v/%s", cliSecure, cliTech, srv.Secure, srv.Tech))
	}
	rec.Seen("E:outcome", fmt.Sprintf("%s|cert=%s|require=%v|%s -> %s", c.Carrier, c.Cert, c.Require, shape, strings.Split(outcome, ",served")[0]))
	if round == 0 {
		rec.Sample(map[string]interface{}{"monitor": "E", "cell": cell, "outcome": outcome, "wire_bytes": c2s.rawBytes + s2c.rawBytes, "marker_in_clear": clear})
	}

	// ---- oracle (monitor A's) -------------------------------------------------------------------
	viol := func(s string) {
		fired = true
		rec.Violation(s, c, obs)
	}
	if established {
		if cliSecure != srv.Secure {
			viol(sig + ":ends-disagree-on-secure")
		}
		anySecure := cliSecure || srv.Secure
		bothSecure := cliSecure && srv.Secure
		tlsOK := true
		if streamCarrier(c.Carrier) && (anySecure || c.Require || offered) {
			switch {
			case links != 1:
				rec.Stat("E:tls-record-structure-not-checked(several physical connections)", 1)
			case !c2s.parsed || !s2c.parsed:
				rec.Inconclusive("E: capture of "+c.Carrier+" could not be de-framed", c)
			default:
				ra, oka := tlsAfterHandshake(c2s, alreadyEncrypted(c.Carrier))
				rb, okb := tlsAfterHandshake(s2c, alreadyEncrypted(c.Carrier))
				tlsOK = oka && okb
				obs["tls_record_parse"] = fmt.Sprintf("c2s: %+v; s2c: %+v", ra, rb)
				if tlsOK {
					rec.Stat("E:tls_records_parsed", int64(ra.Records+rb.Records))
				}
			}
		}
		if c.Require {
			if !bothSecure {
				viol(sig + ":secure-required:session-established-without-tls")
			}
			if clear {
				viol(sig + ":secure-required:marker-in-clear-on-wire")
			} else if !tlsOK {
				viol(sig + ":secure-required:wire-not-tls-records")
			}
		} else if anySecure {
			if clear {
				viol(sig + ":reported-secure:marker-in-clear-on-wire")
			} else if !tlsOK {
				viol(sig + ":reported-secure:wire-not-tls-records")
			}
		}
		if offered && !c.Require && !bothSecure {
			viol(sig + ":starttls-offered:session-plaintext-but-established")
		}
		if !anySecure && transferOK {
			if clear {
				rec.Stat("E:observer_positive_control_ok:"+c.Carrier, 1)
			} else {
				rec.Inconclusive("E: observer is blind on "+c.Carrier+": a plaintext session moved the payload and the marker was not found in the capture", c)
			}
		}
		if anySecure && !clear && transferOK {
			rec.Stat("E:secure_sessions_with_payload_and_no_marker_on_wire:"+c.Carrier, 1)
			rec.Stat("E:logical_connections_over_secure_sessions", int64(served))
		}
	} else {
		if clearC2S {
			viol(sig + ":" + yn(c.Require, "secure-required", "no-session") + ":marker-left-client-though-connect-failed")
		}
		if c.Require {
			rec.Stat("E:required_and_refused:"+c.Carrier, 1)
		}
	}
	return
}

// captureE collects both directions of every physical connection the relay has seen (websocket
// carriers: raw and de-framed). The stream fields are filled when there was exactly one connection.
func captureE(p *e2e.Pair, carrier string) (c2s, s2c *wireView, n int) {
	c2s, s2c = &wireView{}, &wireView{}
	links := p.Relay.Links()
	n = len(links)
	fa, fb := 0, 0
	for _, l := range links {
		x, y := l.Captured()
		c2s.rawBytes += len(x)
		s2c.rawBytes += len(y)
		c2s.raw, s2c.raw = append(c2s.raw, x), append(s2c.raw, y)
		sx, sy, okx, oky := x, y, true, true
		if carrier == "ws" {
			var ka, kb int
			sx, ka, okx = wsDeframe(x)
			sy, kb, oky = wsDeframe(y)
			fa, fb = fa+ka, fb+kb
			c2s.raw, s2c.raw = append(c2s.raw, sx), append(s2c.raw, sy)
		}
		if n == 1 {
			c2s.stream, s2c.stream, c2s.parsed, s2c.parsed = sx, sy, okx, oky
		}
	}
	if carrier == "ws" {
		c2s.note, s2c.note = fmt.Sprintf("%d ws frames", fa), fmt.Sprintf("%d ws frames", fb)
	}
	return
}
