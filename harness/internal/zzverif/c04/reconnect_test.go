package c04

// Monitor D: the security level of an upstream survives the loss of its session. A client whose
// upstream is written with a TLS scheme establishes a session with the real TLS server through a
// switchable relay, moves data, the relay cuts the carrier and from then on hands new connections to a
// plaintext-speaking socketace peer (a man in the middle, or a server that came back without TLS). The
// client's next connection must start a TLS handshake again (and fail), never speak plaintext.

import (
	"bufio"
	"bytes"
	"fmt"
	"io"
	"net"
	"strings"
	"sync"
	"time"

	"github.com/bokysan/socketace/v2/internal/client/upstream"
	"github.com/bokysan/socketace/v2/internal/util/addr"
	"github.com/bokysan/socketace/v2/internal/util/cert"
	"github.com/bokysan/socketace/v2/internal/zzverif/e2e"
	"github.com/bokysan/socketace/v2/internal/zzverif/vcommon"
)

type switchRelay struct {
	ln      net.Listener
	mu      sync.Mutex
	backend string // "" = the plaintext peer handles the connection itself
	conns   []net.Conn
	plain   chan []byte // first bytes a client sent to the plaintext peer
	clear   bytes.Buffer
}

func newSwitchRelay(backend string) (*switchRelay, error) {
	ln, err := e2e.ListenTCP0()
	if err != nil {
		return nil, err
	}
	r := &switchRelay{ln: ln, backend: backend, plain: make(chan []byte, 16)}
	go r.loop()
	return r, nil
}

func (r *switchRelay) loop() {
	for {
		c, err := r.ln.Accept()
		if err != nil {
			return
		}
		r.mu.Lock()
		b := r.backend
		r.conns = append(r.conns, c)
		r.mu.Unlock()
		if b != "" {
			s, err := net.Dial("tcp", b)
			if err != nil {
				c.Close()
				continue
			}
			r.mu.Lock()
			r.conns = append(r.conns, s)
			r.mu.Unlock()
			go func() { io.Copy(s, c); s.Close() }()
			go func() { io.Copy(c, s); c.Close() }()
			continue
		}
		go r.plainPeer(c)
	}
}

// plainPeer speaks the socketace handshake in plaintext, offering nothing, and records everything it gets.
func (r *switchRelay) plainPeer(c net.Conn) {
	defer c.Close()
	c.SetDeadline(time.Now().Add(20 * time.Second))
	first := make([]byte, 16)
	n, _ := io.ReadAtLeast(c, first, 3)
	r.plain <- append([]byte{}, first[:n]...)
	e2e.Bump(1)
	if n < 3 || first[0] == 0x16 { // a TLS record: this peer cannot answer it
		return
	}
	br := bufio.NewReader(io.MultiReader(bytes.NewReader(first[:n]), c))
	readHead := func() bool {
		for {
			l, err := br.ReadString('\n')
			if err != nil {
				return false
			}
			r.mu.Lock()
			r.clear.WriteString(l)
			r.mu.Unlock()
			if strings.TrimSpace(l) == "" {
				return true
			}
		}
	}
	if !readHead() {
		return
	}
	fmt.Fprintf(c, "HTTP/1.1 200 OK\r\nProtocol-Version: v2.0.0\r\nServer: socketace/mitm\r\n\r\n")
	if !readHead() {
		return
	}
	fmt.Fprintf(c, "HTTP/1.1 101 Switching Protocols\r\nConnection: upgrade\r\nUpgrade: socketace/v2.0.0\r\nProtocol-Version: v2.0.0\r\n\r\n")
	buf := make([]byte, 32768)
	for {
		n, err := br.Read(buf)
		r.mu.Lock()
		r.clear.Write(buf[:n])
		r.mu.Unlock()
		if err != nil {
			return
		}
	}
}

func (r *switchRelay) cutAndSwitch() {
	r.mu.Lock()
	r.backend = ""
	cs := r.conns
	r.conns = nil
	r.mu.Unlock()
	for _, c := range cs {
		c.Close()
	}
}

func (r *switchRelay) Close() {
	r.ln.Close()
	r.mu.Lock()
	for _, c := range r.conns {
		c.Close()
	}
	r.mu.Unlock()
}

func dCases(rec *vcommon.Rec) []*caseDesc {
	var out []*caseDesc
	for _, car := range []string{"tcp+tls", "wss"} {
		for _, req := range []bool{false, true} {
			for _, ins := range []bool{false, true} {
				out = append(out, &caseDesc{Monitor: "D", Carrier: car, Cert: "good", Require: req, Insecure: ins, Seed: rec.Seed()*100 + int64(len(out))})
			}
		}
	}
	return out
}

func runD(rec *vcommon.Rec, c *caseDesc) {
	rec.Mark(c)
	sig := "D:" + c.Carrier + ":reconnect-after-loss"
	p, err := e2e.Start(e2e.Options{Carrier: c.Carrier, NoClient: true, Tag: "d"})
	if err != nil {
		rec.Inconclusive("setup: "+err.Error(), c)
		return
	}
	defer p.Close()
	srvHost := hostOf(p.ServerURL)
	rl, err := newSwitchRelay(srvHost)
	if err != nil {
		rec.Inconclusive("relay: "+err.Error(), c)
		return
	}
	defer rl.Close()
	var up upstream.Upstream
	if c.Carrier == "wss" {
		up = &upstream.Http{Address: addr.MustParseAddress("https://" + rl.ln.Addr().String() + "/ws/all")}
	} else {
		up = &upstream.Socket{Address: addr.MustParseAddress("tcp+tls://" + rl.ln.Addr().String())}
	}
	ccfg := cert.ClientConfig{InsecureSkipVerify: c.Insecure}
	ccfg.CaCertificate = e2e.GetPKI().CA1
	if err := p.C05AttachClient([]upstream.Upstream{up}, ccfg, c.Require); err != nil {
		rec.Inconclusive("client: "+err.Error(), c)
		return
	}
	marker := []byte(fmt.Sprintf("MARKER-%016x-%016x", uint64(c.Seed)*0x9e3779b97f4a7c15, uint64(c.Seed)*0xc2b2ae3d27d4eb4f))
	// 1. a first session over TLS
	app, tgt, o, err := p.Open("echo")
	if err != nil || o != e2e.Done {
		rec.Inconclusive(fmt.Sprintf("first session could not be established: %v %v", err, o), c)
		return
	}
	app.Write(marker)
	got := make([]byte, len(marker))
	rd := e2e.Go(func() { io.ReadFull(tgt, got) })
	if e2e.Wait(rd) != e2e.Done || !bytes.Equal(got, marker) {
		rec.Inconclusive("first session did not carry the payload", c)
		return
	}
	app.Close()
	tgt.Close()
	// 2. the carrier is cut; from now on a plaintext peer answers on the same address
	rl.cutAndSwitch()
	time.Sleep(300 * time.Millisecond) // scripted pause: lets the client notice the loss; the verdict does not depend on it
	// 3. new local connections: the client re-connects its upstream
	var first []byte
	for i := 0; i < 3 && first == nil; i++ {
		a2, err := p.Dial("echo")
		if err != nil {
			break
		}
		a2.Write(bytes.Repeat(marker, 20))
		select {
		case first = <-rl.plain:
		case <-time.After(e2e.StallWindow() / 4):
		}
		go func() { io.Copy(io.Discard, a2); a2.Close() }()
	}
	time.Sleep(200 * time.Millisecond)
	rl.mu.Lock()
	clear := append([]byte{}, rl.clear.Bytes()...)
	rl.mu.Unlock()
	rec.Case(c.key(), first != nil)
	rec.Seen("monitor_D_cells", fmt.Sprintf("%s|require=%v|insecure=%v", c.Carrier, c.Require, c.Insecure))
	if first == nil {
		rec.Stat("D:client_never_reconnected", 1) // nothing was sent to the plaintext peer: holds
		return
	}
	rec.Stat("D:reconnects_observed", 1)
	if first[0] == 0x16 {
		rec.Stat("D:reconnect_started_tls", 1)
		return
	}
	obs := map[string]interface{}{"first_bytes_to_plaintext_peer": string(first), "plaintext_received": e2e.Clip(string(clear), 400)}
	if bytes.Contains(clear, marker) {
		rec.Violation(sig+":payload-sent-in-clear", c, obs)
	} else {
		rec.Violation(sig+":plaintext-handshake-on-tls-upstream", c, obs)
	}
}
