package c04

// Monitor B: scripted misbehaving servers against the REAL client (upstream.Socket / upstream.Http
// inside a real client command with a listener). The scripted server speaks the socketace handshake
// (see internal/socketace/server.go) with one or two deviations per script, and then tries as hard
// as it can to get the client to talk to it in clear.

import (
	"bufio"
	"bytes"
	"crypto/tls"
	"fmt"
	"io"
	"net"
	"net/http"
	"os"
	"strings"
	"sync"
	"sync/atomic"
	"time"

	"github.com/bokysan/socketace/v2/internal/client/listener"
	"github.com/bokysan/socketace/v2/internal/client/upstream"
	clientCmd "github.com/bokysan/socketace/v2/internal/commands/client"
	"github.com/bokysan/socketace/v2/internal/streams"
	"github.com/bokysan/socketace/v2/internal/util/addr"
	"github.com/bokysan/socketace/v2/internal/util/buffers"
	"github.com/bokysan/socketace/v2/internal/util/cert"
	"github.com/bokysan/socketace/v2/internal/version"
	"github.com/bokysan/socketace/v2/internal/zzverif/e2e"
	"github.com/bokysan/socketace/v2/internal/zzverif/vcommon"
	"github.com/gorilla/websocket"
	multistream "github.com/multiformats/go-multistream"
	"github.com/xtaci/smux"
)

// script is one behaviour of the scripted server.
type script struct {
	Step1   string `json:"step1"`   // ok | close-before-read | close-after-read | garbage | status-<code>
	Version string `json:"version"` // ok | wrong | missing
	Caps    string `json:"caps"`    // how the Capabilities header looks
	Tail    string `json:"tail"`    // what happens from the upgrade request on
}

func (s *script) name() string {
	return "step1=" + s.Step1 + ",version=" + s.Version + ",capability=" + s.Caps + ",then=" + s.Tail
}

// capsHeader: the header line(s) of each capability class.
var capsHeader = map[string]string{
	"omitted":                "",
	"exact":                  "Capabilities: StartTLS\r\n",
	"lowercased":             "Capabilities: starttls\r\n",
	"uppercased":             "Capabilities: STARTTLS\r\n",
	"duplicated":             "Capabilities: StartTLS,StartTLS\r\n",
	"junk-before":            "Capabilities: X-Junk, StartTLS\r\n",
	"junk-after":             "Capabilities: StartTLS , X-Junk\r\n",
	"padded":                 "Capabilities:     StartTLS   \r\n",
	"header-name-lowercased": "capabilities: StartTLS\r\n",
	"two-lines-offer-first":  "Capabilities: StartTLS\r\nCapabilities: X-Junk\r\n",
	"two-lines-offer-second": "Capabilities: X-Junk\r\nCapabilities: StartTLS\r\n",
	"misspelled":             "Capabilities: StartTSL\r\n",
	"hyphenated":             "Capabilities: Start-TLS\r\n",
	"glued-junk":             "Capabilities: StartTLSX\r\n",
	"with-parameter":         "Capabilities: StartTLS;q=1\r\n",
	"junk-only":              "Capabilities: X-Junk\r\n",
	"empty":                  "Capabilities: \r\n",
}

var capsOrder = []string{"omitted", "exact", "lowercased", "uppercased", "duplicated", "junk-before", "junk-after", "padded",
	"header-name-lowercased", "two-lines-offer-first", "two-lines-offer-second", "misspelled", "hyphenated", "glued-junk",
	"with-parameter", "junk-only", "empty"}

// capsOffer classifies a capability class: "offered" = the header carries the token StartTLS as an
// element of its comma-separated list (compared without regard to case, as the real server compares
// the Security header); "ambiguous" = only under HTTP's rule that repeated header lines form one
// list; "not-offered" = anything else (a different token is a different capability).
func capsOffer(class string) string {
	switch class {
	case "exact", "lowercased", "uppercased", "duplicated", "junk-before", "junk-after", "padded", "header-name-lowercased", "two-lines-offer-first":
		return "offered"
	case "two-lines-offer-second":
		return "ambiguous"
	}
	return "not-offered"
}

var tails = []string{
	"honest",                        // 101; TLS with the good certificate if asked for, plain multiplexer otherwise
	"101-plain-mux",                 // 101; never TLS, plain multiplexer
	"101-swallow-hello-alert-plain", // 101; read the ClientHello, answer a fatal alert, then plain multiplexer
	"101-swallow-hello-mux-frame",   // 101; read the ClientHello, answer a multiplexer frame, then plain multiplexer
	"101-garbage",                   // 101; garbage, then plain multiplexer for whoever is still there
	"101-close",                     // 101; close
	"503-close",                     // Security accepted at step 1 but answered 503 (no certificate behind the capability)
	"503-plain-mux",                 // 503; and then a plain multiplexer for a client that ignores the status
	"200-plain-mux",                 // 200 instead of 101; plain multiplexer
	"403-plain-mux",                 // 403; plain multiplexer
	"close",                         // close instead of answering the upgrade request
	"garbage",                       // garbage instead of an answer
	"tls-untrusted",                 // 101; TLS with a certificate of a foreign CA; plain multiplexer if that fails
	"tls-wronghost",                 // 101; TLS with a certificate for another host; plain multiplexer if that fails
	"tls-expired",                   // 101; TLS with an expired certificate; plain multiplexer if that fails
	"tls-unasked",                   // 101; TLS with the good certificate whether asked for or not
	"101-bare",                      // 101 without Upgrade/Connection headers; then as honest
}

func scripts(thorough bool) []*script {
	var out []*script
	for _, c := range capsOrder {
		for _, t := range tails {
			out = append(out, &script{"ok", "ok", c, t})
		}
	}
	s1 := []string{"close-before-read", "close-after-read", "garbage", "status-101", "status-204", "status-301", "status-400", "status-401",
		"status-403", "status-404", "status-409", "status-426", "status-500", "status-502", "status-503"}
	for _, s := range s1 {
		for _, c := range []string{"omitted", "exact"} {
			out = append(out, &script{s, "ok", c, "honest"})
			if thorough {
				out = append(out, &script{s, "ok", c, "101-plain-mux"})
			}
		}
	}
	for _, v := range []string{"wrong", "missing"} {
		for _, c := range []string{"omitted", "exact"} {
			for _, t := range []string{"honest", "101-plain-mux", "101-swallow-hello-alert-plain"} {
				out = append(out, &script{"ok", v, c, t})
			}
		}
	}
	return out
}

// scriptSig is the part of a signature that names the script class: the exact capability class
// for the otherwise honest server, the offer category plus the tail for everything else.
func scriptSig(s *script) string {
	var p []string
	if s.Step1 != "ok" {
		p = append(p, "step1-"+s.Step1)
	}
	if s.Version != "ok" {
		p = append(p, "version-"+s.Version)
	}
	if s.Tail == "honest" {
		p = append(p, "capability-"+s.Caps)
	} else {
		// in a signature the ambiguous form counts as what the client makes of it: not offered
		p = append(p, "capability-"+yn(capsOffer(s.Caps) == "offered", "offered", "not-offered"), "then-"+s.Tail)
	}
	return strings.Join(p, "+")
}

// ---- the scripted server ------------------------------------------------------------------------

type srvResult struct {
	mu         sync.Mutex
	Accepted   int
	GotUpgrade bool
	Asked      bool // the upgrade request carried Security: StartTLS
	TLSDone    bool // a TLS handshake completed on the connection
	TLSErr     string
	Served     bool // a logical connection was negotiated and handed to the channel handler
	Payload    int  // bytes the channel handler received
	raw        []byte
	Trace      []string
	conns      []net.Conn
}

func (r *srvResult) trace(f string, a ...interface{}) {
	r.mu.Lock()
	if len(r.Trace) < 40 {
		r.Trace = append(r.Trace, fmt.Sprintf(f, a...))
	}
	r.mu.Unlock()
}

// recConn records every byte received from the client on the carrier.
type recConn struct {
	net.Conn
	res *srvResult
}

func (c *recConn) Read(b []byte) (int, error) {
	n, err := c.Conn.Read(b)
	if n > 0 {
		e2e.Bump(n)
		c.res.mu.Lock()
		if len(c.res.raw) < 4<<20 {
			c.res.raw = append(c.res.raw, b[:n]...)
		}
		c.res.mu.Unlock()
	}
	return n, err
}

// rdConn is a net.Conn whose reads come from r (a buffered or spliced reader over the same connection).
type rdConn struct {
	net.Conn
	r io.Reader
}

func (c *rdConn) Read(b []byte) (int, error) { return c.r.Read(b) }

// tapReader remembers what the TLS layer consumed, so that a failed handshake can be followed by
// a plaintext conversation without losing bytes.
type tapReader struct {
	r   io.Reader
	buf bytes.Buffer
}

func (t *tapReader) Read(b []byte) (int, error) {
	n, err := t.r.Read(b)
	t.buf.Write(b[:n])
	return n, err
}

type scriptedServer struct {
	transport string
	Addr      string
	ln        net.Listener
	hs        *http.Server
	mu        sync.Mutex
	cur       *script
	res       *srvResult
	expect    int
	wg        sync.WaitGroup
}

func newScriptedServer(transport string) (*scriptedServer, error) {
	s := &scriptedServer{transport: transport}
	ln, err := net.Listen("tcp", "127.0.0.1:0")
	if err != nil {
		return nil, err
	}
	s.ln, s.Addr = ln, ln.Addr().String()
	if transport == "ws" {
		up := websocket.Upgrader{}
		mux := http.NewServeMux()
		mux.HandleFunc("/ws/all", func(w http.ResponseWriter, r *http.Request) {
			c, err := up.Upgrade(w, r, nil)
			if err != nil {
				return
			}
			s.handle(streams.NewWebsocketTunnelConnection(c))
		})
		s.hs = &http.Server{Handler: mux}
		go s.hs.Serve(ln)
		return s, nil
	}
	go func() {
		for {
			c, err := ln.Accept()
			if err != nil {
				return
			}
			go s.handle(c)
		}
	}()
	return s, nil
}

func (s *scriptedServer) Close() {
	if s.hs != nil {
		s.hs.Close()
	}
	s.ln.Close()
}

// arm installs the script of the next case.
func (s *scriptedServer) arm(sc *script, expect int) *srvResult {
	s.mu.Lock()
	defer s.mu.Unlock()
	s.cur, s.res, s.expect = sc, &srvResult{}, expect
	return s.res
}

// finish lets every blocked read of the case return after what has already arrived was consumed.
func (s *scriptedServer) finish(res *srvResult) {
	res.mu.Lock()
	for _, c := range res.conns {
		c.SetReadDeadline(time.Now().Add(250 * time.Millisecond))
	}
	res.mu.Unlock()
}

func (s *scriptedServer) handle(c net.Conn) {
	s.mu.Lock()
	sc, res, expect := s.cur, s.res, s.expect
	s.mu.Unlock()
	if sc == nil || res == nil {
		c.Close()
		return
	}
	s.wg.Add(1)
	defer s.wg.Done()
	res.mu.Lock()
	res.Accepted++
	res.conns = append(res.conns, c)
	res.mu.Unlock()
	e2e.Bump(1)
	defer c.Close()
	runScript(c, sc, res, expect)
}

func readBlock(br *bufio.Reader) ([]string, bool) {
	var lines []string
	for {
		l, err := br.ReadString('\n')
		if err != nil {
			return lines, false
		}
		l = strings.TrimRight(l, "\r\n")
		if l == "" {
			return lines, true
		}
		lines = append(lines, l)
		if len(lines) > 100 {
			return lines, false
		}
	}
}

// garbage: neither a status line, nor a TLS record, nor a multiplexer frame; it ends with an empty
// line so that a reader of header blocks is not left waiting for the end of the line
var garbage = append(append([]byte{0xff, 0xfe, 0x00, 0x99}, bytes.Repeat([]byte{0xa5, 0x5a, 0x00, 0xff}, 15)...), "\r\n\r\n"...)

func statusText(code int) string {
	if t := http.StatusText(code); t != "" {
		return t
	}
	return "Status"
}

func tlsServerConfig(name string) *tls.Config {
	cp := certOf(name)
	kp, err := tls.X509KeyPair([]byte(cp.Cert), []byte(cp.Key))
	if err != nil {
		panic(err)
	}
	return &tls.Config{Certificates: []tls.Certificate{kp}}
}

func runScript(c net.Conn, sc *script, res *srvResult, expect int) {
	rc := &recConn{Conn: c, res: res}
	br := bufio.NewReaderSize(rc, 65536)
	bc := &rdConn{Conn: rc, r: br}

	// ---- step 1: the announcement --------------------------------------------------------------
	if sc.Step1 == "close-before-read" {
		res.trace("closed before reading")
		return
	}
	if _, ok := readBlock(br); !ok {
		res.trace("no announcement")
		return
	}
	switch {
	case sc.Step1 == "close-after-read":
		res.trace("closed after the announcement")
		return
	case sc.Step1 == "garbage":
		bc.Write(garbage)
		res.trace("garbage instead of the first answer")
	default:
		code := 200
		if strings.HasPrefix(sc.Step1, "status-") {
			fmt.Sscanf(sc.Step1, "status-%d", &code)
		}
		resp := fmt.Sprintf("HTTP/1.1 %d %s\r\nServer: socketace/scripted\r\n", code, statusText(code))
		resp += capsHeader[sc.Caps]
		switch sc.Version {
		case "ok":
			resp += "Protocol-Version: " + version.ProtocolVersion + "\r\n"
		case "wrong":
			resp += "Protocol-Version: v9.9.9\r\n"
		}
		resp += "\r\n"
		bc.Write([]byte(resp))
		res.trace("answered %d, capability %q", code, sc.Caps)
	}

	// ---- step 2: the upgrade request (a client that gave up never sends it) ------------------------
	lines, ok := readBlock(br)
	if !ok {
		res.trace("no upgrade request")
		return
	}
	asked := false
	for _, l := range lines {
		if i := strings.Index(l, ":"); i > 0 && strings.EqualFold(strings.TrimSpace(l[:i]), "Security") {
			asked = strings.EqualFold(strings.TrimSpace(l[i+1:]), "StartTLS")
		}
	}
	res.mu.Lock()
	res.GotUpgrade, res.Asked = true, asked
	res.mu.Unlock()
	res.trace("upgrade request, Security asked=%v", asked)

	full101 := "HTTP/1.1 101 Switching Protocols\r\nServer: socketace/scripted\r\nProtocol-Version: " + version.ProtocolVersion +
		"\r\nConnection: upgrade\r\nUpgrade: socketace/" + version.ProtocolVersion + "\r\n\r\n"
	status := func(code int) {
		bc.Write([]byte(fmt.Sprintf("HTTP/1.1 %d %s\r\nServer: socketace/scripted\r\nMessage: scripted\r\n\r\n", code, statusText(code))))
	}
	doTLS := func(certName string) bool {
		tap := &tapReader{r: br}
		tc := tls.Server(&rdConn{Conn: rc, r: tap}, tlsServerConfig(certName))
		if err := tc.Handshake(); err != nil {
			res.mu.Lock()
			res.TLSErr = e2e.Clip(err.Error(), 200)
			res.mu.Unlock()
			res.trace("TLS (%s) failed: %v", certName, e2e.Clip(err.Error(), 120))
			// whatever the TLS layer consumed is put back in front of the connection
			br = bufio.NewReaderSize(io.MultiReader(bytes.NewReader(append([]byte{}, tap.buf.Bytes()...)), br), 65536)
			bc = &rdConn{Conn: rc, r: br}
			return false
		}
		res.mu.Lock()
		res.TLSDone = true
		res.mu.Unlock()
		res.trace("TLS (%s) completed", certName)
		serveMux(tc, res, expect)
		return true
	}
	plain := func() {
		skipTLSRecords(br, res)
		serveMux(bc, res, expect)
	}
	swallowHello := func() bool {
		b, err := br.Peek(5)
		if err != nil || b[0] != 22 {
			return false
		}
		n := int(b[3])<<8 | int(b[4])
		if _, err := io.CopyN(io.Discard, br, int64(5+n)); err != nil {
			return false
		}
		res.trace("swallowed a %d-byte ClientHello record", n)
		return true
	}

	switch sc.Tail {
	case "honest", "101-bare":
		if sc.Tail == "101-bare" {
			bc.Write([]byte("HTTP/1.1 101 Switching Protocols\r\n\r\n"))
		} else {
			bc.Write([]byte(full101))
		}
		if asked {
			doTLS("good") // an honest server ends the connection when TLS fails
			return
		}
		plain()
	case "101-plain-mux":
		bc.Write([]byte(full101))
		serveMux(bc, res, expect)
	case "101-swallow-hello-alert-plain":
		bc.Write([]byte(full101))
		if asked && swallowHello() {
			bc.Write([]byte{21, 3, 3, 0, 2, 2, 40}) // fatal alert: handshake_failure
		}
		plain()
	case "101-swallow-hello-mux-frame":
		bc.Write([]byte(full101))
		if asked && swallowHello() {
			bc.Write([]byte{1, 3, 0, 0, 0, 0, 0, 0}) // a multiplexer NOP frame where the ServerHello should be
		}
		plain()
	case "101-garbage":
		bc.Write([]byte(full101))
		bc.Write(garbage)
		plain()
	case "101-close":
		bc.Write([]byte(full101))
	case "503-close":
		status(503)
	case "503-plain-mux":
		status(503)
		plain()
	case "200-plain-mux":
		status(200)
		plain()
	case "403-plain-mux":
		status(403)
		plain()
	case "close":
	case "garbage":
		bc.Write(garbage)
		plain()
	case "tls-untrusted", "tls-wronghost", "tls-expired":
		bc.Write([]byte(full101))
		if asked {
			if !doTLS(strings.TrimPrefix(sc.Tail, "tls-")) {
				plain()
			}
			return
		}
		plain()
	case "tls-unasked":
		bc.Write([]byte(full101))
		if !doTLS("good") {
			plain()
		}
	}
}

// skipTLSRecords drops TLS records (a ClientHello, alerts) standing in front of whatever a client
// that was talked out of TLS says next. Multiplexer frames start with the version byte 1.
func skipTLSRecords(br *bufio.Reader, res *srvResult) {
	for i := 0; i < 8; i++ {
		b, err := br.Peek(5)
		if err != nil || b[0] < 20 || b[0] > 23 || b[1] != 3 || b[2] > 4 {
			return
		}
		n := int(b[3])<<8 | int(b[4])
		if _, err := io.CopyN(io.Discard, br, int64(5+n)); err != nil {
			return
		}
		res.trace("skipped a TLS record of type %d", b[0])
	}
}

// serveMux is the server side of the logical-connection layer: multiplexer session, protocol
// selection, and a channel handler that receives the payload.
func serveMux(rwc io.ReadWriteCloser, res *srvResult, expect int) {
	cfg := smux.DefaultConfig()
	cfg.MaxFrameSize = buffers.BufferSize - 128
	sess, err := smux.Server(rwc, cfg)
	if err != nil {
		return
	}
	defer sess.Close()
	var wg sync.WaitGroup
	defer wg.Wait()
	for {
		st, err := sess.AcceptStream()
		if err != nil {
			res.trace("multiplexer ended: %v", e2e.Clip(err.Error(), 80))
			return
		}
		wg.Add(1)
		go func(st *smux.Stream) {
			defer wg.Done()
			defer st.Close()
			br := bufio.NewReader(st)
			if _, err := br.Peek(1); err != nil { // never speak before the client does (as the real server)
				return
			}
			m := multistream.NewMultistreamMuxer()
			m.AddHandler("/echo", func(proto string, ch io.ReadWriteCloser) error {
				res.mu.Lock()
				res.Served = true
				res.mu.Unlock()
				e2e.Bump(1)
				buf := make([]byte, 8192)
				got := 0
				for got < expect {
					n, err := ch.Read(buf)
					got += n
					e2e.Bump(n)
					res.mu.Lock()
					res.Payload += n
					res.mu.Unlock()
					if err != nil {
						break
					}
				}
				ch.Write([]byte("ACK"))
				return nil
			})
			m.Handle(&stRW{st, br})
		}(st)
	}
}

type stRW struct {
	*smux.Stream
	r *bufio.Reader
}

func (s *stRW) Read(b []byte) (int, error) { return s.r.Read(b) }

// ---- the real client ------------------------------------------------------------------------------

var clientSeq int64

// startClient starts a real client command with one upstream and a unix-socket listener for channel "echo".
func startClient(up upstream.Upstream, require, insecure bool) (*clientCmd.Command, string, error) {
	pk := e2e.GetPKI()
	sock := fmt.Sprintf("b%d.sock", atomic.AddInt64(&clientSeq, 1))
	os.Remove(sock)
	ll := listener.Listeners{&listener.SocketListener{AbstractListener: listener.AbstractListener{
		ProtoName: addr.ProtoName{Name: "echo"}, Address: addr.MustParseAddress("unix://" + sock)}}}
	cmd := &clientCmd.Command{
		ClientConfig: cert.ClientConfig{Config: cert.Config{CaCertificate: pk.CA1}, InsecureSkipVerify: insecure},
		ListenList:   ll, Upstream: upstream.Upstreams{Data: []upstream.Upstream{up}}, Secure: require,
	}
	if err := cmd.Startup(make(chan os.Signal, 1)); err != nil {
		return nil, "", err
	}
	return cmd, sock, nil
}

var (
	srvMu   sync.Mutex
	servers = map[string]*scriptedServer{}
)

func serverFor(transport string) (*scriptedServer, error) {
	srvMu.Lock()
	defer srvMu.Unlock()
	if s := servers[transport]; s != nil {
		return s, nil
	}
	s, err := newScriptedServer(transport)
	if err == nil {
		servers[transport] = s
	}
	return s, err
}

func runB(rec *vcommon.Rec, c *caseDesc) {
	rec.Mark(c)
	key := c.key()
	sc := c.Script
	srv, err := serverFor(c.Transport)
	if err != nil {
		rec.Inconclusive("B: scripted server cannot listen: "+err.Error(), c)
		return
	}
	rng := vcommon.NewRand(c.Seed, "c04marker/"+key)
	mb := make([]byte, markerLen)
	rng.Read(mb)
	m := newMarker(mb)
	pay := m.payload(100)
	res := srv.arm(sc, len(pay))

	var up upstream.Upstream
	if c.Transport == "ws" {
		up = &upstream.Http{Address: addr.MustParseAddress("http://" + srv.Addr + "/ws/all")}
	} else {
		up = &upstream.Socket{Address: addr.MustParseAddress("tcp://" + srv.Addr)}
	}
	cmd, sock, err := startClient(up, c.Require, c.Insecure)
	if err != nil {
		rec.Inconclusive("B: client command did not start: "+err.Error(), c)
		return
	}
	app, err := net.Dial("unix", sock)
	if err != nil {
		cmd.Shutdown()
		rec.Inconclusive("B: cannot dial the client's listener: "+err.Error(), c)
		return
	}
	ao := &appOutcome{}
	rd := e2e.Go(func() { readApp(app, ao) })
	go writeAll(app, pay)
	o := e2e.Wait(rd)

	// what the client itself believes, before it is shut down
	cc := clientCC(up)
	cliHeld, cliSecure, cliTech := cc != nil, false, ""
	if cc != nil {
		cliSecure, cliTech = cc.Secure(), cc.SecurityTech()
	}
	app.Close()
	cmd.Shutdown()
	os.Remove(sock)
	srv.finish(res)
	hd := e2e.Go(srv.wg.Wait)
	if e2e.Wait(hd) != e2e.Done {
		rec.Inconclusive("B: scripted server did not come to an end", c)
		return
	}
	if o != e2e.Done {
		// the scripted server always answers or closes; a client that neither serves nor refuses
		// the application is a liveness matter (C16), what it put on the wire is still judged
		rec.Inconclusive("B: application connection neither served nor refused ("+o.String()+")", c)
	}

	res.mu.Lock()
	raw := append([]byte{}, res.raw...)
	obs := map[string]interface{}{
		"connections_accepted": res.Accepted, "upgrade_request_seen": res.GotUpgrade, "client_asked_for_starttls": res.Asked,
		"tls_handshake_completed": res.TLSDone, "tls_error": res.TLSErr, "logical_connection_served": res.Served,
		"payload_bytes_received_by_channel_handler": res.Payload, "bytes_received_on_carrier": len(raw), "server_trace": append([]string{}, res.Trace...),
		"client_holds_session": cliHeld, "client_reports_secure": cliSecure, "client_reports_tech": cliTech, "app_read_error": ao.readErr,
	}
	served, tlsDone, asked, accepted := res.Served, res.TLSDone, res.Asked, res.Accepted
	res.mu.Unlock()
	clear := m.in(raw)
	obs["marker_in_clear_on_carrier"] = clear
	offer := capsOffer(sc.Caps)

	rec.Case(key, accepted > 0)
	rec.Stat("B:cases", 1)
	rec.Stat("B:carrier_bytes_searched", int64(len(raw)))
	rec.Seen("B:script", c.Transport+"|"+sc.name())
	rec.Seen("B:script-class", scriptSig(sc))
	out := "refused"
	switch {
	case served && tlsDone:
		out = "served-over-tls"
	case served:
		out = "served-in-plaintext"
	case tlsDone:
		out = "tls-done-not-served"
	}
	rec.Seen("B:outcome(transport,require,offer,asked,outcome)", fmt.Sprintf("%s|require=%v|%s|asked=%v|%s", c.Transport, c.Require, offer, asked, out))
	rec.Stat("B:outcome:"+out, 1)
	if c.Require && !served {
		rec.Stat("B:required_and_refused", 1)
	}
	if c.Require && served && tlsDone {
		rec.Stat("B:required_and_served_over_tls", 1)
	}

	sig := "B:" + c.Transport + ":" + scriptSig(sc)
	if c.Require {
		if clear {
			rec.Violation(sig+":secure-required:payload-sent-in-clear", c, obs)
		}
		if served && !tlsDone && !clear {
			rec.Violation(sig+":secure-required:session-served-without-tls", c, obs)
		}
	} else {
		// Interpretation (DESIGN.md C04): the statement quantifies over what servers advertise or answer.
		// A server that advertised StartTLS must never be sent payload in clear by the real client,
		// whatever the server does next; a server that advertised nothing (or a different token) may.
		if offer == "offered" && clear {
			rec.Violation(sig+":starttls-advertised:payload-sent-in-clear", c, obs)
		}
		if offer == "ambiguous" && clear {
			rec.Seen("B:observation", "capability only on a second Capabilities header line: the client does not see the offer and continues in plaintext (not judged: the real server never sends two lines)")
			rec.Stat("B:observation:second-header-line-offer-ignored", 1)
		}
		if offer == "not-offered" && clear {
			rec.Stat("B:plaintext_allowed(nothing offered, nothing required)", 1)
		}
	}
	if cliHeld && cliSecure && !tlsDone && !clear {
		rec.Violation(sig+":client-reports-secure-without-tls", c, obs)
	}
}

func bCases(rec *vcommon.Rec) []*caseDesc {
	var out []*caseDesc
	all := scripts(rec.Thorough())
	for _, tr := range []string{"tcp", "ws"} {
		for i, sc := range all {
			for _, req := range []bool{true, false} {
				for _, ins := range []bool{false, true} {
					if tr == "ws" && !rec.Thorough() {
						// quick: the websocket transport runs every script once per require flag, alternating the insecure flag
						if ins != ((i+int(rec.Seed()))%2 == 0) {
							continue
						}
					}
					out = append(out, &caseDesc{Monitor: "B", Seed: rec.Seed(), Transport: tr, Script: sc, Require: req, Insecure: ins})
				}
			}
		}
	}
	return out
}
