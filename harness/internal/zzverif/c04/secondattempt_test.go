package c04

// Monitor G: a second attempt never loses the security of the first.
//
// In monitors A-F the first physical connection of a TLS-scheme upstream either works or the upstream is given
// up; monitor D loses an ESTABLISHED session. Nobody fails, resets or redirects the FIRST attempt. Here the real
// client command gets one upstream written with a TLS scheme (tcp+tls, unix+tls, https, wss) that points at a
// scripted hostile peer. The peer spoils the first K physical connections in one of several ways and, from
// then on, is a perfectly willing PLAINTEXT socketace endpoint on the same address (it tells a ClientHello from
// plaintext by the first byte), or it answers the websocket request inside genuine TLS with a redirect (or an
// error status) whose target is a plaintext socketace endpoint (same port, another port, http:// or ws://
// spelling, scheme-relative). The application keeps connecting to the client's listener (K+3 times), each time
// writing the marker payload.
//
// First attempts on the TLS level: closed at once, reset at once, closed / reset after the ClientHello, a
// truncated ServerHello and close, a fatal alert and close, the plaintext 400 of a plain socketace server and
// close. On the HTTP level (inside TLS, certificate the client can verify): 301/302/303/307/308 with the four
// Location forms, and 503.
//
// Oracle: the peer never performs a TLS handshake on a connection it serves socketace on, so whatever session
// the client obtains is plaintext: the marker must not reach the peer in clear (raw bytes of every connection
// and, for websocket, the unmasked tunnel payload), no logical connection may be served, the client must hold
// no session afterwards (and in particular none it calls secure). Refusing the application every time is the
// only correct outcome. Control per transport: the same peer with K=0 and the upstream written with the PLAIN
// scheme must be served and must see the marker (else the peer is blind: inconclusive).

import (
	"bufio"
	"bytes"
	"crypto/tls"
	"fmt"
	"io"
	"net"
	"net/http"
	"os"
	"strings"
	"sync"
	"sync/atomic"

	"github.com/bokysan/socketace/v2/internal/client/upstream"
	"github.com/bokysan/socketace/v2/internal/streams"
	"github.com/bokysan/socketace/v2/internal/util/addr"
	"github.com/bokysan/socketace/v2/internal/zzverif/e2e"
	"github.com/bokysan/socketace/v2/internal/zzverif/vcommon"
	"github.com/gorilla/websocket"
)

const gControl = "none(control)"

var gTLSLevel = []string{
	"closed-at-once",
	"reset-at-once",
	"closed-after-the-client-hello",
	"reset-after-the-client-hello",
	"truncated-server-hello-then-closed",
	"fatal-alert-then-closed",
	"plaintext-400-then-closed",
}

var gHTTPLevel = []string{
	"redirect-to-absolute-http-url-on-another-port",
	"redirect-to-absolute-http-url-on-the-same-port",
	"redirect-to-absolute-ws-url-on-another-port",
	"redirect-to-scheme-relative-url-on-another-port",
	"status-503",
}

var gRedirectCodes = []int{301, 302, 303, 307, 308}

func gIsTLSLevel(first string) bool {
	for _, f := range gTLSLevel {
		if f == first {
			return true
		}
	}
	return false
}

func gCases(rec *vcommon.Rec) []*caseDesc {
	var out []*caseDesc
	seed := int(rec.Seed() & 0xffff)
	add := func(carrier, upsch, first string, k, status int, req, ins bool) {
		out = append(out, &caseDesc{Monitor: "G", Seed: rec.Seed(), Carrier: carrier, UpSch: upsch, First: first, FirstN: k, Status: status, Require: req, Insecure: ins})
	}
	for _, ca := range []string{"tcp", "unix", "ws"} {
		add(ca, "", gControl, 0, 0, false, false)
	}
	i := 0
	for _, ca := range []string{"tcp+tls", "unix+tls"} {
		for _, f := range gTLSLevel {
			if ca == "unix+tls" && strings.HasPrefix(f, "reset-") {
				continue // a unix socket cannot be reset: same as closed
			}
			for _, req := range []bool{true, false} {
				i++ // one step per (carrier, first attempt, require)
				for _, ins := range []bool{false, true} {
					if rec.Thorough() {
						for k := 1; k <= 3; k++ {
							add(ca, "", f, k, 0, req, ins)
						}
						continue
					}
					if ins != ((i+seed)%2 == 0) {
						continue // quick: the insecure flag alternates
					}
					add(ca, "", f, 1, 0, req, ins)
					if (i+seed)%3 == 0 {
						add(ca, "", f, 2, 0, req, ins)
					}
				}
			}
		}
	}
	for _, sp := range []string{"https", "wss"} {
		firsts := append([]string{"closed-at-once", "reset-at-once", "closed-after-the-client-hello"}, gHTTPLevel...)
		for _, f := range firsts {
			for _, req := range []bool{true, false} {
				i++
				for _, ins := range []bool{false, true} {
					codes := []int{0}
					if strings.HasPrefix(f, "redirect-") {
						codes = gRedirectCodes
						if !rec.Thorough() {
							codes = []int{gRedirectCodes[(i+seed)%len(gRedirectCodes)]}
						}
					}
					if !rec.Thorough() && ins != ((i+seed)%2 == 0) {
						continue
					}
					for _, code := range codes {
						add("wss", sp, f, 1, code, req, ins)
					}
				}
			}
		}
	}
	return out
}

// ---- the scripted peer ---------------------------------------------------------------------------

// chanListener feeds connections that were accepted (and looked at) elsewhere to an http.Server.
type chanListener struct {
	ch     chan net.Conn
	closed chan struct{}
	once   sync.Once
	a      net.Addr
}

func newChanListener(a net.Addr) *chanListener {
	return &chanListener{ch: make(chan net.Conn, 64), closed: make(chan struct{}), a: a}
}
func (l *chanListener) Accept() (net.Conn, error) {
	select {
	case c := <-l.ch:
		return c, nil
	case <-l.closed:
		return nil, net.ErrClosed
	}
}
func (l *chanListener) Close() error   { l.once.Do(func() { close(l.closed) }); return nil }
func (l *chanListener) Addr() net.Addr { return l.a }

// recListener records what arrives on every connection it accepts.
type recListener struct {
	net.Listener
	g *gPeer
}

func (l *recListener) Accept() (net.Conn, error) {
	c, err := l.Listener.Accept()
	if err != nil {
		return nil, err
	}
	l.g.track(c)
	l.g.mu.Lock()
	l.g.otherPort++
	l.g.mu.Unlock()
	e2e.Bump(1)
	return &recConn{Conn: c, res: l.g.res}, nil
}

// clearTap records what the plaintext socketace service receives (for websocket: the unmasked tunnel payload).
type clearTap struct {
	r io.Reader
	g *gPeer
}

func (t *clearTap) Read(b []byte) (int, error) {
	n, err := t.r.Read(b)
	if n > 0 {
		e2e.Bump(n)
		t.g.mu.Lock()
		if t.g.clear.Len() < 4<<20 {
			t.g.clear.Write(b[:n])
		}
		t.g.mu.Unlock()
	}
	return n, err
}

type gPeer struct {
	c         *caseDesc
	http      bool
	ln        net.Listener
	plainLn   net.Listener
	Addr      string
	PlainAddr string
	res       *srvResult
	expect    int
	tlsFront  *chanListener
	plainFrnt *chanListener
	servers   []*http.Server
	wg        sync.WaitGroup

	mu         sync.Mutex
	n          int      // physical connections accepted on the upstream's address
	otherPort  int      // physical connections accepted on the redirect target's port
	spoiled    int      // connections that got the first-attempt treatment on the TLS level
	answered   int      // websocket requests answered inside TLS with the redirect / the status
	heads      []string // how every connection on the upstream's address began
	plainConns int      // connections that began in clear
	announced  int      // plaintext socketace announcements received
	clear      bytes.Buffer
	conns      []net.Conn
}

var gSeq int64

func newGPeer(c *caseDesc, expect int) (*gPeer, error) {
	g := &gPeer{c: c, expect: expect, res: &srvResult{}, http: c.Carrier == "wss" || c.Carrier == "ws"}
	var err error
	if strings.HasPrefix(c.Carrier, "unix") {
		name := fmt.Sprintf("g%d.sock", atomic.AddInt64(&gSeq, 1))
		os.Remove(name)
		g.ln, err = net.Listen("unix", name)
		g.Addr = name
	} else {
		g.ln, err = e2e.ListenTCP0()
		if err == nil {
			g.Addr = g.ln.Addr().String()
		}
	}
	if err != nil {
		return nil, err
	}
	if g.http {
		pl, err := e2e.ListenTCP0()
		if err != nil {
			g.ln.Close()
			return nil, err
		}
		g.plainLn, g.PlainAddr = pl, pl.Addr().String()
		g.tlsFront, g.plainFrnt = newChanListener(g.ln.Addr()), newChanListener(g.ln.Addr())
		plain := &http.Server{Handler: http.HandlerFunc(g.servePlainHTTP)}
		other := &http.Server{Handler: http.HandlerFunc(g.servePlainHTTP)}
		inTLS := &http.Server{Handler: http.HandlerFunc(g.serveInsideTLS)}
		g.servers = []*http.Server{plain, other, inTLS}
		go plain.Serve(g.plainFrnt)
		go other.Serve(&recListener{Listener: pl, g: g})
		go inTLS.Serve(tls.NewListener(g.tlsFront, tlsServerConfig("good")))
	}
	go func() {
		for {
			conn, err := g.ln.Accept()
			if err != nil {
				return
			}
			g.track(conn)
			g.mu.Lock()
			idx := g.n
			g.n++
			g.heads = append(g.heads, "?")
			g.mu.Unlock()
			g.res.mu.Lock()
			g.res.Accepted++
			g.res.mu.Unlock()
			e2e.Bump(1)
			g.wg.Add(1)
			go func() {
				defer g.wg.Done()
				g.front(conn, idx)
			}()
		}
	}()
	return g, nil
}

func (g *gPeer) track(c net.Conn) {
	g.mu.Lock()
	g.conns = append(g.conns, c)
	g.mu.Unlock()
}

func (g *gPeer) head(idx int, h string) {
	g.mu.Lock()
	g.heads[idx] = h
	g.mu.Unlock()
}

func (g *gPeer) Close() {
	g.ln.Close()
	if g.plainLn != nil {
		g.plainLn.Close()
	}
	if g.tlsFront != nil {
		g.tlsFront.Close()
		g.plainFrnt.Close()
	}
	for _, s := range g.servers {
		s.Close()
	}
	g.mu.Lock()
	cs := g.conns
	g.mu.Unlock()
	for _, c := range cs {
		c.Close()
	}
	if strings.HasPrefix(g.c.Carrier, "unix") {
		os.Remove(g.Addr)
	}
}

func reset(c net.Conn) {
	if t, ok := c.(*net.TCPConn); ok {
		t.SetLinger(0)
	}
	c.Close()
}

// front handles one physical connection on the upstream's address.
func (g *gPeer) front(c net.Conn, idx int) {
	rc := &recConn{Conn: c, res: g.res}
	first := g.c.First
	if gIsTLSLevel(first) && idx < g.c.FirstN {
		g.mu.Lock()
		g.spoiled++
		g.mu.Unlock()
		g.head(idx, "spoiled:"+first)
		g.spoil(c, rc, first)
		return
	}
	br := bufio.NewReader(rc)
	b, err := br.Peek(1)
	if err != nil {
		g.head(idx, "closed-by-the-client-unread")
		c.Close()
		return
	}
	conn := &rdConn{Conn: c, r: br}
	if b[0] == 0x16 {
		g.head(idx, "tls-client-hello")
		if g.http && !gIsTLSLevel(first) && first != gControl {
			g.tlsFront.ch <- conn // genuine TLS; the request inside is answered with the redirect / the status
			return
		}
		g.res.trace("connection %d begins with a ClientHello: a plaintext endpoint cannot answer it, closed", idx)
		c.Close()
		return
	}
	g.head(idx, "plaintext")
	g.mu.Lock()
	g.plainConns++
	g.mu.Unlock()
	if g.http {
		g.plainFrnt.ch <- conn
		return
	}
	g.plainSocketace(conn, fmt.Sprintf("connection %d", idx))
	c.Close()
}

// spoil is the first-attempt treatment on the TLS level.
func (g *gPeer) spoil(c net.Conn, rc net.Conn, first string) {
	readHello := func() {
		buf := make([]byte, 4096)
		n, _ := rc.Read(buf)
		g.res.trace("first attempt: %d bytes read before %s", n, first)
	}
	switch first {
	case "closed-at-once":
		c.Close()
	case "reset-at-once":
		reset(c)
	case "closed-after-the-client-hello":
		readHello()
		c.Close()
	case "reset-after-the-client-hello":
		readHello()
		reset(c)
	case "truncated-server-hello-then-closed":
		readHello()
		c.Write([]byte{0x16, 0x03, 0x03, 0x00, 0x50, 0x02, 0x00, 0x00, 0x4c, 0x03, 0x03, 1, 2, 3, 4, 5, 6, 7, 8, 9, 10})
		c.Close()
	case "fatal-alert-then-closed":
		readHello()
		c.Write([]byte{0x15, 0x03, 0x03, 0x00, 0x02, 0x02, 0x28})
		c.Close()
	case "plaintext-400-then-closed":
		readHello()
		c.Write([]byte("HTTP/1.1 400 Bad Request\r\nServer: socketace/hostile\r\nMessage: Failed parsing request\r\n\r\n"))
		c.Close()
	default:
		c.Close()
	}
}

// plainSocketace is the willing plaintext endpoint: handshake offering nothing, multiplexer, channel handler.
func (g *gPeer) plainSocketace(conn net.Conn, what string) {
	br := bufio.NewReader(&clearTap{r: conn, g: g})
	lines, ok := readBlock(br)
	if !ok || len(lines) == 0 || !strings.HasPrefix(lines[0], "X-SOCKETACE") {
		g.res.trace("%s: no socketace announcement in clear (%d lines)", what, len(lines))
		return
	}
	g.mu.Lock()
	g.announced++
	g.mu.Unlock()
	g.res.trace("%s: socketace announcement received in clear", what)
	fmt.Fprintf(conn, "HTTP/1.1 200 OK\r\nProtocol-Version: v2.0.0\r\nServer: socketace/hostile\r\n\r\n")
	lines, ok = readBlock(br)
	if !ok {
		return
	}
	asked := false
	for _, l := range lines {
		if strings.Contains(strings.ToLower(l), "security: starttls") {
			asked = true
		}
	}
	g.res.mu.Lock()
	g.res.GotUpgrade, g.res.Asked = true, asked
	g.res.mu.Unlock()
	fmt.Fprintf(conn, "HTTP/1.1 101 Switching Protocols\r\nConnection: upgrade\r\nUpgrade: socketace/v2.0.0\r\nProtocol-Version: v2.0.0\r\n\r\n")
	serveMux(&rdConn{Conn: conn, r: br}, g.res, g.expect)
}

var gUpgrader = websocket.Upgrader{CheckOrigin: func(*http.Request) bool { return true }}

// servePlainHTTP: plain http on the upstream's port or on the redirect target's port.
func (g *gPeer) servePlainHTTP(w http.ResponseWriter, r *http.Request) {
	g.wg.Add(1)
	defer g.wg.Done()
	g.res.trace("websocket request in clear: %s %s", r.Host, r.URL.Path)
	c, err := gUpgrader.Upgrade(w, r, nil)
	if err != nil {
		return
	}
	g.track(c.UnderlyingConn())
	t := streams.NewWebsocketTunnelConnection(c)
	g.plainSocketace(t, "websocket tunnel")
	t.Close()
}

// serveInsideTLS: the answer to whatever is asked inside genuine TLS on the upstream's port.
func (g *gPeer) serveInsideTLS(w http.ResponseWriter, r *http.Request) {
	g.mu.Lock()
	g.answered++
	g.mu.Unlock()
	e2e.Bump(1)
	loc := ""
	switch g.c.First {
	case "redirect-to-absolute-http-url-on-another-port":
		loc = "http://" + g.PlainAddr + "/ws/all"
	case "redirect-to-absolute-http-url-on-the-same-port":
		loc = "http://" + g.Addr + "/ws/all"
	case "redirect-to-absolute-ws-url-on-another-port":
		loc = "ws://" + g.PlainAddr + "/ws/all"
	case "redirect-to-scheme-relative-url-on-another-port":
		loc = "//" + g.PlainAddr + "/ws/all"
	}
	if loc != "" {
		w.Header().Set("Location", loc)
		w.WriteHeader(g.c.Status)
		g.res.trace("inside TLS: %d Location: %s", g.c.Status, loc)
		return
	}
	w.WriteHeader(http.StatusServiceUnavailable)
	g.res.trace("inside TLS: 503")
}

// ---- one case ------------------------------------------------------------------------------------

func runG(rec *vcommon.Rec, c *caseDesc) {
	rec.Mark(c)
	key := c.key()
	rng := vcommon.NewRand(c.Seed, "c04marker/"+key)
	mb := make([]byte, markerLen)
	rng.Read(mb)
	m := newMarker(mb)
	pay := m.payload(100)
	control := c.First == gControl

	g, err := newGPeer(c, len(pay))
	if err != nil {
		rec.Inconclusive("G: scripted peer cannot listen: "+err.Error(), c)
		return
	}
	var up upstream.Upstream
	kind := c.Carrier
	switch c.Carrier {
	case "tcp", "tcp+tls", "unix", "unix+tls":
		up = &upstream.Socket{Address: addr.MustParseAddress(c.Carrier + "://" + g.Addr)}
	case "ws":
		up = &upstream.Http{Address: addr.MustParseAddress("http://" + g.Addr + "/ws/all")}
	case "wss":
		kind = c.UpSch
		up = &upstream.Http{Address: addr.MustParseAddress(c.UpSch + "://" + g.Addr + "/ws/all")}
	}
	cmd, sock, err := startClient(up, c.Require, c.Insecure)
	if err != nil {
		g.Close()
		rec.Inconclusive("G: client command did not start: "+err.Error(), c)
		return
	}
	attempts, refused, appGot := c.FirstN+3, 0, 0
	if control {
		attempts = 1
	}
	var appErrs []string
	stalled := ""
	for i := 0; i < attempts; i++ {
		app, err := net.Dial("unix", sock)
		if err != nil {
			appErrs = append(appErrs, "dial: "+e2e.Clip(err.Error(), 60))
			break
		}
		ao := &appOutcome{}
		rd := e2e.Go(func() { readApp(app, ao) })
		go writeAll(app, pay)
		o := e2e.Wait(rd)
		app.Close()
		if o != e2e.Done {
			stalled = o.String()
			<-rd
			break
		}
		appErrs = append(appErrs, fmt.Sprintf("attempt %d: %d bytes, %s", i+1, ao.len(), ao.readErr))
		if ao.len() > 0 {
			appGot += ao.len()
		} else {
			refused++
		}
		g.res.mu.Lock()
		served := g.res.Served
		g.res.mu.Unlock()
		if served {
			break // nothing more to learn
		}
	}
	cc := clientCC(up)
	cliHeld, cliSecure, cliTech := cc != nil, false, ""
	if cc != nil {
		cliSecure, cliTech = cc.Secure(), cc.SecurityTech()
	}
	cmd.Shutdown()
	os.Remove(sock)
	g.Close()
	if e2e.Wait(e2e.Go(g.wg.Wait)) != e2e.Done {
		rec.Inconclusive("G: scripted peer did not come to an end", c)
		return
	}
	if stalled != "" {
		// every first attempt of the peer ends by closing; a client that neither serves nor refuses the
		// application is a liveness matter (C16); what reached the peer is still judged
		rec.Inconclusive("G: application connection neither served nor refused ("+stalled+")", c)
	}

	g.res.mu.Lock()
	raw := append([]byte{}, g.res.raw...)
	served, payload, accepted, asked := g.res.Served, g.res.Payload, g.res.Accepted, g.res.Asked
	trace := append([]string{}, g.res.Trace...)
	g.res.mu.Unlock()
	g.mu.Lock()
	clearBytes := append([]byte{}, g.clear.Bytes()...)
	heads := append([]string{}, g.heads...)
	spoiled, answered, plainConns, announced, other := g.spoiled, g.answered, g.plainConns, g.announced, g.otherPort
	g.mu.Unlock()
	clear := m.in(raw) || m.in(clearBytes)
	obs := map[string]interface{}{
		"upstream": fmt.Sprintf("%v", up), "connections_on_the_upstream_address": accepted, "how_each_began": heads, "connections_on_the_redirect_target": other,
		"first_attempts_spoiled_on_tls_level": spoiled, "requests_answered_inside_tls": answered, "connections_begun_in_clear": plainConns,
		"plaintext_announcements_received": announced, "client_asked_for_starttls": asked, "logical_connection_served": served,
		"payload_bytes_received_by_channel_handler": payload, "marker_in_clear": clear, "bytes_received_raw": len(raw), "bytes_received_by_plaintext_service": len(clearBytes),
		"peer_trace": trace, "application": appErrs, "application_refused": refused, "application_received_bytes": appGot,
		"client_holds_session": cliHeld, "client_reports_secure": cliSecure, "client_reports_tech": cliTech,
	}
	rec.Note("G: observed", obs)
	rec.Stat("G:cases", 1)
	rec.Stat("G:bytes_searched", int64(len(raw)+len(clearBytes)))
	cell := fmt.Sprintf("%s|%s|k=%d|status=%d|require=%v|insecure=%v", kind, c.First, c.FirstN, c.Status, c.Require, c.Insecure)
	rec.Seen("G:cell", cell)

	if control {
		good := served && clear && cliHeld
		rec.Case(key, good)
		if good {
			rec.Stat("G:control_ok:"+c.Carrier, 1)
			rec.Seen("G:outcome", cell+" -> served in plaintext, marker seen by the peer (the peer can see)")
		} else {
			rec.Inconclusive(fmt.Sprintf("G: the willing plaintext peer did not serve a plain %s upstream (served=%v marker=%v): the peer is blind", c.Carrier, served, clear), c)
		}
		return
	}
	exercised := spoiled > 0 || answered > 0
	rec.Case(key, exercised)
	out := fmt.Sprintf("refused %d/%d", refused, attempts)
	if served || cliHeld || clear {
		out = fmt.Sprintf("served=%v held=%v(secure=%v) marker-in-clear=%v", served, cliHeld, cliSecure, clear)
	}
	rec.Seen("G:outcome(kind,first,outcome)", fmt.Sprintf("%s|%s -> %s", kind, c.First, out))
	rec.Seen("G:how-connections-began", kind+"|"+c.First+"|"+strings.Join(heads, ","))
	rec.Sample(map[string]interface{}{"monitor": "G", "cell": cell, "outcome": out, "connections": heads})
	if !exercised {
		rec.Inconclusive("G: the client never made the first attempt the peer was going to spoil", c)
		return
	}
	if c.Require && !served && !cliHeld {
		rec.Stat("G:required_and_refused", 1)
	}

	// one class for all the ways of cutting the first attempt short on the TLS level; the redirect forms stay apart
	class := c.First
	if gIsTLSLevel(class) {
		class = "first-attempt-cut-short-on-tls-level"
	}
	sig := "G:" + kind + ":" + class + yn(c.Require, ":secure-required", "")
	if clear {
		rec.Violation(sig+":payload-sent-in-clear", c, obs)
	}
	if served && !clear {
		rec.Violation(sig+":session-served-without-tls", c, obs)
	}
	if cliHeld && cliSecure {
		rec.Violation(sig+":client-reports-secure-without-tls", c, obs)
	} else if cliHeld && !clear && !served {
		rec.Violation(sig+":plaintext-session-on-tls-upstream", c, obs)
	}
}
