package c04

// Monitor C: an endpoint configured for TLS (tcp+tls, unix+tls, https, stdio+tls) never completes a
// plaintext session: neither with a scripted plaintext client nor with the real client configured
// with the plain scheme of the same carrier.

import (
	"bytes"
	"fmt"
	"io"
	"net"
	"os"
	"strings"
	"time"

	"github.com/bokysan/socketace/v2/internal/client/upstream"
	"github.com/bokysan/socketace/v2/internal/util/addr"
	"github.com/bokysan/socketace/v2/internal/verifhook"
	"github.com/bokysan/socketace/v2/internal/version"
	"github.com/bokysan/socketace/v2/internal/zzverif/e2e"
	"github.com/bokysan/socketace/v2/internal/zzverif/vcommon"
)

func cCases(rec *vcommon.Rec) []*caseDesc {
	var out []*caseDesc
	for _, ep := range []string{"tcp+tls", "unix+tls", "wss", "stdio+tls"} {
		out = append(out, &caseDesc{Monitor: "C", Seed: rec.Seed(), Carrier: ep, Cert: "good", Peer: "scripted-plaintext-client"})
		for _, req := range []bool{false, true} {
			out = append(out, &caseDesc{Monitor: "C", Seed: rec.Seed(), Carrier: ep, Cert: "good", Peer: "real-client-plain-scheme", Require: req})
		}
	}
	// observation only (DESIGN.md C04, interpretation): a hand-written client that ignores the StartTLS offer of the real server
	out = append(out, &caseDesc{Monitor: "C", Seed: rec.Seed(), Carrier: "tcp", Cert: "good", Peer: "scripted-client-ignoring-starttls-offer"})
	// the same endpoints with a scheme that asks for TLS and NO key pair (the fixture leaves only the CA in the
	// configuration): each kind either refuses to start or binds and never completes anything. Where it
	// starts, every plaintext peer is left waiting on the unchanged tree (one stall window each, see slowC).
	for _, ep := range []string{"tcp+tls", "unix+tls", "wss", "stdio+tls"} {
		out = append(out, &caseDesc{Monitor: "C", Seed: rec.Seed(), Carrier: ep, Cert: "none", Peer: "scripted-plaintext-client"})
		if ep == "wss" || rec.Thorough() {
			for _, req := range []bool{false, true} {
				out = append(out, &caseDesc{Monitor: "C", Seed: rec.Seed(), Carrier: ep, Cert: "none", Peer: "real-client-plain-scheme", Require: req})
			}
		}
	}
	return out
}

// slowC: cases of monitor C whose endpoint starts without a key pair; held means "the peer waits forever".
func slowC(c *caseDesc) bool {
	return c.Monitor == "C" && c.Cert == "none" && (c.Carrier == "wss" || c.Carrier == "stdio+tls")
}

func hostOf(url string) string { return url[strings.Index(url, "://")+3:] }

func runC(rec *vcommon.Rec, c *caseDesc) {
	rec.Mark(c)
	key := c.key()
	sig := "C:" + c.Carrier + yn(c.Cert == "none", "(no-key-pair)", "") + ":" + c.Peer
	rng := vcommon.NewRand(c.Seed, "c04marker/"+key)
	mb := make([]byte, markerLen)
	rng.Read(mb)
	m := newMarker(mb)
	pay := m.payload(100)

	verifhook.Events()
	verifhook.Record(true)
	defer verifhook.Record(false)
	if c.Peer == "scripted-client-ignoring-starttls-offer" {
		observeIgnoredOffer(rec, c)
		return
	}
	p, err := e2e.Start(e2e.Options{Carrier: c.Carrier, NoClient: true, Tag: "c", NoServerCert: c.Cert == "none"})
	if err != nil {
		if c.Cert == "none" && !strings.Contains(err.Error(), "address already in use") && !strings.Contains(err.Error(), "bind:") {
			// an endpoint configured for TLS that has no key pair refuses to start: no session of any kind
			rec.Case(key, true)
			rec.Stat("C:cases", 1)
			rec.Seen("C:cell(endpoint,peer,require)", fmt.Sprintf("%s|cert=%s|%s|require=%v", c.Carrier, c.Cert, c.Peer, c.Require))
			rec.Seen("C:outcome", fmt.Sprintf("%s|cert=none -> tls-endpoint-without-key-pair-refuses-to-start (%s)", c.Carrier, e2e.Clip(err.Error(), 120)))
			return
		}
		rec.Inconclusive("C: endpoint could not be started: "+e2e.Clip(err.Error(), 200), c)
		return
	}
	defer p.Close()
	host := hostOf(p.ServerURL)
	obs := map[string]interface{}{"endpoint": p.ServerURL}
	answered, served, cliSecure := false, false, false
	left := "answered-or-closed"

	switch c.Peer {
	case "scripted-plaintext-client":
		refused := false
		announce := "X-SOCKETACE / HTTP/1.1\r\nAccepts-Protocol-Version: " + version.ProtocolVersion + "\r\nUser-Agent: socketace/scripted\r\n\r\n"
		upgrade := "GET / HTTP/1.1\r\nUser-Agent: socketace/scripted\r\nUpgrade: socketace/" + version.ProtocolVersion + "\r\nConnection: upgrade\r\n\r\n"
		var rd io.Reader
		var wr io.Writer
		var closer io.Closer
		switch c.Carrier {
		case "tcp+tls", "wss":
			conn, err := net.Dial("tcp", host)
			if err != nil && c.Cert == "none" && strings.Contains(err.Error(), "connection refused") {
				// an endpoint without a key pair that started may have given up its port: nothing is served
				refused = true
				break
			}
			if err != nil {
				rec.Inconclusive("C: cannot dial the endpoint: "+err.Error(), c)
				return
			}
			rd, wr, closer = conn, conn, conn
		case "unix+tls":
			conn, err := net.Dial("unix", host)
			if err != nil {
				rec.Inconclusive("C: cannot dial the endpoint: "+err.Error(), c)
				return
			}
			rd, wr, closer = conn, conn, conn
		case "stdio+tls":
			sio := p.Up.(*upstream.InputOutput)
			rd, wr, closer = sio.Input, sio.Output, sio.Output
		}
		// a websocket endpoint is first asked for the websocket upgrade; what follows waits for the answer
		// to that request (the upgrader refuses a client that sends data before the upgrade is answered) and
		// travels in binary frames with an all-zero masking key, so that it stays readable on the wire
		var first, msg []byte
		frame := func(b []byte) []byte {
			if c.Carrier != "wss" {
				return b
			}
			var out []byte
			for len(b) > 0 {
				n := len(b)
				if n > 16000 {
					n = 16000
				}
				out = append(out, 0x82, 0x80|126, byte(n>>8), byte(n), 0, 0, 0, 0)
				out = append(out, b[:n]...)
				b = b[n:]
			}
			return out
		}
		if c.Carrier == "wss" {
			first = []byte("GET /ws/all HTTP/1.1\r\nHost: " + host + "\r\nUpgrade: websocket\r\nConnection: Upgrade\r\n" +
				"Sec-WebSocket-Key: dGhlIHNhbXBsZSBub25jZQ==\r\nSec-WebSocket-Version: 13\r\n\r\n")
		}
		msg = append(msg, frame([]byte(announce))...)
		msg = append(msg, frame([]byte(upgrade))...)
		msg = append(msg, frame(pay)...)
		if refused {
			left = "connection-refused"
			break
		}
		headSeen := make(chan struct{})
		go func() {
			if len(first) > 0 {
				writeAll(wr, first)
				<-headSeen
			}
			writeAll(wr, msg)
		}()
		var resp bytes.Buffer
		done := e2e.Go(func() {
			defer func() {
				select {
				case <-headSeen:
				default:
					close(headSeen)
				}
			}()
			buf := make([]byte, 4096)
			head := false
			for {
				n, err := rd.Read(buf)
				e2e.Bump(n)
				resp.Write(buf[:n])
				if !head && bytes.Contains(resp.Bytes(), []byte("\r\n\r\n")) {
					head = true
					close(headSeen)
				}
				if err != nil || resp.Len() > 1<<16 {
					return
				}
			}
		})
		o := e2e.Wait(done)
		closer.Close()
		if o != e2e.Done {
			// the endpoint neither answered nor closed: the peer is left waiting, nothing was completed
			left = "left-waiting(" + o.String() + ")"
			if rc, ok := rd.(io.Closer); ok {
				rc.Close()
			}
			<-done
		}
		r := resp.String()
		obs["response"] = e2e.Clip(fmt.Sprintf("%q", r), 600)
		answered = strings.Contains(r, " 101 ") || strings.Contains(r, "HTTP/1.1 200")
		rec.Stat("C:response_bytes_inspected", int64(len(r)))
	case "real-client-plain-scheme":
		var up upstream.Upstream
		switch c.Carrier {
		case "tcp+tls":
			up = &upstream.Socket{Address: addr.MustParseAddress("tcp://" + host)}
		case "unix+tls":
			up = &upstream.Socket{Address: addr.MustParseAddress("unix://" + host)}
		case "wss":
			up = &upstream.Http{Address: addr.MustParseAddress("http://" + host + "/ws/all")}
		case "stdio+tls":
			sio := p.Up.(*upstream.InputOutput)
			up = &upstream.InputOutput{Address: addr.MustParseAddress("stdin://"), Input: sio.Input, Output: sio.Output}
		}
		cmd, sock, err := startClient(up, c.Require, false)
		if err != nil {
			rec.Inconclusive("C: client command did not start: "+err.Error(), c)
			return
		}
		defer cmd.Shutdown()
		defer os.Remove(sock)
		app, err := net.Dial("unix", sock)
		if err != nil {
			rec.Inconclusive("C: cannot dial the client's listener: "+err.Error(), c)
			return
		}
		defer app.Close()
		ao := &appOutcome{}
		rd := e2e.Go(func() { readApp(app, ao) })
		go writeAll(app, pay)
		o := e2e.Wait(rd)
		if o != e2e.Done {
			left = "left-waiting(" + o.String() + ")"
		}
		if t := p.Targets["echo"].TryNext(); t != nil {
			served = true
			t.Close()
		}
		if ao.len() > 0 {
			served = true
		}
		cc := clientCC(up)
		obs["client_holds_session"] = cc != nil
		obs["app_received"] = ao.len()
		obs["app_read_error"] = ao.readErr
		if cc != nil {
			obs["client_reports"] = fmt.Sprintf("%v/%s", cc.Secure(), cc.SecurityTech())
			cliSecure = cc.Secure()
		}
	}
	sess := serverSessions()
	obs["server_sessions"] = sess
	obs["peer"] = left
	rec.Note("C: observed", obs)
	rec.Case(key, true)
	rec.Stat("C:cases", 1)
	rec.Seen("C:cell(endpoint,peer,require)", fmt.Sprintf("%s|cert=%s|%s|require=%v", c.Carrier, c.Cert, c.Peer, c.Require))
	rec.Seen("C:outcome", fmt.Sprintf("%s|%s -> %s, sessions on the server: %d", c.Carrier, c.Peer, left, len(sess)))
	rec.Sample(map[string]interface{}{"monitor": "C", "endpoint": c.Carrier, "peer": c.Peer, "outcome": left, "server_sessions": len(sess)})

	// "never completes a plaintext session": a session the server does not call secure, an answer to
	// the plaintext handshake, or a logical connection served over a session that is not secure at
	// both ends. (A TLS endpoint cannot offer StartTLS; should one ever answer in clear and upgrade,
	// that session is TLS-protected and is recorded as an observation, not judged here.)
	plainSess := 0
	for _, s := range sess {
		if !s.Secure {
			plainSess++
		}
	}
	if answered {
		rec.Violation(sig+":handshake-answered-in-plaintext", c, obs)
	}
	if plainSess > 0 {
		rec.Violation(sig+":plaintext-session-established", c, obs)
	}
	if served && (plainSess > 0 || !cliSecure) {
		rec.Violation(sig+":logical-connection-served-in-plaintext", c, obs)
	} else if served {
		rec.Seen("C:observation", c.Carrier+": the endpoint served a plain-scheme client over a session both ends call secure (StartTLS)")
	}
}

// observeIgnoredOffer records (never judges) what the real server does with a hand-written client that
// sees "Capabilities: StartTLS" and upgrades without asking for it. The packet server's own comment
// makes the upgrade the client's choice; the property scripts misbehaving servers, not clients.
func observeIgnoredOffer(rec *vcommon.Rec, c *caseDesc) {
	p, err := e2e.Start(e2e.Options{Carrier: c.Carrier, NoClient: true, Tag: "c", ServerCert: certOf(c.Cert)})
	if err != nil {
		rec.Inconclusive("C: endpoint could not be started: "+e2e.Clip(err.Error(), 200), c)
		return
	}
	defer p.Close()
	conn, err := net.Dial("tcp", hostOf(p.ServerURL))
	if err != nil {
		rec.Inconclusive("C: cannot dial the endpoint: "+err.Error(), c)
		return
	}
	defer conn.Close()
	before := verifhook.Count("server.session")
	verifhook.Events()
	verifhook.Record(true)
	defer verifhook.Record(false)
	var resp bytes.Buffer
	readBlocks := func(n int) bool {
		buf := make([]byte, 1024)
		for bytes.Count(resp.Bytes(), []byte("\r\n\r\n")) < n {
			k, err := conn.Read(buf)
			e2e.Bump(k)
			resp.Write(buf[:k])
			if err != nil {
				return false
			}
		}
		return true
	}
	done := e2e.Go(func() {
		conn.Write([]byte("X-SOCKETACE / HTTP/1.1\r\nAccepts-Protocol-Version: " + version.ProtocolVersion + "\r\nUser-Agent: socketace/scripted\r\n\r\n"))
		if !readBlocks(1) {
			return
		}
		conn.Write([]byte("GET / HTTP/1.1\r\nUser-Agent: socketace/scripted\r\nUpgrade: socketace/" + version.ProtocolVersion + "\r\nConnection: upgrade\r\n\r\n"))
		if !readBlocks(2) {
			return
		}
		for verifhook.Count("server.session") == before {
			time.Sleep(2 * time.Millisecond)
		}
	})
	o := e2e.Wait(done)
	r := resp.String()
	sess := serverSessions()
	offered := strings.Contains(strings.ToLower(r), "capabilities: starttls")
	got101 := strings.Contains(r, " 101 ")
	rec.Case(c.key(), o == e2e.Done)
	rec.Note("C: observed (not judged)", map[string]interface{}{"response": e2e.Clip(fmt.Sprintf("%q", r), 500), "server_sessions": sess, "wait": o.String()})
	if offered && got101 && len(sess) > 0 && !sess[len(sess)-1].Secure {
		rec.Seen("C:observation", "tcp, server with certificate: a hand-written client that ignores the advertised StartTLS and upgrades without it is served in plaintext (server.session secure=false); outside the property, recorded only")
		rec.Stat("C:observation:client-ignoring-starttls-offer-served-in-plaintext", 1)
	} else {
		rec.Seen("C:observation", fmt.Sprintf("tcp, server with certificate, client ignoring the offer: offered=%v got101=%v sessions=%v", offered, got101, sess))
	}
}
