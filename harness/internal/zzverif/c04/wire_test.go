package c04

// Wire observation helpers of monitor A (and of the scripted servers of monitor B): marker search,
// TLS record parsing, websocket de-framing (RFC 6455), DNS tunnel de-framing.

import (
	"bytes"
	"encoding/binary"
	"fmt"
	"strings"

	"github.com/bokysan/socketace/v2/internal/streams/dns/commands"
	dnsutil "github.com/bokysan/socketace/v2/internal/streams/dns/util"
	"github.com/bokysan/socketace/v2/internal/util/enc"
	"github.com/bokysan/socketace/v2/internal/zzverif/vcommon"
	mdns "github.com/miekg/dns"
)

const markerLen = 24

// marker is the random 24-byte string the application payload consists of.
type marker struct {
	b    []byte
	wins [][]byte // the 24 rotations' first 16 bytes: any 16-byte window of the repeated stream
}

func newMarker(b []byte) *marker {
	m := &marker{b: b}
	d := append(append([]byte{}, b...), b...)
	for i := 0; i < len(b); i++ {
		m.wins = append(m.wins, d[i:i+16])
	}
	return m
}

func (m *marker) payload(reps int) []byte { return bytes.Repeat(m.b, reps) }

// in says whether buf contains a piece of the repeated marker stream in clear: the whole marker,
// or any 16-byte window of the repeated stream (so that a frame boundary inside one copy does
// not hide it). 16 random bytes do not occur by chance.
func (m *marker) in(buf []byte) bool {
	if len(buf) < 16 {
		return false
	}
	if bytes.Contains(buf, m.b) {
		return true
	}
	for _, w := range m.wins {
		if bytes.Contains(buf, w) {
			return true
		}
	}
	return false
}

// count returns the number of whole copies of the marker in buf (non-overlapping).
func (m *marker) count(buf []byte) int { return bytes.Count(buf, m.b) }

// ---- TLS records ------------------------------------------------------------------------------

type tlsParse struct {
	Records   int
	Bytes     int    // bytes covered by complete records
	Tail      int    // bytes of a truncated last record (capture taken in flight)
	Bad       string // "" = every byte belongs to a well-formed record
	Handshake int    // records of type 22
	AppData   int    // records of type 23
	FirstType byte
}

// parseTLS checks that b is a sequence of TLS records: content type 20..23, version 0x0301..0x0304,
// length 1..2^14+2048. A truncated last record is accepted (the capture may have been taken while
// a record was in flight).
func parseTLS(b []byte) tlsParse {
	var r tlsParse
	off := 0
	for off < len(b) {
		if len(b)-off < 5 {
			r.Tail = len(b) - off
			// the visible part of the header must still be plausible
			if b[off] < 20 || b[off] > 23 {
				r.Bad = fmt.Sprintf("offset %d: content type %d", off, b[off])
			}
			return r
		}
		typ, maj, min := b[off], b[off+1], b[off+2]
		n := int(binary.BigEndian.Uint16(b[off+3:]))
		switch {
		case typ < 20 || typ > 23:
			r.Bad = fmt.Sprintf("offset %d: content type %d", off, typ)
		case maj != 3 || min < 1 || min > 4:
			r.Bad = fmt.Sprintf("offset %d: version %d.%d", off, maj, min)
		case n == 0 || n > 16384+2048:
			r.Bad = fmt.Sprintf("offset %d: record length %d", off, n)
		}
		if r.Bad != "" {
			return r
		}
		if r.Records == 0 {
			r.FirstType = typ
		}
		if off+5+n > len(b) {
			r.Tail = len(b) - off
			return r
		}
		r.Records++
		r.Bytes += 5 + n
		switch typ {
		case 22:
			r.Handshake++
		case 23:
			r.AppData++
		}
		off += 5 + n
	}
	return r
}

// afterHeaders returns what follows the n-th empty line (CRLF CRLF) of a stream that starts with
// n HTTP-like header blocks, and whether n blocks were found.
func afterHeaders(b []byte, n int) ([]byte, bool) {
	off := 0
	for i := 0; i < n; i++ {
		j := bytes.Index(b[off:], []byte("\r\n\r\n"))
		if j < 0 {
			return nil, false
		}
		off += j + 4
	}
	return b[off:], true
}

// ---- websocket --------------------------------------------------------------------------------

// wsDeframe takes one direction of a captured websocket connection (HTTP upgrade exchange
// included), skips the HTTP header block and returns the concatenated payload of the data frames
// (client frames are unmasked per RFC 6455 §5.3). ok=false: the capture does not parse.
func wsDeframe(b []byte) (payload []byte, frames int, ok bool) {
	rest, found := afterHeaders(b, 1)
	if !found {
		return nil, 0, false
	}
	for len(rest) > 0 {
		if len(rest) < 2 {
			return payload, frames, true // truncated frame header at the end of the capture
		}
		op := rest[0] & 0x0f
		masked := rest[1]&0x80 != 0
		n := int(rest[1] & 0x7f)
		hdr := 2
		switch n {
		case 126:
			if len(rest) < 4 {
				return payload, frames, true
			}
			n = int(binary.BigEndian.Uint16(rest[2:]))
			hdr = 4
		case 127:
			if len(rest) < 10 {
				return payload, frames, true
			}
			v := binary.BigEndian.Uint64(rest[2:])
			if v > 1<<30 {
				return payload, frames, false
			}
			n = int(v)
			hdr = 10
		}
		var key []byte
		if masked {
			if len(rest) < hdr+4 {
				return payload, frames, true
			}
			key = rest[hdr : hdr+4]
			hdr += 4
		}
		if op > 2 && op < 8 || op > 10 {
			return payload, frames, false
		}
		avail := len(rest) - hdr
		take := n
		if take > avail {
			take = avail // truncated last frame
		}
		data := append([]byte{}, rest[hdr:hdr+take]...)
		if masked {
			for i := range data {
				data[i] ^= key[i&3]
			}
		}
		if op <= 2 {
			payload = append(payload, data...)
			frames++
		}
		rest = rest[hdr+take:]
	}
	return payload, frames, true
}

// ---- DNS tunnel -------------------------------------------------------------------------------

var codecCodes = []byte{'T', 'S', 'U', 'W', 'X', 'V', 'R'}

func allCodecs() []enc.Encoder {
	var out []enc.Encoder
	for _, c := range codecCodes {
		if e, err := enc.FromCode(c); err == nil {
			out = append(out, e)
		}
	}
	return out
}

// dnsDeframe decodes the tunnel bytes carried by the captured DNS datagrams of one direction:
// every datagram is parsed as a DNS message, the tunnel text is taken from the question names
// (queries) and from the answer records (answers) with the repository's own helpers, and what
// follows the command header is decoded with every codec that accepts it. All decodings are
// returned (concatenated per codec), so that a search finds payload whichever codec was in use.
func dnsDeframe(pkts [][]byte, domain string, answers bool) (decoded [][]byte, msgs, dataMsgs int) {
	codecs := allCodecs()
	per := make([][]byte, len(codecs)+1)
	for _, p := range pkts {
		m := new(mdns.Msg)
		if err := m.Unpack(p); err != nil {
			continue
		}
		msgs++
		var text []byte
		vcommon.Guard(func() {
			if answers {
				if m.Response {
					text = dnsutil.UnwrapDnsResponse(m, domain)
				}
			} else if len(m.Question) > 0 {
				text = commands.ComposeRequest(m, domain)
			}
		})
		if len(text) == 0 {
			continue
		}
		// the raw tunnel text itself (Raw codec, or anything not encoded at all)
		per[len(codecs)] = append(per[len(codecs)], text...)
		if strings.ToLower(string(text[:1])) != "c" {
			continue // not a data packet (version, options, probes)
		}
		hdr := 1
		if !answers {
			hdr = 6 // command, three cache-busting characters, two characters of user id
		}
		if len(text) <= hdr {
			continue
		}
		dataMsgs++
		for i, e := range codecs {
			var d []byte
			var err error
			e := e
			vcommon.Guard(func() { d, err = e.Decode(text[hdr:]) })
			if err == nil && len(d) > 0 {
				per[i] = append(per[i], d...)
			}
		}
	}
	return per, msgs, dataMsgs
}
