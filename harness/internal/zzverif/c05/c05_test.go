// C05: peer authentication is enforced as configured (DESIGN.md §4 C05).
//
// Reference model (oracle):
//
//	admit = (insecure ∨ (server certificate chains to the client's CA ∧ is within its validity ∧ matches
//	         the upstream host as the user wrote it)) ∧ (¬requireClientCert ∨ client certificate signed by the server's CA)
//	UDP shared secret: admit = (secret_client == secret_server), compared as the byte strings the two users wrote
//	UDP endpoint with a shared secret AND certificates ("udp+secret+starttls" in the certificate matrix): admit = both
//	of the above (the secret replaces neither the verification of the server certificate nor requireClientCert)
//
// Trust anchors: "the configured CA" / "its CA" is the CA of the configuration entry, given inline or by file. An
// endpoint WITHOUT a configured CA verifies against the machine's trust store (crypto/tls's documented meaning
// of an empty pool; the harness points the store at the foreign CA): a peer that presents no certificate, or one
// of the run's own CA (never in that store), is still not acceptable; whether a peer chaining to the machine's store
// is admitted is not decided by the property ("unspecified": observed and counted, never a verdict). A configured CA
// may be a BUNDLE (the option is "CA certificate(s)"): CA one together with authorities that issued nothing, CA one
// first / in the middle / last; a peer chaining to CA one chains to the configured CA wherever it stands in the bundle.
//
// The upstream address may be written in every spelling the client accepts for the carrier (https:// or wss://,
// http:// or ws://, udp:// or udp4://): the spelling changes nothing. An endpoint's OWN certificate file may carry
// a chain (the leaf followed by the CA that issued it, or a leaf issued by an intermediate authority of that CA
// followed by the intermediate): what an endpoint presents never adds to what it trusts in its peers, and a server
// certificate that reaches the configured CA through an intermediate it sends along chains to the configured CA.
//
// Observed: a logical connection is opened through the real client command (which forces
// Upstreams.Connect against the real server command); "admitted" = the channel's recording target
// accepted a connection (and the probe byte written by the application arrived there), "refused" = the
// application saw end-of-stream / reset and the target's accept counter did not move (decided with a
// barrier connection through the target's accept queue, not with a timer), "pending" = neither within
// the stall window. Both directions of disagreement are violations; pending satisfies an expected
// refusal and violates an expected admission.
package c05

import (
	"crypto/tls"
	"encoding/json"
	"fmt"
	"io"
	"math/rand"
	"net"
	"net/url"
	"os"
	"path/filepath"
	"strings"
	"sync"
	"sync/atomic"
	"testing"

	"github.com/bokysan/socketace/v2/internal/client/upstream"
	"github.com/bokysan/socketace/v2/internal/util/addr"
	"github.com/bokysan/socketace/v2/internal/util/cert"
	"github.com/bokysan/socketace/v2/internal/zzverif/e2e"
	"github.com/bokysan/socketace/v2/internal/zzverif/vcommon"
	"github.com/sirupsen/logrus"
)

type c05Case struct {
	Kind       string `json:"kind"`    // "tls" or "secret"
	Carrier    string `json:"carrier"` // tcp+tls wss tcp+starttls ws+starttls udp+starttls dns+starttls udp+secret+starttls | udp (secret, no StartTLS)
	Cert       string `json:"server_cert"`
	Insecure   bool   `json:"client_insecure"`
	ClientCert string `json:"client_cert"` // none own foreign foreign-forced
	Require    bool   `json:"require_client_cert"`
	Host       string `json:"upstream_host"` // localhost 127.0.0.1 domain (dns: the tunnel domain)
	// kind "secret", and kind "tls" on the carrier udp+secret+starttls (there: relation equal or different only)
	SrvSecret string `json:"server_secret,omitempty"`
	CliSecret string `json:"client_secret,omitempty"`
	SecretRel string `json:"secret_relation,omitempty"` // equal different missing-on-client missing-on-server
	// Preceded: the upstream list has another entry first, of the same kind but written with the OTHER host
	// spelling and pointing at a port nobody listens on; the verdict depends on the second entry only
	// (state left behind by the failed first attempt must not change what is verified for the second)
	Preceded bool `json:"preceded_by_refused_upstream_with_other_host,omitempty"`
	// Trust anchors of the two configuration entries: "" = CA one given inline (caCertificate), "file" = CA one given
	// by file (caCertificateFile), "none" = no CA configured at all (the machine's trust store decides),
	// "bundle-first" / "bundle-middle" / "bundle-last" = several CA certificates given inline, CA one at that place among
	// authorities that issued nothing, "file-bundle-..." = the same bundle given by file
	ServerCA string `json:"server_ca,omitempty"`
	ClientCA string `json:"client_ca,omitempty"`
	// shared-secret cases: which near miss of the server's secret the client holds, and how the client's address
	// string was turned into an address ("" = flag/ParseAddress, "json" = configuration file value)
	SecretVar string `json:"secret_variant,omitempty"`
	Parse     string `json:"client_address_parsed_via,omitempty"`
	// Spelling: the scheme the upstream address is written with, "" = the usual one of the carrier (https, http, udp),
	// else the other spelling the client accepts for the same carrier (wss, ws, udp4)
	Spelling string `json:"upstream_scheme,omitempty"`
	// ServerChain / ClientChain: what the endpoint's own certificate holds: "" = the leaf alone (issued by the CA itself),
	// "leaf+issuer" = that leaf followed by the CA that issued it, "via-intermediate" = a leaf issued by an intermediate
	// authority of the same CA, followed by the intermediate. ServerCertBy / ClientCertBy: "" = inline (certificate),
	// "file" = certificateFile
	ServerChain  string `json:"server_certificate_holds,omitempty"`
	ClientChain  string `json:"client_certificate_holds,omitempty"`
	ServerCertBy string `json:"server_certificate_given_by,omitempty"`
	ClientCertBy string `json:"client_certificate_given_by,omitempty"`
}

// altSpelling: the other accepted spelling of the carrier's upstream address ("" = there is none that works with the
// fixture: tcp has one spelling, dns+udp:// is accepted by the parser but served by no upstream, udp6 needs an
// IPv6 endpoint)
func altSpelling(carrier string) string {
	switch carrier {
	case "wss":
		return "wss"
	case "ws+starttls":
		return "ws"
	case "udp+starttls", secretCarrier:
		return "udp4"
	}
	return ""
}

// unspecified: the property does not say whether this aspect admits or refuses
const unspecified = "?"

// secretCarrier: StartTLS over a UDP endpoint that is protected by a shared secret as well (both ends hold the same
// secret unless the case says otherwise); the certificate matrix applies to it like to every other carrier.
const secretCarrier = "udp+secret+starttls"

var carriers = []string{"tcp+tls", "wss", "tcp+starttls", "ws+starttls", "udp+starttls", "dns+starttls", secretCarrier}
var serverCerts = []string{"Good", "GoodDNS", "IPOnly", "WrongHost", "Untrusted", "Expired"}

// Client certificates: "foreign" is configured in the real client like any certificate (Go's TLS client
// then withholds it when the server's request names other CAs); "foreign-forced" is a peer that presents
// the foreign certificate no matter what the server asked for (the real upstream code, with a certificate
// selection callback in its tls.Config as the only scripted part).
var clientCerts = []string{"none", "own", "foreign", "foreign-forced"}

func hostsOf(carrier string) []string {
	if strings.HasPrefix(carrier, "dns") {
		return []string{"domain"}
	}
	return []string{"localhost", "127.0.0.1"}
}

// ---- reference model --------------------------------------------------------------------------

type certProp struct{ trusted, valid, coversName, coversAddr bool }

var certProps = map[string]certProp{
	"Good":      {true, true, true, true},
	"GoodDNS":   {true, true, true, false},
	"IPOnly":    {true, true, false, true},
	"WrongHost": {true, true, false, false},
	"Untrusted": {false, true, true, true},
	"Expired":   {true, false, true, true},
}

// certReason: "" when the certificate is acceptable for the host as written, else why it is not.
func certReason(c *c05Case) string {
	p := certProps[c.Cert]
	switch {
	case c.ClientCA == "none" && p.trusted:
		// no CA configured on the client: the machine's trust store decides, and CA one is never in it
		return "not-in-system-store"
	case c.ClientCA != "none" && !p.trusted:
		return "untrusted"
	case !p.valid:
		return "expired"
	}
	match := p.coversName
	if c.Host == "127.0.0.1" {
		match = p.coversAddr
	}
	if c.Host == "nohost" {
		// the URL names no host (tcp://:9000): there is no name any certificate could be matched against,
		// so only the insecure flag can admit
		return "no-host-in-url"
	}
	if match {
		if c.ClientCA == "none" {
			return unspecified // issued by the foreign CA, which may or may not be in the machine's trust store
		}
		return ""
	}
	switch c.Cert {
	case "GoodDNS":
		return "name-only-san"
	case "IPOnly":
		return "ip-only-san"
	}
	return "wronghost"
}

func clientReason(c *c05Case) string {
	if !c.Require {
		return ""
	}
	if c.ServerCA == "none" {
		// requireClientCert without a CA on the server entry: the machine's trust store decides
		switch c.ClientCert {
		case "none":
			return "none"
		case "own":
			return "own-not-in-system-store"
		}
		return unspecified
	}
	if c.ClientCert == "own" && c.ClientChain == "via-intermediate" {
		// "signed by its CA" through an intermediate the client sends along: the statement does not say
		return unspecified
	}
	if c.ClientCert == "own" {
		return ""
	}
	return c.ClientCert // none | foreign
}

// anchorSuffix names a non-default trust-anchor configuration (part of the signature: a different defect class)
func anchorSuffix(side, v string) string {
	if v == "" {
		return ""
	}
	return ":" + side + "-ca=" + v
}

// shapeSuffix names a non-default spelling of the upstream address and non-default contents of the endpoints' own
// certificates (part of the signature: a different defect class)
func shapeSuffix(c *c05Case) string {
	s := ""
	if c.Spelling != "" {
		s += ":scheme=" + c.Spelling
	}
	if c.ServerChain != "" {
		s += ":server-cert=" + c.ServerChain
	}
	if c.ClientChain != "" {
		s += ":client-cert=" + c.ClientChain
	}
	return s
}

// model returns the expected admission and the signature fragment describing the configuration class.
func model(c *c05Case) (admit bool, class string, specified bool) {
	if c.Kind == "secret" {
		// the two secrets as the users hold them; the relation only names the class
		return c.SrvSecret == c.CliSecret, "secret=" + c.SecretRel, true
	}
	cr, kr := certReason(c), clientReason(c)
	certBad := !c.Insecure && cr != "" && cr != unspecified
	keyBad := kr != "" && kr != unspecified
	secBad := c.SrvSecret != c.CliSecret // (neither the insecure flag nor a client certificate stands in for the secret)
	if certBad || keyBad || secBad {
		var parts []string
		if secBad {
			parts = append(parts, "secret="+c.SecretRel)
		}
		if certBad {
			parts = append(parts, "cert="+cr+anchorSuffix("client", c.ClientCA))
		}
		if keyBad {
			parts = append(parts, "clientcert="+kr+":require-client-cert"+anchorSuffix("server", c.ServerCA))
		}
		return false, strings.Join(parts, "+") + shapeSuffix(c), true
	}
	if (!c.Insecure && cr == unspecified) || kr == unspecified {
		return false, "unspecified" + anchorSuffix("server", c.ServerCA) + anchorSuffix("client", c.ClientCA), false
	}
	defer func() {
		class += anchorSuffix("server", c.ServerCA) + anchorSuffix("client", c.ClientCA) + shapeSuffix(c)
	}()
	// acceptable configuration: name its least ordinary aspect
	switch {
	case c.Insecure && cr == unspecified:
		class = "insecure:cert=of-foreign-ca"
	case c.Insecure && cr != "":
		class = "insecure:cert=" + cr
	case c.Cert == "GoodDNS":
		class = "cert=name-only-san"
	case c.Cert == "IPOnly":
		class = "cert=ip-only-san"
	case c.Require:
		class = "clientcert=own:require-client-cert"
	case c.Insecure:
		class = "insecure:cert=good"
	default:
		class = "cert=good"
	}
	return true, class, true
}

func label(c *c05Case) string {
	if c.Kind == "secret" {
		if strings.Contains(c.Carrier, "starttls") {
			return "udp+secret+starttls"
		}
		return "udp+secret"
	}
	return c.Carrier
}

func key(c *c05Case) string {
	k := fmt.Sprintf("%s/%s/%s/%v/%s/%v/%s/%s/%v", c.Kind, c.Carrier, c.Cert, c.Insecure, c.ClientCert, c.Require, c.Host, c.SecretRel, c.Preceded)
	if c.ServerCA != "" || c.ClientCA != "" {
		k += fmt.Sprintf("/server-ca=%s/client-ca=%s", c.ServerCA, c.ClientCA)
	}
	if c.SecretVar != "" || c.Parse != "" {
		k += "/" + c.SecretVar + "/" + c.Parse
	}
	if c.Spelling != "" {
		k += "/scheme=" + c.Spelling
	}
	if c.ServerChain != "" || c.ClientChain != "" {
		k += fmt.Sprintf("/server-cert=%s,%s/client-cert=%s,%s", c.ServerChain, c.ServerCertBy, c.ClientChain, c.ClientCertBy)
	}
	return k
}

// ---- running one case -------------------------------------------------------------------------

var caFileOnce sync.Once
var caFilePath string
var caFileErr error

// caFile: CA one as a file in the child's private working directory (caCertificateFile)
func caFile() (string, error) {
	caFileOnce.Do(func() {
		wd, err := os.Getwd()
		if err != nil {
			caFileErr = err
			return
		}
		caFilePath = filepath.Join(wd, fmt.Sprintf("c05-ca-one-%d.pem", os.Getpid()))
		caFileErr = os.WriteFile(caFilePath, []byte(e2e.GetC05PKI().CA1), 0644)
	})
	return caFilePath, caFileErr
}

// bundlePEM: CA one at the named place among certificate authorities that issued nothing ("" for an unknown place)
func bundlePEM(place string) string {
	x := e2e.C05ExtraCAs()
	one := e2e.GetC05PKI().CA1
	switch place {
	case "first":
		return one + x[0]
	case "middle":
		return x[0] + one + x[1]
	case "last":
		return x[0] + one
	}
	return ""
}

var bundleFileMu sync.Mutex
var bundleFiles = map[string]string{}

// bundleFile: the bundle as a file in the child's private working directory (caCertificateFile)
func bundleFile(place string) (string, error) {
	bundleFileMu.Lock()
	defer bundleFileMu.Unlock()
	if f, ok := bundleFiles[place]; ok {
		return f, nil
	}
	pem := bundlePEM(place)
	if pem == "" {
		return "", fmt.Errorf("unknown bundle %q", place)
	}
	wd, err := os.Getwd()
	if err != nil {
		return "", err
	}
	f := filepath.Join(wd, fmt.Sprintf("c05-ca-bundle-%s-%d.pem", place, os.Getpid()))
	if err := os.WriteFile(f, []byte(pem), 0644); err != nil {
		return "", err
	}
	bundleFiles[place] = f
	return f, nil
}

// anchors applies a trust-anchor choice to the generic part of a certificate configuration
func anchors(choice string, cfg *cert.Config) error {
	var err error
	switch {
	case choice == "":
	case choice == "none":
		cfg.CaCertificate, cfg.CaCertificateFile = "", ""
	case choice == "file":
		cfg.CaCertificate = ""
		cfg.CaCertificateFile, err = caFile()
	case strings.HasPrefix(choice, "bundle-"):
		cfg.CaCertificateFile = ""
		if cfg.CaCertificate = bundlePEM(strings.TrimPrefix(choice, "bundle-")); cfg.CaCertificate == "" {
			err = fmt.Errorf("unknown trust-anchor choice %q", choice)
		}
	case strings.HasPrefix(choice, "file-bundle-"):
		cfg.CaCertificate = ""
		cfg.CaCertificateFile, err = bundleFile(strings.TrimPrefix(choice, "file-bundle-"))
	default:
		err = fmt.Errorf("unknown trust-anchor choice %q", choice)
	}
	return err
}

// parseAddress turns the address string into an address the way the named configuration path does
func parseAddress(via, s string) (addr.ProtoAddress, error) {
	if via == "json" {
		var pa addr.ProtoAddress
		q, _ := json.Marshal(s)
		err := json.Unmarshal(q, &pa)
		return pa, err
	}
	pa, err := addr.ParseAddress(s)
	if err != nil {
		return addr.ProtoAddress{}, err
	}
	return *pa, nil
}

// ownMaterial: the certificate and key an endpoint is configured with. role "server": name is a server certificate
// of the matrix; role "client": own / foreign.
func ownMaterial(role, name, chain string) (e2e.CertPair, error) {
	pk, ch := e2e.GetC05PKI(), e2e.GetC05ChainPKI()
	direct, via := pk.Server, ch.Server
	root, inter := pk.CA1, ch.Inter1
	if role == "client" {
		direct, via = pk.Client, ch.Client
	}
	if name == "Untrusted" || name == "foreign" {
		root, inter = pk.CA2, ch.Inter2
	}
	var cp e2e.CertPair
	var ok bool
	switch chain {
	case "":
		cp, ok = direct[name]
	case "leaf+issuer":
		cp, ok = direct[name]
		cp.Cert += root
	case "via-intermediate":
		cp, ok = via[name]
		cp.Cert += inter
	}
	if !ok {
		return cp, fmt.Errorf("no %s certificate %q with contents %q", role, name, chain)
	}
	return cp, nil
}

var certFileSeq int64

// certToFile moves an inline certificate into a file of the child's private working directory (certificateFile)
func certToFile(cfg *cert.Config) {
	wd, err := os.Getwd()
	if err != nil || cfg.Certificate == "" {
		return
	}
	f := filepath.Join(wd, fmt.Sprintf("c05-own-cert-%d-%d.pem", os.Getpid(), atomic.AddInt64(&certFileSeq, 1)))
	if os.WriteFile(f, []byte(cfg.Certificate), 0644) == nil {
		cfg.Certificate, cfg.CertificateFile = "", f
	}
}

func start(c *c05Case) (*e2e.Pair, error) {
	pk := e2e.GetC05PKI()
	sc, err := ownMaterial("server", c.Cert, c.ServerChain)
	if err != nil {
		return nil, fmt.Errorf("harness: %v", err)
	}
	o := e2e.Options{
		Carrier: c.Carrier, ServerCert: &sc, ServerCA: pk.CA1, ClientCA: pk.CA1, ClientInsecure: c.Insecure,
		RequireClient: c.Require, StrictVerify: true, Domain: e2e.C05Domain, Tag: "c",
	}
	if c.Kind == "tls" && c.Carrier == secretCarrier {
		if c.SrvSecret == "" || c.CliSecret == "" {
			return nil, fmt.Errorf("harness: %s case without secrets", secretCarrier)
		}
		o.Carrier, o.Secret, o.ClientSecret = "udp+starttls", c.SrvSecret, c.CliSecret
	}
	// (a trial application: whatever cannot be written or named fails here, not inside the pair)
	var trial cert.Config
	for _, ch := range []string{c.ServerCA, c.ClientCA} {
		if err := anchors(ch, &trial); err != nil {
			return nil, fmt.Errorf("harness: trust anchors: %v", err)
		}
	}
	o.ServerCfgEdit = func(s *cert.ServerConfig) {
		anchors(c.ServerCA, &s.Config)
		if c.ServerCertBy == "file" {
			certToFile(&s.Config)
		}
	}
	o.ClientCfgEdit = func(k *cert.ClientConfig) {
		anchors(c.ClientCA, &k.Config)
		if c.ClientCertBy == "file" {
			certToFile(&k.Config)
		}
	}
	udpSpelled := false
	if c.Spelling != "" {
		if c.Kind != "tls" || c.Spelling != altSpelling(c.Carrier) {
			return nil, fmt.Errorf("harness: no spelling %q of carrier %s", c.Spelling, c.Carrier)
		}
		if strings.HasPrefix(o.Carrier, "udp") {
			udpSpelled = true // (the fixture writes udp://: the client is attached by hand below)
		} else {
			o.UpScheme = c.Spelling
		}
	}
	if c.Host == "localhost" {
		o.UpstreamHost = "localhost"
	}
	if c.Host == "nohost" {
		o.UpstreamHost = "-"
	}
	if c.Preceded {
		other := "localhost"
		if c.Host == "localhost" {
			other = "127.0.0.1"
		}
		dead := fmt.Sprintf("%s:%d", other, e2e.FreePort(false))
		switch c.Carrier {
		case "tcp+tls":
			o.Before = []upstream.Upstream{&upstream.Socket{Address: addr.MustParseAddress("tcp+tls://" + dead)}}
		case "wss":
			o.Before = []upstream.Upstream{&upstream.Http{Address: addr.MustParseAddress("https://" + dead + "/ws/all")}}
		case "tcp+starttls":
			o.Before = []upstream.Upstream{&upstream.Socket{Address: addr.MustParseAddress("tcp://" + dead)}}
		case "ws+starttls":
			o.Before = []upstream.Upstream{&upstream.Http{Address: addr.MustParseAddress("http://" + dead + "/ws/all")}}
		}
	}
	forced := c.ClientCert == "foreign-forced"
	var cc e2e.CertPair
	if c.ClientCert != "none" {
		name := c.ClientCert
		if forced {
			name = "foreign"
		}
		if cc, err = ownMaterial("client", name, c.ClientChain); err != nil {
			return nil, fmt.Errorf("harness: %v", err)
		}
		if !forced {
			o.ClientCert = &cc
		}
	}
	if forced || udpSpelled {
		// the client is attached by hand: with the real upstream behind a certificate-selection callback, and / or
		// with the upstream that the client's own parser makes of the address in the other spelling
		o.NoClient = true
		p, err := e2e.Start(o)
		if err != nil {
			return nil, err
		}
		up := p.Up
		if udpSpelled {
			var ul upstream.Upstreams
			if err := ul.UnmarshalFlag(c.Spelling + "://" + strings.TrimPrefix(p.UpURL, "udp://")); err != nil || len(ul.Data) != 1 {
				p.Close()
				return nil, fmt.Errorf("harness: %s spelling of %s: %v", c.Spelling, p.UpURL, err)
			}
			up = ul.Data[0]
		}
		ccfg := cert.ClientConfig{InsecureSkipVerify: c.Insecure}
		ccfg.CaCertificate = pk.CA1
		if forced {
			crt, err := tls.X509KeyPair([]byte(cc.Cert), []byte(cc.Key))
			if err != nil {
				p.Close()
				return nil, fmt.Errorf("harness: %v", err)
			}
			up = &forcedUp{Upstream: up, crt: &crt}
		} else if o.ClientCert != nil {
			ccfg.Certificate, ccfg.PrivateKey = cc.Cert, cc.Key
		}
		o.ClientCfgEdit(&ccfg)
		if err := p.C05AttachClient([]upstream.Upstream{up}, ccfg, false); err != nil {
			p.Close()
			return nil, err
		}
		return p, nil
	}
	if c.Kind != "secret" {
		return e2e.Start(o)
	}
	// shared-secret cases: the client is attached by hand so that it can be left without a secret
	o.Secret = c.SrvSecret
	o.NoClient = true
	if !strings.Contains(c.Carrier, "tls") {
		o.ServerCert, o.NoServerCert = nil, true
	}
	p, err := e2e.Start(o)
	if err != nil {
		return nil, err
	}
	host := p.ServerURL[strings.Index(p.ServerURL, "://")+3:]
	if i := strings.Index(host, "@"); i >= 0 {
		host = host[i+1:]
	}
	cred := ""
	if c.CliSecret != "" {
		cred = url.UserPassword("u", c.CliSecret).String() + "@" // (escapes what a URL cannot carry literally, e.g. a blank)
	}
	pa, err := parseAddress(c.Parse, "udp://"+cred+host)
	if err != nil {
		p.Close()
		return nil, fmt.Errorf("harness: client address: %v", err)
	}
	up := &upstream.Packet{Address: pa}
	ccfg := cert.ClientConfig{}
	ccfg.CaCertificate = pk.CA1
	o.ClientCfgEdit(&ccfg)
	if err := p.C05AttachClient([]upstream.Upstream{up}, ccfg, false); err != nil {
		p.Close()
		return nil, err
	}
	return p, nil
}

// forcedMgr / forcedUp: the real upstream connects with the client's own TLS configuration, except that the
// foreign certificate is presented unconditionally.
type forcedMgr struct {
	inner cert.TlsConfig
	crt   *tls.Certificate
}

func (m *forcedMgr) GetTlsConfig() (*tls.Config, error) {
	conf, err := m.inner.GetTlsConfig()
	if err != nil {
		return conf, err
	}
	conf.Certificates = nil
	crt := m.crt
	conf.GetClientCertificate = func(*tls.CertificateRequestInfo) (*tls.Certificate, error) { return crt, nil }
	return conf, nil
}

type forcedUp struct {
	upstream.Upstream
	crt *tls.Certificate
}

func (u *forcedUp) Connect(manager cert.TlsConfig, mustSecure bool) error {
	return u.Upstream.Connect(&forcedMgr{inner: manager, crt: u.crt}, mustSecure)
}

const probeByte = 0xC5

// probe opens one logical connection and classifies what happened to it.
func probe(p *e2e.Pair) (obs string, info map[string]interface{}) {
	info = map[string]interface{}{}
	t := p.Targets["echo"]
	app, err := p.Dial("echo")
	if err != nil {
		info["dial"] = err.Error()
		return "inconclusive", info
	}
	defer app.Close()
	if _, err := app.Write([]byte{probeByte}); err != nil {
		info["app_write"] = err.Error()
	}
	e2e.Bump(1)
	appEnd := make(chan string, 1)
	go func() {
		buf := make([]byte, 16)
		n, err := app.Read(buf)
		e2e.Bump(1)
		appEnd <- fmt.Sprintf("read n=%d err=%v", n, err)
	}()
	type acc struct {
		c net.Conn
		o e2e.Outcome
	}
	accCh := make(chan acc, 1)
	go func() {
		c, o := t.Next()
		accCh <- acc{c, o}
	}()
	finish := func(a acc, appEnded bool) string {
		switch a.o {
		case e2e.Stalled:
			info["goroutines"] = e2e.Clip(e2e.Stacks(), 30000)
			return "pending"
		case e2e.Inconclusive:
			return "inconclusive"
		}
		defer a.c.Close()
		info["target_accepts"] = t.AcceptCount()
		// admitted: does the probe byte arrive?
		var b [1]byte
		var rerr error
		done := e2e.Go(func() { _, rerr = io.ReadFull(a.c, b[:]); e2e.Bump(1) })
		if e2e.Wait(done) == e2e.Done && rerr == nil && b[0] == probeByte {
			info["probe_delivered"] = true
		} else {
			info["probe_delivered"] = false
			info["app_ended_before_accept_seen"] = appEnded
		}
		return "admitted"
	}
	select {
	case a := <-accCh:
		return finish(a, false), info
	case e := <-appEnd:
		info["app"] = e
		// The application's connection is over. Did the server open the target before that? A barrier
		// connection goes through the target's accept queue (FIFO): whatever the server dialled earlier
		// comes out before it.
		bc, err := net.Dial(t.Network, t.Addr)
		if err != nil {
			info["barrier"] = err.Error()
			return "inconclusive", info
		}
		defer bc.Close()
		a := <-accCh
		if a.o != e2e.Done {
			info["barrier"] = "barrier connection was not delivered: " + a.o.String()
			return "inconclusive", info
		}
		if a.c.RemoteAddr().String() == bc.LocalAddr().String() {
			a.c.Close()
			info["target_accepts"] = t.AcceptCount() - 1
			return "refused", info
		}
		return finish(a, true), info
	}
}

type runState struct {
	stalls    map[string]int
	abandoned map[string]bool
}

func stallClass(c *c05Case, admit bool, class string) string {
	kind := "admit"
	if !admit {
		kind = "reject:" + strings.SplitN(class, "=", 2)[0]
	}
	if c.Kind == "tls" && c.Carrier == secretCarrier {
		// (not the class of the shared-secret cases proper, which carry the same label: neither may use up the other's two stalls)
		return label(c) + "|matrix|" + kind
	}
	return label(c) + "|" + kind
}

func runCase(rec *vcommon.Rec, st *runState, c *c05Case) {
	admit, class, specified := model(c)
	sc := stallClass(c, admit, class)
	if st != nil && st.abandoned[sc] {
		rec.Stat("skipped_after_two_stalls", 1)
		return
	}
	rec.Mark(c)
	lab := label(c)
	p, err := start(c)
	var obs string
	var info map[string]interface{}
	if err != nil {
		info = map[string]interface{}{"setup": err.Error()}
		if strings.HasPrefix(err.Error(), "harness:") {
			rec.Inconclusive("the harness could not prepare the case: "+err.Error(), c)
			return
		}
		if strings.Contains(err.Error(), "address already in use") {
			rec.Inconclusive("port collision while starting the pair", c)
			return
		}
		obs = "setup-failed"
	} else {
		obs, info = probe(p)
		p.Close()
	}
	if obs == "inconclusive" {
		rec.Inconclusive(fmt.Sprintf("no verdict for the probe: %v", info), c)
		rec.Case(key(c), false)
		return
	}
	if !specified {
		// the property does not decide this configuration (only reached through a replay file): observe, no verdict
		rec.Case(key(c), false)
		rec.Stat("unspecified_by_the_property:observed_"+obs, 1)
		return
	}
	rec.Case(key(c), true)
	rec.Sample(map[string]interface{}{"case": c, "expected_admit": admit, "class": class, "observed": obs})
	rec.Seen("carrier", lab)
	if c.Kind == "tls" {
		rec.Seen("server_cert", c.Cert)
		rec.Seen("client_cert", c.ClientCert)
		rec.Seen("tuple(carrier,server_cert,insecure,client_cert,require,host)", key(c))
		rec.Seen("pair(carrier,server_cert)", lab+"|"+c.Cert)
		rec.Seen("pair(carrier,client_cert,require)", fmt.Sprintf("%s|%s|%v", lab, c.ClientCert, c.Require))
		rec.Seen("pair(carrier,host)", lab+"|"+c.Host)
		rec.Seen("pair(server_cert,insecure)", fmt.Sprintf("%s|%v", c.Cert, c.Insecure))
		rec.Seen("pair(server_cert,host)", c.Cert+"|"+c.Host)
		if c.Spelling != "" {
			rec.Seen("tuple(carrier,upstream_scheme,server_cert,insecure,client_cert,require)", fmt.Sprintf("%s|%s|%s|%v|%s|%v", lab, c.Spelling, c.Cert, c.Insecure, c.ClientCert, c.Require))
			rec.Stat("cases_with_the_other_spelling_of_the_upstream_address", 1)
		}
		if c.ServerChain != "" || c.ClientChain != "" {
			rec.Seen("tuple(carrier,server_cert,holds,given_by,client_cert,holds,given_by,insecure,require)", fmt.Sprintf("%s|%s|%s|%s|%s|%s|%s|%v|%v",
				lab, c.Cert, c.ServerChain, c.ServerCertBy, c.ClientCert, c.ClientChain, c.ClientCertBy, c.Insecure, c.Require))
			rec.Stat("cases_with_a_chain_in_an_own_certificate", 1)
		}
		if c.Carrier == secretCarrier {
			rec.Seen("secret_with_certificates(relation,server_cert,insecure,client_cert,require)", fmt.Sprintf("%s|%s|%v|%s|%v", c.SecretRel, c.Cert, c.Insecure, c.ClientCert, c.Require))
		}
		if c.ServerCA != "" || c.ClientCA != "" {
			rec.Seen("tuple(carrier,server_ca,client_cert,require)", fmt.Sprintf("%s|%s|%s|%v", lab, c.ServerCA, c.ClientCert, c.Require))
			rec.Seen("tuple(carrier,client_ca,server_cert,insecure)", fmt.Sprintf("%s|%s|%s|%v", lab, c.ClientCA, c.Cert, c.Insecure))
			rec.Stat("cases_with_non_default_trust_anchors", 1)
		}
	} else {
		rec.Seen("secret_relation", lab+"|"+c.SecretRel)
		if c.SecretVar != "" {
			rec.Seen("secret_variant(carrier,relation,variant,address_parsed_via)", lab+"|"+c.SecretRel+"|"+c.SecretVar+"|"+c.Parse)
		}
	}
	rec.Seen("class(carrier,expected,configuration)", fmt.Sprintf("%s|admit=%v|%s", lab, admit, class))
	exp := "reject"
	if admit {
		exp = "admit"
	}
	rec.Stat("expected_"+exp+":observed_"+obs, 1)
	rec.Stat("cases:"+lab, 1)
	if obs == "admitted" {
		if d, _ := info["probe_delivered"].(bool); d {
			rec.Stat("probe_bytes_delivered_to_target", 1)
		} else {
			rec.Stat("admitted_but_probe_byte_not_seen", 1)
		}
	}
	if obs == "pending" && st != nil {
		st.stalls[sc]++
		if st.stalls[sc] >= 2 {
			st.abandoned[sc] = true
			rec.Note("configuration class abandoned after two stalls", sc)
		}
	}
	switch {
	case admit && obs == "admitted", !admit && obs == "refused":
		return
	case !admit && (obs == "pending" || obs == "setup-failed"):
		return // not admitted; the hanging is C16's business, a server that cannot start admits nobody
	case !admit && obs == "admitted":
		rec.Violation(lab+":admitted-although:"+class, c, info)
	case admit && obs == "refused":
		rec.Violation(lab+":refused-although-acceptable:"+class, c, info)
	case admit && obs == "pending":
		rec.Violation(lab+":refused-although-acceptable:"+class+":stalled", c, info)
	case admit && obs == "setup-failed":
		rec.Violation(lab+":refused-although-acceptable:"+class+":setup-failed", c, info)
	}
}

// ---- case lists -------------------------------------------------------------------------------

func allTLS() []*c05Case {
	var out []*c05Case
	for _, car := range carriers {
		for _, ce := range serverCerts {
			for _, ins := range []bool{false, true} {
				for _, cc := range clientCerts {
					for _, req := range []bool{false, true} {
						for _, h := range hostsOf(car) {
							out = append(out, &c05Case{Kind: "tls", Carrier: car, Cert: ce, Insecure: ins, ClientCert: cc, Require: req, Host: h})
						}
					}
				}
			}
		}
	}
	return out
}

// coreTLS: for every carrier the base configuration and every single deviation from it, so that each
// (carrier, reason class) is decided by a case with exactly one reason.
func coreTLS() []*c05Case {
	var out []*c05Case
	for _, car := range carriers {
		hs := hostsOf(car)
		add := func(ce string, ins bool, cc string, req bool, h string) {
			out = append(out, &c05Case{Kind: "tls", Carrier: car, Cert: ce, Insecure: ins, ClientCert: cc, Require: req, Host: h})
		}
		for _, h := range hs {
			add("Good", false, "none", false, h)
			add("GoodDNS", false, "none", false, h)
			add("IPOnly", false, "none", false, h)
		}
		for _, ce := range []string{"WrongHost", "Untrusted", "Expired"} {
			add(ce, false, "none", false, hs[0])
		}
		add("Good", false, "none", true, hs[0])
		add("Good", false, "foreign", true, hs[0])
		add("Good", false, "foreign-forced", true, hs[0])
		add("Good", false, "own", true, hs[0])
		add("Untrusted", true, "none", false, hs[0])
		if car == secretCarrier {
			// a different secret is not made up for by the insecure flag or by an acceptable client certificate
			out = append(out, &c05Case{Kind: "tls", Carrier: car, Cert: "Good", Insecure: true, ClientCert: "none", Host: hs[0], SecretRel: "different"})
			out = append(out, &c05Case{Kind: "tls", Carrier: car, Cert: "Good", ClientCert: "own", Require: true, Host: hs[0], SecretRel: "different"})
		}
		if !strings.HasPrefix(car, "dns") && !strings.HasPrefix(car, "udp") { // (a host-less udp:// URL has no usable remote address at all)
			add("Good", false, "none", false, "nohost")
			add("Untrusted", false, "none", false, "nohost")
			add("Untrusted", true, "none", false, "nohost")
		}
		// a failed first upstream written with the other host spelling must not influence the verification
		if car == "tcp+tls" || car == "wss" || car == "tcp+starttls" || car == "ws+starttls" {
			for _, h := range hs {
				for _, ce := range []string{"Good", "GoodDNS", "IPOnly", "WrongHost"} {
					out = append(out, &c05Case{Kind: "tls", Carrier: car, Cert: ce, ClientCert: "none", Host: h, Preceded: true})
				}
			}
		}
	}
	return out
}

func factorPairs(c *c05Case) []string {
	f := []string{"car=" + c.Carrier, "cert=" + c.Cert, fmt.Sprintf("ins=%v", c.Insecure), "cc=" + c.ClientCert, fmt.Sprintf("req=%v", c.Require), "host=" + c.Host}
	var out []string
	for i := 0; i < len(f); i++ {
		for j := i + 1; j < len(f); j++ {
			out = append(out, f[i]+"&"+f[j])
		}
	}
	return out
}

// quickTLS = core + a seed-determined greedy pairwise cover of all factor pairs + seed-determined extras.
func quickTLS(seed int64, extra int) []*c05Case {
	rng := vcommon.NewRand(seed, "c05/quick")
	all := allTLS()
	rng.Shuffle(len(all), func(i, j int) { all[i], all[j] = all[j], all[i] })
	chosen := map[string]bool{}
	covered := map[string]bool{}
	var out []*c05Case
	take := func(c *c05Case) {
		if chosen[key(c)] {
			return
		}
		chosen[key(c)] = true
		out = append(out, c)
		for _, p := range factorPairs(c) {
			covered[p] = true
		}
	}
	for _, c := range coreTLS() {
		take(c)
	}
	for n := 0; n < extra; n++ {
		var best *c05Case
		bestGain := -1
		for _, c := range all {
			if chosen[key(c)] {
				continue
			}
			g := 0
			for _, p := range factorPairs(c) {
				if !covered[p] {
					g++
				}
			}
			if g > bestGain {
				best, bestGain = c, g
			}
		}
		if best == nil {
			break
		}
		if alt := altSpelling(best.Carrier); alt != "" && rng.Intn(2) == 1 {
			best.Spelling = alt // (seeded: the pick is written in the carrier's other spelling)
		}
		take(best) // gain 0 once every pair is covered: the shuffled order makes it a seeded random pick
	}
	return out
}

// fillSecrets gives every case of the certificate matrix on the secret-protected UDP carrier its two secrets: one
// seeded mixed-case secret for the run, held by both ends, or (relation "different") another one on the client.
func fillSecrets(list []*c05Case, seed int64) {
	rng := vcommon.NewRand(seed, "c05/secret-carrier")
	base := randomSecret(rng, 12+rng.Intn(9))
	other := randomSecret(rng, len(base))
	for other == base {
		other = randomSecret(rng, len(base))
	}
	for _, c := range list {
		if c.Kind != "tls" || c.Carrier != secretCarrier || c.SrvSecret != "" {
			continue
		}
		c.SrvSecret, c.CliSecret = base, base
		if c.SecretRel == "different" {
			c.CliSecret = other
		} else {
			c.SecretRel = "equal"
		}
	}
}

// secretAlphabet: characters a URL carries literally in its userinfo part (RFC 3986 "unreserved")
const secretAlphabet = "abcdefghijklmnopqrstuvwxyzABCDEFGHIJKLMNOPQRSTUVWXYZ0123456789-._~"

// randomSecret: n characters, of which at least four are lower-case and four are upper-case letters
func randomSecret(rng *rand.Rand, n int) string {
	for {
		b := make([]byte, n)
		lo, up := 0, 0
		for i := range b {
			b[i] = secretAlphabet[rng.Intn(len(secretAlphabet))]
			switch {
			case b[i] >= 'a' && b[i] <= 'z':
				lo++
			case b[i] >= 'A' && b[i] <= 'Z':
				up++
			}
		}
		if lo >= 4 && up >= 4 {
			return string(b)
		}
	}
}

func swapCase(b byte) byte {
	switch {
	case b >= 'a' && b <= 'z':
		return b - 'a' + 'A'
	case b >= 'A' && b <= 'Z':
		return b - 'A' + 'a'
	}
	return b
}

// secretCases: the four basic relations with fixed secrets, then NEAR MISSES of a seeded mixed-case secret (the
// client holds something that any normalisation - letter case, length, blanks - would make equal to the server's
// secret, but that is a different secret), then equal secrets of the same shapes. Cases that are expected to be
// refused hang until the client's handshake timeout: they come first, so that they spread over the shards.
func secretCases(seed int64) []*c05Case {
	var out []*c05Case
	for _, car := range []string{"udp", "udp+starttls"} {
		for _, r := range []struct{ rel, s, c string }{
			{"equal", "s3cret-of-the-run", "s3cret-of-the-run"},
			{"different", "s3cret-of-the-run", "s3cret-of-the-rum"},
			{"missing-on-client", "s3cret-of-the-run", ""},
			{"missing-on-server", "", "s3cret-of-the-run"},
		} {
			out = append(out, &c05Case{Kind: "secret", Carrier: car, Cert: "Good", ClientCert: "none", Host: "127.0.0.1",
				SrvSecret: r.s, CliSecret: r.c, SecretRel: r.rel})
		}
	}
	rng := vcommon.NewRand(seed, "c05/secrets")
	type variant struct{ rel, name, s, c string }
	var miss, same []*c05Case
	for _, car := range []string{"udp", "udp+starttls"} {
		base := randomSecret(rng, 12+rng.Intn(9))
		long := randomSecret(rng, 80)
		// one letter of base in the other case
		one := []byte(base)
		for {
			i := rng.Intn(len(one))
			if swapCase(one[i]) != one[i] {
				one[i] = swapCase(one[i])
				break
			}
		}
		// long secret whose last character differs (a derivation that looks at a prefix only would not see it)
		tail := []byte(long)
		for tail[len(tail)-1] == long[len(long)-1] {
			tail[len(tail)-1] = secretAlphabet[rng.Intn(len(secretAlphabet))]
		}
		for _, v := range []variant{
			{"case-only", "client-all-lower", base, strings.ToLower(base)},
			{"case-only", "client-all-upper", base, strings.ToUpper(base)},
			{"case-only", "server-all-lower", strings.ToLower(base), base},
			{"case-only", "one-letter", base, string(one)},
			{"proper-prefix", "client-one-shorter", base, base[:len(base)-1]},
			{"proper-prefix", "client-one-longer", base, base + string(secretAlphabet[rng.Intn(len(secretAlphabet))])},
			{"long-differs-at-end", "80-characters", long, string(tail)},
			{"blank-padded", "client-trailing-blank", base, base + " "},
			{"equal", "mixed-case", base, base},
			{"equal", "80-characters", long, long},
		} {
			c := &c05Case{Kind: "secret", Carrier: car, Cert: "Good", ClientCert: "none", Host: "127.0.0.1",
				SrvSecret: v.s, CliSecret: v.c, SecretRel: v.rel, SecretVar: v.name}
			if rng.Intn(2) == 1 {
				c.Parse = "json"
			}
			if v.rel == "equal" {
				same = append(same, c)
			} else {
				miss = append(miss, c)
			}
		}
	}
	out = append(out, miss...)
	return append(out, same...)
}

// ---- the other spelling of the upstream address -----------------------------------------------------

// spelledAll: the whole matrix once more on every carrier whose upstream address has a second accepted spelling
func spelledAll() []*c05Case {
	var out []*c05Case
	for _, c := range allTLS() {
		if alt := altSpelling(c.Carrier); alt != "" {
			c.Spelling = alt
			out = append(out, c)
		}
	}
	return out
}

// spelledCore: per such carrier the base configuration and the single deviations, in the other spelling. (The
// machine's trust store holds the foreign CA, so "Untrusted" is a server that the machine trusts and the client must not.)
func spelledCore() []*c05Case {
	var out []*c05Case
	for _, car := range carriers {
		alt := altSpelling(car)
		if alt == "" {
			continue
		}
		hs := hostsOf(car)
		add := func(ce string, ins bool, cc string, req bool, h string) {
			out = append(out, &c05Case{Kind: "tls", Carrier: car, Cert: ce, Insecure: ins, ClientCert: cc, Require: req, Host: h, Spelling: alt})
		}
		for _, h := range hs {
			add("Good", false, "none", false, h)
		}
		add("Untrusted", false, "none", false, hs[0])
		add("WrongHost", false, "none", false, hs[0])
		add("Untrusted", true, "none", false, hs[0])
		add("Good", false, "own", true, hs[0])
		add("Good", false, "none", true, hs[0])
		add("Good", false, "foreign-forced", true, hs[0])
	}
	return out
}

// ---- own certificates that carry a chain -------------------------------------------------------------

var clientChains = map[string][]string{
	"none":           {""},
	"own":            {"", "leaf+issuer"}, // (own through an intermediate: not decided by the property, left out)
	"foreign":        {"", "leaf+issuer", "via-intermediate"},
	"foreign-forced": {"", "leaf+issuer", "via-intermediate"},
}

// chainAll: contents of the server's own certificate x contents of the client's own certificate (not both the leaf
// alone) x server certificate {Good, Untrusted} x insecure x client certificate x require, on the first host spelling
// of every carrier; a seeded half of the chains is given by file (certificateFile). The issuer that comes with
// "Untrusted" / "foreign" material is the foreign CA (or its intermediate): the peers "foreign" / "Untrusted" are
// certified by exactly that issuer.
func chainAll(seed int64) []*c05Case {
	rng := vcommon.NewRand(seed, "c05/chains")
	var out []*c05Case
	for _, car := range carriers {
		for _, sch := range []string{"", "leaf+issuer", "via-intermediate"} {
			for _, ce := range []string{"Good", "Untrusted"} {
				for _, ins := range []bool{false, true} {
					for _, cc := range clientCerts {
						for _, cch := range clientChains[cc] {
							for _, req := range []bool{false, true} {
								if sch == "" && cch == "" {
									continue
								}
								c := &c05Case{Kind: "tls", Carrier: car, Cert: ce, Insecure: ins, ClientCert: cc, Require: req,
									Host: hostsOf(car)[0], ServerChain: sch, ClientChain: cch}
								if sch != "" && rng.Intn(2) == 1 {
									c.ServerCertBy = "file"
								}
								if cch != "" && cc != "foreign-forced" && rng.Intn(2) == 1 {
									c.ClientCertBy = "file"
								}
								out = append(out, c)
							}
						}
					}
				}
			}
		}
	}
	return out
}

// chainCore: per carrier, each kind of chain once with a peer it has to let in, and the two configurations in which
// the issuer that an endpoint carries along with its own certificate is NOT the CA it is configured to trust, with a
// peer certified by that issuer (which has to stay out).
func chainCore() []*c05Case {
	var out []*c05Case
	for _, car := range carriers {
		h := hostsOf(car)[0]
		add := func(ce, sch, sby string, ins bool, cc, cch, cby string, req bool) {
			out = append(out, &c05Case{Kind: "tls", Carrier: car, Cert: ce, Insecure: ins, ClientCert: cc, Require: req, Host: h,
				ServerChain: sch, ServerCertBy: sby, ClientChain: cch, ClientCertBy: cby})
		}
		add("Good", "leaf+issuer", "file", false, "none", "", "", false)
		add("Good", "via-intermediate", "", false, "none", "", "", false)
		add("Untrusted", "via-intermediate", "file", false, "none", "", "", false)
		add("Good", "", "", false, "own", "leaf+issuer", "file", true)
		// server: certificate file = leaf + the foreign CA that issued it, configured CA = CA one, requires client certificates;
		// the client runs insecure (so that it is the server's decision that is observed) and holds a foreign-CA certificate
		add("Untrusted", "leaf+issuer", "file", true, "foreign", "", "", true)
		// client: certificate file = leaf + the foreign CA that issued it, configured CA = CA one; server of the foreign CA
		add("Untrusted", "", "", false, "foreign", "leaf+issuer", "file", false)
	}
	return out
}

// quickChains = chainCore + n seeded picks of chainAll
func quickChains(seed int64, n int) []*c05Case {
	out := chainCore()
	chosen := map[string]bool{}
	for _, c := range out {
		chosen[key(c)] = true
	}
	all := chainAll(seed)
	rng := vcommon.NewRand(seed, "c05/chain-picks")
	rng.Shuffle(len(all), func(i, j int) { all[i], all[j] = all[j], all[i] })
	for _, c := range all {
		if n == 0 {
			break
		}
		if !chosen[key(c)] {
			chosen[key(c)] = true
			out = append(out, c)
			n--
		}
	}
	return out
}

// ---- trust anchors: CA given by file, or not given at all -----------------------------------------

var anchorCombos = [][2]string{{"none", ""}, {"file", ""}, {"", "none"}, {"", "file"}, {"none", "none"}, {"file", "file"},
	{"bundle-last", ""}, {"", "bundle-last"}, {"bundle-first", "bundle-first"}, {"file-bundle-middle", "file-bundle-middle"}}

// anchorAll: (server CA, client CA) not both default x server certificate {Good, Untrusted} x insecure x client
// certificate x require, on the first host spelling of every carrier; configurations the property does not decide
// are left out.
func anchorAll() []*c05Case {
	var out []*c05Case
	for _, car := range carriers {
		for _, ac := range anchorCombos {
			for _, ce := range []string{"Good", "Untrusted"} {
				for _, ins := range []bool{false, true} {
					for _, cc := range clientCerts {
						for _, req := range []bool{false, true} {
							c := &c05Case{Kind: "tls", Carrier: car, Cert: ce, Insecure: ins, ClientCert: cc, Require: req,
								Host: hostsOf(car)[0], ServerCA: ac[0], ClientCA: ac[1]}
							if _, _, ok := model(c); ok {
								out = append(out, c)
							}
						}
					}
				}
			}
		}
	}
	return out
}

// anchorCore: per carrier, every single deviation of the trust-anchor configuration together with the peers it
// has to keep out (and one it has to let in, which shows that the endpoint works at all).
func anchorCore() []*c05Case {
	var out []*c05Case
	for _, car := range carriers {
		h := hostsOf(car)[0]
		add := func(sca, cca, ce string, ins bool, cc string, req bool) {
			out = append(out, &c05Case{Kind: "tls", Carrier: car, Cert: ce, Insecure: ins, ClientCert: cc, Require: req, Host: h, ServerCA: sca, ClientCA: cca})
		}
		// server entry without a CA
		add("none", "", "Good", false, "none", true)
		add("none", "", "Good", false, "own", true)
		add("none", "", "Good", false, "none", false)
		// client without a CA
		add("", "none", "Good", false, "none", false)
		add("", "none", "Good", true, "none", false)
		// CA by file, either side
		add("file", "", "Good", false, "own", true)
		add("file", "", "Good", false, "none", true)
		add("file", "", "Good", false, "foreign-forced", true)
		add("", "file", "Good", false, "none", false)
		add("", "file", "Untrusted", false, "none", false)
		// a bundle of CA certificates: CA one is the configured CA wherever it stands, the others let nobody else in
		add("", "bundle-last", "Good", false, "none", false)
		add("", "bundle-last", "Untrusted", false, "none", false)
		add("bundle-last", "", "Good", false, "own", true)
		add("bundle-last", "", "Good", false, "foreign-forced", true)
		add("bundle-first", "bundle-first", "Good", false, "own", true)
		add("file-bundle-middle", "file-bundle-middle", "Good", false, "own", true)
	}
	return out
}

// quickAnchors = anchorCore + n seeded picks of anchorAll
func quickAnchors(seed int64, n int) []*c05Case {
	out := anchorCore()
	chosen := map[string]bool{}
	for _, c := range out {
		chosen[key(c)] = true
	}
	all := anchorAll()
	rng := vcommon.NewRand(seed, "c05/anchors")
	rng.Shuffle(len(all), func(i, j int) { all[i], all[j] = all[j], all[i] })
	for _, c := range all {
		if n == 0 {
			break
		}
		if !chosen[key(c)] {
			chosen[key(c)] = true
			out = append(out, c)
			n--
		}
	}
	return out
}

func TestVerifC05(t *testing.T) {
	if os.Getenv("VERIF_C05_LOG") == "" { // VERIF_C05_LOG=1 VERIF_KEEP=1: socketace's own log goes to <child>.log
		e2e.Quiet()
	} else {
		logrus.SetLevel(logrus.DebugLevel)
	}
	rec := vcommon.Open()
	defer rec.Close()
	// The machine's own trust store contains the FOREIGN CA (as if the peer's certificate had been issued by a
	// public authority): a client configured with a CA must still trust only that CA, and a server must still
	// admit only client certificates of its own CA. (Go reads SSL_CERT_FILE/SSL_CERT_DIR at first use.)
	if tmp := os.Getenv("VERIF_TMP"); tmp != "" {
		sys := filepath.Join(tmp, fmt.Sprintf("system-trust-%d.pem", os.Getpid()))
		if err := os.WriteFile(sys, []byte(e2e.GetC05PKI().CA2), 0644); err == nil {
			os.Setenv("SSL_CERT_FILE", sys)
			os.Setenv("SSL_CERT_DIR", filepath.Join(tmp, "no-such-dir"))
			rec.Seen("system_trust_store", "contains the foreign CA only")
		}
	}
	if rec.Replay != nil {
		var c c05Case
		if err := json.Unmarshal(rec.Replay, &c); err != nil {
			t.Fatal(err)
		}
		runCase(rec, nil, &c)
		return
	}
	var tls []*c05Case
	if rec.Thorough() {
		tls = allTLS()
		for _, c := range coreTLS() {
			if c.Preceded || c.Host == "nohost" || c.SecretRel == "different" {
				tls = append(tls, c)
			}
		}
		tls = append(tls, anchorAll()...)
		tls = append(tls, spelledAll()...)
		tls = append(tls, chainAll(rec.Seed())...)
	} else {
		tls = quickTLS(rec.Seed(), 100)
		tls = append(tls, quickAnchors(rec.Seed(), 30)...)
		tls = append(tls, spelledCore()...)
		tls = append(tls, quickChains(rec.Seed(), 20)...)
	}
	fillSecrets(tls, rec.Seed())
	if v := os.Getenv("VERIF_CARRIERS"); v != "" {
		var f []*c05Case
		for _, c := range tls {
			for _, w := range strings.Split(v, ",") {
				if c.Carrier == w {
					f = append(f, c)
				}
			}
		}
		tls = f
	}
	// DNS cases get their own shards (one DNS server per process at a time, and they are the slow part);
	// the shared-secret cases come first so that the ones that are expected to hang spread over the shards.
	var plain, dns []*c05Case
	if os.Getenv("VERIF_CARRIERS") == "" {
		plain = append(plain, secretCases(rec.Seed())...)
	}
	for _, c := range tls {
		// (a different secret on the secret-protected carrier costs a whole stall window, like the shared-secret cases
		// that are expected to hang; the DNS shards finish first in the quick tier, so the two cases go there)
		if strings.HasPrefix(c.Carrier, "dns") || (c.Kind == "tls" && c.SrvSecret != c.CliSecret) {
			dns = append(dns, c)
		} else {
			plain = append(plain, c)
		}
	}
	S := rec.Shards()
	D := S / 4
	st := &runState{stalls: map[string]int{}, abandoned: map[string]bool{}}
	if D == 0 {
		for i, c := range append(plain, dns...) {
			if rec.Mine(i) {
				runCase(rec, st, c)
			}
		}
		return
	}
	for j, c := range plain {
		if rec.Mine(j/(S-D)*S + j%(S-D)) {
			runCase(rec, st, c)
		}
	}
	for k, c := range dns {
		if rec.Mine(k/D*S + (S - D) + k%D) {
			runCase(rec, st, c)
		}
	}
}
