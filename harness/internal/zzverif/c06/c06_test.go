// C06: Session handshake admits exactly well-formed, compatible peers (DESIGN.md §4 C06).
//
// The real socketace.NewServerConnection / NewClientConnection are driven over a segmenting
// connection. Oracles: (1) no panic, (2) segmentation invariance of (session?, status/request lines
// written, bytes handed to the next layer), (3) reference grammar for generator-produced inputs and
// the one-way implication "session => the bytes are a proper announce + upgrade" for arbitrary
// ones, (4) read-ahead: what follows the upgrade comes out of the returned connection unchanged,
// (5) several handshakes served at the same time in one process: each one ends as it does alone
// (concurrent_test.go).
package c06

import (
	"bufio"
	"bytes"
	"crypto/ecdsa"
	"crypto/elliptic"
	crand "crypto/rand"
	"crypto/sha1"
	"crypto/tls"
	"crypto/x509"
	"crypto/x509/pkix"
	"encoding/hex"
	"encoding/json"
	"encoding/pem"
	"fmt"
	"io"
	"math/big"
	"math/rand"
	"net"
	"net/textproto"
	"os"
	"strconv"
	"strings"
	"testing"
	"time"

	"github.com/bokysan/socketace/v2/internal/version"
	"github.com/bokysan/socketace/v2/internal/zzverif/vcommon"
	"github.com/sirupsen/logrus"
)

type harness struct {
	t       *testing.T
	rec     *vcommon.Rec
	certPEM string
	keyPEM  string
	tlsCert tls.Certificate
	ws      *wsRig
}

// caseDesc is the replayable descriptor of one case.
type caseDesc struct {
	Role      string  `json:"role"`
	Family    string  `json:"family"`
	Item      int     `json:"item"`
	Transport string  `json:"transport"` // scripted | websocket | live-tls
	Cfg       cfg     `json:"cfg"`
	Input     string  `json:"input_hex"`
	InputText string  `json:"input_text,omitempty"` // first bytes, quoted, for the reader
	Split     string  `json:"split,omitempty"`
	Cuts      []int   `json:"cuts,omitempty"`
	Expect    *expect `json:"expect,omitempty"`
	App       string  `json:"app_hex,omitempty"` // live-tls: bytes sent through the TLS session
	Pipelined bool    `json:"pipelined,omitempty"`
	// family "concurrent" (concurrent_test.go): the handshakes of Group are served at the same time
	Theme   string   `json:"theme,omitempty"`
	Group   []member `json:"group,omitempty"`
	Workers int      `json:"workers,omitempty"`
	Rounds  int      `json:"rounds,omitempty"`
	Member  *int     `json:"member,omitempty"` // index in Group of the handshake whose outcome differed
}

type split struct {
	Name string
	Cuts []int
}

func (h *harness) splits(in []byte, r *rand.Rand) []split {
	n := len(in)
	all := make([]int, 0, n)
	for i := 1; i < n; i++ {
		all = append(all, i)
	}
	var after, before []int
	for i, b := range in {
		if b == '\r' || b == '\n' {
			after = append(after, i+1)
			before = append(before, i)
		}
	}
	random := func() []int {
		var c []int
		if n < 2 {
			return c
		}
		k := 1 + r.Intn(6)
		if r.Intn(3) == 0 {
			k = 1 + r.Intn(n/3+1)
		}
		m := map[int]bool{}
		for i := 0; i < k; i++ {
			m[1+r.Intn(n-1)] = true
		}
		for i := 1; i < n; i++ {
			if m[i] {
				c = append(c, i)
			}
		}
		return c
	}
	chunk := func(sz int) []int {
		var c []int
		for i := sz; i < n; i += sz {
			c = append(c, i)
		}
		return c
	}
	s := []split{{"whole", nil}, {"dribble", all}, {"crlf", after}, {"random", random()}}
	if h.rec.Thorough() {
		s = append(s, split{"before-crlf", before}, split{"random2", random()}, split{"chunk4096", chunk(4096)}, split{"chunk7", chunk(7)})
	}
	return s
}

func quoteHead(b []byte) string {
	if len(b) > 200 {
		return strconv.Quote(string(b[:200])) + fmt.Sprintf("...(%d bytes)", len(b))
	}
	return strconv.Quote(string(b))
}

func (h *harness) setTrace(on bool) {
	logrus.SetOutput(io.Discard)
	if on {
		logrus.SetLevel(logrus.TraceLevel)
	} else {
		logrus.SetLevel(logrus.PanicLevel)
	}
}

// watchdog runs f; false means f did not return within the (generous) limit.
func watchdog(limit time.Duration, f func()) bool {
	done := make(chan struct{})
	go func() { defer close(done); f() }()
	t := time.NewTimer(limit)
	defer t.Stop()
	select {
	case <-done:
		return true
	case <-t.C:
		return false
	}
}

func (h *harness) runScripted(role string, c cfg, in []byte, cuts []int, readMode int) *obs {
	conn := newSegConn(in, cuts)
	conn.eofWithData = readMode%2 == 1 && cuts != nil
	return h.runRole(role, conn, conn, c, readMode)
}

func sameLines(a, b []string) bool {
	if len(a) != len(b) {
		return false
	}
	for i := range a {
		if a[i] != b[i] {
			return false
		}
	}
	return true
}

// diffObs names the first component of the compared triple that differs ("" = identical).
func diffObs(a, b *obs) string {
	switch {
	case a.Panicked || b.Panicked:
		return ""
	case a.Session != b.Session:
		return "session-differs"
	case !sameLines(a.Lines, b.Lines):
		return "status-sequence-differs"
	case !bytes.Equal(a.Handed, b.Handed):
		return "next-layer-bytes-differ"
	}
	return ""
}

// structure of a byte string as a sequence of two header blocks, found without net/textproto
type layout struct{ line1, block1, line2, block2 int } // end offsets (exclusive); -1 = not present

func layoutOf(in []byte) layout {
	l := layout{-1, -1, -1, -1}
	pos := 0
	block := func() (int, int) { // end of the first line, end of the block (after the blank line)
		first := -1
		p := pos
		for p < len(in) {
			nl := bytes.IndexByte(in[p:], '\n')
			if nl < 0 {
				return first, -1
			}
			lineLen := nl
			if lineLen > 0 && in[p+nl-1] == '\r' {
				lineLen--
			}
			p += nl + 1
			if first < 0 {
				first = p
				continue
			}
			if lineLen == 0 {
				return first, p
			}
		}
		return first, -1
	}
	l.line1, l.block1 = block()
	if l.block1 >= 0 {
		pos = l.block1
		l.line2, l.block2 = block()
	}
	return l
}

func cutClass(in []byte, k int, role string) string {
	l := layoutOf(in)
	first, second := "request-line", "upgrade"
	if role == "client" {
		first, second = "status-line", "second-response"
	}
	if k > 0 && k < len(in) && in[k-1] == '\r' && in[k] == '\n' {
		return "cut-inside-crlf"
	}
	switch {
	case l.line1 < 0 || k < l.line1:
		return "cut-inside-" + first
	case k == l.line1:
		return "cut-after-" + first
	case l.block1 < 0 || k < l.block1:
		return "cut-inside-first-headers"
	case k == l.block1:
		return "cut-at-message-boundary"
	case l.line2 < 0 || k <= l.line2:
		return "cut-inside-" + second + "-line"
	case l.block2 < 0 || k < l.block2:
		return "cut-inside-" + second + "-headers"
	case k == l.block2:
		return "cut-at-end-of-handshake"
	}
	return "cut-in-next-layer-bytes"
}

// parsed is the harness's own reading of the peer's byte string (net/textproto, as the design says).
type parsed struct {
	ok   [2]bool
	line [2]string
	hdr  [2]textproto.MIMEHeader
	rest []byte
}

func indepParse(in []byte) *parsed {
	p := &parsed{}
	src := bytes.NewReader(in)
	br := bufio.NewReaderSize(src, 1<<16)
	for i := 0; i < 2; i++ {
		tp := textproto.NewReader(br)
		line, err := tp.ReadLine()
		if err != nil {
			return p
		}
		hdr, err := tp.ReadMIMEHeader()
		if err != nil {
			return p
		}
		p.ok[i], p.line[i], p.hdr[i] = true, line, hdr
	}
	p.rest = in[len(in)-br.Buffered()-src.Len():]
	return p
}

func listHas(vals []string, want string, fold bool) bool {
	for _, v := range vals {
		for _, e := range strings.Split(v, ",") {
			e = strings.TrimSpace(e)
			if e == want || (fold && strings.EqualFold(e, want)) {
				return true
			}
		}
	}
	return false
}

func statusOf(line string) (int, bool) {
	f := strings.Split(line, " ")
	if len(f) < 3 {
		return 0, false
	}
	n, err := strconv.ParseInt(f[1], 10, 32)
	return int(n), err == nil
}

// implication: a session was established => the bytes were a proper handshake. Returns the
// clause that is missing ("" = fine).
func implication(role string, c cfg, p *parsed, o *obs) string {
	if !p.ok[0] {
		return "session-without-parsable-first-message"
	}
	if !p.ok[1] {
		return "session-without-parsable-second-message"
	}
	if role == "server" {
		f := strings.Split(p.line[0], " ")
		if len(f) < 3 || f[0] != "X-SOCKETACE" {
			return "session-without-announce-method"
		}
		if !listHas(p.hdr[0]["Accepts-Protocol-Version"], pv, false) {
			return "session-without-supported-version-offered"
		}
		f = strings.Split(p.line[1], " ")
		if len(f) < 3 || f[0] != "GET" {
			return "session-without-GET-upgrade"
		}
		if !listHas(p.hdr[1]["Connection"], "upgrade", true) {
			return "session-without-connection-upgrade"
		}
		if p.hdr[1].Get("Upgrade") != "socketace/"+pv {
			return "session-without-negotiated-token"
		}
		if o.Tech == "tls" && !(c.Cert && !c.Secure && strings.EqualFold(p.hdr[1].Get("Security"), "StartTLS")) {
			return "tls-session-without-starttls-request"
		}
		return ""
	}
	if n, ok := statusOf(p.line[0]); !ok || n != 200 {
		return "session-without-200"
	}
	if n, ok := statusOf(p.line[1]); !ok || n != 101 {
		return "session-without-101"
	}
	return ""
}

// negotiated: whatever the input, a 200 the server writes must name a version the client offered
// and the server supports; a 101 must name the same token.
func negotiatedClause(p *parsed, o *obs) string {
	for _, m := range o.Msgs {
		switch {
		case strings.HasPrefix(m.Line, "HTTP/1.1 200"):
			v := m.Hdr.Get("Protocol-Version")
			if v != pv || !p.ok[0] || !listHas(p.hdr[0]["Accepts-Protocol-Version"], v, false) {
				return "200-names-version-not-offered-or-unsupported"
			}
		case strings.HasPrefix(m.Line, "HTTP/1.1 101"):
			if m.Hdr.Get("Upgrade") != "socketace/"+pv {
				return "101-names-wrong-token"
			}
		}
	}
	return ""
}

func codesString(o *obs) string {
	var s []string
	for _, c := range o.codes() {
		s = append(s, strconv.Itoa(c))
	}
	r := strings.Join(s, ",")
	if r == "" {
		r = "none"
	}
	if o.Session {
		r += "+session"
	}
	return r
}

// modelCheck compares an observation with the model's prediction; "" = as predicted.
func modelCheck(role string, e *expect, in []byte, o *obs) string {
	if e == nil || e.Unspec {
		return ""
	}
	if role == "client" {
		if !sameLines(o.Lines, e.Lines) {
			return fmt.Sprintf("requests-written=%d-expected=%d", len(o.Lines), len(e.Lines))
		}
		if o.Session != e.Session {
			return fmt.Sprintf("session=%v", o.Session)
		}
	} else {
		codes := o.codes()
		bad := "observed=" + codesString(o)
		if len(codes) < len(e.Codes) {
			return bad
		}
		for i, c := range e.Codes {
			if codes[i] != c {
				return bad
			}
		}
		rest := codes[len(e.Codes):]
		switch e.Tail {
		case "":
			if len(rest) != 0 {
				return bad
			}
		case "opt-error":
			if len(rest) > 1 || (len(rest) == 1 && rest[0] < 400) {
				return bad
			}
		case "one-of":
			// The statement asks for "an error status or a close, and no session": WHICH error status a
			// deviation gets (405 for a wrong method, 409 for no common version, 406, 503 ...) is the
			// implementation's choice, so any one status >= 400, or none, is accepted here. The set the
			// current code uses is only recorded (evidence: status sequences seen).
			if len(rest) > 1 || (len(rest) == 1 && rest[0] < 400) {
				return bad
			}
		}
		if o.Session != e.Session {
			return bad
		}
	}
	if e.Session && o.Tech != "tls" && !bytes.Equal(o.Handed, in[e.Trail:]) {
		return "next-layer-bytes-not-as-sent"
	}
	return ""
}

func readAheadKind(got, want []byte) string {
	switch {
	case len(got) < len(want) && bytes.HasPrefix(want, got):
		return "tail-lost"
	case len(got) < len(want) && bytes.HasSuffix(want, got):
		return "head-lost"
	case len(got) > len(want):
		return "extra-bytes"
	case len(got) < len(want):
		return "bytes-lost"
	}
	return "bytes-altered"
}

func describeObs(o *obs) map[string]interface{} {
	hs := sha1.Sum(o.Handed)
	return map[string]interface{}{"session": o.Session, "lines": o.Lines, "handed_len": len(o.Handed), "handed_sha1": hex.EncodeToString(hs[:8]),
		"handed_head": quoteHead(o.Handed), "err": o.Err, "read_err": o.ReadErr, "tech": o.Tech, "binary_writes": o.Binary, "panic": o.Val}
}

// checkString runs one byte string under every split on the scripted conn and applies all oracles.
func (h *harness) checkString(d caseDesc, in []byte, extra *split) *obs {
	rec := h.rec
	role := d.Role
	d.Input = hex.EncodeToString(in)
	d.InputText = quoteHead(in)
	d.Transport = "scripted"
	h.setTrace(d.Cfg.Trace)
	sum := sha1.Sum(in)
	key := fmt.Sprintf("%s/%+v/%x", role, d.Cfg, sum[:10])
	r := vcommon.NewRand(rec.Seed(), "c06/split/"+key)
	sp := h.splits(in, r)
	if extra != nil {
		sp = append(sp, *extra)
	}
	var base *obs
	for si, s := range sp {
		cd := d
		cd.Split = s.Name
		if len(s.Cuts) <= 4096 {
			cd.Cuts = s.Cuts
		}
		o := h.runScripted(role, d.Cfg, in, s.Cuts, d.Item+si)
		rec.Case(key+"/"+s.Name, len(o.Lines) > 0 || o.Session)
		rec.Stat("bytes_delivered", int64(len(in)))
		if o.Panicked {
			rec.Violation(fmt.Sprintf("%s:panic@%s", role, o.Site), cd, describeObs(o))
			if base == nil {
				base = o
			}
			continue
		}
		if si == 0 {
			base = o
			continue
		}
		if what := diffObs(base, o); what != "" {
			cls := "multi-cut:" + s.Name
			// look for one single cut that already makes the difference
			cand := s.Cuts
			if len(cand) > 3000 {
				cand = cand[:3000]
			}
			for _, k := range cand {
				o1 := h.runScripted(role, d.Cfg, in, []int{k}, d.Item)
				if diffObs(base, o1) != "" {
					cls = cutClass(in, k, role)
					cd.Split, cd.Cuts = "single-cut", []int{k}
					break
				}
			}
			rec.Violation(fmt.Sprintf("%s:segmentation:%s:%s", role, what, cls), cd,
				map[string]interface{}{"whole": describeObs(base), "split": describeObs(o)})
		}
	}
	if base == nil || base.Panicked {
		return base
	}
	o := base
	d.Split = "whole"
	rec.Stat(role+"_outcome:"+codesStringRole(role, o), 1)
	if o.Session {
		rec.Stat(role+"_sessions", 1)
		rec.Stat("next_layer_bytes_compared", int64(len(o.Handed)))
	}
	p := indepParse(in)
	if role == "client" && o.Session && p.ok[0] && p.hdr[0].Get("Protocol-Version") != pv {
		// not covered by the statement (it constrains what a server admits); recorded for the report
		rec.Stat("observation:client_session_although_server_named_unsupported_or_no_version", 1)
	}
	// (3) model for generator-produced inputs
	if d.Expect != nil && !d.Expect.Unspec {
		rec.Stat("model_predictions_checked", 1)
		rec.Seen(role+"_model_class", d.Expect.Class)
		if d.Expect.Session && !bytes.Equal(p.rest, in[d.Expect.Trail:]) {
			h.t.Errorf("harness: independent parse and generator disagree on the end of the handshake: %s", d.InputText)
		}
		if bad := modelCheck(role, d.Expect, in, o); bad != "" {
			rec.Violation(fmt.Sprintf("%s:model:%s:%s", role, d.Expect.Class, bad), d, describeObs(o))
		}
	} else {
		rec.Stat("implication_only_inputs", 1)
	}
	// (3) implication for every input
	if o.Session {
		if miss := implication(role, d.Cfg, p, o); miss != "" {
			rec.Violation(fmt.Sprintf("%s:implication:%s:%s", role, miss, d.Family), d, describeObs(o))
		} else if o.Tech != "tls" && (o.ReadErr != "" || !bytes.Equal(o.Handed, p.rest)) {
			// (4) read-ahead
			kind := "read-error"
			if o.ReadErr == "" {
				kind = readAheadKind(o.Handed, p.rest)
			}
			rec.Violation(fmt.Sprintf("%s:read-ahead:%s:scripted", role, kind), d,
				map[string]interface{}{"observed": describeObs(o), "expected_len": len(p.rest), "expected_head": quoteHead(p.rest)})
		}
	}
	if role == "server" {
		if bad := negotiatedClause(p, o); bad != "" {
			rec.Violation(fmt.Sprintf("%s:negotiation:%s", role, bad), d, describeObs(o))
		}
	}
	rec.Sample(map[string]interface{}{"role": role, "family": d.Family, "input": d.InputText, "cfg": d.Cfg, "splits": len(sp), "observed": describeObs(o)})
	return base
}

func codesStringRole(role string, o *obs) string {
	if role == "server" {
		return codesString(o)
	}
	return fmt.Sprintf("requests=%d,session=%v", len(o.Lines), o.Session)
}

// ---- certificate ---------------------------------------------------------------------------------

func (h *harness) makeCert() {
	key, err := ecdsa.GenerateKey(elliptic.P256(), crand.Reader)
	if err != nil {
		h.t.Fatal(err)
	}
	tpl := &x509.Certificate{
		SerialNumber: big.NewInt(1), Subject: pkix.Name{CommonName: "localhost"},
		NotBefore: time.Now().Add(-time.Hour), NotAfter: time.Now().Add(24 * time.Hour),
		KeyUsage: x509.KeyUsageDigitalSignature | x509.KeyUsageCertSign, ExtKeyUsage: []x509.ExtKeyUsage{x509.ExtKeyUsageServerAuth},
		BasicConstraintsValid: true, IsCA: true, DNSNames: []string{"localhost"}, IPAddresses: []net.IP{net.ParseIP("127.0.0.1")},
	}
	der, err := x509.CreateCertificate(crand.Reader, tpl, tpl, &key.PublicKey, key)
	if err != nil {
		h.t.Fatal(err)
	}
	kb, err := x509.MarshalPKCS8PrivateKey(key)
	if err != nil {
		h.t.Fatal(err)
	}
	h.certPEM = string(pem.EncodeToMemory(&pem.Block{Type: "CERTIFICATE", Bytes: der}))
	h.keyPEM = string(pem.EncodeToMemory(&pem.Block{Type: "PRIVATE KEY", Bytes: kb}))
	h.tlsCert, err = tls.X509KeyPair([]byte(h.certPEM), []byte(h.keyPEM))
	if err != nil {
		h.t.Fatal(err)
	}
}

func randCfg(r *rand.Rand, role string) cfg {
	c := cfg{Trace: r.Intn(8) == 0}
	if role == "server" {
		switch r.Intn(4) {
		case 0:
		case 1:
			c.Manager = true
		default:
			c.Manager, c.Cert = true, true
		}
		c.Secure = r.Intn(5) == 0
	} else {
		c.ClientMgr = []string{"", "insecure", "ca"}[r.Intn(3)]
		c.Host = "localhost"
		c.Secure = r.Intn(4) == 0
	}
	return c
}

// ---- the fixed base messages that are mutated -----------------------------------------------------

type base struct {
	in       []byte
	a, u     int // end of first / second message
	cfg      cfg
	startTLS bool
}

func serverBases(thorough bool) []base {
	mk := func(a, u, t string, c cfg) base {
		return base{in: []byte(a + u + t), a: len(a), u: len(a) + len(u), cfg: c}
	}
	bs := []base{
		mk("X-SOCKETACE / HTTP/1.1\r\nAccepts-Protocol-Version: v2.0.0\r\nUser-Agent: socketace/unknown\r\n\r\n",
			"GET / HTTP/1.1\r\nConnection: upgrade\r\nUpgrade: socketace/v2.0.0\r\nUser-Agent: socketace/unknown\r\n\r\n",
			"TRAILING\x00\x01\xff-bytes\r\n", cfg{}),
		mk("X-SOCKETACE / HTTP/1.1\naccepts-protocol-version: v1.0.0, v2.0.0\nX-Extra: 1\n\n",
			"GET /x HTTP/1.0\nUpgrade:socketace/v2.0.0\nCONNECTION: Upgrade\n\n",
			"GET / HTTP/1.1\r\nConnection: upgrade\r\n\r\n", cfg{Manager: true, Cert: true}),
	}
	if thorough {
		bs = append(bs,
			mk("X-SOCKETACE / HTTP/1.1\r\nAccepts-Protocol-Version: v2.0.0\r\n\r\n",
				"GET / HTTP/1.1\r\nConnection: upgrade\r\nUpgrade: socketace/v2.0.0\r\nSecurity: none\r\n\r\n", "", cfg{Secure: true, Manager: true, Cert: true}),
			mk("X-SOCKETACE /p HTTP/1.1\r\nUser-Agent: a\r\nAccepts-Protocol-Version:v3.0.0,v2.0.0\r\n\r\n",
				"GET / HTTP/1.1\r\nUpgrade: socketace/v2.0.0\r\nConnection: UPGRADE\r\n\r\n", strings.Repeat("\r\n", 40), cfg{Manager: true}))
	}
	return bs
}

func clientBases(thorough bool) []base {
	mk := func(a, u, t string, c cfg) base {
		return base{in: []byte(a + u + t), a: len(a), u: len(a) + len(u), cfg: c}
	}
	bs := []base{
		mk("HTTP/1.1 200 OK\r\nProtocol-Version: v2.0.0\r\nServer: socketace/unknown\r\n\r\n",
			"HTTP/1.1 101 Switching Protocols\r\nConnection: upgrade\r\nProtocol-Version: v2.0.0\r\nServer: socketace/unknown\r\nUpgrade: socketace/v2.0.0\r\n\r\n",
			"TRAILING\x00\x01\xff-bytes\r\n", cfg{Host: "localhost"}),
		mk("HTTP/1.0 200 Fine\nserver: x\nprotocol-version: v2.0.0\ncapabilities: Foo\n\n",
			"HTTP/1.0 101 Go\nUpgrade: socketace/v2.0.0\n\n",
			"HTTP/1.1 200 OK\r\n\r\n", cfg{Host: "localhost", ClientMgr: "insecure"}),
	}
	if thorough {
		bs = append(bs, mk("HTTP/1.1 200 OK\r\nCapabilities: StartTLS\r\nProtocol-Version: v2.0.0\r\n\r\n",
			"HTTP/1.1 101 Switching Protocols\r\n\r\n", "x", cfg{Host: "localhost", Secure: true}))
	}
	return bs
}

// truncExpect is the model for a prefix of a valid exchange.
func truncExpect(role string, b base, k int) *expect {
	e := &expect{Detail: fmt.Sprintf("prefix %d of %d", k, len(b.in))}
	if role == "server" {
		switch {
		case k < b.a:
			e.Class, e.Tail = "truncated:inside-announce", "opt-error"
		case k < b.u:
			e.Class, e.Codes, e.Tail = "truncated:inside-upgrade", []int{200}, "opt-error"
		default:
			e.Class, e.Codes, e.Session, e.Trail = "truncated:after-handshake", []int{200, 101}, true, b.u
		}
		return e
	}
	e.Lines = []string{announceSummary}
	switch {
	case k < b.a:
		e.Class = "truncated:inside-first-response"
	case k < b.u:
		e.Class = "truncated:inside-second-response"
		e.Lines = append(e.Lines, upgradeSummary(pv, false))
	default:
		e.Class, e.Session, e.Trail = "truncated:after-handshake", true, b.u
		e.Lines = append(e.Lines, upgradeSummary(pv, false))
	}
	return e
}

func garbage(r *rand.Rand, k int) []byte {
	rnd := func(n int) []byte { b := make([]byte, n); r.Read(b); return b }
	switch k % 16 {
	case 0:
		return nil
	case 1:
		return rnd(1 + r.Intn(64))
	case 2:
		return rnd(1 + r.Intn(5000))
	case 3:
		return bytes.Repeat([]byte("\r\n"), 1+r.Intn(3000))
	case 4:
		return bytes.Repeat([]byte("\n"), 1+r.Intn(6000))
	case 5:
		return bytes.Repeat([]byte{0}, 1+r.Intn(9000))
	case 6:
		return bytes.Repeat([]byte{0xff}, 1+r.Intn(9000))
	case 7:
		return append([]byte{0x16, 0x03, 0x01, 0x02, 0x00, 0x01, 0x00, 0x01, 0xfc, 0x03, 0x03}, rnd(505)...)
	case 8:
		return []byte("GET / HTTP/1.1\r\nHost: example.org\r\nUser-Agent: curl/8\r\nAccept: */*\r\n\r\n")
	case 9:
		return []byte("SSH-2.0-OpenSSH_9.6\r\n")
	case 10:
		return bytes.Repeat([]byte("A"), 1+r.Intn(100000))
	case 11:
		return bytes.Repeat([]byte(" "), 1+r.Intn(10000))
	case 12:
		return bytes.Repeat([]byte("\r"), 1+r.Intn(10000))
	case 13: // printable noise with line ends and colons
		n := 1 + r.Intn(3000)
		b := make([]byte, n)
		al := "abcXYZ019 :/-.,\r\n\t"
		for i := range b {
			b[i] = al[r.Intn(len(al))]
		}
		return b
	case 14:
		return []byte("HTTP/1.1 400 Bad Request\r\nContent-Length: 0\r\n\r\nHTTP/1.1 400 Bad Request\r\n\r\n")
	default:
		return append([]byte("X-SOCKETACE / HTTP/1.1\r\n"), rnd(200)...)
	}
}

type item struct {
	role, family string
	k            int
}

func (h *harness) items() []item {
	q := h.rec.Pick(1, 20)
	var it []item
	add := func(role, fam string, n int) {
		for k := 0; k < n; k++ {
			it = append(it, item{role, fam, k})
		}
	}
	add("server", "generated", 1100*q)
	add("client", "generated", 520*q)
	add("server", "sizes", 64)
	add("client", "sizes", 64)
	tr := 0
	for _, b := range serverBases(h.rec.Thorough()) {
		tr += len(b.in) + 1
	}
	add("server", "truncated", tr)
	tr = 0
	for _, b := range clientBases(h.rec.Thorough()) {
		tr += len(b.in) + 1
	}
	add("client", "truncated", tr)
	add("server", "bitflip", 300*q)
	add("client", "bitflip", 150*q)
	add("server", "duplicated", 100*q)
	add("client", "duplicated", 50*q)
	add("server", "garbage", 150*q)
	add("client", "garbage", 80*q)
	add("server", "oversized", 1)
	add("client", "oversized", 1)
	add("server", "live-tls", h.rec.Pick(32, 200))
	add("client", "live-tls", h.rec.Pick(24, 150))
	add("server", "websocket", h.rec.Pick(100, 1000))
	add("client", "websocket", h.rec.Pick(60, 600))
	add("both", "concurrent", h.rec.Pick(16, 96))
	add("server", "cross-message", 300*q)
	add("client", "cross-message", 150*q)
	add("server", "long-list", listItems())
	add("client", "long-list", listItems())
	// interleave so that every shard gets a bit of everything
	return it
}

func sizeInput(role string, k int, r *rand.Rand) ([]byte, *expect) {
	sizes := []int{1, 2, 3, 100, 4093, 4094, 4095, 4096, 4097, 4098, 8191, 8192, 8193, 20000, 65535, 65536}
	counts := []int{0, 1, 2, 3, 50, 100, 499, 500}
	var pad []string
	var det string
	malformed := false
	if k%2 == 0 {
		n := sizes[(k/2)%len(sizes)]
		switch {
		case n == 1:
			pad, malformed = []string{"a"}, true
		default:
			pad = []string{"a:" + strings.Repeat("v", n-2)}
		}
		det = fmt.Sprintf("header-line-bytes=%d", n)
	} else {
		n := counts[(k/2)%len(counts)]
		for i := 0; i < n; i++ {
			pad = append(pad, fmt.Sprintf("X-H%d: %d", i, i))
		}
		det = fmt.Sprintf("extra-headers=%d", n)
	}
	inSecond := (k/32)%2 == 1
	eol := "\r\n"
	if k%3 == 0 {
		eol = "\n"
	}
	var first, second []string
	if role == "server" {
		first = []string{"X-SOCKETACE / HTTP/1.1", "Accepts-Protocol-Version: " + pv}
		second = []string{"GET / HTTP/1.1", "Connection: upgrade", "Upgrade: socketace/" + pv}
	} else {
		first = []string{"HTTP/1.1 200 OK", "Protocol-Version: " + pv}
		second = []string{"HTTP/1.1 101 Switching Protocols", "Upgrade: socketace/" + pv}
	}
	if inSecond {
		second = append(second, pad...)
	} else {
		first = append(first, pad...)
	}
	a := strings.Join(first, eol) + eol + eol
	u := strings.Join(second, eol) + eol + eol
	trail := make([]byte, 1+r.Intn(5000))
	r.Read(trail)
	in := append([]byte(a+u), trail...)
	e := &expect{Detail: det, Class: "valid", Session: true, Trail: len(a) + len(u)}
	if role == "server" {
		e.Codes = []int{200, 101}
		if malformed {
			e.Session = false
			if inSecond {
				e.Class, e.Codes, e.Tail = "upgrade:malformed", []int{200}, "opt-error"
			} else {
				e.Class, e.Codes, e.Tail = "announce:malformed", nil, "opt-error"
			}
		}
	} else {
		e.Lines = []string{announceSummary, upgradeSummary(pv, false)}
		if malformed {
			e.Session = false
			e.Class = "second-response:malformed"
			if !inSecond {
				e.Class, e.Lines = "first-response:malformed", e.Lines[:1]
			}
		}
	}
	return in, e
}

func mutate(fam string, b base, r *rand.Rand) []byte {
	in := append([]byte(nil), b.in...)
	switch fam {
	case "bitflip":
		for i := 0; i < 1+r.Intn(3); i++ {
			p := r.Intn(len(in))
			in[p] ^= 1 << uint(r.Intn(8))
		}
	case "duplicated":
		i := r.Intn(len(in))
		j := i + 1 + r.Intn(len(in)-i)
		switch r.Intn(4) {
		case 0:
			i, j = 0, b.a // the whole first message twice
		case 1:
			i, j = b.a, b.u // the whole second message twice
		}
		dup := append([]byte(nil), in[i:j]...)
		in = append(in[:j], append(dup, in[j:]...)...)
	}
	return in
}

func (h *harness) runItem(idx int, it item) {
	rec := h.rec
	r := vcommon.NewRand(rec.Seed(), fmt.Sprintf("c06/%s/%s/%d", it.role, it.family, it.k))
	d := caseDesc{Role: it.role, Family: it.family, Item: it.k}
	bases := serverBases(rec.Thorough())
	if it.role == "client" {
		bases = clientBases(rec.Thorough())
	}
	switch it.family {
	case "generated":
		d.Cfg = randCfg(r, it.role)
		var in []byte
		if it.role == "server" {
			in, d.Expect = genServerInput(r, d.Cfg)
		} else {
			in, d.Expect = genClientInput(r, d.Cfg)
		}
		h.checkString(d, in, nil)
	case "sizes":
		d.Cfg = cfg{Host: "localhost", Trace: it.k%16 == 5}
		var in []byte
		in, d.Expect = sizeInput(it.role, it.k, r)
		h.checkString(d, in, nil)
	case "truncated":
		k := it.k
		for _, b := range bases {
			if k <= len(b.in) {
				d.Cfg = b.cfg
				d.Expect = truncExpect(it.role, b, k)
				h.checkString(d, b.in[:k], nil)
				return
			}
			k -= len(b.in) + 1
		}
	case "bitflip", "duplicated":
		b := bases[r.Intn(len(bases))]
		d.Cfg = b.cfg
		d.Cfg.Trace = r.Intn(8) == 0
		h.checkString(d, mutate(it.family, b, r), nil)
	case "garbage":
		d.Cfg = randCfg(r, it.role)
		h.checkString(d, garbage(r, it.k), nil)
	case "oversized":
		h.oversized(d)
	case "live-tls":
		h.liveTLSItem(d, r)
	case "websocket":
		h.websocketItem(d, r)
	case "concurrent":
		h.concurrentItem(d, r)
	case "cross-message":
		d.Cfg = randCfg(r, it.role)
		var in []byte
		if it.role == "server" {
			in, d.Expect = genCrossServer(r, d.Cfg)
		} else {
			in, d.Expect = genCrossClient(r, d.Cfg)
		}
		h.checkString(d, in, nil)
	case "long-list":
		var in []byte
		d.Cfg, in, d.Expect = listInput(it.role, it.k, r)
		h.rec.Seen("list_shape_"+it.role, d.Expect.Detail)
		h.checkString(d, in, nil)
	}
}

func TestVerifC06(t *testing.T) {
	rec := vcommon.Open()
	defer rec.Close()
	h := &harness{t: t, rec: rec}
	h.setTrace(false)
	if version.ProtocolVersion != pv {
		t.Fatalf("harness assumes protocol version %s, tree has %s", pv, version.ProtocolVersion)
	}
	h.makeCert()
	defer h.closeWS()

	if rec.Replay != nil {
		var d caseDesc
		if err := json.Unmarshal(rec.Replay, &d); err != nil {
			t.Fatal(err)
		}
		h.replay(d)
		return
	}
	for idx, it := range h.items() {
		if !rec.Mine(idx) {
			continue
		}
		if only := os.Getenv("VERIF_C06_FAMILY"); only != "" && only != it.family {
			continue // debugging aid: run one input family only
		}
		idx, it := idx, it
		rec.Mark(map[string]interface{}{"role": it.role, "family": it.family, "item": it.k})
		if !watchdog(120*time.Second, func() { h.runItem(idx, it) }) {
			rec.Inconclusive("watchdog: case still running after 120 s", map[string]interface{}{"role": it.role, "family": it.family, "item": it.k})
			return // the stuck goroutine still owns the log level and the websocket rig: stop this shard
		}
		rec.Seen("role_family", it.role+"/"+it.family)
		if rec.InconclusiveCount() >= 6 {
			// every further watchdog costs a minute: enough has been seen in this shard
			rec.Note("shard stopped early after 6 inconclusive (watchdog) cases", map[string]interface{}{"at_item": idx})
			return
		}
	}
}

// oversized: one 8 MiB header line in an otherwise valid exchange. The statement only demands "no
// crash"; whether the line is buffered whole is recorded as an observation, not judged.
func (h *harness) oversized(d caseDesc) {
	const n = 8 << 20
	big := "X-Big: " + strings.Repeat("v", n) + "\r\n"
	var in []byte
	if d.Role == "server" {
		in = []byte("X-SOCKETACE / HTTP/1.1\r\nAccepts-Protocol-Version: " + pv + "\r\n" + big + "\r\nGET / HTTP/1.1\r\nConnection: upgrade\r\nUpgrade: socketace/" + pv + "\r\n\r\ntail")
	} else {
		in = []byte("HTTP/1.1 200 OK\r\nProtocol-Version: " + pv + "\r\n" + big + "\r\nHTTP/1.1 101 Switching Protocols\r\n\r\ntail")
	}
	d.Cfg = cfg{Host: "localhost"}
	h.setTrace(false)
	var cuts []int
	for i := 32768; i < len(in); i += 32768 {
		cuts = append(cuts, i)
	}
	a := h.runScripted(d.Role, d.Cfg, in, nil, 0)
	b := h.runScripted(d.Role, d.Cfg, in, cuts, 0)
	h.rec.Case(fmt.Sprintf("oversized/%s", d.Role), len(a.Lines) > 0)
	d.InputText = quoteHead(in)
	d.Family = "oversized"
	for _, o := range []*obs{a, b} {
		if o.Panicked {
			h.rec.Violation(fmt.Sprintf("%s:panic@%s", d.Role, o.Site), d, describeObs(o))
			return
		}
	}
	if what := diffObs(a, b); what != "" {
		h.rec.Violation(fmt.Sprintf("%s:segmentation:%s:oversized-header-line", d.Role, what), d, map[string]interface{}{"whole": describeObs(a), "split": describeObs(b)})
	}
	if a.Session {
		h.rec.StatMax("observation:header_line_bytes_buffered_and_accepted:"+d.Role, n)
	}
}

func (h *harness) replay(d caseDesc) {
	in, _ := hex.DecodeString(d.Input)
	if d.Family == "oversized" {
		h.oversized(d)
		return
	}
	if d.Family == "concurrent" {
		h.concurrentCase(d)
		return
	}
	switch d.Transport {
	case "live-tls":
		app, _ := hex.DecodeString(d.App)
		h.liveTLSCase(d, in, app)
	case "websocket":
		h.websocketCase(d, in, split{d.Split, d.Cuts})
	default:
		var extra *split
		if d.Cuts != nil {
			extra = &split{"replayed:" + d.Split, d.Cuts}
		}
		h.checkString(d, in, extra)
	}
}
