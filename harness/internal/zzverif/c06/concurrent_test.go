// C06 harness, part 4: several handshakes served at the same time in one process.
//
// A real server handles every connection on its own goroutine, so what one peer is answered -- and
// whether the process survives -- must not depend on what other peers send at the same moment.
// A group of scripted byte strings (each with its own configuration, segmentation and connection)
// is first run one at a time ("solo", twice), then W goroutines run the same handshakes over and
// over at the same time. Oracle: every concurrent execution shows exactly what the solo execution
// of the same bytes showed (session?, lines written, the headers of the written messages, bytes
// handed to the next layer, security state) and nothing panics. A process-fatal event ("fatal
// error: concurrent map writes") cannot be caught in-process: the group's replayable descriptor
// is written with rec.Mark before the goroutines start, and the driver attributes the crash to it.
package c06

import (
	"crypto/sha1"
	"encoding/hex"
	"fmt"
	"math/rand"
	"net/textproto"
	"sort"
	"strings"
	"sync"
	"sync/atomic"
)

// member is one handshake of a concurrent group.
type member struct {
	Role      string `json:"role"`
	Source    string `json:"source"` // input family the bytes were taken from
	Cfg       cfg    `json:"cfg"`
	Input     string `json:"input_hex"`
	InputText string `json:"input_text,omitempty"`
	Split     string `json:"split"` // whole | dribble | crlf | cuts
	Cuts      []int  `json:"cuts,omitempty"`
	ReadMode  int    `json:"read_mode"`
	Solo      string `json:"solo_outcome,omitempty"` // what the bytes produce when served alone (for the reader)
}

const concMaxInput = 6000 // bytes per member: keeps the descriptor of a group replayable and small

var concThemes = []string{"mixed", "server-refused-announce", "server-refused-upgrade", "server-sessions",
	"client-failures", "client-sessions", "identical-requests", "mixed"}

// outcomeClass is the coarse outcome of a solo run, used only to compose groups.
func outcomeClass(role string, o *obs) string {
	if role == "client" {
		if o.Session {
			return "client-sessions"
		}
		return "client-failures"
	}
	switch codes := o.codes(); {
	case o.Session:
		return "server-sessions"
	case len(codes) > 0 && codes[0] == 200:
		return "server-refused-upgrade"
	}
	return "server-refused-announce"
}

// memberCuts gives the cut positions of a member (named splits are recomputed from the bytes).
func memberCuts(m *member, in []byte) []int {
	switch m.Split {
	case "dribble":
		c := make([]int, 0, len(in))
		for i := 1; i < len(in); i++ {
			c = append(c, i)
		}
		return c
	case "crlf":
		var c []int
		for i, b := range in {
			if b == '\r' || b == '\n' {
				c = append(c, i+1)
			}
		}
		return c
	case "cuts":
		return m.Cuts
	}
	return nil
}

// candidate draws one (configuration, byte string) for the given role from the input families of
// the sequential part of the check.
func (h *harness) candidate(r *rand.Rand, role string) (cfg, []byte, string) {
	bases := serverBases(true)
	if role == "client" {
		bases = clientBases(true)
	}
	switch x := r.Intn(20); {
	case x < 12:
		c := randCfg(r, role)
		var in []byte
		if role == "server" {
			in, _ = genServerInput(r, c)
		} else {
			in, _ = genClientInput(r, c)
		}
		return c, in, "generated"
	case x < 14:
		return randCfg(r, role), garbage(r, r.Intn(16)), "garbage"
	case x < 16:
		b := bases[r.Intn(len(bases))]
		return b.cfg, mutate("bitflip", b, r), "bitflip"
	case x < 18:
		b := bases[r.Intn(len(bases))]
		return b.cfg, mutate("duplicated", b, r), "duplicated"
	default:
		b := bases[r.Intn(len(bases))]
		return b.cfg, append([]byte(nil), b.in[:r.Intn(len(b.in)+1)]...), "truncated"
	}
}

// concurrentItem composes group number d.Item and runs it.
func (h *harness) concurrentItem(d caseDesc, r *rand.Rand) {
	d.Role = "both"
	d.Family = "concurrent"
	d.Transport = "scripted"
	d.Theme = concThemes[d.Item%len(concThemes)]
	d.Cfg = cfg{Trace: d.Item%16 == 9}
	h.setTrace(false)
	want := 3 + r.Intn(10)
	if d.Theme == "identical-requests" {
		want = 1 + r.Intn(2)
	}
	for tries := 0; len(d.Group) < want && tries < 600; tries++ {
		role := "server"
		switch {
		case strings.HasPrefix(d.Theme, "client-"):
			role = "client"
		case d.Theme == "mixed" && r.Intn(3) == 0:
			role = "client"
		case d.Theme == "identical-requests" && r.Intn(4) == 0:
			role = "client"
		}
		c, in, src := h.candidate(r, role)
		c.Trace = false
		if len(in) > concMaxInput {
			continue
		}
		m := member{Role: role, Source: src, Cfg: c, Input: hex.EncodeToString(in), InputText: quoteHead(in), ReadMode: r.Intn(4)}
		switch r.Intn(6) {
		case 0, 1, 2:
			m.Split = "whole"
		case 3:
			m.Split = "crlf"
		case 4:
			m.Split = "dribble"
		default:
			m.Split = "cuts"
			for _, s := range h.splits(in, r) {
				if s.Name == "random" {
					m.Cuts = s.Cuts
				}
			}
		}
		o := h.runScripted(role, c, in, memberCuts(&m, in), m.ReadMode)
		if o.Panicked {
			continue // reported by the sequential families; a group is made of inputs that are served
		}
		cls := outcomeClass(role, o)
		if d.Theme != "mixed" && d.Theme != "identical-requests" && cls != d.Theme {
			continue
		}
		m.Solo = codesStringRole(role, o)
		d.Group = append(d.Group, m)
	}
	if len(d.Group) == 0 {
		h.rec.Note("concurrent: no member found for the theme", map[string]interface{}{"item": d.Item, "theme": d.Theme})
		return
	}
	d.Workers = 2 + r.Intn(15)
	if d.Theme == "identical-requests" && d.Workers < 4 {
		d.Workers = 4
	}
	// about the same number of handshakes per group whatever its shape
	total := h.rec.Pick(3000, 6000)
	d.Rounds = total/(d.Workers*len(d.Group)) + 1
	h.concurrentCase(d)
}

var knownHeaders = map[string]bool{"Server": true, "Message": true, "Protocol-Version": true, "Capabilities": true, "Connection": true,
	"Upgrade": true, "Security": true, "User-Agent": true, "Accepts-Protocol-Version": true, "Host": true}

func sameStrings(a, b []string) bool { return sameLines(a, b) }

// headerDiff names the first header of the written messages that differs ("" = all equal).
// ignore: headers that are not even stable between two solo runs.
func headerDiff(a, b *obs, ignore map[string]bool) string {
	if len(a.Msgs) != len(b.Msgs) {
		return "count"
	}
	for i := range a.Msgs {
		names := map[string]bool{}
		for k := range a.Msgs[i].Hdr {
			names[k] = true
		}
		for k := range b.Msgs[i].Hdr {
			names[k] = true
		}
		var sorted []string
		for k := range names {
			sorted = append(sorted, k)
		}
		sort.Strings(sorted)
		for _, k := range sorted {
			if ignore[k] {
				continue
			}
			if !sameStrings(a.Msgs[i].Hdr[k], b.Msgs[i].Hdr[k]) {
				if !knownHeaders[textproto.CanonicalMIMEHeaderKey(k)] {
					return "other"
				}
				return textproto.CanonicalMIMEHeaderKey(k)
			}
		}
	}
	return ""
}

// concDiff compares a concurrent execution with the solo execution of the same bytes.
func concDiff(solo, o *obs, ignore map[string]bool) string {
	if what := diffObs(solo, o); what != "" {
		return what
	}
	if solo.Secure != o.Secure || solo.Tech != o.Tech {
		return "security-state-differs"
	}
	if hd := headerDiff(solo, o, ignore); hd != "" {
		return "written-header-differs:" + hd
	}
	return ""
}

type concMember struct {
	m      *member
	in     []byte
	cuts   []int
	solo   *obs
	ignore map[string]bool
}

func describeMsgs(o *obs) []map[string]interface{} {
	var r []map[string]interface{}
	for _, m := range o.Msgs {
		r = append(r, map[string]interface{}{"line": m.Line, "headers": m.Hdr})
	}
	return r
}

// concurrentCase runs one group: solo baselines, then Workers goroutines x Rounds x members.
func (h *harness) concurrentCase(d caseDesc) {
	rec := h.rec
	h.setTrace(d.Cfg.Trace)
	d.Member = nil
	rounds := d.Rounds
	if rec.Replay != nil {
		rounds *= 5 // the interleaving is not part of the descriptor: give a replay more chances
	}
	if len(d.Group) == 0 || d.Workers < 1 || rounds < 1 {
		h.t.Errorf("harness: empty concurrent group in descriptor")
		return
	}
	withMember := func(i int) caseDesc { c := d; c.Member = &i; return c }

	// ---- solo: each member alone, twice
	var ms []*concMember
	for i := range d.Group {
		m := &d.Group[i]
		in, err := hex.DecodeString(m.Input)
		if err != nil {
			h.t.Errorf("harness: bad hex in descriptor")
			return
		}
		cm := &concMember{m: m, in: in, ignore: map[string]bool{}}
		cm.cuts = memberCuts(m, in)
		cm.solo = h.runScripted(m.Role, m.Cfg, in, cm.cuts, m.ReadMode)
		again := h.runScripted(m.Role, m.Cfg, in, cm.cuts, m.ReadMode)
		if cm.solo.Panicked || again.Panicked {
			p := cm.solo
			if !p.Panicked {
				p = again
			}
			rec.Violation(fmt.Sprintf("%s:panic@%s", m.Role, p.Site), withMember(i), describeObs(p))
			continue
		}
		if what := diffObs(cm.solo, again); what != "" {
			rec.Violation(fmt.Sprintf("%s:solo-rerun:%s", m.Role, what), withMember(i),
				map[string]interface{}{"first": describeObs(cm.solo), "second": describeObs(again)})
			continue
		}
		for {
			hd := headerDiff(cm.solo, again, cm.ignore)
			if hd == "" || hd == "count" || hd == "other" {
				if hd == "other" {
					cm.ignore = nil // compare no headers for this member
				}
				break
			}
			cm.ignore[hd] = true
			cm.ignore[strings.ToLower(hd)] = true
			rec.Stat("observation:header_not_stable_between_solo_runs:"+hd, 1)
		}
		ms = append(ms, cm)
	}
	if len(ms) == 0 {
		return
	}

	// ---- concurrent
	rec.Mark(d) // a process-fatal event from here on belongs to this group
	type finding struct {
		member int
		what   string
		o      *obs
	}
	var (
		mu       sync.Mutex
		found    = map[string]finding{}
		inflight int32
		maxIn    int32
		runs     int64
		start    = make(chan struct{})
		wg       sync.WaitGroup
	)
	report := func(sig string, f finding) {
		mu.Lock()
		if _, ok := found[sig]; !ok {
			found[sig] = f
		}
		mu.Unlock()
	}
	for w := 0; w < d.Workers; w++ {
		w := w
		wg.Add(1)
		go func() {
			defer wg.Done()
			<-start
			for j := 0; j < rounds; j++ {
				for k := range ms {
					idx := (w + j + k) % len(ms)
					cm := ms[idx]
					n := atomic.AddInt32(&inflight, 1)
					for {
						cur := atomic.LoadInt32(&maxIn)
						if n <= cur || atomic.CompareAndSwapInt32(&maxIn, cur, n) {
							break
						}
					}
					o := h.runScripted(cm.m.Role, cm.m.Cfg, cm.in, cm.cuts, cm.m.ReadMode)
					atomic.AddInt32(&inflight, -1)
					atomic.AddInt64(&runs, 1)
					if o.Panicked {
						report(fmt.Sprintf("%s:panic@%s", cm.m.Role, o.Site), finding{idx, "panic", o})
						continue
					}
					if cm.ignore == nil {
						if what := diffObs(cm.solo, o); what != "" {
							report(fmt.Sprintf("%s:concurrent:%s", cm.m.Role, what), finding{idx, what, o})
						}
						continue
					}
					if what := concDiff(cm.solo, o, cm.ignore); what != "" {
						report(fmt.Sprintf("%s:concurrent:%s", cm.m.Role, what), finding{idx, what, o})
					}
				}
			}
		}()
	}
	close(start)
	wg.Wait()

	overlapped := atomic.LoadInt32(&maxIn) >= 2
	for _, cm := range ms {
		sum := sha1.Sum(cm.in)
		rec.Case(fmt.Sprintf("concurrent/%s/%s/%+v/%x/%s/w%d", d.Theme, cm.m.Role, cm.m.Cfg, sum[:10], cm.m.Split, d.Workers),
			overlapped && (len(cm.solo.Lines) > 0 || cm.solo.Session))
		rec.Stat("concurrent_outcome:"+cm.m.Role+":"+codesStringRole(cm.m.Role, cm.solo), 1)
		rec.Seen("concurrent_member_source", cm.m.Role+"/"+cm.m.Source+"/"+cm.m.Split)
	}
	rec.Stat("concurrent_groups", 1)
	rec.Stat("concurrent_handshakes_compared_with_solo", atomic.LoadInt64(&runs))
	rec.StatMax("concurrent_handshakes_in_flight", int64(atomic.LoadInt32(&maxIn)))
	rec.StatMax("concurrent_workers", int64(d.Workers))
	if !overlapped {
		rec.Stat("concurrent_groups_without_overlap", 1)
	}
	rec.Seen("concurrent_theme", d.Theme)
	var sigs []string
	for sig := range found {
		sigs = append(sigs, sig)
	}
	sort.Strings(sigs)
	for _, sig := range sigs {
		f := found[sig]
		cm := ms[f.member]
		// index in d.Group (ms may have skipped members)
		gi := 0
		for i := range d.Group {
			if &d.Group[i] == cm.m {
				gi = i
			}
		}
		rec.Violation(sig, withMember(gi), map[string]interface{}{
			"solo": describeObs(cm.solo), "solo_messages": describeMsgs(cm.solo),
			"concurrent": describeObs(f.o), "concurrent_messages": describeMsgs(f.o),
			"workers": d.Workers, "rounds": rounds, "max_in_flight": atomic.LoadInt32(&maxIn)})
	}
	rec.Sample(map[string]interface{}{"family": "concurrent", "theme": d.Theme, "members": len(ms), "workers": d.Workers, "rounds": rounds,
		"handshakes": atomic.LoadInt64(&runs), "max_in_flight": atomic.LoadInt32(&maxIn), "first_member": d.Group[0].InputText,
		"first_member_solo": d.Group[0].Solo, "differences": sigs})
}
