// C06 harness, part 1: the segmenting connections and the two runners that drive the real
// socketace.NewServerConnection / NewClientConnection and record what they did.
package c06

import (
	"bufio"
	"bytes"
	"io"
	"net"
	"net/textproto"
	"strings"
	"sync"
	"time"

	"github.com/bokysan/socketace/v2/internal/socketace"
	"github.com/bokysan/socketace/v2/internal/streams"
	"github.com/bokysan/socketace/v2/internal/util/cert"
	"github.com/bokysan/socketace/v2/internal/zzverif/vcommon"
)

type dummyAddr struct{}

func (dummyAddr) Network() string { return "verif" }
func (dummyAddr) String() string  { return "verif:0" }

// segConn is the scripted, synchronous segmenting conn: Read delivers the peer's byte string
// segment by segment (never more than one segment per call, never blocking) and then io.EOF;
// every Write of the code under test is recorded as one element.
type segConn struct {
	segs   [][]byte
	cur    []byte
	writes [][]byte
	closed bool
	// eofWithData: the last bytes are returned together with io.EOF (allowed by io.Reader)
	eofWithData bool
}

func newSegConn(data []byte, cuts []int) *segConn {
	c := &segConn{}
	prev := 0
	for _, k := range cuts {
		if k <= prev || k >= len(data) {
			continue
		}
		c.segs = append(c.segs, data[prev:k])
		prev = k
	}
	if prev < len(data) {
		c.segs = append(c.segs, data[prev:])
	}
	return c
}

func (c *segConn) Read(p []byte) (int, error) {
	if c.closed {
		return 0, io.ErrClosedPipe
	}
	if len(p) == 0 {
		return 0, nil
	}
	for len(c.cur) == 0 {
		if len(c.segs) == 0 {
			return 0, io.EOF
		}
		c.cur = c.segs[0]
		c.segs = c.segs[1:]
	}
	n := copy(p, c.cur)
	c.cur = c.cur[n:]
	if c.eofWithData && len(c.cur) == 0 && len(c.segs) == 0 {
		return n, io.EOF
	}
	return n, nil
}

func (c *segConn) Write(p []byte) (int, error) {
	if c.closed {
		return 0, io.ErrClosedPipe
	}
	c.writes = append(c.writes, append([]byte(nil), p...))
	return len(p), nil
}
func (c *segConn) Close() error                       { c.closed = true; return nil }
func (c *segConn) LocalAddr() net.Addr                { return dummyAddr{} }
func (c *segConn) RemoteAddr() net.Addr               { return dummyAddr{} }
func (c *segConn) SetDeadline(t time.Time) error      { return nil }
func (c *segConn) SetReadDeadline(t time.Time) error  { return nil }
func (c *segConn) SetWriteDeadline(t time.Time) error { return nil }
func (c *segConn) written() [][]byte                  { return c.writes }

// ---- live (blocking) in-memory pipe, used where a real TLS peer has to answer -----------------

type queue struct {
	mu     sync.Mutex
	cond   *sync.Cond
	buf    []byte
	closed bool
	total  int
}

func newQueue() *queue { q := &queue{}; q.cond = sync.NewCond(&q.mu); return q }

func (q *queue) write(p []byte) (int, error) {
	q.mu.Lock()
	defer q.mu.Unlock()
	if q.closed {
		return 0, io.ErrClosedPipe
	}
	q.buf = append(q.buf, p...)
	q.total += len(p)
	q.cond.Broadcast()
	return len(p), nil
}

func (q *queue) read(p []byte, limit int) (int, error) {
	q.mu.Lock()
	defer q.mu.Unlock()
	for len(q.buf) == 0 && !q.closed {
		q.cond.Wait()
	}
	if len(q.buf) == 0 {
		return 0, io.EOF
	}
	n := len(p)
	if limit > 0 && n > limit {
		n = limit
	}
	n = copy(p[:n], q.buf)
	q.buf = q.buf[n:]
	return n, nil
}

func (q *queue) close() {
	q.mu.Lock()
	q.closed = true
	q.cond.Broadcast()
	q.mu.Unlock()
}

// waitTotal blocks until at least n bytes were ever written to q (or it was closed).
func (q *queue) waitTotal(n int) {
	q.mu.Lock()
	for q.total < n && !q.closed {
		q.cond.Wait()
	}
	q.mu.Unlock()
}

// liveConn is one end of an in-memory duplex pipe with unbounded buffers. limit() bounds the
// number of bytes one Read hands out (the segmentation seen by the code under test).
type liveConn struct {
	in, out *queue
	limit   func() int
	mu      sync.Mutex
	writes  [][]byte
}

func livePair(limit func() int) (sut *liveConn, peer *liveConn) {
	a, b := newQueue(), newQueue()
	return &liveConn{in: a, out: b, limit: limit}, &liveConn{in: b, out: a}
}

func (c *liveConn) Read(p []byte) (int, error) {
	if len(p) == 0 {
		return 0, nil
	}
	l := 0
	if c.limit != nil {
		l = c.limit()
	}
	return c.in.read(p, l)
}
func (c *liveConn) Write(p []byte) (int, error) {
	c.mu.Lock()
	c.writes = append(c.writes, append([]byte(nil), p...))
	c.mu.Unlock()
	return c.out.write(p)
}
func (c *liveConn) Close() error                       { c.out.close(); c.in.close(); return nil }
func (c *liveConn) LocalAddr() net.Addr                { return dummyAddr{} }
func (c *liveConn) RemoteAddr() net.Addr               { return dummyAddr{} }
func (c *liveConn) SetDeadline(t time.Time) error      { return nil }
func (c *liveConn) SetReadDeadline(t time.Time) error  { return nil }
func (c *liveConn) SetWriteDeadline(t time.Time) error { return nil }
func (c *liveConn) written() [][]byte {
	c.mu.Lock()
	defer c.mu.Unlock()
	return append([][]byte(nil), c.writes...)
}

// recConn records the writes of the code under test on top of any real connection (websocket).
type recConn struct {
	net.Conn
	mu     sync.Mutex
	writes [][]byte
}

func (c *recConn) Write(p []byte) (int, error) {
	c.mu.Lock()
	c.writes = append(c.writes, append([]byte(nil), p...))
	c.mu.Unlock()
	return c.Conn.Write(p)
}
func (c *recConn) written() [][]byte {
	c.mu.Lock()
	defer c.mu.Unlock()
	return append([][]byte(nil), c.writes...)
}

// skipTextConn lets a TLS endpoint of the harness start on a pipe on which n text messages (each
// ending in an empty line) of the code under test arrive first: they are consumed before the first
// byte is handed to the TLS layer.
type skipTextConn struct {
	net.Conn
	blocks int
	text   []byte
}

func (c *skipTextConn) Read(p []byte) (int, error) {
	for c.blocks > 0 {
		var one [1]byte
		n, err := c.Conn.Read(one[:])
		if n == 1 {
			c.text = append(c.text, one[0])
			if bytes.HasSuffix(c.text, []byte("\r\n\r\n")) {
				c.blocks--
			}
		}
		if err != nil {
			return 0, err
		}
	}
	return c.Conn.Read(p)
}

// ---- observation ------------------------------------------------------------------------------

type wmsg struct {
	Line string
	Hdr  textproto.MIMEHeader
}

// obs is what one execution of the code under test showed at its boundary.
type obs struct {
	Session   bool
	Lines     []string // server role: status lines written; client role: request summaries written
	Msgs      []wmsg
	Handed    []byte // bytes the returned connection yielded to the next layer
	ReadErr   string
	Err       string
	Secure    bool
	Tech      string
	Binary    int // writes that are not text messages (TLS records)
	Panicked  bool
	Site, Val string
	TimedOut  bool
}

func (o *obs) codes() []int {
	var r []int
	for _, l := range o.Lines {
		f := strings.SplitN(l, " ", 3)
		c := -1
		if len(f) >= 2 && len(f[1]) == 3 {
			c = int(f[1][0]-'0')*100 + int(f[1][1]-'0')*10 + int(f[1][2]-'0')
		}
		r = append(r, c)
	}
	return r
}

// parseWrites turns the recorded writes into text messages (first line + MIME header).
func (o *obs) parseWrites(role string, writes [][]byte) {
	for _, w := range writes {
		text := false
		if role == "server" {
			text = bytes.HasPrefix(w, []byte("HTTP/"))
		} else {
			text = len(w) > 0 && w[0] >= 'A' && w[0] <= 'Z'
		}
		if !text {
			o.Binary++
			continue
		}
		tp := textproto.NewReader(bufio.NewReader(bytes.NewReader(w)))
		line, _ := tp.ReadLine()
		hdr, _ := tp.ReadMIMEHeader()
		o.Msgs = append(o.Msgs, wmsg{line, hdr})
		if role == "server" {
			o.Lines = append(o.Lines, line)
		} else {
			o.Lines = append(o.Lines, line+"|APV="+hdr.Get("Accepts-Protocol-Version")+"|Upgrade="+hdr.Get("Upgrade")+
				"|Connection="+hdr.Get("Connection")+"|Security="+hdr.Get("Security"))
		}
	}
}

// drain reads the returned connection to its end the way a next layer would.
func drain(c net.Conn, inner interface{}, mode int) ([]byte, string) {
	var out bytes.Buffer
	if mode%4 == 3 {
		if wt, ok := inner.(io.WriterTo); ok {
			_, err := wt.WriteTo(&out)
			if err != nil && err != io.EOF {
				return out.Bytes(), err.Error()
			}
			return out.Bytes(), ""
		}
	}
	size := []int{4096, 1, 32768, 7}[mode%4]
	buf := make([]byte, size)
	empty := 0
	for {
		n, err := c.Read(buf)
		out.Write(buf[:n])
		if err != nil {
			if err == io.EOF {
				return out.Bytes(), ""
			}
			return out.Bytes(), err.Error()
		}
		if n == 0 {
			empty++
			if empty > 1000 {
				return out.Bytes(), "1000 empty reads"
			}
		} else {
			empty = 0
		}
	}
}

type writesRecorder interface{ written() [][]byte }

// cfg is the configuration of the code under test for one case.
type cfg struct {
	Manager   bool   `json:"manager"`    // server: a cert manager is configured
	Cert      bool   `json:"cert"`       // server: ... and it has a certificate (StartTLS possible)
	Secure    bool   `json:"secure"`     // the carrier is already secure
	ClientMgr string `json:"client_mgr"` // client: "", "insecure", "ca"
	Host      string `json:"host"`
	Trace     bool   `json:"trace"` // run with logrus at trace level (output discarded)
}

func (h *harness) serverManager(c cfg) cert.TlsConfig {
	if !c.Manager && !c.Cert {
		return nil
	}
	m := &cert.ServerConfig{}
	if c.Cert {
		m.Certificate = h.certPEM
		m.PrivateKey = h.keyPEM
	}
	return m
}

func (h *harness) clientManager(c cfg) cert.TlsConfig {
	switch c.ClientMgr {
	case "insecure":
		return &cert.ClientConfig{InsecureSkipVerify: true}
	case "ca":
		m := &cert.ClientConfig{}
		m.CaCertificate = h.certPEM
		return m
	}
	return nil
}

// runRole executes the real handshake code on conn and records the outcome.
func (h *harness) runRole(role string, conn net.Conn, wr writesRecorder, c cfg, readMode int) *obs {
	o := &obs{}
	o.Panicked, o.Site, o.Val = vcommon.Guard(func() {
		if role == "server" {
			sc, err := socketace.NewServerConnection(conn, h.serverManager(c), c.Secure)
			if err != nil {
				o.Err = err.Error()
				return
			}
			o.Session, o.Secure, o.Tech = true, sc.Secure(), sc.SecurityTech()
			o.Handed, o.ReadErr = drain(sc, sc.Connection, readMode)
		} else {
			cc, err := socketace.NewClientConnection(conn, h.clientManager(c), c.Secure, c.Host)
			if err != nil {
				o.Err = err.Error()
				return
			}
			o.Session, o.Secure, o.Tech = true, cc.Secure(), cc.SecurityTech()
			o.Handed, o.ReadErr = drain(cc, cc.Connection, readMode)
		}
	})
	o.parseWrites(role, wr.written())
	return o
}

var _ streams.Connection = (*streams.NamedConnection)(nil)
