// C06 harness, part 5: two input classes for the reference model.
//
// (1) "cross-message": two-message handshakes in which one message carries headers that only
// matter in the other one (Connection / Upgrade / Security / version headers in the announce resp.
// in the 200; Accepts-Protocol-Version / Capabilities in the upgrade resp. in the 101). The model
// judges every message on its OWN headers: a header that has no meaning in the message that
// carries it is one of the "arbitrary headers" of the statement.
//
// (2) "long-list": comma lists of 1..40 (and a few longer) entries in every list-valued header, with
// the one significant entry (the supported version, StartTLS) at every position, or absent.
package c06

import (
	"fmt"
	"math/rand"
	"sort"
	"strings"
)

func variantsWhere(vs []variant, ok bool) []variant {
	var r []variant
	for _, v := range vs {
		if v.wf == wfYes && v.ok == ok {
			r = append(r, v)
		}
	}
	return r
}

func crlfOrLF(r *rand.Rand) (func(int) string, string) {
	for {
		f, label, wf := pickEOL(r)
		if wf == wfYes {
			return f, label
		}
	}
}

func labelOr(v variant, dflt string) string {
	if v.label == "" {
		return dflt
	}
	return v.label
}

// foreign picks a value for a header that is carried by the message in which it means nothing:
// half of the time the value that WOULD satisfy the other message, otherwise any variant.
func foreign(r *rand.Rand, vs []variant) variant {
	if r.Intn(2) == 0 {
		good := variantsWhere(vs, true)
		return good[r.Intn(len(good))]
	}
	return pick(r, vs)
}

// own picks the value of a header in the message that is judged by it: present and right, absent
// (present=false), or present and wrong (only deviations whose treatment the statement fixes).
func own(r *rand.Rand, vs []variant) (v variant, present bool) {
	switch x := r.Intn(20); {
	case x < 11:
		good := variantsWhere(vs, true)
		return good[r.Intn(len(good))], true
	case x < 16:
		return variant{}, false
	default:
		bad := variantsWhere(vs, false)
		return bad[r.Intn(len(bad))], true
	}
}

// genCrossServer builds announce + upgrade with headers of the one in the other.
func genCrossServer(r *rand.Rand, c cfg) ([]byte, *expect) {
	var det []string
	a := &message{}
	al := variantsWhere(annLines, true)[r.Intn(3)]
	methodOK := true
	if r.Intn(12) == 0 {
		bad := variantsWhere(annLines, false)
		al = bad[r.Intn(len(bad))]
		methodOK = false
	}
	a.line = al.s
	if al.label != "" {
		det = append(det, al.label)
	}
	verOK := true
	switch x := r.Intn(20); {
	case x < 16:
		good := variantsWhere(verLists, true)
		v := good[r.Intn(len(good))]
		a.hdrs = append(a.hdrs, hline{caseName(r, "Accepts-Protocol-Version") + ": " + v.s})
		if v.label != "" {
			det = append(det, v.label)
		}
	case x < 18:
		bad := variantsWhere(verLists, false)
		v := bad[r.Intn(len(bad))]
		a.hdrs = append(a.hdrs, hline{caseName(r, "Accepts-Protocol-Version") + ": " + v.s})
		verOK = false
		det = append(det, v.label)
	default:
		verOK = false
		det = append(det, "apv-missing")
	}
	// headers of the upgrade step, carried by the announce
	nForeign := 0
	if r.Intn(5) > 0 {
		v := foreign(r, connVals)
		a.hdrs = append(a.hdrs, hline{caseName(r, "Connection") + ": " + v.s})
		det = append(det, "ann+Connection="+labelOr(v, "upgrade"))
		nForeign++
	}
	if r.Intn(5) > 0 {
		v := foreign(r, tokVals)
		a.hdrs = append(a.hdrs, hline{caseName(r, "Upgrade") + ": " + v.s})
		det = append(det, "ann+Upgrade="+labelOr(v, "token"))
		nForeign++
	}
	if r.Intn(2) == 0 {
		v := foreign(r, secVals)
		a.hdrs = append(a.hdrs, hline{caseName(r, "Security") + ": " + v.s})
		det = append(det, "ann+Security="+v.label)
		nForeign++
	}
	if r.Intn(5) == 0 {
		a.hdrs = append(a.hdrs, hline{"Protocol-Version: " + []string{"v1.0.0", pv, "v3.0.0"}[r.Intn(3)]})
		det = append(det, "ann+Protocol-Version")
		nForeign++
	}
	if r.Intn(8) == 0 {
		a.hdrs = append(a.hdrs, hline{"Capabilities: StartTLS"})
		det = append(det, "ann+Capabilities")
		nForeign++
	}
	if r.Intn(2) == 0 {
		a.hdrs = append(a.hdrs, hline{"User-Agent: socketace/unknown"})
	}
	if r.Intn(2) == 0 {
		shuffleHeaders(r, a)
	}
	var el string
	a.eol, el = crlfOrLF(r)
	if el != "" {
		det = append(det, el)
	}
	in := a.bytes()

	// the upgrade, judged on what it carries itself
	u := &message{}
	ul := variantsWhere(updLines, true)[r.Intn(2)]
	if r.Intn(10) == 0 {
		bad := variantsWhere(updLines, false)
		ul = bad[r.Intn(len(bad))]
	}
	u.line = ul.s
	if ul.label != "" {
		det = append(det, ul.label)
	}
	connOK, tokOK, startTLS := false, false, false
	if v, present := own(r, connVals); present {
		u.hdrs = append(u.hdrs, hline{caseName(r, "Connection") + ": " + v.s})
		connOK = v.ok
		det = append(det, "upg+Connection="+labelOr(v, "upgrade"))
	} else {
		det = append(det, "conn-missing")
	}
	if v, present := own(r, tokVals); present {
		u.hdrs = append(u.hdrs, hline{caseName(r, "Upgrade") + ": " + v.s})
		tokOK = v.ok
		det = append(det, "upg+Upgrade="+labelOr(v, "token"))
	} else {
		det = append(det, "tok-missing")
	}
	switch x := r.Intn(20); {
	case x < 12:
		det = append(det, "sec-missing")
	case x < 17:
		v := variantsWhere(secVals, true)[r.Intn(3)]
		u.hdrs = append(u.hdrs, hline{caseName(r, "Security") + ": " + v.s})
		startTLS = true
		det = append(det, "upg+"+v.label)
	default:
		u.hdrs = append(u.hdrs, hline{caseName(r, "Security") + ": "})
		det = append(det, "upg+sec-empty")
	}
	// headers of the announce step, carried by the upgrade
	if r.Intn(3) == 0 {
		v := pick(r, verLists)
		u.hdrs = append(u.hdrs, hline{caseName(r, "Accepts-Protocol-Version") + ": " + v.s})
		det = append(det, "upg+Accepts-Protocol-Version="+labelOr(v, pv))
		nForeign++
	}
	if r.Intn(2) == 0 {
		u.hdrs = append(u.hdrs, hline{"User-Agent: socketace/unknown"})
	}
	if r.Intn(2) == 0 {
		shuffleHeaders(r, u)
	}
	u.eol, el = crlfOrLF(r)
	if el != "" {
		det = append(det, "u-"+el)
	}
	in = append(in, u.bytes()...)
	exp := &expect{Trail: len(in)}
	trail, tl := genTrailing(r)
	if len(trail) > 5000 {
		trail, tl = trail[:300], "trail-binary"
	}
	in = append(in, trail...)
	det = append(det, tl)
	sort.Strings(det)
	exp.Detail = strings.Join(det, ",")

	switch {
	case !methodOK || !verOK:
		exp.Tail = "one-of"
		switch {
		case !methodOK && !verOK:
			exp.Class, exp.Set = "cross:announce:wrong-method+no-common-version", []int{405, 409}
		case !methodOK:
			exp.Class, exp.Set = "cross:announce:wrong-method", []int{405}
		default:
			exp.Class, exp.Set = "cross:announce:no-common-version", []int{409}
		}
	default:
		exp.Codes = []int{200}
		tlsOK := c.Cert && !c.Secure
		switch {
		case !ul.ok || !connOK || !tokOK || (startTLS && !tlsOK):
			exp.Tail = "one-of"
			var cl []string
			if !ul.ok {
				exp.Set = append(exp.Set, 405)
				cl = append(cl, "wrong-method")
			}
			if !connOK {
				exp.Set = append(exp.Set, 406)
				cl = append(cl, "not-connection-upgrade")
			}
			if !tokOK {
				exp.Set = append(exp.Set, 406)
				cl = append(cl, "wrong-token")
			}
			if startTLS && !tlsOK {
				exp.Set = append(exp.Set, 503)
				cl = append(cl, "starttls-unavailable")
			}
			exp.Class = "cross:upgrade:" + strings.Join(cl, "+")
		case startTLS:
			exp.Codes = []int{200, 101}
			exp.Class = "cross:upgrade:starttls-without-tls-peer"
		default:
			exp.Codes = []int{200, 101}
			exp.Class = "cross:valid"
			exp.Session = true
		}
	}
	if nForeign == 0 {
		exp.Class += ":no-foreign-header"
	}
	return in, exp
}

// genCrossClient builds 200 + 101 with headers of the one in the other.
func genCrossClient(r *rand.Rand, c cfg) ([]byte, *expect) {
	var det []string
	first := &message{}
	l1 := variantsWhere(statusLines(200), true)[r.Intn(3)]
	ok1 := true
	if r.Intn(10) == 0 {
		bad := variantsWhere(statusLines(200), false)
		l1, ok1 = bad[r.Intn(len(bad))], false
	}
	first.line = l1.s
	if l1.label != "" {
		det = append(det, "r200-"+l1.label)
	}
	first.hdrs = append(first.hdrs, hline{caseName(r, "Protocol-Version") + ": " + pv})
	caps := false
	if r.Intn(2) == 0 {
		cp := pick(r, capVals)
		first.hdrs = append(first.hdrs, hline{caseName(r, "Capabilities") + ": " + cp.s})
		caps = cp.ok
		det = append(det, cp.label)
	}
	// headers of the second response, carried by the first
	if r.Intn(5) > 0 {
		v := foreign(r, tokVals)
		first.hdrs = append(first.hdrs, hline{caseName(r, "Upgrade") + ": " + v.s})
		det = append(det, "r200+Upgrade="+labelOr(v, "token"))
	}
	if r.Intn(5) > 0 {
		v := foreign(r, connVals)
		first.hdrs = append(first.hdrs, hline{caseName(r, "Connection") + ": " + v.s})
		det = append(det, "r200+Connection="+labelOr(v, "upgrade"))
	}
	if r.Intn(3) == 0 {
		v := foreign(r, secVals)
		first.hdrs = append(first.hdrs, hline{caseName(r, "Security") + ": " + v.s})
		det = append(det, "r200+Security="+v.label)
	}
	first.hdrs = append(first.hdrs, hline{"Server: socketace/unknown"})
	if r.Intn(2) == 0 {
		shuffleHeaders(r, first)
	}
	var el string
	first.eol, el = crlfOrLF(r)
	if el != "" {
		det = append(det, "r200-"+el)
	}
	in := first.bytes()

	second := &message{}
	l2 := variantsWhere(statusLines(101), true)[r.Intn(3)]
	ok2 := true
	if r.Intn(10) == 0 {
		bad := variantsWhere(statusLines(101), false)
		l2, ok2 = bad[r.Intn(len(bad))], false
	}
	second.line = l2.s
	if l2.label != "" {
		det = append(det, "r101-"+l2.label)
	}
	second.hdrs = append(second.hdrs, hline{"Protocol-Version: " + pv}, hline{"Connection: upgrade"}, hline{"Upgrade: socketace/" + pv})
	// headers of the first response, carried by the second
	if r.Intn(2) == 0 {
		cp := foreign(r, capVals)
		second.hdrs = append(second.hdrs, hline{caseName(r, "Capabilities") + ": " + cp.s})
		det = append(det, "r101+Capabilities="+cp.label)
	}
	if r.Intn(4) == 0 {
		second.hdrs = append(second.hdrs, hline{"Accepts-Protocol-Version: " + pick(r, verLists).s})
		det = append(det, "r101+Accepts-Protocol-Version")
	}
	if r.Intn(4) == 0 {
		second.hdrs = append(second.hdrs, hline{"Security: StartTLS"})
		det = append(det, "r101+Security")
	}
	second.hdrs = append(second.hdrs, hline{"Server: socketace/unknown"})
	if r.Intn(2) == 0 {
		shuffleHeaders(r, second)
	}
	second.eol, el = crlfOrLF(r)
	if el != "" {
		det = append(det, "r101-"+el)
	}
	in = append(in, second.bytes()...)
	exp := &expect{Lines: []string{announceSummary}, Trail: len(in)}
	trail, tl := genTrailing(r)
	if len(trail) > 5000 {
		trail, tl = trail[:300], "trail-binary"
	}
	in = append(in, trail...)
	det = append(det, tl)
	sort.Strings(det)
	exp.Detail = strings.Join(det, ",")
	startTLS := caps && !c.Secure
	switch {
	case !ok1:
		exp.Class = "cross:first-response:not-200"
	default:
		exp.Lines = append(exp.Lines, upgradeSummary(pv, startTLS))
		switch {
		case !ok2:
			exp.Class = "cross:second-response:not-101"
		case startTLS:
			exp.Class = "cross:starttls-without-tls-peer"
		default:
			exp.Class = "cross:valid"
			exp.Session = true
		}
	}
	return in, exp
}

// ---- long lists ----------------------------------------------------------------------------------

const listMax = 40

// listShapes: every (length 1..listMax, position 0..length of the significant entry; 0 = absent).
func listShapeCount() int { return listMax * (listMax + 3) / 2 }

func listShape(k int) (n, pos int) {
	for n = 1; n <= listMax; n++ {
		if k <= n {
			return n, k
		}
		k -= n + 1
	}
	return listMax, 0
}

const (
	listBig    = 40 // longer lists, random position
	listUnspec = 60 // lists in headers whose list form the statement leaves open: no model
)

func listItems() int { return listShapeCount() + listBig + listUnspec }

func joinList(r *rand.Rand, entries []string, seps []string) string {
	var sb strings.Builder
	for i, e := range entries {
		if i > 0 {
			sb.WriteString(seps[r.Intn(len(seps))])
		}
		sb.WriteString(e)
	}
	return sb.String()
}

func buildList(r *rand.Rand, n, pos int, significant string, filler func() string, seps []string) string {
	entries := make([]string, n)
	for i := range entries {
		entries[i] = filler()
	}
	if pos > 0 {
		entries[pos-1] = significant
	}
	return joinList(r, entries, seps)
}

// listInput builds item k of the long-list family for a role.
func listInput(role string, k int, r *rand.Rand) (cfg, []byte, *expect) {
	var n, pos int
	kind := "shape"
	switch {
	case k < listShapeCount():
		n, pos = listShape(k)
	case k < listShapeCount()+listBig:
		kind = "big"
		n = []int{41, 48, 64, 100, 300}[r.Intn(5)]
		pos = r.Intn(n + 1)
		if r.Intn(3) == 0 {
			pos = n
		}
	default:
		kind = "unspec"
		n = []int{2, 3, 15, 16, 17, 18, 40}[r.Intn(7)]
		pos = 1 + r.Intn(n)
	}
	eol := "\r\n"
	if k%4 == 3 {
		eol = "\n"
	}
	trail := make([]byte, r.Intn(200))
	r.Read(trail)
	var c cfg
	exp := &expect{Detail: fmt.Sprintf("%s n=%d pos=%d", kind, n, pos)}
	if role == "server" {
		switch k % 3 {
		case 1:
			c.Manager = true
		case 2:
			c.Manager, c.Cert = true, true
		}
		c.Secure = k%7 == 0
		seps := []string{",", ", ", " , ", ",\t", ",  "}
		fill := func() string {
			switch x := r.Intn(8); x {
			case 0:
				return "v1.0.0"
			case 1:
				return "v3.0.0"
			case 2:
				return "v2.0.1"
			case 3:
				return "v20.0.0"
			case 4:
				return "xv2.0.0"
			case 5:
				return "v2.0.0x"
			}
			return fmt.Sprintf("v%d.%d.%d", 3+r.Intn(7), r.Intn(10), r.Intn(10))
		}
		apv, conn, tok := pv, "upgrade", "socketace/"+pv
		if kind == "unspec" {
			// a list where the code compares the whole value: treatment left open by the statement
			exp.Unspec = true
			if r.Intn(2) == 0 {
				exp.Class = "list:connection-list"
				conn = buildList(r, n, pos, "upgrade", func() string { return []string{"keep-alive", "close", "te", "x"}[r.Intn(4)] }, seps[:3])
			} else {
				exp.Class = "list:upgrade-list"
				tok = buildList(r, n, pos, "socketace/"+pv, func() string { return []string{"websocket", "h2c", "socketace/v1.0.0"}[r.Intn(3)] }, seps[:3])
			}
		} else {
			apv = buildList(r, n, pos, pv, fill, seps)
		}
		a := strings.Join([]string{"X-SOCKETACE / HTTP/1.1", "Accepts-Protocol-Version: " + apv, "User-Agent: socketace/unknown", "", ""}, eol)
		u := strings.Join([]string{"GET / HTTP/1.1", "Connection: " + conn, "Upgrade: " + tok, "", ""}, eol)
		in := append([]byte(a+u), trail...)
		exp.Trail = len(a) + len(u)
		switch {
		case exp.Unspec:
		case pos > 0:
			exp.Class, exp.Codes, exp.Session = "list:version-offered-in-list", []int{200, 101}, true
		default:
			exp.Class, exp.Tail, exp.Set = "list:no-common-version", "one-of", []int{409}
		}
		return c, in, exp
	}
	c.Host = "localhost"
	c.ClientMgr = []string{"", "insecure", "ca"}[k%3]
	c.Secure = k%5 == 0
	seps := []string{",", ", ", " , "}
	fill := func() string {
		switch x := r.Intn(6); x {
		case 0:
			return "Foo"
		case 1:
			return "StartTLSx"
		case 2:
			return "Start-TLS"
		case 3:
			return "TLS"
		}
		return fmt.Sprintf("Cap%d", r.Intn(1000))
	}
	caps := buildList(r, n, pos, []string{"StartTLS", "starttls", "STARTTLS"}[r.Intn(3)], fill, seps)
	first := []string{"HTTP/1.1 200 OK", "Protocol-Version: " + pv, "Capabilities: " + caps, "Server: socketace/unknown", "", ""}
	second := []string{"HTTP/1.1 101 Switching Protocols", "Protocol-Version: " + pv, "Connection: upgrade", "Upgrade: socketace/" + pv, "", ""}
	if kind == "unspec" {
		// a 200 that names a list of versions: which one the client takes is left open
		exp.Unspec, exp.Class = true, "list:protocol-version-list"
		first[1] = "Protocol-Version: " + buildList(r, n, pos, pv, func() string { return fmt.Sprintf("v1.%d.0", r.Intn(10)) }, seps)
	}
	a := strings.Join(first, eol)
	u := strings.Join(second, eol)
	in := append([]byte(a+u), trail...)
	exp.Trail = len(a) + len(u)
	if !exp.Unspec {
		startTLS := pos > 0 && !c.Secure
		exp.Lines = []string{announceSummary, upgradeSummary(pv, startTLS)}
		if startTLS {
			exp.Class = "list:starttls-offered-in-list"
		} else {
			exp.Session = true
			if pos > 0 {
				exp.Class = "list:starttls-offered-in-list:carrier-secure"
			} else {
				exp.Class = "list:starttls-not-offered"
			}
		}
	}
	return c, in, exp
}
