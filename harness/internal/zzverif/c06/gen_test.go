// C06 harness, part 2: grammar-based generators with controlled deviations and the reference
// model (what the PROPERTY statement says must happen for an input whose deviations are known).
package c06

import (
	"fmt"
	"math/rand"
	"sort"
	"strings"
)

const pv = "v2.0.0" // the protocol version this tree supports (version.ProtocolVersion, asserted at start)

const (
	wfYes    = 0
	wfNo     = 1
	wfUnspec = 2
)

// expect is the model's prediction for one input. It is serialised into the case descriptor so
// that a replay re-runs the same oracle.
type expect struct {
	Unspec  bool     `json:"unspec"`           // deviations whose treatment the statement leaves open: model not applied
	Class   string   `json:"class"`            // coarse class (part of the signature)
	Detail  string   `json:"detail,omitempty"` // the deviations injected
	Codes   []int    `json:"codes,omitempty"`  // server: status codes that must be written first, in this order
	Tail    string   `json:"tail,omitempty"`   // server: "", "opt-error" (then nothing or one status >= 400), "one-of" (then exactly one of Set)
	Set     []int    `json:"set,omitempty"`
	Lines   []string `json:"lines,omitempty"` // client: request summaries that must be written, exactly
	Session bool     `json:"session"`
	Trail   int      `json:"trail"` // offset in the input where the next layer's bytes start (valid when Session)
}

type variant struct {
	s     string
	wf    int
	ok    bool // method is the right one / value is acceptable
	label string
}

func pick(r *rand.Rand, vs []variant) variant { return vs[r.Intn(len(vs))] }

type hline struct{ raw string } // one header line without EOL

type message struct {
	line  string
	hdrs  []hline
	eol   func(i int) string
	noEnd bool // blank line missing
}

func (m *message) bytes() []byte {
	var sb strings.Builder
	sb.WriteString(m.line)
	sb.WriteString(m.eol(0))
	for i, h := range m.hdrs {
		sb.WriteString(h.raw)
		sb.WriteString(m.eol(i + 1))
	}
	if !m.noEnd {
		sb.WriteString(m.eol(len(m.hdrs) + 1))
	}
	return []byte(sb.String())
}

func pickEOL(r *rand.Rand) (func(int) string, string, int) {
	switch x := r.Intn(20); {
	case x < 12:
		return func(int) string { return "\r\n" }, "", wfYes
	case x < 16:
		return func(int) string { return "\n" }, "eol-lf", wfYes
	case x < 19:
		mask := r.Uint32()
		return func(i int) string {
			if mask>>(uint(i)%32)&1 == 1 {
				return "\n"
			}
			return "\r\n"
		}, "eol-mixed", wfYes
	default:
		// a bare CR is not a line end for net/textproto: the message runs into whatever follows
		return func(int) string { return "\r" }, "eol-bare-cr", wfUnspec
	}
}

func caseName(r *rand.Rand, name string) string {
	switch r.Intn(5) {
	case 0:
		return strings.ToLower(name)
	case 1:
		return strings.ToUpper(name)
	}
	return name
}

var badHeaderLines = []variant{
	{"NoColonHere", wfNo, false, "hdr-no-colon"},
	{": empty-key", wfNo, false, "hdr-empty-key"},
	{"Bad(Key: x", wfNo, false, "hdr-bad-key-char"},
	{"Key\x00Nul: x", wfNo, false, "hdr-nul-in-key"},
	{"a", wfNo, false, "hdr-one-byte"},
	{"Bad Key: x", wfUnspec, false, "hdr-space-in-key"},
	{"X-Ctl: a\x00b", wfUnspec, false, "hdr-nul-in-value"},
	{" folded continuation", wfUnspec, false, "hdr-folded"},
}

func padHeaders(r *rand.Rand, m *message, det *[]string) {
	switch r.Intn(12) {
	case 0:
		n := []int{1, 2, 17, 50, 200, 500}[r.Intn(6)]
		for i := 0; i < n; i++ {
			m.hdrs = append(m.hdrs, hline{fmt.Sprintf("X-Pad-%d: %d", i, r.Intn(1000))})
		}
		*det = append(*det, fmt.Sprintf("pad-headers=%d", n))
	case 1:
		n := []int{1, 100, 4000, 4090, 4096, 4097, 8192, 20000, 65536}[r.Intn(9)]
		m.hdrs = append(m.hdrs, hline{"X-Long: " + strings.Repeat("v", n)})
		*det = append(*det, fmt.Sprintf("long-header=%d", n))
	case 2:
		m.hdrs = append(m.hdrs, hline{"User-Agent: socketace/unknown"})
	}
}

func shuffleHeaders(r *rand.Rand, m *message) {
	r.Shuffle(len(m.hdrs), func(i, j int) { m.hdrs[i], m.hdrs[j] = m.hdrs[j], m.hdrs[i] })
}

func insertBad(r *rand.Rand, m *message, wf *int, det *[]string) {
	b := pick(r, badHeaderLines)
	pos := r.Intn(len(m.hdrs) + 1)
	if b.label == "hdr-folded" && pos == 0 {
		// a header block that starts with white space is plainly malformed
		b.wf = wfNo
		b.label = "hdr-leading-space-first"
	}
	m.hdrs = append(m.hdrs[:pos], append([]hline{{b.s}}, m.hdrs[pos:]...)...)
	merge(wf, b.wf)
	*det = append(*det, b.label)
}

func merge(wf *int, x int) {
	if x == wfUnspec || *wf == wfUnspec {
		*wf = wfUnspec
	} else if x == wfNo {
		*wf = wfNo
	}
}

// ---- client -> server ---------------------------------------------------------------------------

var annLines = []variant{
	{"X-SOCKETACE / HTTP/1.1", wfYes, true, ""},
	{"X-SOCKETACE / HTTP/1.0", wfYes, true, "proto-1.0"},
	{"X-SOCKETACE /some/path?x=1 HTTP/1.1", wfYes, true, "path"},
	{"GET / HTTP/1.1", wfYes, false, "method-GET"},
	{"POST / HTTP/1.1", wfYes, false, "method-POST"},
	{"x-socketace / HTTP/1.1", wfYes, false, "method-lowercase"},
	{"X-SOCKETACE2 / HTTP/1.1", wfYes, false, "method-longer"},
	{"X-SOCKETAC / HTTP/1.1", wfYes, false, "method-shorter"},
	{"CONNECT host:1 HTTP/1.1", wfYes, false, "method-CONNECT"},
	{"X-SOCKETACE", wfNo, false, "line-no-space"},
	{"X-SOCKETACE /", wfNo, false, "line-one-space"},
	{" X-SOCKETACE / HTTP/1.1", wfNo, false, "line-leading-space"},
	{"", wfNo, false, "line-empty"},
	{" ", wfNo, false, "line-single-space"},
	{"  ", wfNo, false, "line-two-spaces"},
	{"X-SOCKETACE\t/\tHTTP/1.1", wfNo, false, "line-tabs"},
	{"X-SOCKETACE  / HTTP/1.1", wfUnspec, true, "line-double-space"},
	{"X-SOCKETACE / HTTP/1.1 extra", wfUnspec, true, "line-extra-field"},
	{"X-SOCKETACE / HTTP/1.1 ", wfUnspec, true, "line-trailing-space"},
	{"X-SOCKETACE / FOO", wfUnspec, true, "proto-FOO"},
	{"X-SOCKETACE / ", wfUnspec, true, "proto-empty"},
}

var verLists = []variant{
	{"v2.0.0", wfYes, true, ""},
	{"v1.0.0,v2.0.0", wfYes, true, "ver-second"},
	{"v2.0.0,v1.0.0", wfYes, true, "ver-first"},
	{"v1.0.0 , v2.0.0", wfYes, true, "ver-spaced"},
	{"v3.0.0,v2.0.0,v1.0.0", wfYes, true, "ver-middle"},
	{"v1.0.0,\tv2.0.0", wfYes, true, "ver-tab"},
	{"v2.0.0,", wfYes, true, "ver-trailing-comma"},
	{",v2.0.0", wfYes, true, "ver-leading-comma"},
	{"  v2.0.0  ", wfYes, true, "ver-padded"},
	{"v1.0.0", wfYes, false, "ver-old"},
	{"v3.0.0, v1.0.0", wfYes, false, "ver-none-common"},
	{"", wfYes, false, "ver-empty"},
	{",", wfYes, false, "ver-only-comma"},
	{"v2.0.1", wfYes, false, "ver-patch"},
	{"v20.0.0", wfYes, false, "ver-v20"},
	{"xv2.0.0", wfYes, false, "ver-prefixed"},
	{"v2.0.0x", wfYes, false, "ver-suffixed"},
	{"V2.0.0", wfUnspec, false, "ver-uppercase"},
	{"\"v2.0.0\"", wfUnspec, false, "ver-quoted"},
	{"v2.0.0;q=0.9", wfUnspec, false, "ver-param"},
	{"v2.0.0 v1.0.0", wfUnspec, false, "ver-space-separated"},
	{"v1.0.0;v2.0.0", wfUnspec, false, "ver-semicolon"},
}

var updLines = []variant{
	{"GET / HTTP/1.1", wfYes, true, ""},
	{"GET /x HTTP/1.0", wfYes, true, "u-path"},
	{"POST / HTTP/1.1", wfYes, false, "u-method-POST"},
	{"get / HTTP/1.1", wfYes, false, "u-method-lowercase"},
	{"X-SOCKETACE / HTTP/1.1", wfYes, false, "u-method-announce"},
	{"GETT / HTTP/1.1", wfYes, false, "u-method-GETT"},
	{"GET", wfNo, false, "u-line-no-space"},
	{"GET /", wfNo, false, "u-line-one-space"},
	{" GET / HTTP/1.1", wfNo, false, "u-line-leading-space"},
	{"", wfNo, false, "u-line-empty"},
	{"GET\t/\tHTTP/1.1", wfNo, false, "u-line-tabs"},
	{"GET  / HTTP/1.1", wfUnspec, true, "u-line-double-space"},
	{"GET / HTTP/1.1 ", wfUnspec, true, "u-line-trailing-space"},
}

var connVals = []variant{
	{"upgrade", wfYes, true, ""},
	{"Upgrade", wfYes, true, "conn-Upgrade"},
	{"UPGRADE", wfYes, true, "conn-UPGRADE"},
	{"uPgRaDe", wfYes, true, "conn-mixed"},
	{" upgrade ", wfYes, true, "conn-padded"},
	{"keep-alive", wfYes, false, "conn-keep-alive"},
	{"close", wfYes, false, "conn-close"},
	{"", wfYes, false, "conn-empty"},
	{"upgrade2", wfYes, false, "conn-upgrade2"},
	{"keep-alive, Upgrade", wfUnspec, false, "conn-list"},
	{"upgrade,", wfUnspec, false, "conn-trailing-comma"},
}

var tokVals = []variant{
	{"socketace/" + pv, wfYes, true, ""},
	{"socketace/" + pv + "  ", wfYes, true, "tok-padded"},
	{"socketace/v1.0.0", wfYes, false, "tok-old"},
	{"socketace/", wfYes, false, "tok-no-version"},
	{"socketace", wfYes, false, "tok-bare"},
	{"websocket", wfYes, false, "tok-websocket"},
	{pv, wfYes, false, "tok-version-only"},
	{"", wfYes, false, "tok-empty"},
	{"socketace/" + pv + "/x", wfYes, false, "tok-suffixed"},
	{"socketace/v2.0.1", wfYes, false, "tok-patch"},
	{"SocketAce/" + pv, wfUnspec, false, "tok-case"},
	{"socketace/V2.0.0", wfUnspec, false, "tok-version-case"},
	{"socketace/" + pv + ", websocket", wfUnspec, false, "tok-list"},
}

var secVals = []variant{
	{"StartTLS", wfYes, true, "sec-StartTLS"},
	{"starttls", wfYes, true, "sec-starttls"},
	{"STARTTLS", wfYes, true, "sec-STARTTLS"},
	{"", wfYes, false, "sec-empty"},
	{"none", wfUnspec, false, "sec-none"},
	{"tls", wfUnspec, false, "sec-tls"},
}

// genTrailing produces the bytes a client would send to the next layer right behind the upgrade.
func genTrailing(r *rand.Rand) ([]byte, string) {
	switch r.Intn(10) {
	case 0:
		return nil, "trail-none"
	case 1:
		return []byte("hello"), "trail-text"
	case 2:
		return []byte("GET / HTTP/1.1\r\nConnection: upgrade\r\n\r\n"), "trail-looks-like-request"
	case 3:
		return []byte("\r\n\r\nX"), "trail-crlf"
	case 4:
		b := make([]byte, []int{4095, 4096, 4097, 40000, 70000}[r.Intn(5)])
		r.Read(b)
		return b, "trail-large"
	case 5:
		return []byte{0x16, 0x03, 0x01, 0x00, 0x05, 1, 2, 3, 4, 5}, "trail-tls-like"
	default:
		b := make([]byte, 1+r.Intn(300))
		r.Read(b)
		return b, "trail-binary"
	}
}

// genServerInput builds one client->server byte string and the model's prediction for it.
func genServerInput(r *rand.Rand, c cfg) ([]byte, *expect) {
	var det []string
	// --- announce
	a := &message{}
	awf := wfYes
	methodOK, verOK := true, true
	deviate := r.Intn(100) >= 45
	al := annLines[0]
	vl := verLists[0]
	var dev []int
	if deviate {
		n := 1 + r.Intn(2)
		for i := 0; i < n; i++ {
			dev = append(dev, r.Intn(7))
		}
	}
	has := func(k int) bool {
		for _, d := range dev {
			if d == k {
				return true
			}
		}
		return false
	}
	if has(0) {
		al = pick(r, annLines)
		if r.Intn(12) == 0 {
			n := []int{4096, 65536}[r.Intn(2)]
			if r.Intn(2) == 0 {
				al = variant{strings.Repeat("A", n) + " / HTTP/1.1", wfYes, false, fmt.Sprintf("method-long-%d", n)}
			} else {
				al = variant{"X-SOCKETACE /" + strings.Repeat("a", n) + " HTTP/1.1", wfYes, true, fmt.Sprintf("url-long-%d", n)}
			}
		}
	}
	a.line = al.s
	merge(&awf, al.wf)
	methodOK = al.ok
	if al.label != "" {
		det = append(det, al.label)
	}
	if has(1) {
		vl = pick(r, verLists)
	}
	verOK = vl.ok
	verWf := vl.wf
	if vl.label != "" {
		det = append(det, vl.label)
	}
	apv := caseName(r, "Accepts-Protocol-Version")
	switch {
	case has(2):
		verOK = false
		verWf = wfYes
		det = append(det, "apv-missing")
	case has(3):
		v2 := pick(r, verLists)
		a.hdrs = append(a.hdrs, hline{apv + ": " + vl.s}, hline{caseName(r, "Accepts-Protocol-Version") + ": " + v2.s})
		if v2.wf == wfUnspec || vl.wf == wfUnspec || v2.ok != vl.ok {
			verWf = wfUnspec
		}
		det = append(det, "apv-duplicated:"+v2.label)
	default:
		sep := []string{": ", ":", ":  ", ":\t"}[r.Intn(4)]
		a.hdrs = append(a.hdrs, hline{apv + sep + vl.s})
	}
	merge(&awf, verWf)
	if r.Intn(3) > 0 {
		a.hdrs = append(a.hdrs, hline{"User-Agent: socketace/unknown"})
	}
	padHeaders(r, a, &det)
	if r.Intn(3) == 0 {
		shuffleHeaders(r, a)
	}
	if has(4) {
		insertBad(r, a, &awf, &det)
	}
	var el string
	var ewf int
	a.eol, el, ewf = pickEOL(r)
	if !has(5) && ewf != wfYes {
		a.eol = func(int) string { return "\r\n" }
		el, ewf = "", wfYes
	}
	if el != "" {
		det = append(det, el)
	}
	merge(&awf, ewf)
	if has(6) {
		a.noEnd = true
		merge(&awf, wfNo)
		det = append(det, "announce-no-blank-line")
	}
	in := a.bytes()

	exp := &expect{}
	annOK := awf == wfYes && methodOK && verOK
	// --- upgrade (always appended: a rejected announce must end the exchange whatever follows)
	u := &message{}
	uwf := wfYes
	ul, cv, tv := updLines[0], connVals[0], tokVals[0]
	var sv *variant
	var udev []int
	if r.Intn(100) >= 40 {
		n := 1 + r.Intn(2)
		for i := 0; i < n; i++ {
			udev = append(udev, r.Intn(9))
		}
	}
	uhas := func(k int) bool {
		for _, d := range udev {
			if d == k {
				return true
			}
		}
		return false
	}
	// an announce without its blank line is a truncated stream: nothing may follow it, or the
	// following bytes would complete it
	absent := a.noEnd || (uhas(8) && r.Intn(2) == 0)
	if uhas(0) {
		ul = pick(r, updLines)
	}
	u.line = ul.s
	merge(&uwf, ul.wf)
	if ul.label != "" {
		det = append(det, ul.label)
	}
	connOK, tokOK := true, true
	if uhas(1) {
		cv = pick(r, connVals)
	}
	if uhas(2) {
		tv = pick(r, tokVals)
	}
	if uhas(3) || (c.Cert && r.Intn(4) == 0) {
		s := pick(r, secVals)
		sv = &s
	}
	if uhas(4) && r.Intn(2) == 0 {
		connOK = false
		det = append(det, "conn-missing")
	} else {
		u.hdrs = append(u.hdrs, hline{caseName(r, "Connection") + ": " + cv.s})
		connOK = cv.ok
		merge(&uwf, cv.wf)
		if cv.label != "" {
			det = append(det, cv.label)
		}
	}
	if uhas(4) && !connOK && r.Intn(2) == 0 || uhas(5) {
		tokOK = false
		det = append(det, "tok-missing")
	} else {
		u.hdrs = append(u.hdrs, hline{caseName(r, "Upgrade") + ": " + tv.s})
		tokOK = tv.ok
		merge(&uwf, tv.wf)
		if tv.label != "" {
			det = append(det, tv.label)
		}
	}
	startTLS := false
	if sv != nil {
		u.hdrs = append(u.hdrs, hline{caseName(r, "Security") + ": " + sv.s})
		startTLS = sv.ok
		merge(&uwf, sv.wf)
		det = append(det, sv.label)
	}
	if r.Intn(2) == 0 {
		u.hdrs = append(u.hdrs, hline{"User-Agent: socketace/unknown"})
	}
	padHeaders(r, u, &det)
	if r.Intn(3) == 0 {
		shuffleHeaders(r, u)
	}
	if uhas(6) {
		insertBad(r, u, &uwf, &det)
	}
	u.eol, el, ewf = pickEOL(r)
	if !uhas(7) && ewf != wfYes {
		u.eol = func(int) string { return "\r\n" }
		el, ewf = "", wfYes
	}
	if el != "" {
		det = append(det, "u-"+el)
	}
	merge(&uwf, ewf)
	trail, tl := genTrailing(r)
	if uhas(8) && !absent {
		u.noEnd = true
		merge(&uwf, wfNo)
		det = append(det, "upgrade-no-blank-line")
		trail, tl = nil, "trail-none"
	}
	if absent {
		det = append(det, "upgrade-absent")
	} else {
		in = append(in, u.bytes()...)
		exp.Trail = len(in)
		in = append(in, trail...)
		det = append(det, tl)
	}
	sort.Strings(det)
	exp.Detail = strings.Join(det, ",")

	// --- the model (DESIGN.md C06 oracle 3), decided from the statement
	switch {
	case awf == wfUnspec:
		exp.Unspec, exp.Class = true, "announce:unspecified"
	case awf == wfNo:
		exp.Class, exp.Tail = "announce:malformed", "opt-error"
	case !annOK:
		exp.Tail = "one-of"
		if !methodOK {
			exp.Set = append(exp.Set, 405)
			exp.Class = "announce:wrong-method"
		}
		if !verOK {
			exp.Set = append(exp.Set, 409)
			if exp.Class == "" {
				exp.Class = "announce:no-common-version"
			} else {
				exp.Class = "announce:wrong-method+no-common-version"
			}
		}
	default:
		exp.Codes = []int{200}
		tlsOK := c.Cert && !c.Secure
		switch {
		case absent:
			exp.Class, exp.Tail = "upgrade:absent", "opt-error"
		case uwf == wfUnspec:
			exp.Unspec, exp.Class = true, "upgrade:unspecified"
		case uwf == wfNo:
			exp.Class, exp.Tail = "upgrade:malformed", "opt-error"
		case !ul.ok || !connOK || !tokOK || (startTLS && !tlsOK):
			exp.Tail = "one-of"
			var cl []string
			if !ul.ok {
				exp.Set = append(exp.Set, 405)
				cl = append(cl, "wrong-method")
			}
			if !connOK {
				exp.Set = append(exp.Set, 406)
				cl = append(cl, "not-connection-upgrade")
			}
			if !tokOK {
				exp.Set = append(exp.Set, 406)
				cl = append(cl, "wrong-token")
			}
			if startTLS && !tlsOK {
				exp.Set = append(exp.Set, 503)
				cl = append(cl, "starttls-unavailable")
			}
			exp.Class = "upgrade:" + strings.Join(cl, "+")
		case startTLS:
			// 101, then a TLS handshake which the scripted bytes cannot complete
			exp.Codes = []int{200, 101}
			exp.Class = "upgrade:starttls-without-tls-peer"
		default:
			exp.Codes = []int{200, 101}
			exp.Class = "valid"
			exp.Session = true
		}
	}
	return in, exp
}

// ---- server -> client ---------------------------------------------------------------------------

func statusLines(okCode int) []variant {
	vs := []variant{
		{fmt.Sprintf("HTTP/1.1 %d OK", okCode), wfYes, true, ""},
		{fmt.Sprintf("HTTP/1.0 %d OK", okCode), wfYes, true, "proto-1.0"},
		{fmt.Sprintf("HTTP/1.1 %d Whatever you say", okCode), wfYes, true, "reason-long"},
		{"HTTP/1.1", wfNo, false, "line-no-space"},
		{"", wfNo, false, "line-empty"},
		{" ", wfNo, false, "line-single-space"},
		{fmt.Sprintf("HTTP/1.1  %d OK", okCode), wfNo, false, "line-double-space"},
		{fmt.Sprintf(" HTTP/1.1 %d OK", okCode), wfNo, false, "line-leading-space"},
		{"HTTP/1.1 abc OK", wfNo, false, "code-alpha"},
		{"HTTP/1.1 2x0 OK", wfNo, false, "code-mixed"},
		{"HTTP/1.1 99999999999 OK", wfNo, false, "code-overflow"},
		{fmt.Sprintf("HTTP/1.1 %d OK", 4294967296+int64OK(okCode)), wfNo, false, "code-wraps-32-bits"},
		{fmt.Sprintf("HTTP/1.1 %d.0 OK", okCode), wfNo, false, "code-decimal"},
		{fmt.Sprintf("HTTP/1.1 -%d OK", okCode), wfNo, false, "code-negative"},
		{fmt.Sprintf("%d OK", okCode), wfNo, false, "line-one-space"},
		{fmt.Sprintf("HTTP/1.1\t%d\tOK", okCode), wfNo, false, "line-tabs"},
		{fmt.Sprintf("HTTP/1.1 %d", okCode), wfUnspec, true, "reason-missing"},
		{fmt.Sprintf("HTTP/1.1 %d ", okCode), wfUnspec, true, "reason-empty"},
		{fmt.Sprintf("HTTP/1.1 +%d OK", okCode), wfUnspec, true, "code-plus"},
		{fmt.Sprintf("HTTP/1.1 0%d OK", okCode), wfUnspec, true, "code-leading-zero"},
		{fmt.Sprintf("FOO %d OK", okCode), wfUnspec, true, "proto-FOO"},
	}
	for _, c := range []int{100, 101, 200, 201, 204, 301, 400, 404, 405, 406, 409, 500, 503, 999, 0} {
		if c != okCode {
			vs = append(vs, variant{fmt.Sprintf("HTTP/1.1 %d Status", c), wfYes, false, fmt.Sprintf("code-%d", c)})
		}
	}
	return vs
}

func int64OK(c int) int64 { return int64(c) }

var pvVals = []variant{
	{pv, wfYes, true, ""},
	{"v1.0.0", wfUnspec, true, "pv-unsupported"},
	{"", wfUnspec, true, "pv-empty"},
	{pv + ", v1.0.0", wfUnspec, true, "pv-list"},
}

var capVals = []variant{
	{"StartTLS", wfYes, true, "cap-StartTLS"},
	{"starttls", wfYes, true, "cap-starttls"},
	{"STARTTLS", wfYes, true, "cap-STARTTLS"},
	{"StartTLS,Foo", wfYes, true, "cap-first"},
	{"Foo , StartTLS", wfYes, true, "cap-second-spaced"},
	{"Foo", wfYes, false, "cap-other"},
	{"", wfYes, false, "cap-empty"},
	{"Start-TLS", wfYes, false, "cap-misspelt"},
	{"StartTLSx", wfYes, false, "cap-suffixed"},
}

const announceSummary = "X-SOCKETACE / HTTP/1.1|APV=" + pv + "|Upgrade=|Connection=|Security="

func upgradeSummary(ver string, startTLS bool) string {
	s := "GET / HTTP/1.1|APV=|Upgrade=socketace/" + ver + "|Connection=upgrade|Security="
	if startTLS {
		s += "StartTLS"
	}
	return s
}

// genClientInput builds one server->client byte string and the model's prediction for it.
func genClientInput(r *rand.Rand, c cfg) ([]byte, *expect) {
	var det []string
	one := func(okCode int, second bool) (m *message, wf int, ok bool, ver string, startTLS bool) {
		m = &message{}
		wf = wfYes
		lines := statusLines(okCode)
		sl := lines[0]
		var dev []int
		if r.Intn(100) >= 50 {
			n := 1 + r.Intn(2)
			for i := 0; i < n; i++ {
				dev = append(dev, r.Intn(7))
			}
		}
		has := func(k int) bool {
			for _, d := range dev {
				if d == k {
					return true
				}
			}
			return false
		}
		if has(0) {
			sl = pick(r, lines)
		}
		m.line = sl.s
		merge(&wf, sl.wf)
		ok = sl.ok
		if sl.label != "" {
			det = append(det, fmt.Sprintf("r%d-%s", okCode, sl.label))
		}
		ver = pv
		if !second {
			p := pvVals[0]
			if has(1) {
				p = pick(r, pvVals)
			}
			if has(2) {
				ver = ""
				merge(&wf, wfUnspec)
				det = append(det, "pv-missing")
			} else {
				m.hdrs = append(m.hdrs, hline{caseName(r, "Protocol-Version") + ": " + p.s})
				ver = strings.TrimSpace(p.s)
				merge(&wf, p.wf)
				if p.label != "" {
					det = append(det, p.label)
				}
			}
			if has(3) || r.Intn(5) == 0 {
				cp := pick(r, capVals)
				m.hdrs = append(m.hdrs, hline{caseName(r, "Capabilities") + ": " + cp.s})
				startTLS = cp.ok
				det = append(det, cp.label)
			}
		} else {
			m.hdrs = append(m.hdrs, hline{"Protocol-Version: " + pv}, hline{"Connection: upgrade"}, hline{"Upgrade: socketace/" + pv})
		}
		m.hdrs = append(m.hdrs, hline{"Server: socketace/unknown"})
		padHeaders(r, m, &det)
		if r.Intn(3) == 0 {
			shuffleHeaders(r, m)
		}
		if has(4) {
			insertBad(r, m, &wf, &det)
		}
		var el string
		var ewf int
		m.eol, el, ewf = pickEOL(r)
		if !has(5) && ewf != wfYes {
			m.eol = func(int) string { return "\r\n" }
			el, ewf = "", wfYes
		}
		if el != "" {
			det = append(det, fmt.Sprintf("r%d-%s", okCode, el))
		}
		merge(&wf, ewf)
		if has(6) {
			m.noEnd = true
			merge(&wf, wfNo)
			det = append(det, fmt.Sprintf("r%d-no-blank-line", okCode))
		}
		return
	}
	m1, wf1, ok1, ver, caps := one(200, false)
	in := m1.bytes()
	exp := &expect{Lines: []string{announceSummary}}
	absent := !m1.noEnd && r.Intn(25) == 0
	m2, wf2, ok2, _, _ := one(101, true)
	trail, tl := genTrailing(r)
	if m1.noEnd {
		absent = true
	}
	if absent {
		det = append(det, "second-response-absent")
	} else {
		in = append(in, m2.bytes()...)
		if m2.noEnd {
			trail, tl = nil, "trail-none"
		}
		exp.Trail = len(in)
		in = append(in, trail...)
		det = append(det, tl)
	}
	sort.Strings(det)
	exp.Detail = strings.Join(det, ",")
	startTLS := caps && !c.Secure
	switch {
	case wf1 == wfUnspec:
		exp.Unspec, exp.Class = true, "first-response:unspecified"
	case wf1 == wfNo:
		exp.Class = "first-response:malformed"
	case !ok1:
		exp.Class = "first-response:not-200"
	default:
		exp.Lines = append(exp.Lines, upgradeSummary(ver, startTLS))
		switch {
		case absent:
			exp.Class = "second-response:absent"
		case wf2 == wfUnspec:
			exp.Unspec, exp.Class = true, "second-response:unspecified"
		case wf2 == wfNo:
			exp.Class = "second-response:malformed"
		case !ok2:
			exp.Class = "second-response:not-101"
		case startTLS:
			exp.Class = "starttls-without-tls-peer"
		default:
			exp.Class = "valid"
			exp.Session = true
		}
	}
	return in, exp
}
