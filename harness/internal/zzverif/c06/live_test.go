// C06 harness, part 3: cases that need a live peer -- a real TLS endpoint behind the StartTLS
// upgrade, and the real streams.WebsocketTunnelConnection (gorilla client + server on loopback).
package c06

import (
	"bytes"
	"crypto/sha1"
	"crypto/tls"
	"encoding/hex"
	"fmt"
	"math/rand"
	"net"
	"net/http"
	"net/http/httptest"
	"strings"
	"sync"
	"time"

	"github.com/bokysan/socketace/v2/internal/streams"
	"github.com/bokysan/socketace/v2/internal/zzverif/vcommon"
	"github.com/gorilla/websocket"
)

// ---- StartTLS with a real TLS peer -----------------------------------------------------------------

func limiter(kind string, r *rand.Rand) func() int {
	var mu sync.Mutex
	switch kind {
	case "dribble":
		return func() int { return 1 }
	case "chunk5":
		return func() int { return 5 }
	case "random":
		return func() int { mu.Lock(); defer mu.Unlock(); return 1 + r.Intn(200) }
	}
	return nil // whole: whatever is there
}

func (h *harness) liveTLSItem(d caseDesc, r *rand.Rand) {
	kinds := []string{"whole", "dribble", "random", "chunk5"}
	d.Split = kinds[d.Item%4]
	d.Pipelined = (d.Item/4)%2 == 0
	app := make([]byte, []int{0, 1, 100, 5000, 40000}[(d.Item/8)%5])
	r.Read(app)
	eol := "\r\n"
	if d.Item%3 == 1 {
		eol = "\n"
	}
	var text string
	if d.Role == "server" {
		d.Cfg = cfg{Manager: true, Cert: true, Trace: d.Item%7 == 3}
		sec := []string{"StartTLS", "starttls", "STARTTLS"}[d.Item%3]
		text = strings.Join([]string{"X-SOCKETACE / HTTP/1.1", "Accepts-Protocol-Version: v1.0.0, " + pv, "", "GET / HTTP/1.1",
			"Upgrade: socketace/" + pv, "Connection: Upgrade", "Security: " + sec, "", ""}, eol)
	} else {
		d.Cfg = cfg{ClientMgr: []string{"insecure", "ca"}[d.Item%2], Host: "localhost", Trace: d.Item%7 == 3}
		caps := []string{"StartTLS", "starttls", "Foo, STARTTLS"}[d.Item%3]
		text = strings.Join([]string{"HTTP/1.1 200 OK", "Protocol-Version: " + pv, "Capabilities: " + caps, "", "HTTP/1.1 101 Switching Protocols",
			"Upgrade: socketace/" + pv, "Connection: upgrade", "", ""}, eol)
	}
	d.App = hex.EncodeToString(app)
	h.liveTLSCase(d, []byte(text), app)
}

// liveTLSCase: the peer sends the (valid) text of the handshake, then completes a real TLS handshake
// and sends app through it. Expected by the statement: a session, whose next layer reads exactly app.
func (h *harness) liveTLSCase(d caseDesc, text, app []byte) {
	rec := h.rec
	d.Transport = "live-tls"
	d.Input = hex.EncodeToString(text)
	d.InputText = quoteHead(text)
	h.setTrace(d.Cfg.Trace)
	r := vcommon.NewRand(rec.Seed(), fmt.Sprintf("c06/live/%s/%d", d.Role, d.Item))
	sut, peer := livePair(limiter(d.Split, r))
	peerErr := make(chan error, 1)
	go func() {
		var err error
		defer func() { peer.Close(); peerErr <- err }()
		var tc *tls.Conn
		if d.Role == "server" {
			peer.Write(text)
			under := &skipTextConn{Conn: peer, blocks: 2} // the two responses of the server come first
			if !d.Pipelined {
				under.Read(nil) // sequential: the ClientHello is sent only after the 101 has arrived
			}
			tc = tls.Client(under, &tls.Config{InsecureSkipVerify: true})
		} else {
			if d.Pipelined {
				peer.Write(text)
			} else {
				// answer each request only after it has arrived
				i := bytes.Index(text, []byte("\n\r\n"))
				cut := i + 3
				if i < 0 {
					cut = bytes.Index(text, []byte("\n\n")) + 2
				}
				w := &skipTextConn{Conn: peer, blocks: 1}
				w.Read(nil)
				peer.Write(text[:cut])
				w.blocks = 1
				w.Read(nil)
				peer.Write(text[cut:])
			}
			blocks := 0
			if d.Pipelined {
				blocks = 2 // the two requests of the client come first
			}
			tc = tls.Server(&skipTextConn{Conn: peer, blocks: blocks}, &tls.Config{Certificates: []tls.Certificate{h.tlsCert}})
		}
		if err = tc.Handshake(); err != nil {
			return
		}
		if _, err = tc.Write(app); err != nil {
			return
		}
		err = tc.Close()
	}()
	if d.Role == "server" && d.Pipelined {
		// coalesced: the ClientHello is already queued behind the upgrade request when the server starts
		sut.in.waitTotal(len(text) + 1)
	}
	if d.Role == "server" && !d.Pipelined {
		sut.in.waitTotal(len(text))
	}
	var o *obs
	if !watchdog(60*time.Second, func() { o = h.runRole(d.Role, sut, sut, d.Cfg, d.Item) }) {
		rec.Inconclusive("watchdog: live TLS case still running after 60 s", d)
		sut.Close()
		peer.Close()
		return
	}
	sut.Close()
	var perr error
	select {
	case perr = <-peerErr:
	case <-time.After(30 * time.Second):
		rec.Inconclusive("watchdog: scripted TLS peer still running after 30 s", d)
		return
	}
	key := fmt.Sprintf("live-tls/%s/%s/%v/%d/%x", d.Role, d.Split, d.Pipelined, len(app), sha1.Sum(text))
	rec.Case(key, o.Session || len(o.Lines) > 0)
	obsd := describeObs(o)
	if perr != nil {
		obsd["peer_error"] = perr.Error()
	}
	switch {
	case o.Panicked:
		rec.Violation(fmt.Sprintf("%s:panic@%s", d.Role, o.Site), d, obsd)
	case !o.Session:
		rec.Violation(fmt.Sprintf("%s:model:valid-starttls:no-session:%s", d.Role, pipelineName(d.Pipelined)), d, obsd)
	case o.Tech != "tls" || !o.Secure:
		rec.Violation(fmt.Sprintf("%s:model:valid-starttls:session-not-tls", d.Role), d, obsd)
	case !bytes.Equal(o.Handed, app):
		rec.Violation(fmt.Sprintf("%s:read-ahead:%s:live-tls", d.Role, readAheadKind(o.Handed, app)), d, obsd)
	default:
		want := []string{announceSummary, upgradeSummary(pv, true)}
		if d.Role == "server" {
			want = []string{"HTTP/1.1 200 OK", "HTTP/1.1 101 Switching Protocols"}
		}
		if !sameLines(o.Lines, want) {
			rec.Violation(fmt.Sprintf("%s:model:valid-starttls:lines-written", d.Role), d, obsd)
		}
		rec.Stat("tls_sessions_established", 1)
		rec.Stat("next_layer_bytes_compared", int64(len(app)))
	}
	rec.Seen("live_tls_variant", fmt.Sprintf("%s/%s/%s", d.Role, d.Split, pipelineName(d.Pipelined)))
}

func pipelineName(p bool) string {
	if p {
		return "pipelined"
	}
	return "sequential"
}

// ---- websocket --------------------------------------------------------------------------------------

type wsJob struct {
	role     string
	cfg      cfg
	segs     [][]byte
	readMode int
	res      chan *obs
}

type wsRig struct {
	srv *httptest.Server
	mu  sync.Mutex
	job *wsJob
	h   *harness
}

func (h *harness) rig() *wsRig {
	if h.ws != nil {
		return h.ws
	}
	w := &wsRig{h: h}
	up := websocket.Upgrader{}
	w.srv = httptest.NewServer(http.HandlerFunc(func(rw http.ResponseWriter, rq *http.Request) {
		w.mu.Lock()
		job := w.job
		w.mu.Unlock()
		c, err := up.Upgrade(rw, rq, nil)
		if err != nil || job == nil {
			if job != nil {
				job.res <- &obs{Err: "harness: websocket upgrade failed"}
			}
			return
		}
		defer c.Close()
		if job.role == "server" {
			// exactly what server.HttpServer.EndpointHandler builds
			var conn streams.Connection = streams.NewWebsocketTunnelConnection(c)
			conn = streams.NewNamedConnection(conn, "websocket")
			rc := &recConn{Conn: conn}
			o := h.runRole("server", rc, rc, job.cfg, job.readMode)
			// tell the peer we are done and wait for its close before the TCP connection goes away
			c.WriteControl(websocket.CloseMessage, websocket.FormatCloseMessage(websocket.CloseNormalClosure, ""), time.Now().Add(10*time.Second))
			c.SetReadDeadline(time.Now().Add(30 * time.Second))
			for i := 0; i < 100; i++ {
				if _, _, err := c.ReadMessage(); err != nil {
					break
				}
			}
			job.res <- o
			return
		}
		// client role: this side is the scripted server
		for _, s := range job.segs {
			c.WriteMessage(websocket.BinaryMessage, s)
		}
		c.WriteControl(websocket.CloseMessage, websocket.FormatCloseMessage(websocket.CloseNormalClosure, ""), time.Now().Add(10*time.Second))
		c.SetReadDeadline(time.Now().Add(60 * time.Second))
		for i := 0; i < 100; i++ {
			if _, _, err := c.ReadMessage(); err != nil {
				break
			}
		}
		job.res <- nil
	}))
	h.ws = w
	return w
}

func (h *harness) closeWS() {
	if h.ws != nil {
		h.ws.srv.CloseClientConnections()
		h.ws.srv.Close()
	}
}

func segments(in []byte, cuts []int) [][]byte { return newSegConn(in, cuts).segs }

func (h *harness) websocketItem(d caseDesc, r *rand.Rand) {
	var in []byte
	d.Cfg = randCfg(r, d.Role)
	d.Cfg.Trace = false
	switch d.Item % 5 {
	case 0, 1, 2:
		if d.Role == "server" {
			in, d.Expect = genServerInput(r, d.Cfg)
		} else {
			in, d.Expect = genClientInput(r, d.Cfg)
		}
	case 3:
		in, d.Expect = sizeInput(d.Role, r.Intn(64), r)
		d.Cfg = cfg{Host: "localhost"}
	default:
		in = garbage(r, r.Intn(16))
	}
	sp := h.splits(in, r)
	s := sp[[]int{0, 3, 2}[(d.Item/5)%3]]
	if len(s.Cuts) > 300 {
		s.Cuts = s.Cuts[:300]
	}
	if d.Item%11 == 0 && len(in) > 2 {
		// an empty binary message in the middle of the stream: a segment of zero bytes
		s.Name += "+empty-message"
	}
	h.websocketCase(d, in, s)
}

// websocketCase sends the byte string as binary websocket messages (one per segment) through the
// real tunnel connection and compares with the scripted run of the same bytes.
func (h *harness) websocketCase(d caseDesc, in []byte, s split) {
	rec := h.rec
	d.Transport = "websocket"
	d.Input = hex.EncodeToString(in)
	d.InputText = quoteHead(in)
	d.Split, d.Cuts = s.Name, s.Cuts
	h.setTrace(false)
	base := h.runScripted(d.Role, d.Cfg, in, nil, d.Item)
	segs := segments(in, s.Cuts)
	if strings.HasSuffix(s.Name, "+empty-message") && len(segs) > 0 {
		segs = append(segs[:1], append([][]byte{{}}, segs[1:]...)...)
	}
	w := h.rig()
	job := &wsJob{role: d.Role, cfg: d.Cfg, segs: segs, readMode: d.Item, res: make(chan *obs, 1)}
	w.mu.Lock()
	w.job = job
	w.mu.Unlock()
	url := "ws" + strings.TrimPrefix(w.srv.URL, "http")
	dialer := &websocket.Dialer{HandshakeTimeout: 45 * time.Second}
	c, _, err := dialer.Dial(url, nil)
	if err != nil {
		rec.Inconclusive("websocket dial failed: "+err.Error(), d)
		return
	}
	defer c.Close()
	var o *obs
	okRun := true
	if d.Role == "server" {
		done := make(chan struct{})
		go func() { // the peer has to keep reading (control frames, the server's answers)
			defer close(done)
			c.SetReadDeadline(time.Now().Add(90 * time.Second))
			for i := 0; i < 100000; i++ {
				if _, _, err := c.ReadMessage(); err != nil {
					return
				}
			}
		}()
		for _, sg := range segs {
			if c.WriteMessage(websocket.BinaryMessage, sg) != nil {
				break
			}
		}
		c.WriteControl(websocket.CloseMessage, websocket.FormatCloseMessage(websocket.CloseNormalClosure, ""), time.Now().Add(10*time.Second))
		select {
		case o = <-job.res:
		case <-time.After(90 * time.Second):
			okRun = false
		}
		if okRun {
			select {
			case <-done:
			case <-time.After(30 * time.Second):
			}
		}
	} else {
		conn := &recConn{Conn: streams.NewWebsocketTunnelConnection(c)}
		okRun = watchdog(90*time.Second, func() { o = h.runRole("client", conn, conn, d.Cfg, d.Item) })
		c.Close()
		if okRun {
			select {
			case <-job.res:
			case <-time.After(90 * time.Second):
				okRun = false
			}
		}
	}
	if !okRun || o == nil {
		rec.Inconclusive("watchdog: websocket case did not finish", d)
		return
	}
	if strings.HasPrefix(o.Err, "harness:") {
		rec.Inconclusive(o.Err, d)
		return
	}
	rec.Case(fmt.Sprintf("ws/%s/%+v/%s/%x", d.Role, d.Cfg, s.Name, sha1.Sum(in)), o.Session || len(o.Lines) > 0)
	rec.Stat("websocket_cases", 1)
	rec.Stat("websocket_messages_sent", int64(len(segs)))
	switch {
	case o.Panicked:
		rec.Violation(fmt.Sprintf("%s:panic@%s", d.Role, o.Site), d, describeObs(o))
	case base.Panicked:
		// reported by the scripted families
	default:
		if what := diffObs(base, o); what != "" {
			rec.Violation(fmt.Sprintf("%s:segmentation:%s:websocket-messages", d.Role, what), d,
				map[string]interface{}{"scripted": describeObs(base), "websocket": describeObs(o)})
		} else if o.Session {
			rec.Stat("websocket_sessions", 1)
		}
		if d.Expect != nil && !d.Expect.Unspec {
			if bad := modelCheck(d.Role, d.Expect, in, o); bad != "" {
				rec.Violation(fmt.Sprintf("%s:model:%s:%s", d.Role, d.Expect.Class, bad), d, describeObs(o))
			}
		}
	}
}

var _ net.Conn = (*recConn)(nil)
