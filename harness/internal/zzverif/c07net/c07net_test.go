// C07, real-network variant: the real DNS upstream and the real DnsServer over loopback UDP through a
// relay that drops isolated datagrams; real timeouts, the client's own poll goroutine, smux on top.
package c07net

import (
	"fmt"
	"sync/atomic"
	"testing"

	"github.com/bokysan/socketace/v2/internal/zzverif/e2e"
	"github.com/bokysan/socketace/v2/internal/zzverif/vcommon"
)

type netCase struct {
	Name   string `json:"name"`
	EveryK int64  `json:"drop_every_kth_datagram"`
	Dir    string `json:"direction"` // c2s | s2c | both
	Bytes  int64  `json:"bytes_each_way"`
	AfterN int64  `json:"first_datagram_that_may_be_dropped"`
	Seed   int64  `json:"seed"`
}

func TestVerifC07Net(t *testing.T) {
	e2e.Quiet()
	rec := vcommon.Open()
	defer rec.Close()
	cases := []*netCase{
		{Name: "no-loss", EveryK: 0, Dir: "both", Bytes: 60000},
		{Name: "queries-every-29th", EveryK: 29, Dir: "c2s", Bytes: 60000, AfterN: 70},
		{Name: "answers-every-31st", EveryK: 31, Dir: "s2c", Bytes: 60000, AfterN: 70},
		{Name: "both-every-37th", EveryK: 37, Dir: "both", Bytes: 60000, AfterN: 70},
	}
	for i, c := range cases {
		if !rec.Mine(i) {
			continue
		}
		c.Seed = rec.Seed()*100 + int64(i)
		rec.Mark(c)
		p, err := e2e.Start(e2e.Options{Carrier: "dns", WithRelay: true, Tag: "n"})
		if err != nil {
			rec.Inconclusive("setup: "+err.Error(), c)
			continue
		}
		var last int64 = -10
		p.UDPRelay.Drop = func(c2s bool, n int64) bool {
			if c.EveryK == 0 || n < c.AfterN { // the handshake's probes are C11's subject: losses start after it
				return false
			}
			if (c.Dir == "c2s" && !c2s) || (c.Dir == "s2c" && c2s) {
				return false
			}
			if n%c.EveryK == 0 && n-atomic.LoadInt64(&last) > 3 { // isolated: never two within 3 datagrams
				atomic.StoreInt64(&last, n)
				return true
			}
			return false
		}
		app, tgt, o, err := p.Open("echo")
		if err != nil || o != e2e.Done {
			if o == e2e.Inconclusive {
				rec.Inconclusive("busy at open", c)
			} else {
				rec.Case(c.Name, true)
				rec.Violation("net:open-failed:"+c.Dir, c, fmt.Sprint(err, " ", o))
			}
			p.Close()
			continue
		}
		ab := &e2e.Stream{Key: uint64(c.Seed)*2 + 1, Len: c.Bytes, Seg: func() int { return 1500 }}
		ba := &e2e.Stream{Key: uint64(c.Seed)*2 + 2, Len: c.Bytes, Seg: func() int { return 1500 }}
		f := e2e.Duplex(app, tgt, ab, ba, "c2s", "s2c", nil)
		dropped := atomic.LoadInt64(&p.UDPRelay.Dropped)
		rec.Case(c.Name, f == nil || !f.Inconclusive)
		rec.Stat("net_datagrams_dropped", dropped)
		rec.Stat("net_datagrams_relayed", atomic.LoadInt64(&p.UDPRelay.Packets))
		rec.Seen("net_case", c.Name)
		rec.Sample(map[string]interface{}{"case": c, "dropped": dropped, "ok": f == nil})
		if f != nil {
			if f.Inconclusive {
				rec.Inconclusive(f.Kind, c)
			} else {
				rec.Violation("net:"+c.Dir+":"+f.Kind, c, f.Info)
			}
		} else {
			rec.Stat("net_bytes_verified", 2*c.Bytes)
		}
		app.Close()
		tgt.Close()
		p.Close()
	}
}
