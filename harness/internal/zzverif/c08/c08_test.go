// C08: DNS codecs are lossless, alphabet-confined and bounded (DESIGN.md §4 C08).
package c08

import (
	"bytes"
	"encoding/hex"
	"encoding/json"
	"fmt"
	"math"
	"os"
	"sync"
	"sync/atomic"
	"testing"

	"github.com/bokysan/socketace/v2/internal/util/enc"
	"github.com/bokysan/socketace/v2/internal/zzverif/vcommon"
)

type codecInfo struct {
	code  byte
	group int // input group size of the codec: failures are signed by len % group
	raw   bool
}

// every codec reachable through enc.FromCode
var codecs = []codecInfo{
	{'T', 5, false}, {'S', 3, false}, {'U', 3, false}, {'W', 4, false},
	{'X', 13, false}, {'V', 7, false}, {'Y', 15, false}, {'R', 1, true},
}

type caseDesc struct {
	Codec string `json:"codec"`
	Gen   string `json:"gen"`
	Hex   string `json:"input_hex"`
}

func forbidden(b byte) bool {
	return b == '.' || b == '\\' || b == ' ' || b <= 0x1f || b == 0x7f
}

type checker struct {
	rec  *vcommon.Rec
	e    enc.Encoder
	ci   codecInfo
	name string
}

func (c *checker) check(gen string, in []byte) {
	key := c.name + "/" + string(in)
	var out, back []byte
	var derr error
	panicked, site, val := vcommon.Guard(func() {
		out = c.e.Encode(in)
		back, derr = c.e.Decode(out)
	})
	c.rec.Case(key, true)
	desc := func() caseDesc {
		h := in
		if len(h) > 96 {
			h = h[:96]
		}
		return caseDesc{Codec: c.name, Gen: fmt.Sprintf("%s len=%d", gen, len(in)), Hex: hex.EncodeToString(in)}
	}
	cls := fmt.Sprintf("len%%%d=%d", c.ci.group, len(in)%c.ci.group)
	if len(in) == 0 {
		cls = "empty"
	}
	if panicked {
		c.rec.Violation(fmt.Sprintf("%s:panic@%s", c.name, site), desc(), val)
		return
	}
	if derr != nil {
		c.rec.Violation(fmt.Sprintf("%s:roundtrip-error:%s", c.name, cls), desc(), map[string]string{"encoded_hex": hex.EncodeToString(clip(out)), "err": derr.Error()})
	} else if !bytes.Equal(back, in) {
		c.rec.Violation(fmt.Sprintf("%s:roundtrip-diff:%s", c.name, cls), desc(), map[string]string{"encoded_hex": hex.EncodeToString(clip(out)), "decoded_hex": hex.EncodeToString(clip(back))})
	}
	if c.ci.raw {
		return // Raw: lossless only
	}
	for _, b := range out {
		if forbidden(b) {
			c.rec.Violation(fmt.Sprintf("%s:alphabet", c.name), desc(), map[string]interface{}{"byte": b, "encoded_hex": hex.EncodeToString(clip(out))})
			break
		}
	}
	bound := int(math.Ceil(float64(len(in))*c.e.Ratio())) + 8
	if len(out) > bound {
		c.rec.Violation(fmt.Sprintf("%s:ratio", c.name), desc(), map[string]int{"len_in": len(in), "len_out": len(out), "bound": bound})
	}
	c.rec.StatMax("slack_over_ratio:"+c.name, int64(len(out)-int(math.Ceil(float64(len(in))*c.e.Ratio()))))
	c.rec.Stat("bytes_roundtripped", int64(len(in)))
}

// firstUse: a fresh process whose very first uses of one codec happen on 16 goroutines at the same time (a server that
// has just started and gets the first queries of several clients at once). Whatever a codec sets up lazily must be safe
// for that. Each goroutine round-trips its own payload; the same payloads are round-tripped once more afterwards, one at a
// time, and only what works alone is judged. A crash of the process (the runtime's "concurrent map writes") is reported
// by the driver.
func firstUse(rec *vcommon.Rec) {
	ci := codecs[rec.Shard()%len(codecs)]
	e, err := enc.FromCode(ci.code)
	if err != nil {
		rec.Inconclusive("first-use: FromCode failed", string(ci.code))
		return
	}
	desc := map[string]interface{}{"family": "first-use-in-a-fresh-process", "codec": e.Name(), "goroutines": 16}
	rec.Mark(desc)
	const k = 16
	payloads := make([][]byte, k)
	for g := range payloads {
		payloads[g] = make([]byte, 140)
		vcommon.FillKeyed(uint64(rec.Seed())*977+uint64(g), int64(rec.Shard())*256, payloads[g])
	}
	// two kinds of process: the first ENCODES happen at once (and the decodes follow), or everything is encoded by one
	// goroutine first and the first DECODES happen at once
	decodeFirst := (rec.Shard()/len(codecs))%2 == 1
	desc["first_concurrent_operation"] = map[bool]string{false: "encode", true: "decode"}[decodeFirst]
	encoded := make([][]byte, k)
	if decodeFirst {
		for g := range encoded {
			encoded[g] = e.Encode(payloads[g])
		}
	}
	var arrived int32
	var wg sync.WaitGroup
	got := make([][]byte, k)
	errs := make([]error, k)
	for g := 0; g < k; g++ {
		wg.Add(1)
		go func(g int) {
			defer wg.Done()
			atomic.AddInt32(&arrived, 1)
			for atomic.LoadInt32(&arrived) < k { // spin: all of them start within the same microsecond
			}
			if decodeFirst {
				got[g], errs[g] = e.Decode(encoded[g])
			} else {
				got[g], errs[g] = e.Decode(e.Encode(payloads[g]))
			}
		}(g)
	}
	wg.Wait()
	bad := 0
	first := ""
	for g := 0; g < k; g++ {
		alone, aerr := e.Decode(e.Encode(payloads[g]))
		if aerr != nil || !bytes.Equal(alone, payloads[g]) {
			continue // does not round-trip alone: the sequential families' business
		}
		if errs[g] != nil || !bytes.Equal(got[g], payloads[g]) {
			bad++
			if first == "" {
				first = fmt.Sprintf("goroutine %d: err=%v, decoded %d bytes", g, errs[g], len(got[g]))
			}
		}
	}
	rec.Case(fmt.Sprintf("first-use/%s/%d", e.Name(), rec.Shard()), true)
	rec.Stat("first_use_processes:"+e.Name(), 1)
	rec.Stat("bytes_roundtripped", int64(k*140))
	if bad > 0 {
		rec.Violation(e.Name()+":first-concurrent-use-differs-from-use-alone", desc, map[string]interface{}{"goroutines_with_a_wrong_result": bad, "first": first})
	}
}

func clip(b []byte) []byte {
	if len(b) > 128 {
		return b[:128]
	}
	return b
}

func TestVerifC08(t *testing.T) {
	rec := vcommon.Open()
	defer rec.Close()

	if os.Getenv("VERIF_C08_MODE") == "first-use" {
		firstUse(rec)
		return
	}
	if rec.Replay != nil {
		var d caseDesc
		if err := json.Unmarshal(rec.Replay, &d); err != nil {
			t.Fatal(err)
		}
		in, _ := hex.DecodeString(d.Hex)
		for _, ci := range codecs {
			e, _ := enc.FromCode(ci.code)
			if e.Name() == d.Codec {
				(&checker{rec, e, ci, e.Name()}).check("replay", in)
			}
		}
		return
	}

	// work items: (codec, family); sharded by item index
	type item struct {
		ci  codecInfo
		fam string
	}
	var items []item
	fams := []string{"exh0-2a", "exh0-2b", "exh0-2c", "exh0-2d", "structured", "random", "bits", "concurrent"}
	for _, ci := range codecs {
		for _, f := range fams {
			items = append(items, item{ci, f})
		}
	}
	maxLen := rec.Pick(2600, 8192)
	for idx, it := range items {
		if !rec.Mine(idx) {
			continue
		}
		e, err := enc.FromCode(it.ci.code)
		if err != nil {
			t.Fatalf("FromCode(%c): %v", it.ci.code, err)
		}
		c := &checker{rec, e, it.ci, e.Name()}
		rec.Mark(map[string]string{"codec": c.name, "family": it.fam})
		switch it.fam {
		case "exh0-2a", "exh0-2b", "exh0-2c", "exh0-2d":
			q := int(it.fam[len(it.fam)-1] - 'a')
			if q == 0 {
				c.check("exhaustive", []byte{})
				for a := 0; a < 256; a++ {
					c.check("exhaustive", []byte{byte(a)})
				}
			}
			for a := q * 64; a < (q+1)*64; a++ {
				for b := 0; b < 256; b++ {
					c.check("exhaustive", []byte{byte(a), byte(b)})
				}
			}
			rec.Stat("exhaustive_len0to2_strings", int64(64*256))
			if q == 0 {
				rec.Stat("exhaustive_len0to2_strings", 257)
				rec.Sample(caseDesc{Codec: c.name, Gen: "exhaustive len=2", Hex: "00ff"})
			}
		case "structured":
			vals := []byte{0x00, 0xff, 0x55, 0xaa, 0x2e, 0x5c, 0x20, 0x7f, 0x80, 0x01}
			if rec.Thorough() {
				vals = vals[:0]
				for v := 0; v < 256; v++ {
					vals = append(vals, byte(v))
				}
			}
			for l := 0; l <= maxLen; l++ {
				for vi, v := range vals {
					if vi >= 2 && l > 320 && !(rec.Thorough() && l%97 == 0) {
						break
					}
					c.check(fmt.Sprintf("repeat-0x%02x", v), bytes.Repeat([]byte{v}, l))
				}
				cnt := make([]byte, l)
				for i := range cnt {
					cnt[i] = byte(i)
				}
				c.check("counter", cnt)
			}
			rec.Sample(caseDesc{Codec: c.name, Gen: "repeat-0xff len=7", Hex: "ffffffffffffff"})
		case "bits":
			for l := 1; l <= rec.Pick(40, 130); l++ {
				for bit := 0; bit < l*8; bit++ {
					b := make([]byte, l)
					b[bit/8] = 1 << uint(bit%8)
					c.check("single-bit", b)
					for i := range b {
						b[i] = ^b[i]
					}
					c.check("single-zero-bit", b)
				}
			}
		case "concurrent":
			// the codec objects are process-wide singletons used by every session's goroutines at once:
			// the same oracle with 8 goroutines going through the shared object simultaneously
			if c.ci.raw {
				break
			}
			// inputs are generated and round-tripped sequentially first: only inputs that round-trip when the
			// codec is used by one goroutine are judged in the concurrent phase (what fails sequentially is
			// reported by the other families under its own signature)
			rounds := rec.Pick(3000, 12000)
			inputs := make([][][]byte, 8)
			for g := range inputs {
				rng := vcommon.NewRand(rec.Seed(), fmt.Sprintf("c08conc/%s/%d", c.name, g))
				for k := 0; k < rounds; k++ {
					in := make([]byte, rng.Intn(300))
					rng.Read(in)
					var back []byte
					var derr error
					if p, _, _ := vcommon.Guard(func() { back, derr = c.e.Decode(c.e.Encode(in)) }); p || derr != nil || !bytes.Equal(back, in) {
						continue
					}
					inputs[g] = append(inputs[g], in)
				}
			}
			var wg sync.WaitGroup
			for g := 0; g < 8; g++ {
				wg.Add(1)
				go func(g int) {
					defer wg.Done()
					for k, in := range inputs[g] {
						var back []byte
						var derr error
						panicked, site, val := vcommon.Guard(func() { back, derr = c.e.Decode(c.e.Encode(in)) })
						rec.Case(fmt.Sprintf("conc/%s/%d/%d", c.name, g, k), true)
						d := caseDesc{Codec: c.name, Gen: fmt.Sprintf("concurrent(8 goroutines) len=%d", len(in)), Hex: hex.EncodeToString(in)}
						switch {
						case panicked:
							rec.Violation(fmt.Sprintf("%s:concurrent-use:panic@%s", c.name, site), d, val)
						case derr != nil:
							rec.Violation(c.name+":concurrent-use:roundtrip-error", d, derr.Error())
						case !bytes.Equal(back, in):
							rec.Violation(c.name+":concurrent-use:roundtrip-diff", d, map[string]string{"decoded_hex": hex.EncodeToString(clip(back))})
						}
					}
				}(g)
			}
			wg.Wait()
			for g := range inputs {
				rec.Stat("concurrent_roundtrips", int64(len(inputs[g])))
			}
		case "random":
			rng := vcommon.NewRand(rec.Seed(), "c08/"+c.name)
			for l := 0; l <= maxLen; l++ {
				reps := 2
				if l <= 64 {
					reps = rec.Pick(40, 400)
				}
				for k := 0; k < reps; k++ {
					b := make([]byte, l)
					rng.Read(b)
					c.check("random", b)
					if k == 0 && l == 33 {
						rec.Sample(caseDesc{Codec: c.name, Gen: "random len=33", Hex: hex.EncodeToString(b)})
					}
				}
			}
			if rec.Thorough() {
				for k := 0; k < 300; k++ {
					b := make([]byte, 4097+rng.Intn(12288))
					rng.Read(b)
					c.check("random-long", b)
				}
			}
		}
		rec.Seen("codec_family", c.name+"/"+it.fam)
	}
}
